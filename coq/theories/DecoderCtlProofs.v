(* DecoderCtlProofs.v — lemmas for C10, C11, C16 about the model DecoderCtl.v. *)
From NV Require Import Base DecoderCtl.

(* ------------------------------------------------------------------ basic facts *)
Lemma str_eqb_eq a b : str_eqb a b = true <-> a = b.
Proof. unfold str_eqb. apply list_eqb_eq. intros x y. apply Z.eqb_eq. Qed.
Lemma str_eqb_refl a : str_eqb a a = true.
Proof. apply str_eqb_eq. reflexivity. Qed.
Lemma str_eqb_sym a b : str_eqb a b = str_eqb b a.
Proof.
  destruct (str_eqb a b) eqn:E, (str_eqb b a) eqn:F; try reflexivity.
  - apply str_eqb_eq in E. subst. rewrite str_eqb_refl in F. discriminate.
  - apply str_eqb_eq in F. subst. rewrite str_eqb_refl in E. discriminate.
Qed.
Lemma str_eqb_neq a b : str_eqb a b = false <-> a <> b.
Proof.
  split.
  - intros E H. subst. rewrite str_eqb_refl in E. discriminate.
  - intros H. destruct (str_eqb a b) eqn:E; [apply str_eqb_eq in E; contradiction | reflexivity].
Qed.

Lemma mem_z_In x l : mem_z x l = true <-> In x l.
Proof.
  unfold mem_z. rewrite existsb_exists. split.
  - intros [y [H E]]. apply Z.eqb_eq in E. subst. exact H.
  - intros H. exists x. split; [exact H | apply Z.eqb_refl].
Qed.
Lemma mem_s_In x l : mem_s x l = true <-> In x l.
Proof.
  unfold mem_s. rewrite existsb_exists. split.
  - intros [y [H E]]. apply str_eqb_eq in E. subst. exact H.
  - intros H. exists x. split; [exact H | apply str_eqb_refl].
Qed.

Lemma mem_z_remove x y l : x <> y -> mem_z x (remove_z y l) = mem_z x l.
Proof.
  intros N. induction l as [|a l IH]; simpl; [reflexivity|].
  destruct (Z.eqb_spec y a) as [->|Na]; simpl.
  - destruct (Z.eqb_spec x a); [contradiction|]. simpl. exact IH.
  - rewrite IH. reflexivity.
Qed.
Lemma mem_z_remove_sub x y l : mem_z x (remove_z y l) = true -> mem_z x l = true.
Proof.
  induction l as [|a l IH]; simpl; [auto|].
  destruct (Z.eqb_spec y a) as [->|Na]; simpl.
  - intros H. rewrite (IH H). apply orb_true_r.
  - destruct (x =? a); simpl; auto.
Qed.
Lemma mem_s_remove x y l : x <> y -> mem_s x (remove_s y l) = mem_s x l.
Proof.
  intros N. induction l as [|a l IH]; simpl; [reflexivity|].
  destruct (str_eqb y a) eqn:E; simpl.
  - apply str_eqb_eq in E. subst a.
    assert (F : str_eqb x y = false) by (apply str_eqb_neq; exact N). rewrite F. simpl. exact IH.
  - rewrite IH. reflexivity.
Qed.

Lemma is_nil_spec {A} (l : list A) : is_nil l = true <-> l = [].
Proof. destruct l; simpl; split; intros; congruence. Qed.

(* ------------------------------------------------------------------ association lists *)
Lemma key_eqb_eq a b : key_eqb a b = true <-> a = b.
Proof.
  destruct a as [[p s] d], b as [[p' s'] d']. simpl.
  rewrite !andb_true_iff, !Z.eqb_eq. split.
  - intros [[-> ->] ->]. reflexivity.
  - intros E. inversion E. auto.
Qed.
Lemma key_eqb_refl a : key_eqb a a = true.
Proof. apply key_eqb_eq. reflexivity. Qed.
Lemma key_eqb_sym a b : key_eqb a b = key_eqb b a.
Proof.
  destruct (key_eqb a b) eqn:E, (key_eqb b a) eqn:F; try reflexivity.
  - apply key_eqb_eq in E. subst. rewrite key_eqb_refl in F. discriminate.
  - apply key_eqb_eq in F. subst. rewrite key_eqb_refl in E. discriminate.
Qed.
Lemma key_eqb_neq a b : key_eqb a b = false <-> a <> b.
Proof.
  split.
  - intros E H. subst. rewrite key_eqb_refl in E. discriminate.
  - intros H. destruct (key_eqb a b) eqn:E; [apply key_eqb_eq in E; contradiction | reflexivity].
Qed.

Lemma klookup_kremove {V} (k k' : key) (l : list (key * V)) :
  klookup k' (kremove k l) = if key_eqb k' k then None else klookup k' l.
Proof.
  induction l as [|[k0 v] l IH]; simpl.
  - destruct (key_eqb k' k); reflexivity.
  - destruct (key_eqb k k0) eqn:E; simpl.
    + apply key_eqb_eq in E. subst k0. rewrite IH. destruct (key_eqb k' k); reflexivity.
    + rewrite IH. destruct (key_eqb k' k0) eqn:F; [|reflexivity].
      apply key_eqb_eq in F. subst k0. rewrite key_eqb_sym, E. reflexivity.
Qed.
Lemma klookup_kset {V} (k k' : key) (v : V) (l : list (key * V)) :
  klookup k' (kset k v l) = if key_eqb k' k then Some v else klookup k' l.
Proof.
  unfold kset. simpl. destruct (key_eqb k' k) eqn:E; [reflexivity|].
  rewrite klookup_kremove, E. reflexivity.
Qed.

Lemma zlookup_zset {V} (k k' : Z) (v : V) (l : list (Z * V)) :
  zlookup k' (zset k v l) = if k' =? k then Some v else zlookup k' l.
Proof.
  unfold zset. simpl. destruct (Z.eqb_spec k' k) as [->|N]; [reflexivity|].
  induction l as [|[k0 v0] l IH]; simpl; [reflexivity|].
  destruct (Z.eqb_spec k k0) as [->|N0]; simpl.
  - destruct (Z.eqb_spec k' k0); [contradiction | exact IH].
  - rewrite IH. reflexivity.
Qed.

(* ------------------------------------------------------------------ specification vocabulary *)
(* the numbers and the (lower-cased) ids of a user list *)
Definition nums (l : list pitem) : list Z := flat_map (fun i => match i with PInt n => [n] | _ => [] end) l.
Definition ids (l : list pitem) : list str := flat_map (fun i => match i with PStr s => [lower s] | _ => [] end) l.
(* the property's "permitted": not excluded by number or id and, when an include list is given, listed in it
   by number or id; ids compared case-insensitively *)
Definition permitted (ex inc : list pitem) (pgn : Z) (id : str) : bool :=
  negb (mem_z pgn (nums ex)) && negb (mem_s (lower id) (ids ex)) &&
  (is_nil inc || mem_z pgn (nums inc) || mem_s (lower id) (ids inc)).
Definition restrict (p : Z -> str -> bool) (o : option msg) : option msg :=
  match o with Some m => if p (m_pgn m) (m_id m) then Some m else None | None => None end.

(* ------------------------------------------------------------------ configuration *)
Lemma split_ok l r : split_pgn_list l = Ok r ->
  r = (nums l, ids l) /\ is_nil l = is_nil (nums l) && is_nil (ids l).
Proof.
  revert r. induction l as [|a l IH]; intros r H; simpl in *.
  - inversion H. auto.
  - destruct a as [n|s|].
    + destruct (split_pgn_list l) as [r'| |]; simpl in H; try discriminate.
      destruct (IH r' eq_refl) as [-> _]. inversion H. simpl. split; reflexivity.
    + destruct (ascii s); [|discriminate].
      destruct (split_pgn_list l) as [r'| |]; simpl in H; try discriminate.
      destruct (IH r' eq_refl) as [-> _]. inversion H. simpl. split; [reflexivity|].
      destruct (is_nil (nums l)); reflexivity.
    + discriminate.
Qed.

Record cfg_of (ex inc : list pitem) (exm incm : list str) (nm : bool) (c : cfg) : Prop := {
  co_one : ex = [] \/ inc = [];
  co_filter : claim_filter c = negb (permitted ex inc CLAIM claim_id);
  co_exn : ex_nums c = if claim_filter c then remove_z CLAIM (nums ex) else nums ex;
  co_exi : ex_ids c = if claim_filter c then remove_s (lower claim_id) (ids ex) else ids ex;
  co_inn : inc_nums c = nums inc;
  co_ini : inc_ids c = ids inc;
  co_exm : ex_mfr c = map lower exm;
  co_incm : inc_mfr c = map lower incm;
  co_nm : netmap c = nm;
  co_has : has_inc c = negb (is_nil inc)
}.

Lemma mk_cfg_ok ex inc exm incm nm c : mk_cfg ex inc exm incm nm = Ok c -> cfg_of ex inc exm incm nm c.
Proof.
  unfold mk_cfg. set (cid := lower claim_id). intros H.
  destruct (negb (is_nil ex) && negb (is_nil inc)) eqn:B; [discriminate|].
  destruct (split_pgn_list ex) as [e| |] eqn:Se; cbn [bind] in H; try discriminate.
  destruct (split_pgn_list inc) as [i| |] eqn:Si; cbn [bind] in H; try discriminate.
  destruct (negb (forallb ascii exm && forallb ascii incm)); [discriminate|].
  destruct (split_ok _ _ Se) as [-> Ne]. destruct (split_ok _ _ Si) as [-> Ni].
  cbn [fst snd] in H. inversion H; subst c; clear H.
  constructor; cbn [claim_filter ex_nums ex_ids inc_nums inc_ids ex_mfr inc_mfr netmap]; try reflexivity.
  - destruct ex; [left; reflexivity|]. destruct inc; [right; reflexivity|]. simpl in B. discriminate.
  - unfold permitted. fold cid. rewrite Ni.
    destruct (mem_z CLAIM (nums ex)), (mem_s cid (ids ex)), (is_nil (nums inc)), (is_nil (ids inc)),
      (mem_z CLAIM (nums inc)), (mem_s cid (ids inc)); reflexivity.
  - unfold has_inc. cbn [inc_nums inc_ids]. rewrite Ni. destruct (is_nil (nums inc)), (is_nil (ids inc)); reflexivity.
Qed.

(* the unfiltered configuration *)
Lemma cfg_unfiltered exm incm nm c : mk_cfg [] [] exm incm nm = Ok c ->
  c = {| ex_nums := []; ex_ids := []; inc_nums := []; inc_ids := []; ex_mfr := map lower exm;
         inc_mfr := map lower incm; netmap := nm; claim_filter := false |}.
Proof.
  unfold mk_cfg. simpl. destruct (negb (forallb ascii exm && forallb ascii incm)); [discriminate|].
  intros H. inversion H. reflexivity.
Qed.

(* ------------------------------------------------------------------ one step, generic in the database *)
Section Steps.
  Variable decode : Z -> Z -> result (option dmsg).
  Variable is_fast : Z -> result (option bool).
  Notation step := (ctl_step decode is_fast).
  Notation dac := (decode_and_claim decode).
  Notation cdec := (call_decode decode).

  Definition key_of (cl : call) : key := (c_pgn cl, c_src cl, c_dst cl).

  Ltac step_cases c st cl :=
    unfold ctl_step;
    destruct (prefilter c st cl) as [| |i] eqn:Pre;
    [ | | destruct (is_fast (c_pgn cl)) as [[[|]|]| |] eqn:Fast;
          [ destruct (fp_step (klookup (c_pgn cl, c_src cl, c_dst cl) (reasm st)) (c_data cl)) as [r|r|r p] eqn:Fp;
            [ | | destruct (cdec c (srcmap st) (c_pgn cl) (c_src cl) (c_dst cl) (le_int p) i) as [sm' res] eqn:CD ]
          | destruct (cdec c (srcmap st) (c_pgn cl) (c_src cl) (c_dst cl) (le_int (c_data cl)) i) as [sm' res] eqn:CD
          | | | ] ].

  Lemma cd_fst c sm p s d x i : fst (cdec c sm p s d x i) = fst (dac sm p s d x i).
  Proof. unfold call_decode. destruct (dac sm p s d x i). reflexivity. Qed.
  Lemma cd_snd c sm p s d x i :
    snd (cdec c sm p s d x i) = match snd (dac sm p s d x i) with Ok (Some m) => Ok (id_filter c p m) | o => o end.
  Proof. unfold call_decode. destruct (dac sm p s d x i) as [l [[|]| |]]; reflexivity. Qed.

  Lemma claim_update_lookup sm src x m sm' o :
    claim_update sm src x m = Ok (sm', o) ->
    zlookup src sm' = Some o /\ (forall s', s' <> src -> zlookup s' sm' = zlookup s' sm) /\
    iso_of_fields (d_fields m) x = Ok o \/ (sm' = sm /\ zlookup src sm = Some o /\ i_name o = x).
  Proof.
    unfold claim_update. intros H.
    assert (F : (do n <- iso_of_fields (d_fields m) x; Ok (zset src n sm, n)) = Ok (sm', o) ->
                zlookup src sm' = Some o /\ (forall s', s' <> src -> zlookup s' sm' = zlookup s' sm) /\
                iso_of_fields (d_fields m) x = Ok o).
    { destruct (iso_of_fields (d_fields m) x) as [n| |]; simpl; intros E; try discriminate.
      inversion E; subst. split; [|split].
      - rewrite zlookup_zset, Z.eqb_refl. reflexivity.
      - intros s' N. rewrite zlookup_zset. destruct (Z.eqb_spec s' src); [contradiction | reflexivity].
      - reflexivity. }
    destruct (zlookup src sm) as [o0|] eqn:L.
    - destruct (Z.eqb_spec (i_name o0) x) as [E|N].
      + inversion H; subst. right. auto.
      + left. apply F. exact H.
    - left. apply F. exact H.
  Qed.

  (* a claim from one address never changes another address's entry *)
  Lemma dac_isolation sm p s d x i s' : s' <> s -> zlookup s' (fst (dac sm p s d x i)) = zlookup s' sm.
  Proof.
    intros N. unfold decode_and_claim.
    destruct (decode p x) as [[m|]| |]; try reflexivity.
    destruct (d_pgn m =? CLAIM).
    - destruct (claim_update sm s x m) as [[sm' o]| |] eqn:CU; simpl; try reflexivity.
      destruct (negb (ascii (d_id m))); simpl;
        (destruct (claim_update_lookup _ _ _ _ _ _ CU) as [[_ [H _]]|[-> _]]; [apply H; exact N | reflexivity]).
    - simpl. destruct (negb (ascii (d_id m))); reflexivity.
  Qed.

  Lemma dac_err sm p s d x i e : snd (dac sm p s d x i) = Err e -> fst (dac sm p s d x i) = sm.
  Proof.
    unfold decode_and_claim.
    destruct (decode p x) as [[m|]| |]; try reflexivity.
    destruct (d_pgn m =? CLAIM).
    - destruct (claim_update sm s x m) as [[sm' o]| |]; simpl; try reflexivity.
      destruct (negb (ascii (d_id m))); simpl; discriminate.
    - simpl. destruct (negb (ascii (d_id m))); reflexivity.
  Qed.

  Lemma dac_msg sm p s d x i m : snd (dac sm p s d x i) = Ok (Some m) ->
    exists dm, decode p x = Ok (Some dm) /\ ascii (d_id dm) = true /\
      m_pgn m = d_pgn dm /\ m_id m = d_id dm /\ m_src m = s /\ m_dst m = d /\ m_body m = d_body dm /\
      ((d_pgn dm = CLAIM /\ exists sm' o, claim_update sm s x dm = Ok (sm', o) /\ m_iso m = Some o /\
                                          fst (dac sm p s d x i) = sm')
       \/ (d_pgn dm <> CLAIM /\ m_iso m = i /\ fst (dac sm p s d x i) = sm)).
  Proof.
    unfold decode_and_claim.
    destruct (decode p x) as [[dm|]| |]; try discriminate.
    destruct (Z.eqb_spec (d_pgn dm) CLAIM) as [E|N].
    - destruct (claim_update sm s x dm) as [[sm' o]| |] eqn:CU; simpl; try discriminate.
      destruct (ascii (d_id dm)) eqn:A; simpl; [|discriminate].
      intros H. inversion H; subst m; clear H. simpl.
      exists dm. repeat split; try assumption. left. split; [exact E|]. exists sm', o. auto.
    - simpl. destruct (ascii (d_id dm)) eqn:A; simpl; [|discriminate].
      intros H. inversion H; subst m; clear H. simpl.
      exists dm. repeat split; try assumption. right. auto.
  Qed.

  (* frame lemma: a call only ever touches the reassembly record of its own key *)
  Lemma step_frame c st cl k' : k' <> key_of cl ->
    klookup k' (reasm (fst (step c st cl))) = klookup k' (reasm st).
  Proof.
    intros N. apply key_eqb_neq in N. unfold key_of in N.
    step_cases c st cl; cbn [fst snd reasm srcmap]; try reflexivity.
    - rewrite klookup_kset, N. reflexivity.
    - rewrite klookup_kset, N. reflexivity.
    - destruct (is_ok res); [rewrite klookup_kremove | rewrite klookup_kset]; rewrite N; reflexivity.
  Qed.

  (* C11_isolation *)
  Lemma step_isolation c st cl s' : s' <> c_src cl ->
    zlookup s' (srcmap (fst (step c st cl))) = zlookup s' (srcmap st).
  Proof.
    intros N.
    step_cases c st cl; cbn [fst snd reasm srcmap]; try reflexivity.
    - change sm' with (fst (sm', res)). rewrite <- CD, cd_fst. apply dac_isolation. exact N.
    - change sm' with (fst (sm', res)). rewrite <- CD, cd_fst. apply dac_isolation. exact N.
  Qed.
End Steps.

(* ------------------------------------------------------------------ facts that need the database hypothesis
   "decode_pgn_N builds a message with PGN N" *)
Section StepsDb.
  Variable decode : Z -> Z -> result (option dmsg).
  Variable is_fast : Z -> result (option bool).
  Hypothesis db_pgn : forall p x m, decode p x = Ok (Some m) -> d_pgn m = p.
  Notation step := (ctl_step decode is_fast).
  Notation dac := (decode_and_claim decode).
  Notation cdec := (call_decode decode).

  Ltac step_cases c st cl :=
    unfold ctl_step;
    destruct (prefilter c st cl) as [| |i] eqn:Pre;
    [ | | destruct (is_fast (c_pgn cl)) as [[[|]|]| |] eqn:Fast;
          [ destruct (fp_step (klookup (c_pgn cl, c_src cl, c_dst cl) (reasm st)) (c_data cl)) as [r|r|r p] eqn:Fp;
            [ | | destruct (cdec c (srcmap st) (c_pgn cl) (c_src cl) (c_dst cl) (le_int p) i) as [sm' res] eqn:CD ]
          | destruct (cdec c (srcmap st) (c_pgn cl) (c_src cl) (c_dst cl) (le_int (c_data cl)) i) as [sm' res] eqn:CD
          | | | ] ].

  Lemma dac_nonclaim sm p s d x i : p <> CLAIM -> fst (dac sm p s d x i) = sm.
  Proof.
    intros N. unfold decode_and_claim.
    destruct (decode p x) as [[m|]| |] eqn:D; try reflexivity.
    apply db_pgn in D. destruct (Z.eqb_spec (d_pgn m) CLAIM) as [E|_]; [congruence|].
    simpl. destruct (negb (ascii (d_id m))); reflexivity.
  Qed.

  Lemma cdec_msg c sm p s d x i m : snd (cdec c sm p s d x i) = Ok (Some m) ->
    snd (dac sm p s d x i) = Ok (Some m) /\ id_filter c p m = Some m.
  Proof.
    rewrite cd_snd. destruct (snd (dac sm p s d x i)) as [[m'|]| |]; try discriminate.
    intros H. assert (H1 : id_filter c p m' = Some m) by congruence. clear H.
    assert (E : m' = m).
    { unfold id_filter in H1. destruct (_ && _); [discriminate|]. destruct (id_dropped c p (m_id m')); [discriminate|].
      inversion H1. reflexivity. }
    subst m'. split; [reflexivity | exact H1].
  Qed.

  (* non-claim calls never touch the source map *)
  Lemma step_srcmap_nonclaim c st cl : c_pgn cl <> CLAIM -> srcmap (fst (step c st cl)) = srcmap st.
  Proof.
    intros N. step_cases c st cl; cbn [fst snd reasm srcmap]; try reflexivity.
    - change sm' with (fst (sm', res)). rewrite <- CD, cd_fst. apply dac_nonclaim. exact N.
    - change sm' with (fst (sm', res)). rewrite <- CD, cd_fst. apply dac_nonclaim. exact N.
  Qed.

  (* what a returned message carries *)
  Lemma step_msg c st cl m : snd (step c st cl) = Ok (Some m) ->
    m_pgn m = c_pgn cl /\ m_src m = c_src cl /\ m_dst m = c_dst cl /\
    m_iso m = zlookup (c_src cl) (srcmap (fst (step c st cl))) /\
    (c_pgn cl <> CLAIM -> prefilter c st cl = PreGo (m_iso m)).
  Proof.
    assert (K : forall i x sm' res, prefilter c st cl = PreGo i ->
              cdec c (srcmap st) (c_pgn cl) (c_src cl) (c_dst cl) x i = (sm', res) -> res = Ok (Some m) ->
              m_pgn m = c_pgn cl /\ m_src m = c_src cl /\ m_dst m = c_dst cl /\
              m_iso m = zlookup (c_src cl) sm' /\ (c_pgn cl <> CLAIM -> PreGo i = PreGo (m_iso m))).
    { intros i x sm' res Pre CD ->.
      assert (S : snd (cdec c (srcmap st) (c_pgn cl) (c_src cl) (c_dst cl) x i) = Ok (Some m)) by (rewrite CD; reflexivity).
      assert (F : fst (cdec c (srcmap st) (c_pgn cl) (c_src cl) (c_dst cl) x i) = sm') by (rewrite CD; reflexivity).
      rewrite cd_fst in F.
      apply cdec_msg in S. destruct S as [S _].
      destruct (dac_msg _ _ _ _ _ _ _ _ S) as [dm [D [_ [Hp [_ [Hs [Hd [_ Hc]]]]]]]].
      pose proof (db_pgn _ _ _ D) as Ep.
      repeat split; try congruence.
      - destruct Hc as [[_ [sm'' [o [CU [Hi Hf]]]]]|[Nc [Hi Hf]]].
        + rewrite Hi, <- F, Hf.
          destruct (claim_update_lookup _ _ _ _ _ _ CU) as [[L _]|[E' [L _]]];
            [symmetry; exact L | rewrite E'; symmetry; exact L].
        + rewrite Hi, <- F, Hf.
          unfold prefilter in Pre. destruct (Z.eqb_spec (c_pgn cl) CLAIM) as [E|_]; [congruence|].
          destruct (mem_z (c_pgn cl) (ex_nums c)); [discriminate|].
          destruct (_ && _); [discriminate|].
          destruct (zlookup (c_src cl) (srcmap st)) as [o|].
          * destruct (negb (mfr_modelled o)); [discriminate|]. destruct (mfr_blocked c o); [discriminate|].
            inversion Pre. reflexivity.
          * destruct (_ && _); [discriminate|]. inversion Pre. reflexivity.
      - intros Nc. destruct Hc as [[Ec _]|[_ [Hi _]]]; [congruence|]. rewrite Hi. reflexivity. }
    step_cases c st cl; cbn [fst snd reasm srcmap]; try discriminate.
    - intros E. destruct (K _ _ _ _ eq_refl CD E) as [A [B [C' [D' E']]]]. repeat split; assumption.
    - intros E. destruct (K _ _ _ _ eq_refl CD E) as [A [B [C' [D' E']]]]. repeat split; assumption.
  Qed.
End StepsDb.

(* ------------------------------------------------------------------ C10: the filtered run is a selection of the unfiltered run *)
Definition outs (l : list (state * result (option msg))) : list (option msg) := map (fun so => as_msg (snd so)) l.
Definition maps (l : list (state * result (option msg))) : list (list (Z * iso)) := map (fun so => srcmap (fst so)) l.

Section C10.
  Variable decode : Z -> Z -> result (option dmsg).
  Variable is_fast : Z -> result (option bool).
  (* database hypotheses (checked on pgns.py by tools/tr_init.py: db_hypotheses) *)
  Hypothesis db_pgn : forall p x m, decode p x = Ok (Some m) -> d_pgn m = p.
  Hypothesis db_claim_id : forall p x m, decode p x = Ok (Some m) -> (p = CLAIM <-> lower (d_id m) = lower claim_id).

  Variables (ex inc : list pitem) (exm incm : list str) (nm : bool) (cF cU : cfg).
  Hypothesis HF : mk_cfg ex inc exm incm nm = Ok cF.
  Hypothesis HU : mk_cfg [] [] exm incm nm = Ok cU.

  Notation step := (ctl_step decode is_fast).
  Notation dac := (decode_and_claim decode).
  Notation cdec := (call_decode decode).

  Definition num_drop (c : cfg) (p : Z) : bool :=
    mem_z p (ex_nums c) || (negb (is_nil (inc_nums c)) && is_nil (inc_ids c) && negb (mem_z p (inc_nums c))).
  Definition live (p : Z) : bool := (p =? CLAIM) || negb (num_drop cF p).

  (* the simulation relation: equal source maps; equal reassembly records on every key whose PGN the
     filtered decoder does not drop numerically *)
  Definition sim (sF sU : state) : Prop :=
    srcmap sF = srcmap sU /\ forall k, live (fst (fst k)) = true -> klookup k (reasm sF) = klookup k (reasm sU).

  Let CF := mk_cfg_ok _ _ _ _ _ _ HF.

  Lemma cU_eq : cU = {| ex_nums := []; ex_ids := []; inc_nums := []; inc_ids := []; ex_mfr := map lower exm;
                        inc_mfr := map lower incm; netmap := nm; claim_filter := false |}.
  Proof. apply cfg_unfiltered. exact HU. Qed.

  Lemma mfr_blocked_same i : mfr_blocked cF i = mfr_blocked cU i.
  Proof. unfold mfr_blocked. rewrite cU_eq. rewrite (co_exm _ _ _ _ _ _ CF), (co_incm _ _ _ _ _ _ CF). reflexivity. Qed.

  Lemma prefilter_live sF sU cl : live (c_pgn cl) = true -> srcmap sF = srcmap sU ->
    prefilter cF sF cl = prefilter cU sU cl.
  Proof.
    unfold live, prefilter. intros L E. rewrite E.
    destruct (c_pgn cl =? CLAIM); [reflexivity|]. simpl in L.
    unfold num_drop in L. apply negb_true_iff, orb_false_iff in L. destruct L as [L1 L2].
    rewrite L1, L2.
    replace (mem_z (c_pgn cl) (ex_nums cU)) with false by (rewrite cU_eq; reflexivity).
    replace (negb (is_nil (inc_nums cU)) && is_nil (inc_ids cU) && negb (mem_z (c_pgn cl) (inc_nums cU))) with false
      by (rewrite cU_eq; reflexivity).
    replace (netmap cU) with (netmap cF) by (rewrite cU_eq; apply (co_nm _ _ _ _ _ _ CF)).
    destruct (zlookup (c_src cl) (srcmap sU)) as [i|]; [|reflexivity].
    rewrite mfr_blocked_same. reflexivity.
  Qed.

  Lemma prefilter_dead sF cl : live (c_pgn cl) = false -> prefilter cF sF cl = PreDrop.
  Proof.
    unfold live, prefilter. intros L. apply orb_false_iff in L. destruct L as [L1 L2]. rewrite L1.
    apply negb_false_iff in L2. unfold num_drop in L2.
    destruct (mem_z (c_pgn cl) (ex_nums cF)); [reflexivity|]. simpl in L2. rewrite L2. reflexivity.
  Qed.

  Lemma dead_not_permitted p id : live p = false -> permitted ex inc p id = false.
  Proof.
    unfold live. intros L. apply orb_false_iff in L. destruct L as [L1 L2].
    apply negb_false_iff in L2. unfold num_drop in L2. unfold permitted.
    rewrite (co_exn _ _ _ _ _ _ CF), (co_inn _ _ _ _ _ _ CF), (co_ini _ _ _ _ _ _ CF) in L2.
    apply orb_true_iff in L2. destruct L2 as [L2|L2].
    - assert (M : mem_z p (nums ex) = true).
      { destruct (claim_filter cF); [apply mem_z_remove_sub in L2|]; exact L2. }
      rewrite M. reflexivity.
    - apply andb_true_iff in L2. destruct L2 as [L2 L3]. apply andb_true_iff in L2. destruct L2 as [L2 L4].
      apply negb_true_iff in L3. apply is_nil_spec in L4. rewrite L3, L4.
      destruct inc; [simpl in L2; discriminate|]. simpl.
      rewrite !andb_false_r. reflexivity.
  Qed.

  (* the id-based part of the filtered decoder decides exactly "permitted" on live PGNs *)
  Lemma filter_correct p m : live p = true -> m_pgn m = p -> (p = CLAIM <-> lower (m_id m) = lower claim_id) ->
    id_filter cF p m = if permitted ex inc (m_pgn m) (m_id m) then Some m else None.
  Proof.
    intros L Ep Hid. unfold id_filter, id_dropped. rewrite Ep. clear Ep.
    rewrite (co_has _ _ _ _ _ _ CF), (co_exi _ _ _ _ _ _ CF), (co_inn _ _ _ _ _ _ CF), (co_ini _ _ _ _ _ _ CF).
    destruct (Z.eqb_spec p CLAIM) as [Ec|Nc].
    - (* the claim: claim_filter is exactly "not permitted" *)
      subst p. assert (El : lower (m_id m) = lower claim_id) by (apply Hid; reflexivity).
      assert (Pl : permitted ex inc CLAIM (m_id m) = permitted ex inc CLAIM claim_id).
      { unfold permitted. rewrite El. reflexivity. }
      rewrite Pl. cbn [andb].
      destruct (claim_filter cF) eqn:F; rewrite (co_filter _ _ _ _ _ _ CF) in F.
      + apply negb_true_iff in F. rewrite F. reflexivity.
      + apply negb_false_iff in F. rewrite F. rewrite El. unfold permitted in F.
        apply andb_true_iff in F. destruct F as [F1 F3]. apply andb_true_iff in F1. destruct F1 as [F1 F2].
        apply negb_true_iff in F2. rewrite F2. cbn [orb].
        destruct (is_nil inc), (mem_z CLAIM (nums inc)), (mem_s (lower claim_id) (ids inc));
          cbn [andb orb negb] in *; try discriminate; reflexivity.
    - cbn [andb].
      assert (Nl : lower (m_id m) <> lower claim_id) by (intros E; apply Nc, Hid; exact E).
      assert (Mi : mem_s (lower (m_id m)) (if claim_filter cF then remove_s (lower claim_id) (ids ex) else ids ex)
                   = mem_s (lower (m_id m)) (ids ex)).
      { destruct (claim_filter cF); [apply mem_s_remove; exact Nl | reflexivity]. }
      rewrite Mi.
      assert (Mn : mem_z p (nums ex) = false).
      { unfold live in L. destruct (Z.eqb_spec p CLAIM); [contradiction|]. simpl in L.
        apply negb_true_iff in L. unfold num_drop in L. apply orb_false_iff in L. destruct L as [L _].
        rewrite (co_exn _ _ _ _ _ _ CF) in L.
        destruct (claim_filter cF); [rewrite mem_z_remove in L by exact Nc|]; exact L. }
      unfold permitted. rewrite Mn.
      destruct (mem_s (lower (m_id m)) (ids ex)), (is_nil inc), (mem_z p (nums inc)),
        (mem_s (lower (m_id m)) (ids inc)); reflexivity.
  Qed.

  Lemma filter_unfiltered p m : id_filter cU p m = Some m.
  Proof. rewrite cU_eq. unfold id_filter, id_dropped, has_inc. simpl. rewrite andb_false_r. reflexivity. Qed.

  (* the cfg-dependent tail of _call_decode_function, on both sides *)
  Lemma cdec_sim sm p s d x i : live p = true ->
    fst (cdec cF sm p s d x i) = fst (cdec cU sm p s d x i) /\
    is_ok (snd (cdec cF sm p s d x i)) = is_ok (snd (cdec cU sm p s d x i)) /\
    as_msg (snd (cdec cF sm p s d x i)) = restrict (permitted ex inc) (as_msg (snd (cdec cU sm p s d x i))).
  Proof.
    intros L. rewrite !cd_fst, !cd_snd. split; [reflexivity|].
    destruct (snd (dac sm p s d x i)) as [[m|]| |] eqn:S; simpl; try (split; reflexivity).
    destruct (dac_msg _ _ _ _ _ _ _ _ S) as [dm [D [_ [Hp [Hi _]]]]].
    pose proof (db_pgn _ _ _ D) as Ep. pose proof (db_claim_id _ _ _ D) as Hc.
    rewrite filter_unfiltered. simpl.
    rewrite (filter_correct p m L); [| congruence | rewrite Hi; exact Hc].
    split; [reflexivity|]. destruct (permitted ex inc (m_pgn m) (m_id m)); reflexivity.
  Qed.

  Lemma sim_update sF sU (f : list (key * rec) -> list (key * rec)) sm :
    sim sF sU ->
    (forall l l' k', klookup k' l = klookup k' l' -> klookup k' (f l) = klookup k' (f l')) ->
    sim {| reasm := f (reasm sF); srcmap := sm |} {| reasm := f (reasm sU); srcmap := sm |}.
  Proof.
    intros [_ R] Hf. split; [reflexivity|]. intros k' L. simpl. apply Hf. apply R. exact L.
  Qed.
  Lemma kset_cong k (r : rec) l l' k' : klookup k' l = klookup k' l' -> klookup k' (kset k r l) = klookup k' (kset k r l').
  Proof. intros E. rewrite !klookup_kset, E. reflexivity. Qed.
  Lemma kremove_cong k (l l' : list (key * rec)) k' : klookup k' l = klookup k' l' -> klookup k' (kremove k l) = klookup k' (kremove k l').
  Proof. intros E. rewrite !klookup_kremove, E. reflexivity. Qed.

  Lemma step_sim sF sU cl : sim sF sU ->
    sim (fst (step cF sF cl)) (fst (step cU sU cl)) /\
    as_msg (snd (step cF sF cl)) = restrict (permitted ex inc) (as_msg (snd (step cU sU cl))).
  Proof.
    intros S. destruct (live (c_pgn cl)) eqn:L.
    - (* both decoders process the call in lock step *)
      pose proof S as [Em Er].
      unfold ctl_step. rewrite (prefilter_live sF sU cl L Em).
      destruct (prefilter cU sU cl) as [| |i]; try (split; [exact S | reflexivity]).
      destruct (is_fast (c_pgn cl)) as [[[|]|]| |]; try (split; [exact S | reflexivity]).
      + rewrite (Er (c_pgn cl, c_src cl, c_dst cl) L).
        destruct (fp_step (klookup (c_pgn cl, c_src cl, c_dst cl) (reasm sU)) (c_data cl)) as [r|r|r p].
        * split; [|reflexivity]. rewrite Em. cbn [fst]. apply (sim_update sF sU); [exact S|].
          intros; apply kset_cong; assumption.
        * split; [|reflexivity]. rewrite Em. cbn [fst]. apply (sim_update sF sU); [exact S|].
          intros; apply kset_cong; assumption.
        * rewrite Em.
          destruct (cdec_sim (srcmap sU) (c_pgn cl) (c_src cl) (c_dst cl) (le_int p) i L) as [A [B C]].
          destruct (cdec cF (srcmap sU) (c_pgn cl) (c_src cl) (c_dst cl) (le_int p) i) as [smF rF].
          destruct (cdec cU (srcmap sU) (c_pgn cl) (c_src cl) (c_dst cl) (le_int p) i) as [smU rU].
          cbn [fst snd] in *. subst smF. rewrite B. split; [|exact C].
          destruct (is_ok rU).
          -- apply (sim_update sF sU); [exact S|]. intros; apply kremove_cong; assumption.
          -- apply (sim_update sF sU); [exact S|]. intros; apply kset_cong; assumption.
      + rewrite Em.
        destruct (cdec_sim (srcmap sU) (c_pgn cl) (c_src cl) (c_dst cl) (le_int (c_data cl)) i L) as [A [B C]].
        destruct (cdec cF (srcmap sU) (c_pgn cl) (c_src cl) (c_dst cl) (le_int (c_data cl)) i) as [smF rF].
        destruct (cdec cU (srcmap sU) (c_pgn cl) (c_src cl) (c_dst cl) (le_int (c_data cl)) i) as [smU rU].
        cbn [fst snd] in *. subst smF. split; [|exact C].
        apply (sim_update sF sU (fun l => l)); [exact S|]. auto.
    - (* the filtered decoder drops the call before reassembly; whatever the unfiltered one does stays on
         the call's own key, leaves the source map alone, and is not permitted *)
      assert (Nc : c_pgn cl <> CLAIM).
      { unfold live in L. destruct (Z.eqb_spec (c_pgn cl) CLAIM); [discriminate | assumption]. }
      unfold ctl_step at 1 3. rewrite (prefilter_dead sF cl L). cbn [fst snd]. split.
      + destruct S as [Em Er]. split.
        * rewrite (step_srcmap_nonclaim decode is_fast db_pgn cU sU cl Nc). exact Em.
        * intros k Lk. rewrite step_frame; [apply Er; exact Lk|].
          intros E. subst k. unfold key_of in Lk. simpl in Lk. congruence.
      + simpl. destruct (snd (step cU sU cl)) as [[m|]| |] eqn:O; try reflexivity. simpl.
        destruct (step_msg decode is_fast db_pgn cU sU cl m O) as [Ep _].
        rewrite Ep, (dead_not_permitted _ _ L). reflexivity.
  Qed.

  Theorem c10_sim h : forall sF sU, sim sF sU ->
    outs (run decode is_fast cF sF h) = map (restrict (permitted ex inc)) (outs (run decode is_fast cU sU h)) /\
    maps (run decode is_fast cF sF h) = maps (run decode is_fast cU sU h).
  Proof.
    induction h as [|cl h IH]; intros sF sU S; simpl; [split; reflexivity|].
    destruct (step_sim sF sU cl S) as [S' O].
    destruct (IH _ _ S') as [A B].
    unfold outs, maps in *. simpl. rewrite O, A, B. destruct S' as [-> _]. split; reflexivity.
  Qed.

  Lemma sim_init : sim init init.
  Proof. split; reflexivity. Qed.
End C10.

(* ------------------------------------------------------------------ C11: identity = latest decodable claim *)
Lemma iso_of_fields_name fs x o : iso_of_fields fs x = Ok o -> i_name o = x.
Proof.
  unfold iso_of_fields. intros H.
  repeat match type of H with bind ?r _ = _ => destruct r; cbn [bind] in H; try discriminate end.
  inversion H. reflexivity.
Qed.

Section C11.
  Variable decode : Z -> Z -> result (option dmsg).
  Variable is_fast : Z -> result (option bool).
  Hypothesis db_pgn : forall p x m, decode p x = Ok (Some m) -> d_pgn m = p.
  Hypothesis fast_claim : is_fast CLAIM = Ok (Some false).     (* address claims are single-frame *)

  Notation step := (ctl_step decode is_fast).
  Notation dac := (decode_and_claim decode).
  Notation cdec := (call_decode decode).

  (* the identity a NAME decodes to, if the claim is decodable *)
  Definition claim_val (x : Z) : option iso :=
    match decode CLAIM x with
    | Ok (Some m) => match iso_of_fields (d_fields m) x with Ok o => Some o | _ => None end
    | _ => None
    end.
  Definition claim_of (cl : call) : option iso :=
    if c_pgn cl =? CLAIM then claim_val (le_int (c_data cl)) else None.
  (* specification: scan the history; the identity of source s is that of its most recent decodable claim *)
  Definition ident_step (s : Z) (acc : option iso) (cl : call) : option iso :=
    if c_src cl =? s then match claim_of cl with Some o => Some o | None => acc end else acc.
  Definition identity_after (h : list call) (s : Z) : option iso := fold_left (ident_step s) h None.

  (* every stored identity is what its NAME decodes to ("same NAME -> keep object" is therefore harmless) *)
  Definition map_ok (sm : list (Z * iso)) : Prop :=
    forall s o, zlookup s sm = Some o -> claim_val (i_name o) = Some o.

  Lemma fst_if {A B} (b : bool) (x : A) (y z : B) : fst (if b then (x, y) else (x, z)) = x.
  Proof. destruct b; reflexivity. Qed.

  Lemma dac_claim sm s d x i : map_ok sm ->
    (forall s', zlookup s' (fst (dac sm CLAIM s d x i)) =
                if s' =? s then match claim_val x with Some o => Some o | None => zlookup s' sm end else zlookup s' sm)
    /\ map_ok (fst (dac sm CLAIM s d x i)).
  Proof.
    intros OK. unfold decode_and_claim, claim_val.
    assert (Same : (forall s', zlookup s' sm = if s' =? s then zlookup s' sm else zlookup s' sm)).
    { intros s'. destruct (s' =? s); reflexivity. }
    destruct (decode CLAIM x) as [[m|]| |] eqn:D; cbn [fst]; try (split; [exact Same | exact OK]).
    assert (Ep : (d_pgn m =? CLAIM) = true) by (rewrite (db_pgn _ _ _ D); apply Z.eqb_refl).
    rewrite Ep. unfold claim_update.
    assert (Fresh :
      (forall s', zlookup s'
         (fst match (do r <- (do n <- iso_of_fields (d_fields m) x; Ok (zset s n sm, n)); Ok (fst r, Some (snd r))) with
              | Ok (sm', i') => if negb (ascii (d_id m)) then (sm', Unmodelled)
                                else (sm', Ok (Some {| m_pgn := d_pgn m; m_id := d_id m; m_src := s; m_dst := d; m_iso := i'; m_body := d_body m |}))
              | Err e => (sm, Err e) | Unmodelled => (sm, Unmodelled) end) =
         if s' =? s then match match iso_of_fields (d_fields m) x with Ok o => Some o | _ => None end with
                         | Some o => Some o | None => zlookup s' sm end else zlookup s' sm)
      /\ map_ok
         (fst match (do r <- (do n <- iso_of_fields (d_fields m) x; Ok (zset s n sm, n)); Ok (fst r, Some (snd r))) with
              | Ok (sm', i') => if negb (ascii (d_id m)) then (sm', Unmodelled)
                                else (sm', Ok (Some {| m_pgn := d_pgn m; m_id := d_id m; m_src := s; m_dst := d; m_iso := i'; m_body := d_body m |}))
              | Err e => (sm, Err e) | Unmodelled => (sm, Unmodelled) end)).
    { destruct (iso_of_fields (d_fields m) x) as [n| |] eqn:I; cbn [bind fst snd]; try (split; [exact Same | exact OK]).
      rewrite fst_if. split.
      - intros s'. rewrite zlookup_zset. reflexivity.
      - intros s' o. rewrite zlookup_zset. destruct (s' =? s).
        + intros H. inversion H; subst o. rewrite (iso_of_fields_name _ _ _ I).
          unfold claim_val. rewrite D, I. reflexivity.
        + apply OK. }
    destruct (zlookup s sm) as [o0|] eqn:L; [|exact Fresh].
    destruct (Z.eqb_spec (i_name o0) x) as [E|N]; [|exact Fresh].
    (* same NAME: the stored object is kept, and it equals what this claim decodes to *)
    cbn [bind fst snd]. rewrite fst_if. split; [|exact OK].
    intros s'. destruct (Z.eqb_spec s' s) as [->|_]; [|reflexivity].
    pose proof (OK _ _ L) as V. unfold claim_val in V. rewrite E, D in V.
    clear Fresh. destruct (iso_of_fields (d_fields m) x) as [o| |]; try discriminate. rewrite L. congruence.
  Qed.

  Lemma step_ident c st cl s : map_ok (srcmap st) ->
    zlookup s (srcmap (fst (step c st cl))) = ident_step s (zlookup s (srcmap st)) cl /\
    map_ok (srcmap (fst (step c st cl))).
  Proof.
    intros OK. unfold ident_step, claim_of.
    destruct (Z.eqb_spec (c_pgn cl) CLAIM) as [E|N].
    - unfold ctl_step, prefilter. rewrite E, Z.eqb_refl, fast_claim.
      destruct (cdec c (srcmap st) CLAIM (c_src cl) (c_dst cl) (le_int (c_data cl)) None) as [sm' res] eqn:CD.
      cbn [fst srcmap].
      assert (F : sm' = fst (dac (srcmap st) CLAIM (c_src cl) (c_dst cl) (le_int (c_data cl)) None)).
      { rewrite <- cd_fst with (c := c). rewrite CD. reflexivity. }
      destruct (dac_claim (srcmap st) (c_src cl) (c_dst cl) (le_int (c_data cl)) None OK) as [A B].
      rewrite F. split; [|exact B]. rewrite A. rewrite (Z.eqb_sym s (c_src cl)). reflexivity.
    - rewrite (step_srcmap_nonclaim decode is_fast db_pgn c st cl N). split; [|exact OK].
      destruct (c_src cl =? s); reflexivity.
  Qed.

  Lemma final_ident c h : forall st s, map_ok (srcmap st) ->
    zlookup s (srcmap (final decode is_fast c st h)) = fold_left (ident_step s) h (zlookup s (srcmap st)) /\
    map_ok (srcmap (final decode is_fast c st h)).
  Proof.
    unfold final. induction h as [|cl h IH]; intros st s OK; cbn [fold_left]; [split; [reflexivity | exact OK]|].
    destruct (step_ident c st cl s OK) as [A B].
    destruct (IH (fst (step c st cl)) s B) as [C D].
    split; [|exact D]. rewrite C, A. reflexivity.
  Qed.

  Lemma map_ok_init : map_ok (srcmap init).
  Proof. intros s o H. discriminate. Qed.

  Lemma fold_left_app_one {A B} (f : A -> B -> A) l x a : fold_left f (l ++ [x]) a = f (fold_left f l a) x.
  Proof. rewrite fold_left_app. reflexivity. Qed.

  (* C11_identity, with the source map characterised on the way *)
  Theorem c11_identity c h cl m :
    snd (step c (final decode is_fast c init h) cl) = Ok (Some m) ->
    m_src m = c_src cl /\ m_iso m = identity_after (h ++ [cl]) (c_src cl).
  Proof.
    intros O. set (st := final decode is_fast c init h) in *.
    destruct (step_msg decode is_fast db_pgn c st cl m O) as [_ [Hs [_ [Hi _]]]].
    split; [exact Hs|]. rewrite Hi.
    destruct (final_ident c h init (c_src cl) map_ok_init) as [A B]. fold st in A, B.
    destruct (step_ident c st cl (c_src cl) B) as [C _].
    rewrite C, A. unfold identity_after. rewrite fold_left_app_one. reflexivity.
  Qed.

  Theorem c11_srcmap c h s : zlookup s (srcmap (final decode is_fast c init h)) = identity_after h s.
  Proof. apply (final_ident c h init s map_ok_init). Qed.

  (* manufacturer lists, in the user's terms *)
  Definition mfr_pass (exm incm : list str) (o : iso) : bool :=
    match i_mfr o with
    | Some s => negb (mem_s (lower s) (map lower exm)) && (is_nil incm || mem_s (lower s) (map lower incm))
    | None => is_nil incm
    end.

  Lemma mfr_blocked_spec ex inc exm incm nm c o : mk_cfg ex inc exm incm nm = Ok c ->
    mfr_blocked c o = negb (mfr_pass exm incm o).
  Proof.
    intros H. pose proof (mk_cfg_ok _ _ _ _ _ _ H) as CF. unfold mfr_blocked, mfr_pass.
    rewrite (co_exm _ _ _ _ _ _ CF), (co_incm _ _ _ _ _ _ CF).
    assert (N : is_nil (map lower incm) = is_nil incm) by (destruct incm; reflexivity). rewrite N.
    destruct (i_mfr o) as [s|]; [|reflexivity].
    destruct (mem_s (lower s) (map lower exm)), (is_nil incm), (mem_s (lower s) (map lower incm)); reflexivity.
  Qed.

  Lemma prefilter_go c st cl i : c_pgn cl <> CLAIM -> prefilter c st cl = PreGo i ->
    i = zlookup (c_src cl) (srcmap st) /\
    (i = None -> netmap c && c_win cl = false) /\
    (forall o, i = Some o -> mfr_blocked c o = false).
  Proof.
    intros N. unfold prefilter. destruct (Z.eqb_spec (c_pgn cl) CLAIM); [contradiction|].
    destruct (mem_z (c_pgn cl) (ex_nums c)); [discriminate|].
    destruct (_ && _); [discriminate|].
    destruct (zlookup (c_src cl) (srcmap st)) as [o|].
    - destruct (negb (mfr_modelled o)); [discriminate|]. destruct (mfr_blocked c o) eqn:B; [discriminate|].
      intros H. inversion H; subst i. split; [reflexivity|]. split; [discriminate|].
      intros o' E. inversion E; subst. exact B.
    - destruct (netmap c && c_win cl) eqn:W; [discriminate|]. intros H. inversion H; subst i.
      split; [reflexivity|]. split; [reflexivity|]. discriminate.
  Qed.

  (* C11_manufacturer *)
  Theorem c11_manufacturer ex inc exm incm nm c h cl m o :
    mk_cfg ex inc exm incm nm = Ok c ->
    snd (step c (final decode is_fast c init h) cl) = Ok (Some m) ->
    m_pgn m <> CLAIM -> identity_after h (c_src cl) = Some o ->
    mfr_pass exm incm o = true.
  Proof.
    intros HC O Np Hid. set (st := final decode is_fast c init h) in *.
    destruct (step_msg decode is_fast db_pgn c st cl m O) as [Hp [_ [_ [_ Hpre]]]].
    assert (Nc : c_pgn cl <> CLAIM) by congruence.
    destruct (prefilter_go c st cl _ Nc (Hpre Nc)) as [Hi [_ Hm]].
    unfold st in Hi. rewrite c11_srcmap, Hid in Hi.
    specialize (Hm o Hi). rewrite (mfr_blocked_spec _ _ _ _ _ _ o HC) in Hm.
    apply negb_false_iff in Hm. exact Hm.
  Qed.

  (* C11_discovery *)
  Theorem c11_discovery c h cl m :
    netmap c = true -> c_win cl = true ->
    snd (step c (final decode is_fast c init h) cl) = Ok (Some m) ->
    m_pgn m = CLAIM \/ identity_after h (c_src cl) <> None.
  Proof.
    intros Hn Hw O. set (st := final decode is_fast c init h) in *.
    destruct (step_msg decode is_fast db_pgn c st cl m O) as [Hp [_ [_ [_ Hpre]]]].
    destruct (Z.eqb_spec (c_pgn cl) CLAIM) as [E|Nc]; [left; congruence | right].
    destruct (prefilter_go c st cl _ Nc (Hpre Nc)) as [Hi [Hnone _]].
    unfold st in Hi. rewrite c11_srcmap in Hi. rewrite <- Hi. intros E. specialize (Hnone E).
    rewrite Hn, Hw in Hnone. discriminate.
  Qed.
End C11.

(* ------------------------------------------------------------------ C16: isolation, bad input is harmless *)
Section C16.
  Variable decode : Z -> Z -> result (option dmsg).
  Variable is_fast : Z -> result (option bool).
  Notation step := (ctl_step decode is_fast).
  Notation dac := (decode_and_claim decode).
  Notation cdec := (call_decode decode).

  Ltac step_cases c st cl :=
    unfold ctl_step;
    destruct (prefilter c st cl) as [| |i] eqn:Pre;
    [ | | destruct (is_fast (c_pgn cl)) as [[[|]|]| |] eqn:Fast;
          [ destruct (fp_step (klookup (c_pgn cl, c_src cl, c_dst cl) (reasm st)) (c_data cl)) as [r|r|r p] eqn:Fp;
            [ | | destruct (cdec c (srcmap st) (c_pgn cl) (c_src cl) (c_dst cl) (le_int p) i) as [sm' res] eqn:CD ]
          | destruct (cdec c (srcmap st) (c_pgn cl) (c_src cl) (c_dst cl) (le_int (c_data cl)) i) as [sm' res] eqn:CD
          | | | ] ].

  (* the prefilter looks at the state only through the source-map entry of the call's source *)
  Lemma prefilter_lookup c st1 st2 cl :
    zlookup (c_src cl) (srcmap st1) = zlookup (c_src cl) (srcmap st2) -> prefilter c st1 cl = prefilter c st2 cl.
  Proof. unfold prefilter. intros ->. reflexivity. Qed.

  (* the result of _call_decode_function depends on the source map only through that entry *)
  Lemma dac_snd_lookup sm1 sm2 p s d x i : zlookup s sm1 = zlookup s sm2 ->
    snd (dac sm1 p s d x i) = snd (dac sm2 p s d x i).
  Proof.
    intros E. unfold decode_and_claim.
    destruct (decode p x) as [[m|]| |]; try reflexivity.
    destruct (d_pgn m =? CLAIM); cbn [bind].
    - unfold claim_update. rewrite E.
      destruct (zlookup s sm2) as [o|].
      + destruct (i_name o =? x); cbn [bind fst snd].
        * destruct (negb (ascii (d_id m))); reflexivity.
        * destruct (iso_of_fields (d_fields m) x); cbn [bind fst snd]; try reflexivity.
          destruct (negb (ascii (d_id m))); reflexivity.
      + destruct (iso_of_fields (d_fields m) x); cbn [bind fst snd]; try reflexivity.
        destruct (negb (ascii (d_id m))); reflexivity.
    - destruct (negb (ascii (d_id m))); reflexivity.
  Qed.
  Lemma cdec_snd_lookup c sm1 sm2 p s d x i : zlookup s sm1 = zlookup s sm2 ->
    snd (cdec c sm1 p s d x i) = snd (cdec c sm2 p s d x i).
  Proof. intros E. rewrite !cd_snd, (dac_snd_lookup sm1 sm2 p s d x i E). reflexivity. Qed.
  (* C16_single: a single-frame call's result depends only on the configuration, the source-map entry of its
     source and the clock input carried by the call *)
  Theorem c16_single c st1 st2 cl : is_fast (c_pgn cl) = Ok (Some false) ->
    zlookup (c_src cl) (srcmap st1) = zlookup (c_src cl) (srcmap st2) ->
    snd (step c st1 cl) = snd (step c st2 cl).
  Proof.
    intros F E. unfold ctl_step. rewrite (prefilter_lookup c st1 st2 cl E), F.
    destruct (prefilter c st2 cl) as [| |i]; try reflexivity.
    pose proof (cdec_snd_lookup c (srcmap st1) (srcmap st2) (c_pgn cl) (c_src cl) (c_dst cl) (le_int (c_data cl)) i E) as S.
    destruct (cdec c (srcmap st1) (c_pgn cl) (c_src cl) (c_dst cl) (le_int (c_data cl)) i).
    destruct (cdec c (srcmap st2) (c_pgn cl) (c_src cl) (c_dst cl) (le_int (c_data cl)) i).
    exact S.
  Qed.

  (* unknown PGNs, numerically filtered PGNs, withheld or manufacturer-filtered sources: nothing changes *)
  Theorem c16_ignored c st cl :
    prefilter c st cl = PreDrop \/ is_fast (c_pgn cl) = Ok None \/ (exists e, is_fast (c_pgn cl) = Err e) ->
    fst (step c st cl) = st.
  Proof.
    unfold ctl_step. intros [H|[H|[e H]]].
    - rewrite H. reflexivity.
    - destruct (prefilter c st cl); try reflexivity. rewrite H. reflexivity.
    - destruct (prefilter c st cl); try reflexivity. rewrite H. reflexivity.
  Qed.

  Lemma fp_raise st can r : fp_step st can = FpRaise r -> r = match st with Some r => r | None => new_rec end.
  Proof.
    unfold fp_step, finish. destruct can as [|b0 rest]; [intros H; inversion H; reflexivity|].
    repeat match goal with
           | |- (if ?b then _ else _) = _ -> _ => destruct b
           | |- match ?l with [] => _ | _ :: _ => _ end = _ -> _ => destruct l
           end; intros H; inversion H; reflexivity.
  Qed.
  Lemma fp_deliver st can r p : fp_step st can = FpDeliver r p -> plen r <= stored r /\ p = delivered r.
  Proof.
    unfold fp_step, finish. destruct can as [|b0 rest]; [discriminate|].
    repeat match goal with
           | |- (if ?b then _ else _) = _ -> _ => let E := fresh "E" in destruct b eqn:E
           | |- match ?l with [] => _ | _ :: _ => _ end = _ -> _ => destruct l
           end; intros H; inversion H; subst; (split; [apply Z.leb_le; assumption | reflexivity]).
  Qed.

  (* C16_error_neutral: a call that raises leaves the source map alone, leaves every other key's record alone,
     and at its own key leaves the record as it was, or an empty record, or a completed record it kept *)
  Theorem c16_error_neutral c st cl e : snd (step c st cl) = Err e ->
    let st' := fst (step c st cl) in
    srcmap st' = srcmap st /\
    (forall k, k <> key_of cl -> klookup k (reasm st') = klookup k (reasm st)) /\
    (klookup (key_of cl) (reasm st') = klookup (key_of cl) (reasm st) \/
     (klookup (key_of cl) (reasm st) = None /\ klookup (key_of cl) (reasm st') = Some new_rec) \/
     (exists r, klookup (key_of cl) (reasm st') = Some r /\ plen r <= stored r)).
  Proof.
    intros H. cbn zeta. split; [|split].
    - revert H. step_cases c st cl; cbn [fst snd reasm srcmap]; try reflexivity; try discriminate.
      + intros ->. assert (S : snd (cdec c (srcmap st) (c_pgn cl) (c_src cl) (c_dst cl) (le_int p) i) = Err e) by (rewrite CD; reflexivity).
        rewrite cd_snd in S. change sm' with (fst (sm', @Err (option msg) e)). rewrite <- CD, cd_fst.
        destruct (snd (dac (srcmap st) (c_pgn cl) (c_src cl) (c_dst cl) (le_int p) i)) as [[m|]| |] eqn:S'; try discriminate.
        inversion S; subst. apply (dac_err decode _ _ _ _ _ _ _ S').
      + intros ->. assert (S : snd (cdec c (srcmap st) (c_pgn cl) (c_src cl) (c_dst cl) (le_int (c_data cl)) i) = Err e) by (rewrite CD; reflexivity).
        rewrite cd_snd in S. change sm' with (fst (sm', @Err (option msg) e)). rewrite <- CD, cd_fst.
        destruct (snd (dac (srcmap st) (c_pgn cl) (c_src cl) (c_dst cl) (le_int (c_data cl)) i)) as [[m|]| |] eqn:S'; try discriminate.
        inversion S; subst. apply (dac_err decode _ _ _ _ _ _ _ S').
    - intros k N. apply step_frame. exact N.
    - revert H. unfold key_of. step_cases c st cl; cbn [fst snd reasm srcmap]; try (left; reflexivity); try discriminate.
      + intros _. rewrite klookup_kset, key_eqb_refl. apply fp_raise in Fp. subst r.
        destruct (klookup (c_pgn cl, c_src cl, c_dst cl) (reasm st)); [left; reflexivity | right; left; split; reflexivity].
      + intros ->. cbn [is_ok]. rewrite klookup_kset, key_eqb_refl. right. right. exists r. split; [reflexivity|].
        apply fp_deliver in Fp. tauto.
  Qed.

  (* ---- fast-packet probe with a fresh sequence counter ---- *)
  Definition rec_at (st : state) (k : key) : rec := match klookup k (reasm st) with Some r => r | None => new_rec end.
  (* the call is a first frame (frame counter 0, at least the length byte) whose sequence counter differs from
     the one stored for its key *)
  Definition fresh_first (st : state) (cl : call) : Prop :=
    match c_data cl with
    | b0 :: _ :: _ => b0 mod 32 = 0 /\ (b0 / 32) mod 8 <> rseq (rec_at st (key_of cl))
    | _ => False
    end.

  Lemma fp_fresh st b0 total data : b0 mod 32 = 0 ->
    (b0 / 32) mod 8 <> rseq (match st with Some r => r | None => new_rec end) ->
    fp_step st (b0 :: total :: data) =
    finish {| frames := [(0, data)]; plen := total; stored := zlen data; rseq := (b0 / 32) mod 8 |}.
  Proof.
    intros F S. unfold fp_step. rewrite F. cbn [Z.eqb negb andb].
    destruct (Z.eqb_spec ((b0 / 32) mod 8) (rseq match st with Some r => r | None => new_rec end)); [contradiction|].
    reflexivity.
  Qed.

  Hypothesis db_pgn : forall p x m, decode p x = Ok (Some m) -> d_pgn m = p.

  (* two states that agree on the source-map entry of source s and on the record of key k *)
  Definition agree (k : key) (st1 st2 : state) : Prop :=
    zlookup (snd (fst k)) (srcmap st1) = zlookup (snd (fst k)) (srcmap st2) /\
    klookup k (reasm st1) = klookup k (reasm st2).

  Lemma step_agree c st1 st2 cl : c_pgn cl <> CLAIM -> agree (key_of cl) st1 st2 ->
    snd (step c st1 cl) = snd (step c st2 cl) /\ agree (key_of cl) (fst (step c st1 cl)) (fst (step c st2 cl)).
  Proof.
    intros N [Es Ek]. unfold key_of in *. cbn [fst snd] in Es.
    assert (M1 := step_srcmap_nonclaim decode is_fast db_pgn c st1 cl N).
    assert (M2 := step_srcmap_nonclaim decode is_fast db_pgn c st2 cl N).
    assert (G : snd (step c st1 cl) = snd (step c st2 cl) /\
                klookup (c_pgn cl, c_src cl, c_dst cl) (reasm (fst (step c st1 cl))) =
                klookup (c_pgn cl, c_src cl, c_dst cl) (reasm (fst (step c st2 cl)))).
    { unfold ctl_step. rewrite (prefilter_lookup c st1 st2 cl Es).
      destruct (prefilter c st2 cl) as [| |i]; try (split; [reflexivity | exact Ek]).
      destruct (is_fast (c_pgn cl)) as [[[|]|]| |]; try (split; [reflexivity | exact Ek]).
      - rewrite Ek.
        destruct (fp_step (klookup (c_pgn cl, c_src cl, c_dst cl) (reasm st2)) (c_data cl)) as [r|r|r p].
        + cbn [fst snd reasm]. rewrite !klookup_kset, key_eqb_refl. split; reflexivity.
        + cbn [fst snd reasm]. rewrite !klookup_kset, key_eqb_refl. split; reflexivity.
        + pose proof (cdec_snd_lookup c (srcmap st1) (srcmap st2) (c_pgn cl) (c_src cl) (c_dst cl) (le_int p) i Es) as S.
          destruct (cdec c (srcmap st1) (c_pgn cl) (c_src cl) (c_dst cl) (le_int p) i) as [sm1 r1].
          destruct (cdec c (srcmap st2) (c_pgn cl) (c_src cl) (c_dst cl) (le_int p) i) as [sm2 r2].
          cbn [fst snd reasm] in *. subst r2. split; [reflexivity|].
          destruct (is_ok r1); [rewrite !klookup_kremove | rewrite !klookup_kset]; rewrite key_eqb_refl; reflexivity.
      - pose proof (cdec_snd_lookup c (srcmap st1) (srcmap st2) (c_pgn cl) (c_src cl) (c_dst cl) (le_int (c_data cl)) i Es) as S.
        destruct (cdec c (srcmap st1) (c_pgn cl) (c_src cl) (c_dst cl) (le_int (c_data cl)) i) as [sm1 r1].
        destruct (cdec c (srcmap st2) (c_pgn cl) (c_src cl) (c_dst cl) (le_int (c_data cl)) i) as [sm2 r2].
        cbn [fst snd reasm] in *. split; [exact S | exact Ek]. }
    destruct G as [G1 G2]. split; [exact G1|]. split; [|exact G2].
    cbn [fst snd]. rewrite M1, M2. exact Es.
  Qed.

  Lemma run_agree c rest : forall st1 st2 k, Forall (fun cl => key_of cl = k) rest -> fst (fst k) <> CLAIM ->
    agree k st1 st2 -> map snd (run decode is_fast c st1 rest) = map snd (run decode is_fast c st2 rest).
  Proof.
    induction rest as [|cl rest IH]; intros st1 st2 k F N A; [reflexivity|].
    inversion F as [|? ? Hk Hr]; subst. cbn [run map].
    assert (N' : c_pgn cl <> CLAIM) by exact N.
    destruct (step_agree c st1 st2 cl N' A) as [S A'].
    rewrite S. f_equal. apply (IH _ _ (key_of cl)); assumption.
  Qed.

  Lemma prefilter_same_key c st cl cl' : key_of cl' = key_of cl -> c_win cl' = c_win cl ->
    prefilter c st cl' = prefilter c st cl.
  Proof. unfold key_of, prefilter. intros K W. inversion K as [[Kp Ks Kd]]. rewrite Kp, Ks, W. reflexivity. Qed.

  Lemma run_stuck c st o rest : Forall (fun cl => step c st cl = (st, o)) rest ->
    map snd (run decode is_fast c st rest) = map (fun _ => o) rest.
  Proof.
    induction rest as [|cl rest IH]; intros F; [reflexivity|].
    inversion F as [|? ? H Hr]; subst. cbn [run map]. rewrite H. cbn [fst snd]. f_equal. apply IH. exact Hr.
  Qed.

  (* C16_fast_fresh: from the first frame of a fast-packet message with a fresh sequence counter on, the results of
     the calls on that key are the same after ANY two histories that agree on the source-map entry of the source
     (the clock input being the same for the frames of the message) *)
  Theorem c16_fast_fresh c st1 st2 cl rest :
    c_pgn cl <> CLAIM -> is_fast (c_pgn cl) = Ok (Some true) ->
    Forall (fun cl' => key_of cl' = key_of cl /\ c_win cl' = c_win cl) rest ->
    zlookup (c_src cl) (srcmap st1) = zlookup (c_src cl) (srcmap st2) ->
    fresh_first st1 cl -> fresh_first st2 cl ->
    map snd (run decode is_fast c st1 (cl :: rest)) = map snd (run decode is_fast c st2 (cl :: rest)).
  Proof.
    intros N F K Es F1 F2.
    assert (P12 : prefilter c st1 cl = prefilter c st2 cl) by (apply prefilter_lookup; exact Es).
    assert (Stuck : forall o, (forall st, prefilter c st cl = prefilter c st2 cl -> step c st cl = (st, o)) ->
              (forall st cl', prefilter c st cl' = prefilter c st2 cl -> step c st cl' = (st, o)) ->
              map snd (run decode is_fast c st1 (cl :: rest)) = map snd (run decode is_fast c st2 (cl :: rest))).
    { intros o H0 H. 
      assert (R : forall st, prefilter c st cl = prefilter c st2 cl ->
                   map snd (run decode is_fast c st (cl :: rest)) = map (fun _ => o) (cl :: rest)).
      { intros st Hp. apply run_stuck. constructor; [apply H0; exact Hp|].
        eapply Forall_impl; [|exact K]. intros cl' [Kk Kw]. apply H.
        rewrite (prefilter_same_key c st cl cl' Kk Kw). exact Hp. }
      rewrite (R st1 P12), (R st2 eq_refl). reflexivity. }
    destruct (prefilter c st2 cl) as [| |i] eqn:Pre.
    - apply (Stuck (Ok None)); intros; unfold ctl_step; rewrite H; reflexivity.
    - apply (Stuck Unmodelled); intros; unfold ctl_step; rewrite H; reflexivity.
    - clear Stuck. cbn [run map].
      assert (M1 := step_srcmap_nonclaim decode is_fast db_pgn c st1 cl N).
      assert (M2 := step_srcmap_nonclaim decode is_fast db_pgn c st2 cl N).
      assert (G : snd (step c st1 cl) = snd (step c st2 cl) /\
                  klookup (key_of cl) (reasm (fst (step c st1 cl))) = klookup (key_of cl) (reasm (fst (step c st2 cl)))).
      { unfold fresh_first, rec_at, key_of in *. unfold ctl_step. rewrite P12, Pre, F.
        destruct (c_data cl) as [|b0 [|total data]]; try contradiction.
        destruct F1 as [Z1 S1]. destruct F2 as [_ S2].
        rewrite (fp_fresh _ b0 total data Z1 S1), (fp_fresh _ b0 total data Z1 S2).
        destruct (finish _) as [r|r|r p].
        + cbn [fst snd reasm]. rewrite !klookup_kset, key_eqb_refl. split; reflexivity.
        + cbn [fst snd reasm]. rewrite !klookup_kset, key_eqb_refl. split; reflexivity.
        + pose proof (cdec_snd_lookup c (srcmap st1) (srcmap st2) (c_pgn cl) (c_src cl) (c_dst cl) (le_int p) i Es) as S.
          destruct (cdec c (srcmap st1) (c_pgn cl) (c_src cl) (c_dst cl) (le_int p) i) as [sm1 r1].
          destruct (cdec c (srcmap st2) (c_pgn cl) (c_src cl) (c_dst cl) (le_int p) i) as [sm2 r2].
          cbn [fst snd reasm] in *. subst r2. split; [reflexivity|].
          destruct (is_ok r1); [rewrite !klookup_kremove | rewrite !klookup_kset]; rewrite key_eqb_refl; reflexivity. }
      destruct G as [G1 G2]. rewrite G1. f_equal.
      apply (run_agree c rest _ _ (key_of cl)).
      + eapply Forall_impl; [|exact K]. intros cl' [Kk _]. exact Kk.
      + exact N.
      + split; [|exact G2]. unfold key_of. cbn [fst snd]. rewrite M1, M2. exact Es.
  Qed.

  (* a decoder without any reassembly record is fresh for every first frame *)
  Lemma fresh_first_new st cl b0 total data : c_data cl = b0 :: total :: data -> b0 mod 32 = 0 ->
    klookup (key_of cl) (reasm st) = None -> fresh_first st cl.
  Proof.
    intros D Z0 L. unfold fresh_first, rec_at. rewrite D, L. split; [exact Z0|]. cbn [rseq new_rec].
    pose proof (Z.mod_pos_bound (b0 / 32) 8). lia.
  Qed.
End C16.

(* ------------------------------------------------------------------ closed statements used by props/C10.v, C11.v, C16.v *)
Definition db_pgn_ok (decode : Z -> Z -> result (option dmsg)) : Prop :=
  forall p x m, decode p x = Ok (Some m) -> d_pgn m = p.
Definition db_claim_id_ok (decode : Z -> Z -> result (option dmsg)) : Prop :=
  forall p x m, decode p x = Ok (Some m) -> (p = CLAIM <-> lower (d_id m) = lower claim_id).

Theorem c10_main : forall decode is_fast, db_pgn_ok decode -> db_claim_id_ok decode ->
  forall ex inc exm incm nm cF cU,
  mk_cfg ex inc exm incm nm = Ok cF -> mk_cfg [] [] exm incm nm = Ok cU ->
  forall h,
  outs (run decode is_fast cF init h) = map (restrict (permitted ex inc)) (outs (run decode is_fast cU init h)) /\
  maps (run decode is_fast cF init h) = maps (run decode is_fast cU init h).
Proof.
  intros decode is_fast H1 H2 ex inc exm incm nm cF cU HF HU h.
  apply (c10_sim decode is_fast H1 H2 ex inc exm incm nm cF cU HF HU h init init). apply sim_init.
Qed.

(* a concrete database for the non-vacuity examples *)
Definition s_rudder : str := [114;117;100;100;101;114].
Definition s_RUDDER : str := [82;85;68;68;69;82].
Definition s_heading : str := [118;101;115;115;101;108;72;101;97;100;105;110;103].
Definition s_Garmin : str := [71;97;114;109;105;110].
Definition s_GARMIN : str := [71;65;82;77;73;78].
Definition ex_fields (mfr : fval) : list (str * fval) :=
  [(s_uniqueNumber, FInt 7); (s_manufacturerCode, mfr); (s_deviceInstanceLower, FInt 1); (s_deviceInstanceUpper, FInt 2);
   (s_deviceFunction, FNone); (s_deviceClass, FNone); (s_systemInstance, FInt 0); (s_industryGroup, FNone);
   (s_arbitraryAddressCapable, FStr s_Yes)].
Definition ex_decode (p x : Z) : result (option dmsg) :=
  if p =? 127245 then (if x =? 0 then Err ERange else Ok (Some (Build_dmsg 127245 s_rudder [] x)))
  else if p =? 127250 then Ok (Some (Build_dmsg 127250 s_heading [] x))
  else if p =? 129029 then Ok (Some (Build_dmsg 129029 s_heading [] x))
  else if p =? CLAIM then (if x =? 99 then Err ERange
                           else Ok (Some (Build_dmsg CLAIM claim_id (ex_fields (if x <? 50 then FStr s_Garmin else FNone)) x)))
  else Ok None.
Definition ex_fast (p : Z) : result (option bool) :=
  if p =? 129029 then Ok (Some true) else if p =? 5 then Ok None else Ok (Some false).

Lemma ex_db_pgn : db_pgn_ok ex_decode.
Proof.
  intros p x m. unfold ex_decode.
  destruct (Z.eqb_spec p 127245); [destruct (x =? 0); intros H; inversion H; subst; reflexivity|].
  destruct (Z.eqb_spec p 127250); [intros H; inversion H; subst; reflexivity|].
  destruct (Z.eqb_spec p 129029); [intros H; inversion H; subst; reflexivity|].
  destruct (Z.eqb_spec p CLAIM); [destruct (x =? 99); intros H; inversion H; subst; reflexivity|].
  discriminate.
Qed.
Lemma ex_db_claim_id : db_claim_id_ok ex_decode.
Proof.
  intros p x m. unfold ex_decode.
  destruct (Z.eqb_spec p 127245); [destruct (x =? 0); intros H; inversion H; subst; split; [discriminate | vm_compute; discriminate]|].
  destruct (Z.eqb_spec p 127250); [intros H; inversion H; subst; split; [discriminate | vm_compute; discriminate]|].
  destruct (Z.eqb_spec p 129029); [intros H; inversion H; subst; split; [discriminate | vm_compute; discriminate]|].
  destruct (Z.eqb_spec p CLAIM); [destruct (x =? 99); intros H; inversion H; subst; split; reflexivity|].
  discriminate.
Qed.
Lemma ex_fast_claim : ex_fast CLAIM = Ok (Some false).
Proof. reflexivity. Qed.

(* ------------------------------------------------------------------ C16: determinism and the product of instances *)
Theorem c16_deterministic : forall decode is_fast c h1 h2, h1 = h2 ->
  run decode is_fast c init h1 = run decode is_fast c init h2.
Proof. intros. subst. reflexivity. Qed.

Section Product.
  Variable decode : Z -> Z -> result (option dmsg).
  Variable is_fast : Z -> result (option bool).
  (* several decoders alive at once, each with its own configuration and state; a call goes to decoder j *)
  Fixpoint sys_step (s : list (cfg * state)) (j : nat) (cl : call) : list (cfg * state) * result (option msg) :=
    match s, j with
    | [], _ => ([], Ok None)
    | (c, st) :: t, O => let so := ctl_step decode is_fast c st cl in ((c, fst so) :: t, snd so)
    | x :: t, S j' => let r := sys_step t j' cl in (x :: fst r, snd r)
    end.
  Fixpoint sys_run (s : list (cfg * state)) (h : list (nat * call)) : list (nat * result (option msg)) :=
    match h with
    | [] => []
    | (j, cl) :: t => let r := sys_step s j cl in (j, snd r) :: sys_run (fst r) t
    end.
  Definition proj {A} (j : nat) (l : list (nat * A)) : list A := map snd (filter (fun x => Nat.eqb (fst x) j) l).

  Lemma sys_step_same s : forall j cl c st, nth_error s j = Some (c, st) ->
    snd (sys_step s j cl) = snd (ctl_step decode is_fast c st cl) /\
    nth_error (fst (sys_step s j cl)) j = Some (c, fst (ctl_step decode is_fast c st cl)).
  Proof.
    induction s as [|[c0 st0] t IH]; intros j cl c st H; destruct j; simpl in *; try discriminate.
    - inversion H; subst. split; reflexivity.
    - apply IH. exact H.
  Qed.
  Lemma sys_step_other s : forall i j cl, i <> j -> nth_error (fst (sys_step s i cl)) j = nth_error s j.
  Proof.
    induction s as [|[c0 st0] t IH]; intros i j cl N; destruct i; simpl; try reflexivity.
    - destruct j; [contradiction | reflexivity].
    - destruct j; [reflexivity|]. simpl. apply IH. intros E. apply N. congruence.
  Qed.

  (* what decoder j returns in the system is what it returns alone on the calls addressed to it *)
  Theorem c16_product : forall h s j c st, nth_error s j = Some (c, st) ->
    proj j (sys_run s h) = map snd (run decode is_fast c st (proj j h)).
  Proof.
    unfold proj. induction h as [|[i cl] h IH]; intros s j c st H; [reflexivity|].
    cbn [sys_run filter fst]. destruct (Nat.eqb_spec i j) as [->|N].
    - destruct (sys_step_same s j cl c st H) as [A B].
      cbn [map snd run]. rewrite A. f_equal. apply IH. exact B.
    - apply IH. rewrite sys_step_other by exact N. exact H.
  Qed.
End Product.

(* ------------------------------------------------------------------ C16: an in-order fast-packet message on a fresh key returns
   exactly the decode of its payload (in-order special case of DESIGN Appendix C, on this file's copy of fp_step) *)
Fixpoint number (k : Z) (ds : list (list Z)) : list fr :=
  match ds with [] => [] | d :: t => (k, d) :: number (k + 1) t end.
Definition total_len (ds : list (list Z)) : Z := fold_right (fun d a => zlen d + a) 0 ds.

Lemma has_number k k0 ds : k < k0 \/ k0 + zlen ds <= k -> has k (number k0 ds) = false.
Proof.
  revert k0. induction ds as [|d t IH]; intros k0 H; [reflexivity|]. cbn [number has].
  unfold zlen in *. cbn [length] in H. rewrite Nat2Z.inj_succ in H.
  destruct (Z.eqb_spec k k0); [lia|]. cbn [orb]. apply IH. lia.
Qed.
Lemma ins_number k0 ds d : ins (k0 + zlen ds) d (number k0 ds) = number k0 (ds ++ [d]).
Proof.
  revert k0. induction ds as [|d' t IH]; intros k0; cbn [number ins app].
  - unfold zlen. cbn [length]. rewrite Z.add_0_r. reflexivity.
  - unfold zlen in *. cbn [length]. rewrite Nat2Z.inj_succ.
    destruct (Z.ltb_spec (k0 + Z.succ (Z.of_nat (length t))) k0); [lia|].
    f_equal. replace (k0 + Z.succ (Z.of_nat (length t))) with (k0 + 1 + Z.of_nat (length t)) by lia. apply IH.
Qed.
Lemma payload_number k0 ds : payload_of (number k0 ds) = concat ds.
Proof. revert k0. unfold payload_of. induction ds as [|d t IH]; intros k0; [reflexivity|]. cbn [number map concat snd]. rewrite IH. reflexivity. Qed.
Lemma total_len_app2 a b : total_len (a ++ b) = total_len a + total_len b.
Proof.
  induction a as [|x t IH]; [reflexivity|].
  unfold total_len in *. cbn [app fold_right]. rewrite IH. lia.
Qed.
Lemma total_len_app ds d : total_len (ds ++ [d]) = total_len ds + zlen d.
Proof. rewrite total_len_app2. cbn [total_len fold_right]. lia. Qed.
Lemma total_len_nonneg ds : 0 <= total_len ds.
Proof. induction ds as [|x t IH]; cbn [total_len fold_right]; [lia | fold (total_len t); unfold zlen; lia]. Qed.

Lemma hdr_own s k : 0 <= s < 8 -> 0 <= k < 32 -> ((s * 32 + k) / 32) mod 8 = s /\ (s * 32 + k) mod 32 = k.
Proof.
  intros. split.
  - replace (s * 32 + k) with (k + s * 32) by ring. rewrite Z.div_add by lia. rewrite Z.div_small by lia.
    rewrite Z.add_0_l. apply Z.mod_small; lia.
  - replace (s * 32 + k) with (k + s * 32) by ring. rewrite Z.mod_add by lia. apply Z.mod_small; lia.
Qed.

(* a record that holds frames 0..n-1 of the message, in order *)
Definition rec_of (sq total : Z) (ds : list (list Z)) : rec :=
  {| frames := number 0 ds; plen := total; stored := total_len ds; rseq := sq |}.

(* a later frame, in order, on such a record *)
Lemma fp_next sq total ds d : 0 <= sq < 8 -> 0 < zlen ds < 32 -> total_len ds < total ->
  fp_step (Some (rec_of sq total ds)) ((sq * 32 + zlen ds) :: d) = finish (rec_of sq total (ds ++ [d])).
Proof.
  intros Hs Hk Hlt. unfold fp_step. destruct (hdr_own sq (zlen ds) Hs) as [E1 E2]; [lia|]. rewrite E1, E2.
  cbn [rec_of plen rseq frames stored].
  destruct (Z.eqb_spec (zlen ds) 0); [lia|]. cbn [negb andb].
  pose proof (total_len_nonneg ds). destruct (Z.eqb_spec total 0); [lia|].
  rewrite Z.eqb_refl. cbn [negb].
  rewrite has_number by lia.
  replace (zlen ds) with (0 + zlen ds) at 1 by lia. rewrite ins_number.
  unfold rec_of. rewrite total_len_app. reflexivity.
Qed.
(* the first frame on a fresh key *)
Lemma fp_first st sq total d0 : 0 <= sq < 8 -> sq <> rseq (match st with Some r => r | None => new_rec end) ->
  fp_step st ((sq * 32) :: total :: d0) = finish (rec_of sq total [d0]).
Proof.
  intros Hs Hf. destruct (hdr_own sq 0 Hs) as [E1 E2]; [lia|]. rewrite Z.add_0_r in E1, E2.
  rewrite (fp_fresh st (sq * 32) total d0 E2) by (rewrite E1; exact Hf).
  rewrite E1. unfold rec_of. cbn [number total_len fold_right]. rewrite Z.add_0_r. reflexivity.
Qed.
Lemma finish_pending sq total ds : total_len ds < total -> finish (rec_of sq total ds) = FpNothing (rec_of sq total ds).
Proof. intros H. unfold finish. cbn [rec_of plen stored]. destruct (Z.leb_spec total (total_len ds)); [lia | reflexivity]. Qed.
Lemma finish_complete sq total ds : total <= total_len ds ->
  finish (rec_of sq total ds) = FpDeliver (rec_of sq total ds) (firstn (Z.to_nat total) (concat ds)).
Proof.
  intros H. unfold finish, delivered. cbn [rec_of plen stored frames].
  destruct (Z.leb_spec total (total_len ds)); [|lia]. rewrite payload_number. reflexivity.
Qed.

Section InOrder.
  Variable decode : Z -> Z -> result (option dmsg).
  Variable is_fast : Z -> result (option bool).
  Notation step := (ctl_step decode is_fast).
  Notation cdec := (call_decode decode).

  (* the calls of one message: key (p,s,d), constant clock input *)
  Definition mk_call (p s d : Z) (w : bool) (data : list Z) : call :=
    {| c_pgn := p; c_src := s; c_dst := d; c_data := data; c_win := w |}.
  Fixpoint later_calls (p s d : Z) (w : bool) (sq k : Z) (ds : list (list Z)) : list call :=
    match ds with [] => [] | x :: t => mk_call p s d w ((sq * 32 + k) :: x) :: later_calls p s d w sq (k + 1) t end.

  Lemma inorder_rest c p s d w i sq total : p <> CLAIM -> is_fast p = Ok (Some true) -> 0 <= sq < 8 ->
    forall rest seen st, 0 < zlen seen -> zlen seen + zlen rest <= 32 ->
    klookup (p, s, d) (reasm st) = Some (rec_of sq total seen) ->
    prefilter c st (mk_call p s d w []) = PreGo i ->
    total_len seen < total ->
    total_len (seen ++ removelast rest) < total ->
    rest <> [] -> total <= total_len (seen ++ rest) ->
    map snd (run decode is_fast c st (later_calls p s d w sq (zlen seen) rest)) =
    map (fun _ => Ok None) (removelast rest) ++
      [snd (cdec c (srcmap st) p s d (le_int (firstn (Z.to_nat total) (concat (seen ++ rest)))) i)].
  Proof.
    intros Np Hf Hs. induction rest as [|x rest IH]; intros seen st Hseen Hlen Hrec Hpre Hlt Hmid Hne Htot; [contradiction|].
    cbn [later_calls run map].
    assert (Pre : prefilter c st (mk_call p s d w ((sq * 32 + zlen seen) :: x)) = PreGo i).
    { rewrite <- Hpre. apply prefilter_same_key; reflexivity. }
    assert (Hseen32 : 0 < zlen seen < 32).
    { unfold zlen in *. cbn [length] in Hlen. lia. }
    unfold ctl_step at 1 2. rewrite Pre. cbn [mk_call c_pgn c_src c_dst c_data]. rewrite Hf, Hrec.
    rewrite (fp_next sq total seen x Hs Hseen32 Hlt).
    destruct rest as [|y rest'].
    - (* last frame: delivery *)
      rewrite finish_complete by exact Htot.
      destruct (cdec c (srcmap st) p s d (le_int (firstn (Z.to_nat total) (concat (seen ++ [x])))) i) as [sm' res] eqn:CD.
      cbn [snd fst later_calls run map removelast app]. reflexivity.
    - (* a middle frame: stored, nothing returned *)
      assert (Hm : total_len (seen ++ [x]) < total).
      { change (removelast (x :: y :: rest')) with (x :: removelast (y :: rest')) in Hmid.
        rewrite total_len_app2 in Hmid. cbn [total_len fold_right] in Hmid. fold (total_len (removelast (y :: rest'))) in Hmid.
        pose proof (total_len_nonneg (removelast (y :: rest'))). rewrite total_len_app. lia. }
      rewrite finish_pending by exact Hm. cbn [snd fst].
      change (removelast (x :: y :: rest')) with (x :: removelast (y :: rest')). cbn [map app]. f_equal.
      set (st' := {| reasm := kset (p, s, d) (rec_of sq total (seen ++ [x])) (reasm st); srcmap := srcmap st |}).
      replace (zlen seen + 1) with (zlen (seen ++ [x])) by (unfold zlen; rewrite app_length; cbn [length]; lia).
      replace (seen ++ x :: y :: rest') with ((seen ++ [x]) ++ y :: rest') by (rewrite <- app_assoc; reflexivity).
      change (srcmap st) with (srcmap st').
      apply IH.
      + unfold zlen. rewrite app_length. cbn [length]. lia.
      + unfold zlen in *. rewrite app_length. cbn [length] in *. lia.
      + unfold st'. cbn [reasm]. rewrite klookup_kset, key_eqb_refl. reflexivity.
      + rewrite <- Hpre. unfold prefilter. reflexivity.
      + exact Hm.
      + rewrite <- app_assoc. exact Hmid.
      + discriminate.
      + rewrite <- app_assoc. exact Htot.
  Qed.
End InOrder.

Section InOrder2.
  Variable decode : Z -> Z -> result (option dmsg).
  Variable is_fast : Z -> result (option bool).
  Notation cdec := (call_decode decode).

  (* C16_fast_inorder: a complete in-order fast-packet message (first frame: counter, announced length, data d0;
     then frames 1..n with data `rest`, the last one possibly padded) whose sequence counter differs from the one
     stored for its key returns nothing until the last frame and then exactly the decode of its payload — the
     announced number of bytes of the concatenated data — whatever the history was *)
  Theorem c16_fast_inorder c st p s d w i sq total d0 rest :
    p <> CLAIM -> is_fast p = Ok (Some true) -> 0 <= sq < 8 ->
    sq <> rseq (rec_at st (p, s, d)) ->
    prefilter c st (mk_call p s d w []) = PreGo i ->
    zlen rest < 31 ->
    (rest <> [] -> total_len (d0 :: removelast rest) < total) ->
    total <= total_len (d0 :: rest) ->
    map snd (run decode is_fast c st
               (mk_call p s d w ((sq * 32) :: total :: d0) :: later_calls p s d w sq 1 rest)) =
    map (fun _ => Ok None) (removelast (d0 :: rest)) ++
      [snd (cdec c (srcmap st) p s d (le_int (firstn (Z.to_nat total) (concat (d0 :: rest)))) i)].
  Proof.
    intros Np Hf Hs Hfresh Hpre Hlen Hmid Htot.
    cbn [run map].
    assert (Pre : prefilter c st (mk_call p s d w ((sq * 32) :: total :: d0)) = PreGo i).
    { rewrite <- Hpre. apply prefilter_same_key; reflexivity. }
    unfold ctl_step at 1 2. rewrite Pre. cbn [mk_call c_pgn c_src c_dst c_data]. rewrite Hf.
    unfold rec_at in Hfresh. rewrite (fp_first _ sq total d0 Hs Hfresh).
    destruct rest as [|x rest'].
    - rewrite finish_complete by exact Htot.
      destruct (cdec c (srcmap st) p s d (le_int (firstn (Z.to_nat total) (concat [d0]))) i) as [sm' res].
      reflexivity.
    - assert (Hm : total_len [d0] < total).
      { assert (Hn : x :: rest' <> []) by discriminate. specialize (Hmid Hn).
        change (d0 :: removelast (x :: rest')) with ([d0] ++ removelast (x :: rest')) in Hmid.
        rewrite total_len_app2 in Hmid. pose proof (total_len_nonneg (removelast (x :: rest'))). lia. }
      rewrite finish_pending by exact Hm. cbn [snd fst].
      change (removelast (d0 :: x :: rest')) with (d0 :: removelast (x :: rest')). cbn [map app]. f_equal.
      set (st' := {| reasm := kset (p, s, d) (rec_of sq total [d0]) (reasm st); srcmap := srcmap st |}).
      change 1 with (zlen [d0]). change (d0 :: x :: rest') with ([d0] ++ x :: rest').
      change (srcmap st) with (srcmap st').
      apply (inorder_rest decode is_fast c p s d w i sq total Np Hf Hs (x :: rest') [d0] st').
      + reflexivity.
      + unfold zlen in *. cbn [length] in *. lia.
      + unfold st'. cbn [reasm]. rewrite klookup_kset, key_eqb_refl. reflexivity.
      + rewrite <- Hpre. unfold prefilter. reflexivity.
      + exact Hm.
      + apply Hmid. discriminate.
      + discriminate.
      + exact Htot.
  Qed.
End InOrder2.
