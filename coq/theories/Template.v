(* Template.v — a Gallina rendering of what python.PGNs.j2 is meant to produce from a database
   definition (DESIGN §3.2). Not trusted: SpecProofs.v proves that running these steps equals the
   declarative specification; the per-run obligation (tools/templates/OblC01.v) checks by kernel
   computation that the steps translated from pgns.py ARE these steps, for all definitions. *)
From NV Require Import Base Defn Dispatch.
From Coq Require Import String Ascii.

(* ---- strings as Z numerals ---- *)
Definition str_of_bytes (b : list Z) : str := fold_left (fun acc x => acc * 256 + x) b 1.
Definition zs (x : string) : str :=
  str_of_bytes (map (fun c => Z.of_nat (nat_of_ascii c)) (list_ascii_of_string x)).
Fixpoint dec_digits (fuel : nat) (n : Z) (acc : list Z) : list Z :=
  match fuel with
  | O => acc
  | S f => let acc' := (48 + n mod 10) :: acc in if n <? 10 then acc' else dec_digits f (n / 10) acc'
  end.
Definition dec_bytes (n : Z) : list Z := dec_digits 40 n [].     (* non-negative n *)
Definition reserved_prefix : list Z := [114; 101; 115; 101; 114; 118; 101; 100; 95].   (* "reserved_" *)
(* generate_field_id: a RESERVED field is named reserved_<BitOffset> (empty when undefined) *)
Definition field_id (f : dbfield) : str :=
  if f_type f =? zs "RESERVED"
  then str_of_bytes (reserved_prefix ++ match f_bitoff f with Some o => dec_bytes o | None => [] end)
  else f_id f.

Definition T_NUMBER := zs "NUMBER". Definition T_MMSI := zs "MMSI". Definition T_PGN := zs "PGN".
Definition T_DURATION := zs "DURATION". Definition T_LOOKUP := zs "LOOKUP". Definition T_BITLOOKUP := zs "BITLOOKUP".
Definition T_STRING_FIX := zs "STRING_FIX". Definition T_STRING_LZ := zs "STRING_LZ".
Definition T_STRING_LAU := zs "STRING_LAU". Definition T_FLOAT := zs "FLOAT". Definition T_TIME := zs "TIME".
Definition T_DATE := zs "DATE". Definition T_RESERVED := zs "RESERVED". Definition T_SPARE := zs "SPARE".
Definition T_INDIRECT := zs "INDIRECT_LOOKUP". Definition T_BINARY := zs "BINARY".

Definition is_t (f : dbfield) (t : str) : bool := f_type f =? t.
Definition is_numberlike (f : dbfield) : bool :=
  is_t f T_NUMBER || is_t f T_MMSI || is_t f T_PGN || is_t f T_DURATION.

(* the jinja namespace ns_fields (set by an INDIRECT_LOOKUP field, read by later fields) *)
Record ns := mkNs { ns_orig : option Z; ns_order : option Z; ns_tbl : option str }.
Definition ns0 := mkNs None None None.

(* the statements before the append, or None where the template cannot render the field *)
Definition body_steps (f : dbfield) : option (list dstep) :=
  if is_numberlike f then
    match f_bitlen f, f_res f, f_min f, f_max f with
    | Some l, Some r, Some mn, Some mx => Some [SNumber true l (f_signed f) r mn mx]
    | _, _, _, _ => None
    end
  else if is_t f T_LOOKUP then
    match f_bitlen f, f_lookup f with Some l, Some t => Some [SInt false l; SLookup t] | _, _ => None end
  else if is_t f T_BITLOOKUP then
    match f_bitlen f, f_bitlookup f with Some l, Some t => Some [SInt false l; SBitLookup t] | _, _ => None end
  else if is_t f T_STRING_FIX then
    match f_bitlen f with Some l => Some [SStrFix l] | None => None end
  else if is_t f T_STRING_LZ then Some [SStrLz]
  else if is_t f T_STRING_LAU then Some [SStrLau; SCopyRaw; SAddSkip]
  else if is_t f T_FLOAT then
    match f_bitlen f, f_min f, f_max f with Some l, Some mn, Some mx => Some [SFloat l mn mx] | _, _, _ => None end
  else if is_t f T_TIME then
    match f_bitlen f, f_res f, f_min f, f_max f with
    | Some l, Some r, Some mn, Some mx => Some [SNumber false l (f_signed f) r mn mx; STime]
    | _, _, _, _ => None
    end
  else if is_t f T_DATE then
    match f_bitlen f, f_res f, f_min f, f_max f with
    | Some l, Some r, Some mn, Some mx => Some [SNumber false l (f_signed f) r mn mx; SDate]
    | _, _, _, _ => None
    end
  else if is_t f T_RESERVED || is_t f T_SPARE then
    match f_bitlen f with Some l => Some [SInt true l] | None => None end
  else if is_t f T_INDIRECT then
    match f_bitlen f with Some l => Some [SInt false l; STempVal] | None => None end
  else if is_t f T_BINARY then
    match f_bitlen f, f_bitlenfield f with
    | Some l, _ => Some [SBinary l]
    | None, Some k => Some [SAssertIsInt (Z.to_nat (k - 1)); SBinaryVar (Z.to_nat (k - 1))]
    | None, None => None
    end
  else Some [SRaise].

Definition append_step (f : dbfield) : dstep :=
  SAppend (field_id f) (f_name f) (f_descr f) (f_unit f) (f_pq f) (f_type f)
          (match f_pk f with Some b => b | None => false end).

(* steps for one field; the bool says "stop here" (an unconditional raise) *)
Definition field_steps (f : dbfield) (n : ns) : option (list dstep * ns * bool) :=
  let pre := match f_bitoff f with Some o => [SSetOff o] | None => [] end in
  match body_steps f with
  | None => None
  | Some [SRaise] => Some (pre ++ [SRaise], n, true)
  | Some body =>
      let n' := if is_t f T_INDIRECT
                then mkNs (Some (f_order f)) (f_indirect_order f) (f_indirect f) else n in
      let post := [append_step f]
                  ++ (match f_bitlen f with Some l => [SAddOff l] | None => [] end)
                  ++ (match ns_order n', ns_orig n', ns_tbl n' with
                      | Some o, Some orig, Some t =>
                          if o =? f_order f
                          then [SIndirect t (Z.to_nat (orig - 1)) (Z.to_nat (orig - 1))] else []
                      | _, _, _ => []
                      end) in
      Some (pre ++ body ++ post, n', false)
  end.

Fixpoint fields_steps (fs : list dbfield) (n : ns) : option (list dstep) :=
  match fs with
  | [] => Some []
  | f :: t =>
      match field_steps f n with
      | None => None
      | Some (s, n', stop) =>
          if stop then Some s
          else match fields_steps t n' with Some r => Some (s ++ r) | None => None end
      end
  end.

Definition ddef_of_db (d : dbdef) : option ddef :=
  match fields_steps (d_fields d) ns0 with
  | Some s => Some (mkD (d_pgn d) (d_id d) (d_descr d) (d_interval d) (SSetOff 0 :: s))
  | None => None
  end.

Definition ddef_eqb (a b : ddef) : bool :=
  (c_pgn a =? c_pgn b) && (c_id a =? c_id b) && (c_descr a =? c_descr b) && oz_eqb (c_ttl a) (c_ttl b)
  && list_eqb dstep_eqb (c_steps a) (c_steps b).

(* the name of the function the template gives a definition, within its PGN group *)
Definition fname_of (g : list dbdef) (d : dbdef) : fname :=
  if is_dispatched g then (d_pgn d, Some (d_id d)) else (d_pgn d, None).

(* the definitions of a group that own a bound function: all of them when the group is dispatched,
   otherwise only the last one (a later def of the same name replaces the earlier ones) *)
Definition bound_defs (g : list dbdef) : list dbdef :=
  if is_dispatched g then g else match rev g with d :: _ => [d] | [] => [] end.

Section Tables.
  Variable code_dec : list (fname * ddef).
  Definition def_ok (g : list dbdef) (d : dbdef) : bool :=
    match find_fname (fname_of g d) code_dec, ddef_of_db d with
    | Some cd, Some td => ddef_eqb cd td
    | _, _ => false
    end.
  Definition group_defs_ok (g : list dbdef) : bool := forallb (def_ok g) (bound_defs g).
  (* and no decode function without a database definition *)
  Definition no_stray (gs : list (list dbdef)) : bool :=
    forallb (fun e => existsb (fun g => existsb (fun d => fname_eqb (fname_of g d) (fst e)) (bound_defs g)) gs) code_dec.
End Tables.

(* ---- lookup tables: the database lists under Python's dict-literal semantics
        (a later duplicate key replaces the value and keeps the first position) ---- *)
Fixpoint dict_set {K V} (eqb : K -> K -> bool) (k : K) (v : V) (l : list (K * V)) : list (K * V) :=
  match l with
  | [] => [(k, v)]
  | (k', v') :: t => if eqb k' k then (k', v) :: t else (k', v') :: dict_set eqb k v t
  end.
Definition dict_of {K V} (eqb : K -> K -> bool) (l : list (K * V)) : list (K * V) :=
  fold_left (fun acc kv => dict_set eqb (fst kv) (snd kv) acc) l [].
Definition zz_eqb (a b : Z * Z) : bool := (fst a =? fst b) && (snd a =? snd b).
Definition norm_lookups (l : list (str * list (Z * str))) : list (str * list (Z * str)) :=
  dict_of Z.eqb (map (fun e => (fst e, dict_of Z.eqb (snd e))) l).
Definition norm_ilookups (l : list (str * list ((Z * Z) * str))) : list (str * list ((Z * Z) * str)) :=
  dict_of Z.eqb (map (fun e => (fst e, dict_of zz_eqb (snd e))) l).
