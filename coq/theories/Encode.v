(* Encode.v — models of utils.encode_number / encode_float / encode_date / encode_time
   (utils.py:114-124, 149-162, 225-238, 273-313) and the interpreter of the encoder step language
   of Defn.v (what a generated encode_pgn_* function does). *)
From NV Require Import Base Bits Defn PyNum Fields Template.
From Coq Require Import PrimFloat SpecFloat FloatOps.

(* Python's round(x) for a float: round half to even, to an int *)
Definition py_round (f : float) : result Z :=
  match float_me f with
  | None => Err EOther                       (* ValueError (nan) / OverflowError (inf) *)
  | Some (m, e) =>
      if 0 <=? e then Ok (m * 2 ^ e)
      else let d := 2 ^ (- e) in
           let a := Z.abs m in
           let q := a / d in
           let r := a mod d in
           let h := d / 2 in
           let n := if r <? h then q else if h <? r then q + 1 else (if Z.even q then q else q + 1) in
           Ok (if m <? 0 then - n else n)
  end.

Definition na_pattern (len : Z) (signed : bool) : Z :=
  if len <=? 3 then Z.shiftl 1 len - 1
  else if signed then Z.shiftl 1 (len - 1) - 1 else Z.shiftl 1 len - 1.

(* utils.encode_number on an int/float value *)
Definition encode_num (v : pynum) (len : Z) (signed : bool) (res : pynum) : result Z :=
  do q <- py_div v res;
  do n <- (match q with PF f => py_round f | PI z => Ok z end);
  let lo := if signed then - Z.shiftl 1 (len - 1) else 0 in
  let hi := if signed then Z.shiftl 1 (len - 1) - 2 else Z.shiftl 1 len - 2 in
  if (lo <=? n) && (n <=? hi) then Ok (if signed && (n <? 0) then Z.shiftl 1 len + n else n)
  else Err ERange.

(* encode_number(value, ...) for an arbitrary field value: None -> the not-available pattern;
   a non-number makes `value / resolution` raise TypeError *)
Definition encode_number (v : value) (len : Z) (signed : bool) (res : pynum) : result Z :=
  match v with
  | VNone => Ok (na_pattern len signed)
  | VInt z => encode_num (PI z) len signed res
  | VFloat f => encode_num (PF f) len signed res
  | _ => Err EOther
  end.

(* struct.pack('<f', x) as an unsigned 32-bit integer; exactly representable doubles only *)
Definition bits32_of_float (f : float) : result Z :=
  match Prim2SF f with
  | S754_zero s => Ok (if s then 2 ^ 31 else 0)
  | S754_infinity s => Ok ((if s then 2 ^ 31 else 0) + 255 * 2 ^ 23)
  | S754_nan => Unmodelled                 (* the NaN payload and sign are not represented in PrimFloat *)
  | S754_finite s m e =>
      let sg := if s then 2 ^ 31 else 0 in
      let m0 := Z.pos m in
      (* strip trailing zero bits *)
      let tz := Z.log2 (Z.land m0 (- m0)) in
      let m' := m0 / 2 ^ tz in
      let e' := e + tz in
      let bl := Z.log2 m' + 1 in
      let ex := e' + bl - 1 in                  (* exponent of the leading bit *)
      if 127 <? ex then Err EOther              (* OverflowError: float too large to pack with f format *)
      else if -126 <=? ex then
        if bl <=? 24 then Ok (sg + (ex + 127) * 2 ^ 23 + (m' * 2 ^ (24 - bl) - 2 ^ 23)) else Unmodelled
      else if -149 <=? e' then Ok (sg + m' * 2 ^ (e' + 149)) else Unmodelled
  end.
Definition encode_float (v : value) : result Z :=
  match v with
  | VNone => Err EOther                         (* ValueError("Cannot encode None as a float") *)
  | VFloat f => bits32_of_float f
  | VInt z => do f <- Z2float z; bits32_of_float f
  | _ => Err EOther
  end.

Definition enc_lookups := list (str * list (str * Z)).   (* lookup_dict_encode_<T> : name -> value *)

Section Enc.
  Variable LE : enc_lookups.

  Definition get_field (id : str) (fs : list field) : option field := find (fun f => fl_id f =? id) fs.

  Definition is_number (v : value) : bool := match v with VInt _ | VFloat _ => true | _ => false end.

  (* the value handed to `data_raw |= (field_value & mask) << shift`, before the isinstance(int) assert *)
  Definition field_value (k : ekind) (f : field) : result Z :=
    match k with
    | ENumber len signed res =>
        if match fl_val f with VNone => true | v => is_number v end
        then encode_number (fl_val f) len signed (pynum_of_num res) else Err EAssert
    | EReserved => match fl_val f with VInt z => Ok z | _ => Err EAssert end
    | EFloat =>
        if match fl_val f with VNone => true | v => is_number v end
        then encode_float (fl_val f) else Err EAssert
    | ELookup tbl =>
        match fl_raw f with
        | VInt z => Ok z
        | VNone =>
            match find_tbl tbl LE, fl_val f with
            | Some t, VText name =>
                match find (fun e => fst e =? str_of_bytes name) t with
                | Some e => Ok (snd e)
                | None => Err EMissing
                end
            | Some _, _ => Err EMissing
            | None, _ => Err EOther
            end
        | _ => Err EAssert
        end
    | EDate len signed res =>
        match fl_raw f with
        | VNone =>
            match fl_val f with
            | VNone => encode_number VNone len signed (pynum_of_num res)
            | VDate d => encode_number (VInt d) len signed (pynum_of_num res)
            | _ => Err EAssert
            end
        | raw => encode_number raw len signed (pynum_of_num res)
        end
    | ETime len signed res =>
        match fl_raw f with
        | VNone =>
            match fl_val f with
            | VNone => encode_number VNone len signed (pynum_of_num res)
            | VTime s => encode_number (VInt s) len signed (pynum_of_num res)
            | _ => Err EAssert
            end
        | raw => if is_number raw then encode_number raw len signed (pynum_of_num res) else Err EAssert
        end
    end.

  Fixpoint run_esteps (acc : Z) (l : list estep) (fs : list field) : result Z :=
    match l with
    | [] => Ok acc
    | ERaise :: _ => Err EUnsupported
    | ERaiseAfter id :: _ => match get_field id fs with None => Err EMissing | Some _ => Err EUnsupported end
    | EField id k mask shift :: t =>
        match get_field id fs with
        | None => Err EMissing
        | Some f => do v <- field_value k f;
                    run_esteps (Z.lor acc (Z.shiftl (Z.land v mask) shift)) t fs
        end
    end.

  Definition run_edef (e : edef) (fs : list field) : result (list Z) :=
    do x <- run_esteps 0 (e_steps e) fs;
    match e_length e with
    | Some n => if x <? 256 ^ n then Ok (le_bytes (Z.to_nat n) x) else Err EOther    (* OverflowError *)
    | None => Ok (le_bytes (Z.to_nat ((bit_length x + 7) / 8)) x)
    end.
End Enc.
