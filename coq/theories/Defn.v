(* Defn.v — the definition-table language shared by the two translators (DESIGN §3.2).
   tools/tr_pgns.py emits values of ddef/edef/disp/fastkind from nmea2000/pgns.py (what the
   generated code DOES); tools/tr_db.py emits values of dbdef from canboat.json (what the database
   SAYS). Strings are Z numerals: int.from_bytes(b'\x01' + utf8, 'big'). Python numeric literals
   keep their type: NI z (int) or NF bits (float, IEEE-754 binary64 bit pattern as a Z). *)
From NV Require Import Base.

Definition str := Z.
Inductive num := NI (z : Z) | NF (bits : Z).

Definition num_eqb (a b : num) : bool :=
  match a, b with NI x, NI y => x =? y | NF x, NF y => x =? y | _, _ => false end.
Definition obool_eqb := option_eqb Bool.eqb.
Definition oz_eqb := option_eqb Z.eqb.
Definition onum_eqb := option_eqb num_eqb.

(* ---------------- the database side ---------------- *)
Record dbfield := mkF {
  f_order : Z; f_id : str; f_name : str; f_descr : option str; f_unit : option str;
  f_type : str;                       (* FieldType text *)
  f_bitlen : option Z; f_bitoff : option Z; f_signed : bool;
  f_res : option num; f_offset : option num; f_min : option num; f_max : option num;
  f_lookup : option str; f_bitlookup : option str;
  f_indirect : option str; f_indirect_order : option Z;
  f_match : option Z; f_pq : option str; f_pk : option bool; f_bitlenfield : option Z }.

Record dbdef := mkDb {
  d_pgn : Z; d_id : str; d_descr : str; d_type : str; d_fallback : bool;
  d_length : option Z; d_interval : option Z; d_fields : list dbfield }.

(* ---------------- the code side: decoders ---------------- *)
(* one constructor per statement shape of the generated decoders *)
Inductive dstep :=
| SSetOff (n : Z)                      (* running_bit_offset = n *)
| SAddOff (n : Z)                      (* running_bit_offset += n *)
| SAddSkip                             (* running_bit_offset += bits_to_skip *)
| SNumber (both : bool) (len : Z) (signed : bool) (res mn mx : num)
                                       (* [x =] x_raw = decode_number(_data_raw_, off, len, signed, res, mn, mx) *)
| SInt (both : bool) (len : Z)         (* [x =] x_raw = decode_int(_data_raw_, off, len) *)
| SLookup (tbl : str)                  (* x = master_dict[tbl].get(x_raw, None) *)
| SBitLookup (tbl : str)               (* x = decode_bit_lookup(x_raw, master_flags_dict[tbl]) *)
| STime                                (* x = decode_time(x_raw) *)
| SDate                                (* x = decode_date(x_raw) *)
| SFloat (len : Z) (mn mx : num)       (* x = x_raw = decode_float(_data_raw_, off, len, mn, mx) *)
| SStrFix (len : Z)                    (* x = x_raw = decode_string_fix(_data_raw_, off, len) *)
| SStrLz                               (* x = x_raw = decode_string_lz(_data_raw_, off) *)
| SStrLau                              (* x_raw, bits_to_skip = decode_string_lau(_data_raw_, off) *)
| SCopyRaw                             (* x = x_raw *)
| SBinary (len : Z)                    (* x = x_raw = int_to_bytes(decode_int(_data_raw_, off, len)) *)
| SAssertIsInt (fld : nat)             (* assert <value variable of field #fld> is int *)
| SBinaryVar (fld : nat)               (* x = x_raw = int_to_bytes(decode_int(_data_raw_, off, <value of field #fld>)) *)
| STempVal                             (* x = 'TEMP_VAL' *)
| SIndirect (tbl : str) (rawfld patchfld : nat)
                                       (* key = str(x_raw) + "_" + str(<raw of field #rawfld>);
                                          v = master_indirect_lookup_dict[tbl].get(key, None); fields[patchfld].value = v *)
| SRaise                               (* raise Exception("... not supported") *)
| SAppend (id name : str) (descr unit : option str) (pq : option str) (ftype : str) (pk : bool).
                                       (* fields.append(NMEA2000Field(id, name, descr, unit, x, x_raw, pq, ftype, pk)) *)

Record ddef := mkD { c_pgn : Z; c_id : str; c_descr : str; c_ttl : option Z; c_steps : list dstep }.

(* function names: decode_pgn_<pgn> is (pgn, None); decode_pgn_<pgn>_<id> is (pgn, Some id) *)
Definition fname := (Z * option str)%type.
Definition fname_eqb (a b : fname) : bool := (fst a =? fst b) && oz_eqb (snd a) (snd b).

(* ---------------- the code side: dispatchers ---------------- *)
Definition cond := (Z * Z * Z)%type.          (* ((data_raw >> shift) & mask) == value *)
Record arm := mkArm { a_never : bool;          (* `if ():` — the empty tuple is falsy *)
                      a_conds : list cond; a_target : fname }.
Record disp := mkDisp { dp_pgn : Z; dp_arms : list arm; dp_fallback : option fname }.

Inductive fastkind := FastTrue | FastFalse | FastRaises.

(* ---------------- the code side: encoders ---------------- *)
Inductive ekind :=
| ENumber (len : Z) (signed : bool) (res : num)     (* encode_number(field.value, len, signed, res) *)
| EReserved                                          (* field.value *)
| EFloat                                             (* encode_float(field.value) *)
| ELookup (tbl : str)                                (* raw_value if not None else lookup_encode_<tbl>(value) *)
| EDate (len : Z) (signed : bool) (res : num)
     (* days = raw_value if not None else (None if value is None else encode_date(value));
        encode_number(days, len, signed, res) *)
| ETime (len : Z) (signed : bool) (res : num).
     (* seconds = raw_value if not None else (None if value is None else encode_time(value, len));
        encode_number(seconds, len, signed, res) *)
Inductive estep :=
| EField (id : str) (k : ekind) (mask shift : Z)     (* get_field_by_id(id) ... data_raw |= (v & mask) << shift *)
| ERaise                                             (* raise Exception(...) — not encodable (field without position) *)
| ERaiseAfter (id : str).                            (* get_field_by_id(id) (may raise "missing"), then raise "not supported" *)
Record edef := mkE { e_steps : list estep; e_length : option Z }.   (* to_bytes(n) or minimal length *)

(* ---------------- decidable equalities used by the table obligations ---------------- *)
Definition ostr_eqb := oz_eqb.
Definition dstep_eqb (a b : dstep) : bool :=
  match a, b with
  | SSetOff x, SSetOff y => x =? y
  | SAddOff x, SAddOff y => x =? y
  | SAddSkip, SAddSkip => true
  | SNumber b1 l1 s1 r1 m1 x1, SNumber b2 l2 s2 r2 m2 x2 =>
      Bool.eqb b1 b2 && (l1 =? l2) && Bool.eqb s1 s2 && num_eqb r1 r2 && num_eqb m1 m2 && num_eqb x1 x2
  | SInt b1 l1, SInt b2 l2 => Bool.eqb b1 b2 && (l1 =? l2)
  | SLookup t1, SLookup t2 => t1 =? t2
  | SBitLookup t1, SBitLookup t2 => t1 =? t2
  | STime, STime | SDate, SDate | SStrLz, SStrLz | SStrLau, SStrLau | SCopyRaw, SCopyRaw
  | STempVal, STempVal | SRaise, SRaise => true
  | SFloat l1 m1 x1, SFloat l2 m2 x2 => (l1 =? l2) && num_eqb m1 m2 && num_eqb x1 x2
  | SStrFix l1, SStrFix l2 => l1 =? l2
  | SBinary l1, SBinary l2 => l1 =? l2
  | SAssertIsInt f1, SAssertIsInt f2 => Nat.eqb f1 f2
  | SBinaryVar f1, SBinaryVar f2 => Nat.eqb f1 f2
  | SIndirect t1 f1 g1, SIndirect t2 f2 g2 => (t1 =? t2) && Nat.eqb f1 f2 && Nat.eqb g1 g2
  | SAppend i1 n1 d1 u1 q1 t1 k1, SAppend i2 n2 d2 u2 q2 t2 k2 =>
      (i1 =? i2) && (n1 =? n2) && ostr_eqb d1 d2 && ostr_eqb u1 u2 && ostr_eqb q1 q2 && (t1 =? t2) && Bool.eqb k1 k2
  | _, _ => false
  end.

Definition cond_eqb (a b : cond) : bool :=
  let '(s1,m1,v1) := a in let '(s2,m2,v2) := b in (s1 =? s2) && (m1 =? m2) && (v1 =? v2).
Definition arm_eqb (a b : arm) : bool :=
  Bool.eqb (a_never a) (a_never b) && list_eqb cond_eqb (a_conds a) (a_conds b) && fname_eqb (a_target a) (a_target b).

Definition find_fname {A} (n : fname) (l : list (fname * A)) : option A :=
  match find (fun p => fname_eqb (fst p) n) l with Some p => Some (snd p) | None => None end.
