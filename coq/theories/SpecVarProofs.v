(* SpecVarProofs.v — C01 for definitions of variable layout: running the template's steps as the
   generated code runs them (running bit offset, bits_to_skip, registers, appends) equals the
   position-threading specification of SpecVar.v, for every payload. *)
From NV Require Import Base Bits Defn PyNum Fields Dispatch DispatchProofs Template Spec SpecProofs SpecVar.

(* ---------- the payload seen from a bit position ---------- *)
Lemma pow2_pos n : 0 <= n -> 0 < 2 ^ n.
Proof. intros. apply Z.pow_pos_nonneg; lia. Qed.

Lemma rest_add p a l : 0 <= a -> 0 <= l -> p / 2 ^ (a + l) = p / 2 ^ a / 2 ^ l.
Proof.
  intros Ha Hl. rewrite Z.pow_add_r by lia.
  rewrite Z.div_div; [reflexivity | apply Z.pow_nonzero; lia | apply pow2_pos; lia].
Qed.

(* the invariant of the proof: the code's running offset a and the specification's position b show
   the same rest of the payload *)
Lemma rest_step p a b l : 0 <= a -> 0 <= b -> 0 <= l ->
  p / 2 ^ a = p / 2 ^ b -> p / 2 ^ (a + l) = p / 2 ^ (b + l).
Proof. intros Ha Hb Hl E. rewrite !rest_add by lia. rewrite E. reflexivity. Qed.

Lemma field_bits_rest p a b len : p / 2 ^ a = p / 2 ^ b -> field_bits p a len = field_bits p b len.
Proof. intros E. unfold field_bits. rewrite E. reflexivity. Qed.

Lemma decode_int_rest p a b len : 0 <= a -> 0 <= len -> p / 2 ^ a = p / 2 ^ b ->
  decode_int p a len = field_bits p b len.
Proof. intros Ha Hl E. rewrite decode_int_bits by lia. apply field_bits_rest. exact E. Qed.

(* ---------- little-endian bytes of the rest = payload bytes ---------- *)
Lemma le_bytes_payload p : forall k pos, 0 <= pos -> le_bytes k (p / 2 ^ pos) = payload_bytes p pos k.
Proof.
  induction k as [|k IH]; intros pos Hp; [reflexivity|].
  unfold payload_bytes. cbn [le_bytes seq map].
  f_equal.
  - unfold field_bits. replace (pos + 8 * Z.of_nat 0) with pos by lia. reflexivity.
  - change 256 with (2 ^ 8). rewrite <- rest_add by lia. rewrite IH by lia.
    unfold payload_bytes. rewrite <- seq_shift, map_map. apply map_ext. intros i.
    f_equal. lia.
Qed.

Lemma payload_bytes_length p pos k : length (payload_bytes p pos k) = k.
Proof. unfold payload_bytes. rewrite map_length, seq_length. reflexivity. Qed.

Lemma firstn_seq_le : forall k m s, (k <= m)%nat -> firstn k (seq s m) = seq s k.
Proof.
  induction k as [|k IH]; intros m s H; [reflexivity|].
  destruct m as [|m]; [lia|]. cbn [seq firstn]. f_equal. apply IH. lia.
Qed.

Lemma payload_bytes_firstn p pos k m : (k <= m)%nat ->
  firstn k (payload_bytes p pos m) = payload_bytes p pos k.
Proof. intros H. unfold payload_bytes. rewrite firstn_map, firstn_seq_le by exact H. reflexivity. Qed.

Lemma payload_bytes_nth p pos k i : (i < k)%nat ->
  nth i (payload_bytes p pos k) 0 = field_bits p (pos + 8 * Z.of_nat i) 8.
Proof.
  intros H. unfold payload_bytes.
  set (f := fun i : nat => field_bits p (pos + 8 * Z.of_nat i) 8).
  rewrite (nth_indep _ 0 (f 0%nat)) by (rewrite map_length, seq_length; exact H).
  rewrite map_nth, seq_nth by exact H. reflexivity.
Qed.

Lemma bit_length_pos x : x <> 0 -> 1 <= bit_length x.
Proof.
  intros H. unfold bit_length. destruct (Z.eqb_spec x 0) as [E|_]; [contradiction|].
  pose proof (Z.log2_nonneg x). lia.
Qed.
Lemma extent_pos x : x <> 0 -> 1 <= extent x.
Proof.
  intros H. unfold extent. pose proof (bit_length_pos x H).
  apply Z.div_le_lower_bound; lia.
Qed.
Lemma extent_zero : extent 0 = 0.
Proof. reflexivity. Qed.

(* ---------- the declarative content of the string specifications ---------- *)
(* a STRING_LAU whose declared length stays within the payload (up to one byte past its last non-zero
   byte) denotes exactly its header and its n-2 declared bytes, and occupies n bytes *)
Theorem lau_declared p pos : 0 <= pos -> p / 2 ^ pos <> 0 ->
  let n := field_bits p pos 8 in
  (Z.to_nat (n - 2) <= present p pos)%nat ->
  spec_string_lau p pos =
    do t <- lau_text (field_bits p (pos + 8) 8) (payload_bytes p (pos + 16) (Z.to_nat (n - 2)));
    Ok (VText t, 8 * n).
Proof.
  intros Hp Hx n Hn. unfold spec_string_lau.
  destruct (Z.eqb_spec (p / 2 ^ pos) 0) as [E|_]; [contradiction|].
  fold n. rewrite payload_bytes_firstn by exact Hn. reflexivity.
Qed.

Theorem lz_declared p pos : 0 <= pos -> p / 2 ^ pos <> 0 ->
  let n := field_bits p pos 8 in
  (Z.to_nat n <= present p pos)%nat ->
  spec_string_lz p pos = do t <- utf8_ignore (payload_bytes p (pos + 8) (Z.to_nat n)); Ok (VText t).
Proof.
  intros Hp Hx n Hn. unfold spec_string_lz.
  destruct (Z.eqb_spec (p / 2 ^ pos) 0) as [E|_]; [contradiction|].
  fold n. rewrite payload_bytes_firstn by exact Hn. reflexivity.
Qed.

(* ---------- the string decoders of the code against the specification ---------- *)
Lemma to_nat_succ e : 1 <= e -> Z.to_nat e = S (Z.to_nat (e - 1)).
Proof. intros. rewrite <- Z2Nat.inj_succ by lia. f_equal. lia. Qed.

Lemma decode_string_lau_spec p o start : 0 <= o -> 0 <= start -> p / 2 ^ o = p / 2 ^ start ->
  match spec_string_lau p start with
  | Ok (v, size) => exists skip, decode_string_lau p o = Ok (v, skip) /\ 0 <= skip /\ 0 <= size
                                 /\ p / 2 ^ (o + skip) = p / 2 ^ (start + size)
  | Err e => decode_string_lau p o = Err e
  | Unmodelled => decode_string_lau p o = Unmodelled
  end.
Proof.
  intros Ho Hs E. unfold spec_string_lau, decode_string_lau, present.
  rewrite Z.shiftr_div_pow2 by lia. rewrite E.
  set (x := p / 2 ^ start) in *.
  destruct (Z.eqb_spec x 0) as [X0|Xn].
  - rewrite X0. change (bit_length 0) with 0. change ((0 + 7) / 8) with 0.
    cbn [Z.to_nat le_bytes length zlen]. exists 1. split; [reflexivity|]. split; [lia|]. split; [lia|].
    rewrite rest_add by lia. rewrite E. fold x. rewrite X0.
    replace (start + 0) with start by lia. fold x. rewrite X0. reflexivity.
  - pose proof (extent_pos x Xn) as He. unfold extent in He.
    rewrite (to_nat_succ ((bit_length x + 7) / 8)) by exact He.
    fold (extent x).
    cbn [le_bytes].
    assert (N : x mod 256 = field_bits p start 8) by reflexivity.
    assert (A : x / 256 mod 256 = field_bits p (start + 8) 8).
    { unfold field_bits. rewrite rest_add by lia. reflexivity. }
    assert (R : le_bytes (Z.to_nat (extent x - 1)) (x / 256 / 256)
                = payload_bytes p (start + 16) (Z.to_nat (extent x - 1))).
    { rewrite <- le_bytes_payload by lia. f_equal.
      replace (start + 16) with (start + 8 + 8) by lia.
      rewrite !rest_add by lia. reflexivity. }
    rewrite N, A, R.
    destruct (lau_text _ _) as [t|e|]; cbn [bind]; [|reflexivity|reflexivity].
    assert (B : 0 <= field_bits p start 8 < 2 ^ 8) by (apply field_bits_range; lia).
    exists (field_bits p start 8 * 8). split; [reflexivity|]. split; [lia|]. split; [lia|].
    replace (field_bits p start 8 * 8) with (8 * field_bits p start 8) by lia.
    apply rest_step; try lia; try exact E.
Qed.

Lemma decode_string_lz_spec p o start : 0 <= o -> 0 <= start -> p / 2 ^ o = p / 2 ^ start ->
  decode_string_lz p o = spec_string_lz p start.
Proof.
  intros Ho Hs E. unfold spec_string_lz, decode_string_lz, present.
  rewrite Z.shiftr_div_pow2 by lia. rewrite E.
  set (x := p / 2 ^ start) in *.
  destruct (Z.eqb_spec x 0) as [X0|Xn].
  - rewrite X0. reflexivity.
  - pose proof (extent_pos x Xn) as He. unfold extent in He.
    rewrite (to_nat_succ ((bit_length x + 7) / 8)) by exact He.
    fold (extent x). cbn [le_bytes].
    assert (N : x mod 256 = field_bits p start 8) by reflexivity.
    assert (R : le_bytes (Z.to_nat (extent x - 1)) (x / 256)
                = payload_bytes p (start + 8) (Z.to_nat (extent x - 1))).
    { rewrite <- le_bytes_payload by lia. f_equal. rewrite rest_add by lia. reflexivity. }
    rewrite N, R. reflexivity.
Qed.

(* ---------- the field types exclude one another ---------- *)
Lemma lau_excl f : is_t f T_STRING_LAU = true ->
  is_numberlike f = false /\ is_t f T_LOOKUP = false /\ is_t f T_BITLOOKUP = false
  /\ is_t f T_STRING_FIX = false /\ is_t f T_STRING_LZ = false /\ is_t f T_INDIRECT = false.
Proof.
  unfold is_numberlike, is_t. intros H. apply Z.eqb_eq in H. rewrite H.
  vm_compute. repeat split; reflexivity.
Qed.
Lemma lz_excl f : is_t f T_STRING_LZ = true ->
  is_numberlike f = false /\ is_t f T_LOOKUP = false /\ is_t f T_BITLOOKUP = false
  /\ is_t f T_STRING_FIX = false /\ is_t f T_STRING_LAU = false /\ is_t f T_INDIRECT = false.
Proof.
  unfold is_numberlike, is_t. intros H. apply Z.eqb_eq in H. rewrite H.
  vm_compute. repeat split; reflexivity.
Qed.
Lemma indirect_excl f : is_t f T_INDIRECT = true ->
  is_numberlike f = false /\ is_t f T_LOOKUP = false /\ is_t f T_BITLOOKUP = false
  /\ is_t f T_STRING_FIX = false /\ is_t f T_STRING_LZ = false /\ is_t f T_STRING_LAU = false
  /\ is_t f T_FLOAT = false /\ is_t f T_TIME = false /\ is_t f T_DATE = false
  /\ (is_t f T_RESERVED || is_t f T_SPARE) = false /\ is_t f T_BINARY = false.
Proof.
  unfold is_numberlike, is_t. intros H. apply Z.eqb_eq in H. rewrite H.
  vm_compute. repeat split; reflexivity.
Qed.
Lemma binary_excl f : is_t f T_BINARY = true ->
  is_numberlike f = false /\ is_t f T_LOOKUP = false /\ is_t f T_BITLOOKUP = false
  /\ is_t f T_STRING_FIX = false /\ is_t f T_STRING_LZ = false /\ is_t f T_STRING_LAU = false
  /\ is_t f T_FLOAT = false /\ is_t f T_TIME = false /\ is_t f T_DATE = false
  /\ (is_t f T_RESERVED || is_t f T_SPARE) = false /\ is_t f T_INDIRECT = false.
Proof.
  unfold is_numberlike, is_t. intros H. apply Z.eqb_eq in H. rewrite H.
  vm_compute. repeat split; reflexivity.
Qed.

Lemma unknown_types f : known_type f = false ->
  is_numberlike f = false /\ is_t f T_LOOKUP = false /\ is_t f T_BITLOOKUP = false
  /\ is_t f T_STRING_FIX = false /\ is_t f T_STRING_LZ = false /\ is_t f T_STRING_LAU = false
  /\ is_t f T_FLOAT = false /\ is_t f T_TIME = false /\ is_t f T_DATE = false
  /\ (is_t f T_RESERVED || is_t f T_SPARE) = false /\ is_t f T_INDIRECT = false /\ is_t f T_BINARY = false.
Proof.
  unfold known_type. intros H.
  do 11 (apply orb_false_iff in H; let H2 := fresh "U" in destruct H as [H H2]).
  repeat split; assumption.
Qed.

Lemma body_steps_unknown f : known_type f = false -> body_steps f = Some [SRaise].
Proof.
  intros H. destruct (unknown_types f H) as (X1 & X2 & X3 & X4 & X5 & X6 & X7 & X8 & X9 & X10 & X11 & X12).
  unfold body_steps. rewrite X1, X2, X3, X4, X5, X6, X7, X8, X9, X10, X11, X12. reflexivity.
Qed.

Lemma spec_value_unknown L LB p f off len : known_type f = false ->
  spec_value L LB p f off len = Err EUnsupported.
Proof.
  intros H. destruct (unknown_types f H) as (X1 & X2 & X3 & X4 & X5 & X6 & X7 & X8 & X9 & X10 & X11 & X12).
  unfold spec_value. rewrite X1, X2, X3, X4, X7, X8, X9, X10, X12. reflexivity.
Qed.

(* ---------- shape of one field's steps under the empty INDIRECT namespace ---------- *)
Definition pre_of (f : dbfield) : list dstep := match f_bitoff f with Some o => [SSetOff o] | None => [] end.
Definition addlen_of (f : dbfield) : list dstep := match f_bitlen f with Some l => [SAddOff l] | None => [] end.
Definition lenz (f : dbfield) : Z := match f_bitlen f with Some l => l | None => 0 end.
Definition not_raise (b : list dstep) : bool := match b with SRaise :: _ => false | _ => true end.

Lemma field_steps_ns0 f b : body_steps f = Some b -> not_raise b = true -> is_t f T_INDIRECT = false ->
  field_steps f ns0 = Some (pre_of f ++ b ++ [append_step f] ++ addlen_of f, ns0, false).
Proof.
  intros B NR T. unfold field_steps. rewrite B, T. fold (pre_of f). fold (addlen_of f).
  cbn [ns_order ns_orig ns_tbl ns0]. rewrite app_nil_r.
  destruct b as [|st b']; [reflexivity|].
  destruct st; try reflexivity. discriminate NR.
Qed.

Lemma field_steps_unknown f n : known_type f = false ->
  field_steps f n = Some (pre_of f ++ [SRaise], n, true).
Proof. intros K. unfold field_steps. rewrite (body_steps_unknown f K). reflexivity. Qed.

(* ---------- composition of the interpreter ---------- *)
Ltac rs := cbn [run_steps step bind i_off i_val i_raw i_skip i_acc set_regs set_val set_off fst snd app].

Section Run.
  Variable L LB : lookups.
  Variable LI : ilookups.
  Variable p : Z.
  Variable all : list dbfield.
  Notation run := (run_steps L LB LI p).

  (* the common ending of the fixed-size cases: offset o and position start advance by len *)
  Lemma fixed_tail o start len (last : bool) : 0 <= o -> 0 <= start -> 1 <= len ->
    p / 2 ^ o = p / 2 ^ start ->
    0 <= o + len /\ 0 <= start + len /\ (last = false -> p / 2 ^ (o + len) = p / 2 ^ (start + len)).
  Proof. intros Ho Hs Hl E. split; [lia|]. split; [lia|]. intros _. apply rest_step; try lia; try exact E. Qed.

  (* the statements of one field between the offset assignment and the append, started with the
     running offset o where the specification is at position start *)
  Lemma body_run f o v0 r0 k0 acc start i fixed last b :
    known_type f = true -> var_field_ok i fixed last f = true -> length acc = i ->
    body_steps f = Some b -> 0 <= o -> 0 <= start -> p / 2 ^ o = p / 2 ^ start ->
    not_raise b = true /\
    match spec_value_var L LB LI p all start acc f with
    | Ok (v, raw, size) =>
        exists o2 k2, run (mkIst o v0 r0 k0 acc) b = Ok (mkIst o2 v raw k2 acc)
          /\ 0 <= o2 + lenz f /\ 0 <= start + size
          /\ (last = false -> p / 2 ^ (o2 + lenz f) = p / 2 ^ (start + size))
    | Err e => run (mkIst o v0 r0 k0 acc) b = Err e
    | Unmodelled => run (mkIst o v0 r0 k0 acc) b = Unmodelled
    end.
  Proof.
    intros K V Hlen B Ho Hs E.
    unfold var_field_ok in V. apply andb_true_iff in V. destruct V as [_ V].
    rewrite K in V. cbn [negb] in V.
    unfold spec_value_var. rewrite K. cbn [negb]. unfold lenz.
    destruct (is_t f T_STRING_LAU) eqn:Tlau.
    { destruct (lau_excl f Tlau) as (X1 & X2 & X3 & X4 & X5 & X6).
      unfold body_steps in B. rewrite X1, X2, X3, X4, X5, Tlau in B. inversion B; subst b. clear B.
      split; [reflexivity|].
      destruct (f_bitlen f) eqn:El; [discriminate|].
      pose proof (decode_string_lau_spec p o start Ho Hs E) as D.
      destruct (spec_string_lau p start) as [[v size]|e|]; rs.
      - destruct D as (skip & D & S1 & S2 & S3).
        exists (o + skip), skip. rewrite D. rs. split; [reflexivity|].
        split; [lia|]. split; [lia|]. intros _. replace (o + skip + 0) with (o + skip) by lia. exact S3.
      - rewrite D. reflexivity.
      - rewrite D. reflexivity. }
    destruct (is_t f T_STRING_LZ) eqn:Tlz.
    { destruct (lz_excl f Tlz) as (X1 & X2 & X3 & X4 & X5 & X6).
      unfold body_steps in B. rewrite X1, X2, X3, X4, Tlz in B. inversion B; subst b. clear B.
      split; [reflexivity|]. rs.
      rewrite (decode_string_lz_spec p o start Ho Hs E).
      destruct (spec_string_lz p start) as [v|e|]; rs; [|reflexivity|reflexivity].
      exists o, k0. split; [reflexivity|].
      destruct (f_bitlen f) as [l|] eqn:El.
      - apply Z.leb_le in V. split; [lia|]. split; [lia|]. intros _. apply rest_step; try lia; try exact E.
      - subst last. unfold lz_size.
        assert (Bn : 0 <= field_bits p start 8 < 2 ^ 8) by (apply field_bits_range; lia).
        split; [lia|]. split; [lia|]. discriminate. }
    destruct (is_t f T_INDIRECT) eqn:Tind; [discriminate V|].
    unfold body_steps in B. rewrite Tlz, Tlau, Tind in B.
    destruct (f_bitlen f) as [len|] eqn:El.
    - apply Z.leb_le in V. unfold spec_value.
      destruct (is_numberlike f) eqn:T1.
      { destruct (f_res f) as [r|]; [|discriminate]. destruct (f_min f) as [mn|]; [|discriminate].
        destruct (f_max f) as [mx|]; [|discriminate].
        cbn in B. inversion B; subst b. split; [reflexivity|]. rs.
        rewrite decode_number_spec by lia. rewrite (field_bits_rest p o start len E).
        destruct (spec_number _ _ _ _ _ _) as [v|e|]; rs; [|reflexivity|reflexivity].
        exists o, k0. split; [reflexivity|]. apply fixed_tail; assumption. }
      destruct (is_t f T_LOOKUP) eqn:T2.
      { destruct (f_lookup f) as [t|]; [|discriminate].
        cbn in B. inversion B; subst b. split; [reflexivity|]. rs.
        rewrite (decode_int_rest p o start len) by (try lia; exact E).
        destruct (find_tbl t L) as [tb|]; rs; [|reflexivity].
        exists o, k0. split; [reflexivity|]. apply fixed_tail; assumption. }
      destruct (is_t f T_BITLOOKUP) eqn:T3.
      { destruct (f_bitlookup f) as [t|]; [|discriminate].
        cbn in B. inversion B; subst b. split; [reflexivity|]. rs.
        rewrite (decode_int_rest p o start len) by (try lia; exact E).
        destruct (find_tbl t LB) as [tb|]; rs; [|reflexivity].
        exists o, k0. split; [reflexivity|]. apply fixed_tail; assumption. }
      destruct (is_t f T_STRING_FIX) eqn:T4.
      { cbn in B. inversion B; subst b. split; [reflexivity|]. rs.
        unfold decode_string_fix. rewrite (decode_int_rest p o start len) by (try lia; exact E).
        destruct (strfix_of_bits _ _) as [v|e|]; rs; [|reflexivity|reflexivity].
        exists o, k0. split; [reflexivity|]. apply fixed_tail; assumption. }
      destruct (is_t f T_FLOAT) eqn:T5.
      { destruct (f_min f) as [mn|]; [|discriminate]. destruct (f_max f) as [mx|]; [|discriminate].
        cbn in B. inversion B; subst b. split; [reflexivity|]. rs.
        unfold decode_float. rewrite (decode_int_rest p o start len) by (try lia; exact E).
        destruct (float_of_fbits _ _ _) as [v|e|]; rs; [|reflexivity|reflexivity].
        exists o, k0. split; [reflexivity|]. apply fixed_tail; assumption. }
      destruct (is_t f T_TIME) eqn:T6.
      { destruct (f_res f) as [r|]; [|discriminate]. destruct (f_min f) as [mn|]; [|discriminate].
        destruct (f_max f) as [mx|]; [|discriminate].
        cbn in B. inversion B; subst b. split; [reflexivity|]. rs.
        rewrite decode_number_spec by lia. rewrite (field_bits_rest p o start len E).
        destruct (spec_number _ _ _ _ _ _) as [v|e|]; rs; [|reflexivity|reflexivity].
        destruct (decode_time v) as [w|e|]; rs; [|reflexivity|reflexivity].
        exists o, k0. split; [reflexivity|]. apply fixed_tail; assumption. }
      destruct (is_t f T_DATE) eqn:T7.
      { destruct (f_res f) as [r|]; [|discriminate]. destruct (f_min f) as [mn|]; [|discriminate].
        destruct (f_max f) as [mx|]; [|discriminate].
        cbn in B. inversion B; subst b. split; [reflexivity|]. rs.
        rewrite decode_number_spec by lia. rewrite (field_bits_rest p o start len E).
        destruct (spec_number _ _ _ _ _ _) as [v|e|]; rs; [|reflexivity|reflexivity].
        destruct (decode_date v) as [w|e|]; rs; [|reflexivity|reflexivity].
        exists o, k0. split; [reflexivity|]. apply fixed_tail; assumption. }
      destruct (is_t f T_RESERVED || is_t f T_SPARE) eqn:T8.
      { cbn in B. inversion B; subst b. split; [reflexivity|]. rs.
        rewrite (decode_int_rest p o start len) by (try lia; exact E).
        exists o, k0. split; [reflexivity|]. apply fixed_tail; assumption. }
      destruct (is_t f T_BINARY) eqn:T9.
      { cbn in B. inversion B; subst b. split; [reflexivity|]. rs.
        rewrite (decode_int_rest p o start len) by (try lia; exact E).
        exists o, k0. split; [reflexivity|]. apply fixed_tail; assumption. }
      (* a known type is one of the above *)
      exfalso. unfold known_type in K. rewrite T1, T2, T3, T4, Tlz, Tlau, T5, T6, T7, T8, Tind, T9 in K. discriminate K.
    - (* BINARY with BitLengthField *)
      apply andb_true_iff in V. destruct V as [V Vk]. apply andb_true_iff in V. destruct V as [Tb Vl].
      subst last.
      destruct (binary_excl f Tb) as (X1 & X2 & X3 & X4 & X5 & X6 & X7 & X8 & X9 & X10 & X11).
      rewrite X1, X2, X3, X4, X7, X8, X9, X10, Tb in B.
      rewrite Tb.
      destruct (f_bitlenfield f) as [k|]; [|discriminate].
      inversion B; subst b. clear B. split; [reflexivity|].
      cbv beta iota delta [run_steps step bind i_off i_val i_raw i_skip i_acc set_regs].
      destruct (nth_error acc (Z.to_nat (k - 1))) as [lf|] eqn:En; [|reflexivity].
      destruct (fl_val lf) as [|n| | | | |] eqn:Ev; try reflexivity.
      cbv beta iota. rewrite En. cbv beta iota. rewrite Ev. cbv beta iota.
      destruct (Z.ltb_spec n 0) as [Hn|Hn]; [reflexivity|].
      rewrite (decode_int_rest p o start n) by (try lia; exact E).
      exists o, k0. split; [reflexivity|]. split; [lia|]. split; [lia|]. discriminate.
  Qed.

  Lemma var_field_ok_not_indirect f i fixed last :
    known_type f = true -> var_field_ok i fixed last f = true -> is_t f T_INDIRECT = false.
  Proof.
    intros K V. destruct (is_t f T_INDIRECT) eqn:T; [|reflexivity]. exfalso.
    destruct (indirect_excl f T) as (X1 & X2 & X3 & X4 & X5 & X6 & _).
    unfold var_field_ok in V. apply andb_true_iff in V. destruct V as [_ V].
    rewrite K, X6, X5, T in V. discriminate V.
  Qed.

  (* all the statements of one field: offset assignment, body, append, BitLength added *)
  Lemma field_run f s pos i fixed last steps n' stop :
    var_field_ok i fixed last f = true -> length (i_acc s) = i ->
    field_steps f ns0 = Some (steps, n', stop) ->
    0 <= i_off s -> 0 <= pos -> p / 2 ^ (i_off s) = p / 2 ^ pos ->
    n' = ns0 /\ stop = negb (known_type f) /\
    match spec_value_var L LB LI p all (start_of true fixed pos f) (i_acc s) f with
    | Ok (v, raw, size) =>
        exists s', run s steps = Ok s' /\ i_acc s' = i_acc s ++ [mk_field f v raw]
          /\ 0 <= i_off s' /\ 0 <= start_of true fixed pos f + size
          /\ (last = false -> p / 2 ^ (i_off s') = p / 2 ^ (start_of true fixed pos f + size))
    | Err e => run s steps = Err e
    | Unmodelled => run s steps = Unmodelled
    end.
  Proof.
    intros V Hlen F Ho Hp E. destruct s as [o v0 r0 k0 acc]. cbn [i_off i_acc] in *.
    (* the offset the body runs at, and the position the specification uses *)
    set (o' := match f_bitoff f with Some off => off | None => o end).
    set (start := start_of true fixed pos f).
    assert (Pre : run (mkIst o v0 r0 k0 acc) (pre_of f) = Ok (mkIst o' v0 r0 k0 acc)).
    { unfold pre_of, o'. destruct (f_bitoff f); reflexivity. }
    assert (Inv : 0 <= o' /\ 0 <= start /\ p / 2 ^ o' = p / 2 ^ start).
    { pose proof V as V'. unfold var_field_ok in V'. apply andb_true_iff in V'. destruct V' as [Vo _].
      unfold o', start, start_of. destruct (f_bitoff f) as [off|].
      - apply andb_true_iff in Vo. destruct Vo as [Vf Vo]. apply Z.leb_le in Vo. subst fixed.
        cbn [andb]. repeat split; lia.
      - repeat split; assumption. }
    destruct Inv as (Ho' & Hs & E').
    destruct (known_type f) eqn:K.
    - destruct (body_steps f) as [b|] eqn:B; [|unfold field_steps in F; rewrite B in F; discriminate F].
      destruct (body_run f o' v0 r0 k0 acc start i fixed last b K V Hlen B Ho' Hs E') as [NR R].
      pose proof (var_field_ok_not_indirect f i fixed last K V) as Tind.
      rewrite (field_steps_ns0 f b B NR Tind) in F. inversion F; subst steps n' stop. clear F.
      split; [reflexivity|]. split; [reflexivity|].
      rewrite run_app, Pre. cbn [bind]. rewrite run_app.
      destruct (spec_value_var L LB LI p all start acc f) as [[[v raw] size]|e|].
      + destruct R as (o2 & k2 & R & P1 & P2 & P3). rewrite R. cbn [bind].
        unfold addlen_of, lenz in *. unfold append_step, mk_field.
        destruct (f_bitlen f) as [l|]; rs.
        * eexists. split; [reflexivity|]. rs. split; [reflexivity|]. split; [exact P1|]. split; [exact P2|exact P3].
        * eexists. split; [reflexivity|]. rs. split; [reflexivity|].
          replace (o2 + 0) with o2 in * by lia. split; [exact P1|]. split; [exact P2|exact P3].
      + rewrite R. reflexivity.
      + rewrite R. reflexivity.
    - rewrite (field_steps_unknown f ns0 K) in F. inversion F; subst steps n' stop. clear F.
      split; [reflexivity|]. split; [reflexivity|].
      unfold spec_value_var. rewrite K. cbn [negb].
      rewrite run_app, Pre. reflexivity.
  Qed.

  Lemma fields_run_var : forall fs s pos i fixed steps,
    var_fields_ok i fixed fs = true -> length (i_acc s) = i -> fields_steps fs ns0 = Some steps ->
    0 <= i_off s -> 0 <= pos -> (fs <> [] -> p / 2 ^ (i_off s) = p / 2 ^ pos) ->
    bind (run s steps) (fun s' => Ok (i_acc s')) = spec_fields_var L LB LI p all pos fixed (i_acc s) fs.
  Proof.
    induction fs as [|f t IH]; intros s pos i fixed steps V Hlen F Ho Hp E.
    - cbn in F. inversion F; subst steps. reflexivity.
    - cbn [var_fields_ok] in V. apply andb_true_iff in V. destruct V as [Vf Vt].
      cbn [fields_steps] in F.
      destruct (field_steps f ns0) as [[[st n'] stop]|] eqn:Ef; [|discriminate F].
      assert (E0 : p / 2 ^ i_off s = p / 2 ^ pos) by (apply E; discriminate).
      destruct (field_run f s pos i fixed _ st n' stop Vf Hlen Ef Ho Hp E0) as (-> & -> & R).
      unfold spec_fields_var. cbn [spec_fields_gen].
      destruct (spec_value_var L LB LI p all (start_of true fixed pos f) (i_acc s) f) as [[[v raw] size]|e|] eqn:Sv.
      + destruct R as (s' & R & A & P1 & P2 & P3).
        destruct (known_type f) eqn:K.
        * cbn [negb] in F.
          destruct (fields_steps t ns0) as [rest|] eqn:Er; [|discriminate F]. inversion F; subst steps. clear F.
          rewrite run_app, R. cbn [bind fst snd].
          rewrite <- A. apply (IH s' _ (S i) _ rest Vt); try assumption.
          -- rewrite A, app_length, Hlen. cbn [length]. lia.
          -- reflexivity.
          -- intros Ht. apply P3. destruct t; [contradiction|reflexivity].
        * (* an unsupported type: the specification refuses the field *)
          exfalso. unfold spec_value_var in Sv. rewrite K in Sv. discriminate Sv.
      + destruct (negb (known_type f)).
        * inversion F; subst steps. rewrite R. reflexivity.
        * destruct (fields_steps t ns0) as [rest|]; [|discriminate F]. inversion F; subst steps.
          rewrite run_app, R. reflexivity.
      + destruct (negb (known_type f)).
        * inversion F; subst steps. rewrite R. reflexivity.
        * destruct (fields_steps t ns0) as [rest|]; [|discriminate F]. inversion F; subst steps.
          rewrite run_app, R. reflexivity.
  Qed.
End Run.

(* ---------- the whole definition (variable layout without INDIRECT_LOOKUP) ---------- *)
Theorem run_template_is_spec_decode_layout L LB LI p d td :
  var_layout_def d = true -> ddef_of_db d = Some td ->
  run_ddef L LB LI p td = spec_decode_var L LB LI p d.
Proof.
  unfold var_layout_def, ddef_of_db, run_ddef, spec_decode_var. intros V F.
  destruct (fields_steps (d_fields d) ns0) as [steps|] eqn:Es; [|discriminate]. inversion F; subst. clear F.
  cbn [c_steps c_pgn c_id c_descr c_ttl run_steps step bind].
  change (set_off (mkIst 0 VNone VNone 0 []) 0) with (mkIst 0 VNone VNone 0 []).
  pose proof (fields_run_var L LB LI p (d_fields d) (d_fields d) (mkIst 0 VNone VNone 0 []) 0 0%nat true steps
                V eq_refl Es) as R.
  cbn [i_off i_acc] in R. specialize (R (Z.le_refl 0) (Z.le_refl 0) (fun _ => eq_refl)).
  rewrite <- R.
  destruct (run_steps L LB LI p (mkIst 0 VNone VNone 0 []) steps) as [s'|e|]; reflexivity.
Qed.

(* ---------- nothing already proved is weakened: on fixed-layout definitions the
              position-threading specification IS the field-by-field specification of Spec.v ---------- *)
Lemma simple_field_var L LB LI p all pos acc f : simple_field f = true ->
  exists off len, f_bitoff f = Some off /\ f_bitlen f = Some len /\ fixed_size f = true /\
    start_of true true pos f = off /\
    spec_value_var L LB LI p all off acc f = do vr <- spec_value L LB p f off len; Ok (fst vr, snd vr, len).
Proof.
  unfold simple_field. intros S.
  destruct (f_bitoff f) as [off|] eqn:Eo; [|discriminate].
  destruct (f_bitlen f) as [len|] eqn:El; [|discriminate].
  apply andb_true_iff in S. destruct S as [S Slau]. apply andb_true_iff in S. destruct S as [S Slz].
  apply andb_true_iff in S. destruct S as [S Sind]. apply negb_true_iff in Slau, Slz, Sind.
  exists off, len. split; [reflexivity|]. split; [reflexivity|].
  split; [unfold fixed_size; rewrite El, Slau; reflexivity|].
  split; [unfold start_of; rewrite Eo; reflexivity|].
  unfold spec_value_var. destruct (known_type f) eqn:K; cbn [negb].
  - rewrite Slau, Slz, Sind, El. reflexivity.
  - rewrite (spec_value_unknown L LB p f off len K). reflexivity.
Qed.

Lemma spec_fields_var_simple L LB LI p all : forall fs pos acc,
  forallb simple_field fs = true ->
  spec_fields_var L LB LI p all pos true acc fs = do r <- spec_fields L LB p fs; Ok (acc ++ r).
Proof.
  induction fs as [|f t IH]; intros pos acc S.
  - cbn. rewrite app_nil_r. reflexivity.
  - cbn [forallb] in S. apply andb_true_iff in S. destruct S as [Sf St].
    destruct (simple_field_var L LB LI p all pos acc f Sf) as (off & len & Eo & El & Fx & St0 & Sv).
    unfold spec_fields_var. cbn [spec_fields_gen spec_fields]. rewrite St0, Sv, Fx.
    unfold spec_field. rewrite Eo, El.
    destruct (spec_value L LB p f off len) as [[v raw]|e|]; cbn [bind fst snd andb]; [|reflexivity|reflexivity].
    fold (spec_fields_var L LB LI p all). rewrite IH by exact St.
    unfold mk_field.
    destruct (spec_fields L LB p t) as [r|e|]; cbn [bind]; [|reflexivity|reflexivity].
    rewrite <- app_assoc. reflexivity.
Qed.

Theorem spec_decode_var_simple L LB LI p d : simple_def d = true ->
  spec_decode_var L LB LI p d = spec_decode L LB p d.
Proof.
  unfold simple_def, spec_decode_var, spec_decode. intros S.
  rewrite spec_fields_var_simple by exact S.
  destruct (spec_fields L LB p (d_fields d)) as [r|e|]; reflexivity.
Qed.

(* ---------- "at the database BitOffset" = "at the running position" where both are defined ---------- *)
Lemma spec_value_var_size L LB LI p all pos acc f v raw size l :
  spec_value_var L LB LI p all pos acc f = Ok (v, raw, size) ->
  fixed_size f = true -> f_bitlen f = Some l -> size = l.
Proof.
  unfold spec_value_var, fixed_size. intros Sv Fx El. rewrite El in *. apply negb_true_iff in Fx. rewrite Fx in Sv.
  destruct (negb (known_type f)); [discriminate|].
  destruct (is_t f T_STRING_LZ).
  { destruct (spec_string_lz p pos); cbn [bind] in Sv; [|discriminate|discriminate]. inversion Sv; reflexivity. }
  destruct (is_t f T_INDIRECT).
  { destruct (f_indirect f); [|discriminate]. destruct (f_indirect_order f) as [k|]; [|discriminate].
    destruct (field_by_order all k) as [r|]; [|discriminate].
    destruct (f_bitoff r); [|discriminate]. destruct (f_bitlen r); [|discriminate].
    destruct (find_tbl _ LI); [|discriminate]. inversion Sv; reflexivity. }
  destruct (spec_value L LB p f pos l); cbn [bind] in Sv; [|discriminate|discriminate]. inversion Sv; reflexivity.
Qed.

Lemma spec_fields_gen_unfixed L LB LI p all : forall fs pos acc,
  spec_fields_gen L LB LI p all true pos false acc fs = spec_fields_gen L LB LI p all false pos false acc fs.
Proof.
  induction fs as [|f t IH]; intros pos acc; [reflexivity|].
  cbn [spec_fields_gen]. unfold start_of. cbn [andb].
  replace (match f_bitoff f with Some _ => pos | None => pos end) with pos by (destruct (f_bitoff f); reflexivity).
  destruct (spec_value_var L LB LI p all pos acc f) as [r|e|]; cbn [bind]; [|reflexivity|reflexivity].
  apply IH.
Qed.

Theorem spec_offsets_agree L LB LI p all : forall fs pos acc,
  offsets_consistent pos fs = true ->
  spec_fields_gen L LB LI p all true pos true acc fs = spec_fields_gen L LB LI p all false pos true acc fs.
Proof.
  induction fs as [|f t IH]; intros pos acc C; [reflexivity|].
  cbn [offsets_consistent] in C. apply andb_true_iff in C. destruct C as [Co Ct].
  cbn [spec_fields_gen].
  assert (St : start_of true true pos f = pos).
  { unfold start_of. destruct (f_bitoff f) as [off|]; [|reflexivity]. apply Z.eqb_eq in Co. exact Co. }
  assert (Sf : start_of false true pos f = pos) by (unfold start_of; destruct (f_bitoff f); reflexivity).
  rewrite St, Sf.
  destruct (spec_value_var L LB LI p all pos acc f) as [[[v raw] size]|e|] eqn:Sv; cbn [bind fst snd]; [|reflexivity|reflexivity].
  cbn [andb]. destruct (fixed_size f) eqn:Fx.
  - destruct (f_bitlen f) as [l|] eqn:El; [|unfold fixed_size in Fx; rewrite El in Fx; discriminate Fx].
    rewrite (spec_value_var_size L LB LI p all pos acc f v raw size l Sv Fx El). apply IH. exact Ct.
  - apply spec_fields_gen_unfixed.
Qed.
