(* SpecVarProofs.v — C01 for definitions of variable layout: running the template's steps as the
   generated code runs them (running bit offset, bits_to_skip, registers, appends) equals the
   position-threading specification of SpecVar.v, for every payload. *)
From NV Require Import Base Bits Defn PyNum Fields Dispatch DispatchProofs Template Spec SpecProofs SpecVar.

(* ---------- the payload seen from a bit position ---------- *)
Lemma pow2_pos n : 0 <= n -> 0 < 2 ^ n.
Proof. intros. apply Z.pow_pos_nonneg; lia. Qed.

Lemma rest_add p a l : 0 <= a -> 0 <= l -> p / 2 ^ (a + l) = p / 2 ^ a / 2 ^ l.
Proof.
  intros Ha Hl. rewrite Z.pow_add_r by lia.
  rewrite Z.div_div; [reflexivity | apply Z.pow_nonzero; lia | apply pow2_pos; lia].
Qed.

(* the invariant of the proof: the code's running offset a and the specification's position b show
   the same rest of the payload *)
Lemma rest_step p a b l : 0 <= a -> 0 <= b -> 0 <= l ->
  p / 2 ^ a = p / 2 ^ b -> p / 2 ^ (a + l) = p / 2 ^ (b + l).
Proof. intros Ha Hb Hl E. rewrite !rest_add by lia. rewrite E. reflexivity. Qed.

Lemma field_bits_rest p a b len : p / 2 ^ a = p / 2 ^ b -> field_bits p a len = field_bits p b len.
Proof. intros E. unfold field_bits. rewrite E. reflexivity. Qed.

Lemma decode_int_rest p a b len : 0 <= a -> 0 <= len -> p / 2 ^ a = p / 2 ^ b ->
  decode_int p a len = field_bits p b len.
Proof. intros Ha Hl E. rewrite decode_int_bits by lia. apply field_bits_rest. exact E. Qed.

(* ---------- little-endian bytes of the rest = payload bytes ---------- *)
Lemma le_bytes_payload p : forall k pos, 0 <= pos -> le_bytes k (p / 2 ^ pos) = payload_bytes p pos k.
Proof.
  induction k as [|k IH]; intros pos Hp; [reflexivity|].
  unfold payload_bytes. cbn [le_bytes seq map].
  f_equal.
  - unfold field_bits. replace (pos + 8 * Z.of_nat 0) with pos by lia. reflexivity.
  - change 256 with (2 ^ 8). rewrite <- rest_add by lia. rewrite IH by lia.
    unfold payload_bytes. rewrite <- seq_shift, map_map. apply map_ext. intros i.
    f_equal. lia.
Qed.

Lemma payload_bytes_length p pos k : length (payload_bytes p pos k) = k.
Proof. unfold payload_bytes. rewrite map_length, seq_length. reflexivity. Qed.

Lemma firstn_seq_le : forall k m s, (k <= m)%nat -> firstn k (seq s m) = seq s k.
Proof.
  induction k as [|k IH]; intros m s H; [reflexivity|].
  destruct m as [|m]; [lia|]. cbn [seq firstn]. f_equal. apply IH. lia.
Qed.

Lemma payload_bytes_firstn p pos k m : (k <= m)%nat ->
  firstn k (payload_bytes p pos m) = payload_bytes p pos k.
Proof. intros H. unfold payload_bytes. rewrite firstn_map, firstn_seq_le by exact H. reflexivity. Qed.

Lemma payload_bytes_nth p pos k i : (i < k)%nat ->
  nth i (payload_bytes p pos k) 0 = field_bits p (pos + 8 * Z.of_nat i) 8.
Proof.
  intros H. unfold payload_bytes.
  set (f := fun i : nat => field_bits p (pos + 8 * Z.of_nat i) 8).
  rewrite (nth_indep _ 0 (f 0%nat)) by (rewrite map_length, seq_length; exact H).
  rewrite map_nth, seq_nth by exact H. reflexivity.
Qed.

Lemma bit_length_pos x : x <> 0 -> 1 <= bit_length x.
Proof.
  intros H. unfold bit_length. destruct (Z.eqb_spec x 0) as [E|_]; [contradiction|].
  pose proof (Z.log2_nonneg x). lia.
Qed.
Lemma extent_pos x : x <> 0 -> 1 <= extent x.
Proof.
  intros H. unfold extent. pose proof (bit_length_pos x H).
  apply Z.div_le_lower_bound; lia.
Qed.
Lemma extent_zero : extent 0 = 0.
Proof. reflexivity. Qed.

(* ---------- the declarative content of the string specifications ---------- *)
(* a STRING_LAU whose declared length stays within the payload (up to one byte past its last non-zero
   byte) denotes exactly its header and its n-2 declared bytes, and occupies n bytes *)
Theorem lau_declared p pos : 0 <= pos -> p / 2 ^ pos <> 0 ->
  let n := field_bits p pos 8 in
  (Z.to_nat (n - 2) <= present p pos)%nat ->
  spec_string_lau p pos =
    do t <- lau_text (field_bits p (pos + 8) 8) (payload_bytes p (pos + 16) (Z.to_nat (n - 2)));
    Ok (VText t, 8 * n).
Proof.
  intros Hp Hx n Hn. unfold spec_string_lau.
  destruct (Z.eqb_spec (p / 2 ^ pos) 0) as [E|_]; [contradiction|].
  fold n. rewrite payload_bytes_firstn by exact Hn. reflexivity.
Qed.

Theorem lz_declared p pos : 0 <= pos -> p / 2 ^ pos <> 0 ->
  let n := field_bits p pos 8 in
  (Z.to_nat n <= present p pos)%nat ->
  spec_string_lz p pos = do t <- utf8_ignore (payload_bytes p (pos + 8) (Z.to_nat n)); Ok (VText t).
Proof.
  intros Hp Hx n Hn. unfold spec_string_lz.
  destruct (Z.eqb_spec (p / 2 ^ pos) 0) as [E|_]; [contradiction|].
  fold n. rewrite payload_bytes_firstn by exact Hn. reflexivity.
Qed.

(* ---------- the string decoders of the code against the specification ---------- *)
Lemma to_nat_succ e : 1 <= e -> Z.to_nat e = S (Z.to_nat (e - 1)).
Proof. intros. rewrite <- Z2Nat.inj_succ by lia. f_equal. lia. Qed.

Lemma decode_string_lau_spec p o start : 0 <= o -> 0 <= start -> p / 2 ^ o = p / 2 ^ start ->
  match spec_string_lau p start with
  | Ok (v, size) => exists skip, decode_string_lau p o = Ok (v, skip) /\ 0 <= skip /\ 0 <= size
                                 /\ p / 2 ^ (o + skip) = p / 2 ^ (start + size)
  | Err e => decode_string_lau p o = Err e
  | Unmodelled => decode_string_lau p o = Unmodelled
  end.
Proof.
  intros Ho Hs E. unfold spec_string_lau, decode_string_lau, present.
  rewrite Z.shiftr_div_pow2 by lia. rewrite E.
  set (x := p / 2 ^ start) in *.
  destruct (Z.eqb_spec x 0) as [X0|Xn].
  - rewrite X0. change (bit_length 0) with 0. change ((0 + 7) / 8) with 0.
    cbn [Z.to_nat le_bytes length zlen]. exists 1. split; [reflexivity|]. split; [lia|]. split; [lia|].
    rewrite rest_add by lia. rewrite E. fold x. rewrite X0.
    replace (start + 0) with start by lia. fold x. rewrite X0. reflexivity.
  - pose proof (extent_pos x Xn) as He. unfold extent in He.
    rewrite (to_nat_succ ((bit_length x + 7) / 8)) by exact He.
    fold (extent x).
    cbn [le_bytes].
    assert (N : x mod 256 = field_bits p start 8) by reflexivity.
    assert (A : x / 256 mod 256 = field_bits p (start + 8) 8).
    { unfold field_bits. rewrite rest_add by lia. reflexivity. }
    assert (R : le_bytes (Z.to_nat (extent x - 1)) (x / 256 / 256)
                = payload_bytes p (start + 16) (Z.to_nat (extent x - 1))).
    { rewrite <- le_bytes_payload by lia. f_equal.
      replace (start + 16) with (start + 8 + 8) by lia.
      rewrite !rest_add by lia. reflexivity. }
    rewrite N, A, R.
    destruct (lau_text _ _) as [t|e|]; cbn [bind]; [|reflexivity|reflexivity].
    assert (B : 0 <= field_bits p start 8 < 2 ^ 8) by (apply field_bits_range; lia).
    exists (field_bits p start 8 * 8). split; [reflexivity|]. split; [lia|]. split; [lia|].
    replace (field_bits p start 8 * 8) with (8 * field_bits p start 8) by lia.
    apply rest_step; try lia; try exact E.
Qed.

Lemma decode_string_lz_spec p o start : 0 <= o -> 0 <= start -> p / 2 ^ o = p / 2 ^ start ->
  decode_string_lz p o = spec_string_lz p start.
Proof.
  intros Ho Hs E. unfold spec_string_lz, decode_string_lz, present.
  rewrite Z.shiftr_div_pow2 by lia. rewrite E.
  set (x := p / 2 ^ start) in *.
  destruct (Z.eqb_spec x 0) as [X0|Xn].
  - rewrite X0. reflexivity.
  - pose proof (extent_pos x Xn) as He. unfold extent in He.
    rewrite (to_nat_succ ((bit_length x + 7) / 8)) by exact He.
    fold (extent x). cbn [le_bytes].
    assert (N : x mod 256 = field_bits p start 8) by reflexivity.
    assert (R : le_bytes (Z.to_nat (extent x - 1)) (x / 256)
                = payload_bytes p (start + 8) (Z.to_nat (extent x - 1))).
    { rewrite <- le_bytes_payload by lia. f_equal. rewrite rest_add by lia. reflexivity. }
    rewrite N, R. reflexivity.
Qed.

(* ---------- the field types exclude one another ---------- *)
Lemma lau_excl f : is_t f T_STRING_LAU = true ->
  is_numberlike f = false /\ is_t f T_LOOKUP = false /\ is_t f T_BITLOOKUP = false
  /\ is_t f T_STRING_FIX = false /\ is_t f T_STRING_LZ = false /\ is_t f T_INDIRECT = false.
Proof.
  unfold is_numberlike, is_t. intros H. apply Z.eqb_eq in H. rewrite H.
  vm_compute. repeat split; reflexivity.
Qed.
Lemma lz_excl f : is_t f T_STRING_LZ = true ->
  is_numberlike f = false /\ is_t f T_LOOKUP = false /\ is_t f T_BITLOOKUP = false
  /\ is_t f T_STRING_FIX = false /\ is_t f T_STRING_LAU = false /\ is_t f T_INDIRECT = false.
Proof.
  unfold is_numberlike, is_t. intros H. apply Z.eqb_eq in H. rewrite H.
  vm_compute. repeat split; reflexivity.
Qed.
Lemma indirect_excl f : is_t f T_INDIRECT = true ->
  is_numberlike f = false /\ is_t f T_LOOKUP = false /\ is_t f T_BITLOOKUP = false
  /\ is_t f T_STRING_FIX = false /\ is_t f T_STRING_LZ = false /\ is_t f T_STRING_LAU = false
  /\ is_t f T_FLOAT = false /\ is_t f T_TIME = false /\ is_t f T_DATE = false
  /\ (is_t f T_RESERVED || is_t f T_SPARE) = false /\ is_t f T_BINARY = false.
Proof.
  unfold is_numberlike, is_t. intros H. apply Z.eqb_eq in H. rewrite H.
  vm_compute. repeat split; reflexivity.
Qed.
Lemma binary_excl f : is_t f T_BINARY = true ->
  is_numberlike f = false /\ is_t f T_LOOKUP = false /\ is_t f T_BITLOOKUP = false
  /\ is_t f T_STRING_FIX = false /\ is_t f T_STRING_LZ = false /\ is_t f T_STRING_LAU = false
  /\ is_t f T_FLOAT = false /\ is_t f T_TIME = false /\ is_t f T_DATE = false
  /\ (is_t f T_RESERVED || is_t f T_SPARE) = false /\ is_t f T_INDIRECT = false.
Proof.
  unfold is_numberlike, is_t. intros H. apply Z.eqb_eq in H. rewrite H.
  vm_compute. repeat split; reflexivity.
Qed.

Lemma unknown_types f : known_type f = false ->
  is_numberlike f = false /\ is_t f T_LOOKUP = false /\ is_t f T_BITLOOKUP = false
  /\ is_t f T_STRING_FIX = false /\ is_t f T_STRING_LZ = false /\ is_t f T_STRING_LAU = false
  /\ is_t f T_FLOAT = false /\ is_t f T_TIME = false /\ is_t f T_DATE = false
  /\ (is_t f T_RESERVED || is_t f T_SPARE) = false /\ is_t f T_INDIRECT = false /\ is_t f T_BINARY = false.
Proof.
  unfold known_type. intros H.
  do 11 (apply orb_false_iff in H; let H2 := fresh "U" in destruct H as [H H2]).
  repeat split; assumption.
Qed.

Lemma body_steps_unknown f : known_type f = false -> body_steps f = Some [SRaise].
Proof.
  intros H. destruct (unknown_types f H) as (X1 & X2 & X3 & X4 & X5 & X6 & X7 & X8 & X9 & X10 & X11 & X12).
  unfold body_steps. rewrite X1, X2, X3, X4, X5, X6, X7, X8, X9, X10, X11, X12. reflexivity.
Qed.

Lemma spec_value_unknown L LB p f off len : known_type f = false ->
  spec_value L LB p f off len = Err EUnsupported.
Proof.
  intros H. destruct (unknown_types f H) as (X1 & X2 & X3 & X4 & X5 & X6 & X7 & X8 & X9 & X10 & X11 & X12).
  unfold spec_value. rewrite X1, X2, X3, X4, X7, X8, X9, X10, X12. reflexivity.
Qed.

(* ---------- shape of one field's steps under the empty INDIRECT namespace ---------- *)
Definition pre_of (f : dbfield) : list dstep := match f_bitoff f with Some o => [SSetOff o] | None => [] end.
Definition addlen_of (f : dbfield) : list dstep := match f_bitlen f with Some l => [SAddOff l] | None => [] end.
Definition lenz (f : dbfield) : Z := match f_bitlen f with Some l => l | None => 0 end.
Definition not_raise (b : list dstep) : bool := match b with SRaise :: _ => false | _ => true end.

Lemma field_steps_ns0 f b : body_steps f = Some b -> not_raise b = true -> is_t f T_INDIRECT = false ->
  field_steps f ns0 = Some (pre_of f ++ b ++ [append_step f] ++ addlen_of f, ns0, false).
Proof.
  intros B NR T. unfold field_steps. rewrite B, T. fold (pre_of f). fold (addlen_of f).
  cbn [ns_order ns_orig ns_tbl ns0]. rewrite app_nil_r.
  destruct b as [|st b']; [reflexivity|].
  destruct st; try reflexivity. discriminate NR.
Qed.

Lemma field_steps_unknown f n : known_type f = false ->
  field_steps f n = Some (pre_of f ++ [SRaise], n, true).
Proof. intros K. unfold field_steps. rewrite (body_steps_unknown f K). reflexivity. Qed.

(* ---------- composition of the interpreter ---------- *)
Ltac rs := cbn [run_steps step bind i_off i_val i_raw i_skip i_acc set_regs set_val set_off fst snd app].

Section Run.
  Variable L LB : lookups.
  Variable LI : ilookups.
  Variable p : Z.
  Variable all : list dbfield.
  Notation run := (run_steps L LB LI p).

  (* the common ending of the fixed-size cases: offset o and position start advance by len *)
  Lemma fixed_tail o start len (last : bool) : 0 <= o -> 0 <= start -> 1 <= len ->
    p / 2 ^ o = p / 2 ^ start ->
    0 <= o + len /\ 0 <= start + len /\ (last = false -> p / 2 ^ (o + len) = p / 2 ^ (start + len)).
  Proof. intros Ho Hs Hl E. split; [lia|]. split; [lia|]. intros _. apply rest_step; try lia; try exact E. Qed.

  (* the statements of one field between the offset assignment and the append, started with the
     running offset o where the specification is at position start *)
  Lemma body_run f o v0 r0 k0 acc start i fixed last b :
    known_type f = true -> var_field_ok i fixed last f = true -> length acc = i ->
    body_steps f = Some b -> 0 <= o -> 0 <= start -> p / 2 ^ o = p / 2 ^ start ->
    not_raise b = true /\
    match spec_value_var L LB LI p all start acc f with
    | Ok (v, raw, size) =>
        exists o2 k2, run (mkIst o v0 r0 k0 acc) b = Ok (mkIst o2 v raw k2 acc)
          /\ 0 <= o2 + lenz f /\ 0 <= start + size
          /\ (last = false -> p / 2 ^ (o2 + lenz f) = p / 2 ^ (start + size))
    | Err e => run (mkIst o v0 r0 k0 acc) b = Err e
    | Unmodelled => run (mkIst o v0 r0 k0 acc) b = Unmodelled
    end.
  Proof.
    intros K V Hlen B Ho Hs E.
    unfold var_field_ok in V. apply andb_true_iff in V. destruct V as [_ V].
    rewrite K in V. cbn [negb] in V.
    unfold spec_value_var. rewrite K. cbn [negb]. unfold lenz.
    destruct (is_t f T_STRING_LAU) eqn:Tlau.
    { destruct (lau_excl f Tlau) as (X1 & X2 & X3 & X4 & X5 & X6).
      unfold body_steps in B. rewrite X1, X2, X3, X4, X5, Tlau in B. inversion B; subst b. clear B.
      split; [reflexivity|].
      destruct (f_bitlen f) eqn:El; [discriminate|].
      pose proof (decode_string_lau_spec p o start Ho Hs E) as D.
      destruct (spec_string_lau p start) as [[v size]|e|]; rs.
      - destruct D as (skip & D & S1 & S2 & S3).
        exists (o + skip), skip. rewrite D. rs. split; [reflexivity|].
        split; [lia|]. split; [lia|]. intros _. replace (o + skip + 0) with (o + skip) by lia. exact S3.
      - rewrite D. reflexivity.
      - rewrite D. reflexivity. }
    destruct (is_t f T_STRING_LZ) eqn:Tlz.
    { destruct (lz_excl f Tlz) as (X1 & X2 & X3 & X4 & X5 & X6).
      unfold body_steps in B. rewrite X1, X2, X3, X4, Tlz in B. inversion B; subst b. clear B.
      split; [reflexivity|]. rs.
      rewrite (decode_string_lz_spec p o start Ho Hs E).
      destruct (spec_string_lz p start) as [v|e|]; rs; [|reflexivity|reflexivity].
      exists o, k0. split; [reflexivity|].
      destruct (f_bitlen f) as [l|] eqn:El.
      - apply Z.leb_le in V. split; [lia|]. split; [lia|]. intros _. apply rest_step; try lia; try exact E.
      - subst last. unfold lz_size.
        assert (Bn : 0 <= field_bits p start 8 < 2 ^ 8) by (apply field_bits_range; lia).
        split; [lia|]. split; [lia|]. discriminate. }
    destruct (is_t f T_INDIRECT) eqn:Tind; [discriminate V|].
    unfold body_steps in B. rewrite Tlz, Tlau, Tind in B.
    destruct (f_bitlen f) as [len|] eqn:El.
    - apply Z.leb_le in V. unfold spec_value.
      destruct (is_numberlike f) eqn:T1.
      { destruct (f_res f) as [r|]; [|discriminate]. destruct (f_min f) as [mn|]; [|discriminate].
        destruct (f_max f) as [mx|]; [|discriminate].
        cbn in B. inversion B; subst b. split; [reflexivity|]. rs.
        rewrite decode_number_spec by lia. rewrite (field_bits_rest p o start len E).
        destruct (spec_number _ _ _ _ _ _) as [v|e|]; rs; [|reflexivity|reflexivity].
        exists o, k0. split; [reflexivity|]. apply fixed_tail; assumption. }
      destruct (is_t f T_LOOKUP) eqn:T2.
      { destruct (f_lookup f) as [t|]; [|discriminate].
        cbn in B. inversion B; subst b. split; [reflexivity|]. rs.
        rewrite (decode_int_rest p o start len) by (try lia; exact E).
        destruct (find_tbl t L) as [tb|]; rs; [|reflexivity].
        exists o, k0. split; [reflexivity|]. apply fixed_tail; assumption. }
      destruct (is_t f T_BITLOOKUP) eqn:T3.
      { destruct (f_bitlookup f) as [t|]; [|discriminate].
        cbn in B. inversion B; subst b. split; [reflexivity|]. rs.
        rewrite (decode_int_rest p o start len) by (try lia; exact E).
        destruct (find_tbl t LB) as [tb|]; rs; [|reflexivity].
        exists o, k0. split; [reflexivity|]. apply fixed_tail; assumption. }
      destruct (is_t f T_STRING_FIX) eqn:T4.
      { cbn in B. inversion B; subst b. split; [reflexivity|]. rs.
        unfold decode_string_fix. rewrite (decode_int_rest p o start len) by (try lia; exact E).
        destruct (strfix_of_bits _ _) as [v|e|]; rs; [|reflexivity|reflexivity].
        exists o, k0. split; [reflexivity|]. apply fixed_tail; assumption. }
      destruct (is_t f T_FLOAT) eqn:T5.
      { destruct (f_min f) as [mn|]; [|discriminate]. destruct (f_max f) as [mx|]; [|discriminate].
        cbn in B. inversion B; subst b. split; [reflexivity|]. rs.
        unfold decode_float. rewrite (decode_int_rest p o start len) by (try lia; exact E).
        destruct (float_of_fbits _ _ _) as [v|e|]; rs; [|reflexivity|reflexivity].
        exists o, k0. split; [reflexivity|]. apply fixed_tail; assumption. }
      destruct (is_t f T_TIME) eqn:T6.
      { destruct (f_res f) as [r|]; [|discriminate]. destruct (f_min f) as [mn|]; [|discriminate].
        destruct (f_max f) as [mx|]; [|discriminate].
        cbn in B. inversion B; subst b. split; [reflexivity|]. rs.
        rewrite decode_number_spec by lia. rewrite (field_bits_rest p o start len E).
        destruct (spec_number _ _ _ _ _ _) as [v|e|]; rs; [|reflexivity|reflexivity].
        destruct (decode_time v) as [w|e|]; rs; [|reflexivity|reflexivity].
        exists o, k0. split; [reflexivity|]. apply fixed_tail; assumption. }
      destruct (is_t f T_DATE) eqn:T7.
      { destruct (f_res f) as [r|]; [|discriminate]. destruct (f_min f) as [mn|]; [|discriminate].
        destruct (f_max f) as [mx|]; [|discriminate].
        cbn in B. inversion B; subst b. split; [reflexivity|]. rs.
        rewrite decode_number_spec by lia. rewrite (field_bits_rest p o start len E).
        destruct (spec_number _ _ _ _ _ _) as [v|e|]; rs; [|reflexivity|reflexivity].
        destruct (decode_date v) as [w|e|]; rs; [|reflexivity|reflexivity].
        exists o, k0. split; [reflexivity|]. apply fixed_tail; assumption. }
      destruct (is_t f T_RESERVED || is_t f T_SPARE) eqn:T8.
      { cbn in B. inversion B; subst b. split; [reflexivity|]. rs.
        rewrite (decode_int_rest p o start len) by (try lia; exact E).
        exists o, k0. split; [reflexivity|]. apply fixed_tail; assumption. }
      destruct (is_t f T_BINARY) eqn:T9.
      { cbn in B. inversion B; subst b. split; [reflexivity|]. rs.
        rewrite (decode_int_rest p o start len) by (try lia; exact E).
        exists o, k0. split; [reflexivity|]. apply fixed_tail; assumption. }
      (* a known type is one of the above *)
      exfalso. unfold known_type in K. rewrite T1, T2, T3, T4, Tlz, Tlau, T5, T6, T7, T8, Tind, T9 in K. discriminate K.
    - (* BINARY with BitLengthField *)
      apply andb_true_iff in V. destruct V as [V Vk]. apply andb_true_iff in V. destruct V as [Tb Vl].
      subst last.
      destruct (binary_excl f Tb) as (X1 & X2 & X3 & X4 & X5 & X6 & X7 & X8 & X9 & X10 & X11).
      rewrite X1, X2, X3, X4, X7, X8, X9, X10, Tb in B.
      rewrite Tb.
      destruct (f_bitlenfield f) as [k|]; [|discriminate].
      inversion B; subst b. clear B. split; [reflexivity|].
      cbv beta iota delta [run_steps step bind i_off i_val i_raw i_skip i_acc set_regs].
      destruct (nth_error acc (Z.to_nat (k - 1))) as [lf|] eqn:En; [|reflexivity].
      destruct (fl_val lf) as [|n| | | | |] eqn:Ev; try reflexivity.
      cbv beta iota. rewrite En. cbv beta iota. rewrite Ev. cbv beta iota.
      destruct (Z.ltb_spec n 0) as [Hn|Hn]; [reflexivity|].
      rewrite (decode_int_rest p o start n) by (try lia; exact E).
      exists o, k0. split; [reflexivity|]. split; [lia|]. split; [lia|]. discriminate.
  Qed.

  Lemma var_field_ok_not_indirect f i fixed last :
    known_type f = true -> var_field_ok i fixed last f = true -> is_t f T_INDIRECT = false.
  Proof.
    intros K V. destruct (is_t f T_INDIRECT) eqn:T; [|reflexivity]. exfalso.
    destruct (indirect_excl f T) as (X1 & X2 & X3 & X4 & X5 & X6 & _).
    unfold var_field_ok in V. apply andb_true_iff in V. destruct V as [_ V].
    rewrite K, X6, X5, T in V. discriminate V.
  Qed.

  (* all the statements of one field: offset assignment, body, append, BitLength added *)
  Lemma field_run f s pos i fixed last steps n' stop :
    var_field_ok i fixed last f = true -> length (i_acc s) = i ->
    field_steps f ns0 = Some (steps, n', stop) ->
    0 <= i_off s -> 0 <= pos -> p / 2 ^ (i_off s) = p / 2 ^ pos ->
    n' = ns0 /\ stop = negb (known_type f) /\
    match spec_value_var L LB LI p all (start_of true fixed pos f) (i_acc s) f with
    | Ok (v, raw, size) =>
        exists s', run s steps = Ok s' /\ i_acc s' = i_acc s ++ [mk_field f v raw] /\ i_raw s' = raw
          /\ 0 <= i_off s' /\ 0 <= start_of true fixed pos f + size
          /\ (last = false -> p / 2 ^ (i_off s') = p / 2 ^ (start_of true fixed pos f + size))
    | Err e => run s steps = Err e
    | Unmodelled => run s steps = Unmodelled
    end.
  Proof.
    intros V Hlen F Ho Hp E. destruct s as [o v0 r0 k0 acc]. cbn [i_off i_acc] in *.
    (* the offset the body runs at, and the position the specification uses *)
    set (o' := match f_bitoff f with Some off => off | None => o end).
    set (start := start_of true fixed pos f).
    assert (Pre : run (mkIst o v0 r0 k0 acc) (pre_of f) = Ok (mkIst o' v0 r0 k0 acc)).
    { unfold pre_of, o'. destruct (f_bitoff f); reflexivity. }
    assert (Inv : 0 <= o' /\ 0 <= start /\ p / 2 ^ o' = p / 2 ^ start).
    { pose proof V as V'. unfold var_field_ok in V'. apply andb_true_iff in V'. destruct V' as [Vo _].
      unfold o', start, start_of. destruct (f_bitoff f) as [off|].
      - apply andb_true_iff in Vo. destruct Vo as [Vf Vo]. apply Z.leb_le in Vo. subst fixed.
        cbn [andb]. repeat split; lia.
      - repeat split; assumption. }
    destruct Inv as (Ho' & Hs & E').
    destruct (known_type f) eqn:K.
    - destruct (body_steps f) as [b|] eqn:B; [|unfold field_steps in F; rewrite B in F; discriminate F].
      destruct (body_run f o' v0 r0 k0 acc start i fixed last b K V Hlen B Ho' Hs E') as [NR R].
      pose proof (var_field_ok_not_indirect f i fixed last K V) as Tind.
      rewrite (field_steps_ns0 f b B NR Tind) in F. inversion F; subst steps n' stop. clear F.
      split; [reflexivity|]. split; [reflexivity|].
      rewrite run_app, Pre. cbn [bind]. rewrite run_app.
      destruct (spec_value_var L LB LI p all start acc f) as [[[v raw] size]|e|].
      + destruct R as (o2 & k2 & R & P1 & P2 & P3). rewrite R. cbn [bind].
        unfold addlen_of, lenz in *. unfold append_step, mk_field.
        destruct (f_bitlen f) as [l|]; rs.
        * eexists. split; [reflexivity|]. rs. split; [reflexivity|]. split; [reflexivity|].
          split; [exact P1|]. split; [exact P2|exact P3].
        * eexists. split; [reflexivity|]. rs. split; [reflexivity|]. split; [reflexivity|].
          replace (o2 + 0) with o2 in * by lia. split; [exact P1|]. split; [exact P2|exact P3].
      + rewrite R. reflexivity.
      + rewrite R. reflexivity.
    - rewrite (field_steps_unknown f ns0 K) in F. inversion F; subst steps n' stop. clear F.
      split; [reflexivity|]. split; [reflexivity|].
      unfold spec_value_var. rewrite K. cbn [negb].
      rewrite run_app, Pre. reflexivity.
  Qed.

  Lemma fields_run_var : forall fs s pos i fixed steps,
    var_fields_ok i fixed fs = true -> length (i_acc s) = i -> fields_steps fs ns0 = Some steps ->
    0 <= i_off s -> 0 <= pos -> (fs <> [] -> p / 2 ^ (i_off s) = p / 2 ^ pos) ->
    bind (run s steps) (fun s' => Ok (i_acc s')) = spec_fields_var L LB LI p all pos fixed (i_acc s) fs.
  Proof.
    induction fs as [|f t IH]; intros s pos i fixed steps V Hlen F Ho Hp E.
    - cbn in F. inversion F; subst steps. reflexivity.
    - cbn [var_fields_ok] in V. apply andb_true_iff in V. destruct V as [Vf Vt].
      cbn [fields_steps] in F.
      destruct (field_steps f ns0) as [[[st n'] stop]|] eqn:Ef; [|discriminate F].
      assert (E0 : p / 2 ^ i_off s = p / 2 ^ pos) by (apply E; discriminate).
      destruct (field_run f s pos i fixed _ st n' stop Vf Hlen Ef Ho Hp E0) as (-> & -> & R).
      unfold spec_fields_var. cbn [spec_fields_gen].
      destruct (spec_value_var L LB LI p all (start_of true fixed pos f) (i_acc s) f) as [[[v raw] size]|e|] eqn:Sv.
      + destruct R as (s' & R & A & _ & P1 & P2 & P3).
        destruct (known_type f) eqn:K.
        * cbn [negb] in F.
          destruct (fields_steps t ns0) as [rest|] eqn:Er; [|discriminate F]. inversion F; subst steps. clear F.
          rewrite run_app, R. cbn [bind fst snd].
          rewrite <- A. apply (IH s' _ (S i) _ rest Vt); try assumption.
          -- rewrite A, app_length, Hlen. cbn [length]. lia.
          -- reflexivity.
          -- intros Ht. apply P3. destruct t; [contradiction|reflexivity].
        * (* an unsupported type: the specification refuses the field *)
          exfalso. unfold spec_value_var in Sv. rewrite K in Sv. discriminate Sv.
      + destruct (negb (known_type f)).
        * inversion F; subst steps. rewrite R. reflexivity.
        * destruct (fields_steps t ns0) as [rest|]; [|discriminate F]. inversion F; subst steps.
          rewrite run_app, R. reflexivity.
      + destruct (negb (known_type f)).
        * inversion F; subst steps. rewrite R. reflexivity.
        * destruct (fields_steps t ns0) as [rest|]; [|discriminate F]. inversion F; subst steps.
          rewrite run_app, R. reflexivity.
  Qed.
End Run.

(* ---------- the whole definition (variable layout without INDIRECT_LOOKUP) ---------- *)
Theorem run_template_is_spec_decode_layout L LB LI p d td :
  var_layout_def d = true -> ddef_of_db d = Some td ->
  run_ddef L LB LI p td = spec_decode_var L LB LI p d.
Proof.
  unfold var_layout_def, ddef_of_db, run_ddef, spec_decode_var. intros V F.
  destruct (fields_steps (d_fields d) ns0) as [steps|] eqn:Es; [|discriminate]. inversion F; subst. clear F.
  cbn [c_steps c_pgn c_id c_descr c_ttl run_steps step bind].
  change (set_off (mkIst 0 VNone VNone 0 []) 0) with (mkIst 0 VNone VNone 0 []).
  pose proof (fields_run_var L LB LI p (d_fields d) (d_fields d) (mkIst 0 VNone VNone 0 []) 0 0%nat true steps
                V eq_refl Es) as R.
  cbn [i_off i_acc] in R. specialize (R (Z.le_refl 0) (Z.le_refl 0) (fun _ => eq_refl)).
  rewrite <- R.
  destruct (run_steps L LB LI p (mkIst 0 VNone VNone 0 []) steps) as [s'|e|]; reflexivity.
Qed.

(* ---------- nothing already proved is weakened: on fixed-layout definitions the
              position-threading specification IS the field-by-field specification of Spec.v ---------- *)
Lemma simple_field_var L LB LI p all pos acc f : simple_field f = true ->
  exists off len, f_bitoff f = Some off /\ f_bitlen f = Some len /\ fixed_size f = true /\
    start_of true true pos f = off /\
    spec_value_var L LB LI p all off acc f = do vr <- spec_value L LB p f off len; Ok (fst vr, snd vr, len).
Proof.
  unfold simple_field. intros S.
  destruct (f_bitoff f) as [off|] eqn:Eo; [|discriminate].
  destruct (f_bitlen f) as [len|] eqn:El; [|discriminate].
  apply andb_true_iff in S. destruct S as [S Slau]. apply andb_true_iff in S. destruct S as [S Slz].
  apply andb_true_iff in S. destruct S as [S Sind]. apply negb_true_iff in Slau, Slz, Sind.
  exists off, len. split; [reflexivity|]. split; [reflexivity|].
  split; [unfold fixed_size; rewrite El, Slau; reflexivity|].
  split; [unfold start_of; rewrite Eo; reflexivity|].
  unfold spec_value_var. destruct (known_type f) eqn:K; cbn [negb].
  - rewrite Slau, Slz, Sind, El. reflexivity.
  - rewrite (spec_value_unknown L LB p f off len K). reflexivity.
Qed.

Lemma spec_fields_var_simple L LB LI p all : forall fs pos acc,
  forallb simple_field fs = true ->
  spec_fields_var L LB LI p all pos true acc fs = do r <- spec_fields L LB p fs; Ok (acc ++ r).
Proof.
  induction fs as [|f t IH]; intros pos acc S.
  - cbn. rewrite app_nil_r. reflexivity.
  - cbn [forallb] in S. apply andb_true_iff in S. destruct S as [Sf St].
    destruct (simple_field_var L LB LI p all pos acc f Sf) as (off & len & Eo & El & Fx & St0 & Sv).
    unfold spec_fields_var. cbn [spec_fields_gen spec_fields]. rewrite St0, Sv, Fx.
    unfold spec_field. rewrite Eo, El.
    destruct (spec_value L LB p f off len) as [[v raw]|e|]; cbn [bind fst snd andb]; [|reflexivity|reflexivity].
    fold (spec_fields_var L LB LI p all). rewrite IH by exact St.
    unfold mk_field.
    destruct (spec_fields L LB p t) as [r|e|]; cbn [bind]; [|reflexivity|reflexivity].
    rewrite <- app_assoc. reflexivity.
Qed.

Theorem spec_decode_var_simple L LB LI p d : simple_def d = true ->
  spec_decode_var L LB LI p d = spec_decode L LB p d.
Proof.
  unfold simple_def, spec_decode_var, spec_decode. intros S.
  rewrite spec_fields_var_simple by exact S.
  destruct (spec_fields L LB p (d_fields d)) as [r|e|]; reflexivity.
Qed.

(* ---------- "at the database BitOffset" = "at the running position" where both are defined ---------- *)
Lemma spec_value_var_size L LB LI p all pos acc f v raw size l :
  spec_value_var L LB LI p all pos acc f = Ok (v, raw, size) ->
  fixed_size f = true -> f_bitlen f = Some l -> size = l.
Proof.
  unfold spec_value_var, fixed_size. intros Sv Fx El. rewrite El in *. apply negb_true_iff in Fx. rewrite Fx in Sv.
  destruct (negb (known_type f)); [discriminate|].
  destruct (is_t f T_STRING_LZ).
  { destruct (spec_string_lz p pos); cbn [bind] in Sv; [|discriminate|discriminate]. inversion Sv; reflexivity. }
  destruct (is_t f T_INDIRECT).
  { destruct (f_indirect f); [|discriminate]. destruct (f_indirect_order f) as [k|]; [|discriminate].
    destruct (field_by_order all k) as [r|]; [|discriminate].
    destruct (f_bitoff r); [|discriminate]. destruct (f_bitlen r); [|discriminate].
    destruct (find_tbl _ LI); [|discriminate]. inversion Sv; reflexivity. }
  destruct (spec_value L LB p f pos l); cbn [bind] in Sv; [|discriminate|discriminate]. inversion Sv; reflexivity.
Qed.

Lemma spec_fields_gen_unfixed L LB LI p all : forall fs pos acc,
  spec_fields_gen L LB LI p all true pos false acc fs = spec_fields_gen L LB LI p all false pos false acc fs.
Proof.
  induction fs as [|f t IH]; intros pos acc; [reflexivity|].
  cbn [spec_fields_gen]. unfold start_of. cbn [andb].
  replace (match f_bitoff f with Some _ => pos | None => pos end) with pos by (destruct (f_bitoff f); reflexivity).
  destruct (spec_value_var L LB LI p all pos acc f) as [r|e|]; cbn [bind]; [|reflexivity|reflexivity].
  apply IH.
Qed.

Theorem spec_offsets_agree L LB LI p all : forall fs pos acc,
  offsets_consistent pos fs = true ->
  spec_fields_gen L LB LI p all true pos true acc fs = spec_fields_gen L LB LI p all false pos true acc fs.
Proof.
  induction fs as [|f t IH]; intros pos acc C; [reflexivity|].
  cbn [offsets_consistent] in C. apply andb_true_iff in C. destruct C as [Co Ct].
  cbn [spec_fields_gen].
  assert (St : start_of true true pos f = pos).
  { unfold start_of. destruct (f_bitoff f) as [off|]; [|reflexivity]. apply Z.eqb_eq in Co. exact Co. }
  assert (Sf : start_of false true pos f = pos) by (unfold start_of; destruct (f_bitoff f); reflexivity).
  rewrite St, Sf.
  destruct (spec_value_var L LB LI p all pos acc f) as [[[v raw] size]|e|] eqn:Sv; cbn [bind fst snd]; [|reflexivity|reflexivity].
  cbn [andb]. destruct (fixed_size f) eqn:Fx.
  - destruct (f_bitlen f) as [l|] eqn:El; [|unfold fixed_size in Fx; rewrite El in Fx; discriminate Fx].
    rewrite (spec_value_var_size L LB LI p all pos acc f v raw size l Sv Fx El). apply IH. exact Ct.
  - apply spec_fields_gen_unfixed.
Qed.

Lemma simple_is_layout d : simple_def d = true -> var_layout_def d = true.
Proof.
  unfold simple_def, var_layout_def. generalize 0%nat as i. induction (d_fields d) as [|f t IH]; intros i S; [reflexivity|].
  cbn [forallb] in S. apply andb_true_iff in S. destruct S as [Sf St].
  cbn [var_fields_ok]. rewrite andb_true_l.
  assert (Fx : fixed_size f = true /\ var_field_ok i true (match t with [] => true | _ => false end) f = true).
  { unfold simple_field in Sf. unfold fixed_size, var_field_ok.
    destruct (f_bitoff f) as [off|]; [|discriminate]. destruct (f_bitlen f) as [len|]; [|discriminate].
    apply andb_true_iff in Sf. destruct Sf as [Sf Slau]. apply andb_true_iff in Sf. destruct Sf as [Sf Slz].
    apply andb_true_iff in Sf. destruct Sf as [Sf Sind]. apply andb_true_iff in Sf. destruct Sf as [So Sl].
    apply negb_true_iff in Slau, Slz, Sind. rewrite Slau, Slz, Sind, So, Sl.
    split; [reflexivity|]. destruct (negb (known_type f)); reflexivity. }
  destruct Fx as [Fx Vf]. rewrite Vf, Fx. cbn [andb].
  destruct (known_type f); [apply IH; exact St | reflexivity].
Qed.

(* ====================== definitions carrying an INDIRECT_LOOKUP field ====================== *)
Lemma is_t_excl f a b : is_t f a = true -> (a =? b) = false -> is_t f b = false.
Proof. unfold is_t. intros H N. apply Z.eqb_eq in H. rewrite H. exact N. Qed.
(* rewrite every type test of f in the goal, knowing H : is_t f X = true *)
Ltac excl H :=
  repeat match goal with
         | |- context [is_t ?f ?Y] => first [ rewrite H | rewrite (is_t_excl f _ Y H eq_refl) ]
         end.

(* ---- patching one value of the accumulated field list ---- *)
Definition with_val (x : field) (v : value) : field :=
  mkField (fl_id x) (fl_name x) (fl_descr x) (fl_unit x) v (fl_raw x) (fl_pq x) (fl_type x) (fl_pk x).

Lemma patch_val_length v : forall l k, length (patch_val k v l) = length l.
Proof. induction l as [|x l IH]; intros [|k]; cbn; try reflexivity. rewrite IH. reflexivity. Qed.

Lemma patch_val_app v m : forall l k, (k < length l)%nat -> patch_val k v (l ++ m) = patch_val k v l ++ m.
Proof.
  induction l as [|x l IH]; intros [|k] H; cbn in *; try lia; try reflexivity.
  rewrite IH by lia. reflexivity.
Qed.

Lemma patch_val_last v x : forall l, patch_val (length l) v (l ++ [x]) = l ++ [with_val x v].
Proof. induction l as [|y l IH]; cbn; [reflexivity|]. rewrite IH. reflexivity. Qed.

Lemma nth_error_patch v : forall l k x, nth_error l k = Some x -> nth_error (patch_val k v l) k = Some (with_val x v).
Proof.
  induction l as [|y l IH]; intros [|k] x H; cbn in *; try discriminate.
  - inversion H; subst. reflexivity.
  - apply IH. exact H.
Qed.

Lemma patch_patch_id w : forall l k x, nth_error l k = Some x -> patch_val k (fl_val x) (patch_val k w l) = l.
Proof.
  induction l as [|y l IH]; intros [|k] x H; cbn in *; try discriminate.
  - inversion H; subst. destruct x; reflexivity.
  - rewrite (IH k x H). reflexivity.
Qed.

(* ---- static facts about the fields of this class ---- *)
Lemma ifield_facts i f : ifield_ok i f = true ->
  f_order f = Z.of_nat i + 1 /\ known_type f = true /\ is_t f T_STRING_LAU = false /\ is_t f T_STRING_LZ = false
  /\ exists off len, f_bitoff f = Some off /\ f_bitlen f = Some len /\ 0 <= off /\ 1 <= len.
Proof.
  unfold ifield_ok. intros H.
  apply andb_true_iff in H. destruct H as [H Hp]. apply andb_true_iff in H. destruct H as [H Hlz].
  apply andb_true_iff in H. destruct H as [H Hlau]. apply andb_true_iff in H. destruct H as [Ho Hk].
  apply Z.eqb_eq in Ho. apply negb_true_iff in Hlz, Hlau.
  repeat split; try assumption.
  destruct (f_bitoff f) as [off|]; [|discriminate]. destruct (f_bitlen f) as [len|]; [|discriminate].
  apply andb_true_iff in Hp. destruct Hp as [H1 H2]. apply Z.leb_le in H1, H2.
  exists off, len. repeat split; assumption.
Qed.

Lemma ifield_var_ok i last f : ifield_ok i f = true -> is_t f T_INDIRECT = false ->
  var_field_ok i true last f = true.
Proof.
  intros H T. destruct (ifield_facts i f H) as (_ & K & Tlau & Tlz & off & len & Eo & El & Ho & Hl).
  unfold var_field_ok. rewrite Eo, El, K, Tlau, Tlz, T. cbn [negb andb].
  apply andb_true_iff. split; apply Z.leb_le; assumption.
Qed.

Lemma spec_value_var_acc L LB LI p all pos acc acc' f l : f_bitlen f = Some l ->
  spec_value_var L LB LI p all pos acc f = spec_value_var L LB LI p all pos acc' f.
Proof. intros El. unfold spec_value_var. rewrite El. reflexivity. Qed.

(* the raw value of a LOOKUP / BITLOOKUP / RESERVED / SPARE field is its bits *)
Lemma sint_raw L LB LI p all pos acc f len v raw size :
  known_type f = true -> sint_type f = true -> f_bitlen f = Some len ->
  spec_value_var L LB LI p all pos acc f = Ok (v, raw, size) -> raw = VInt (field_bits p pos len).
Proof.
  intros K S El. unfold spec_value_var, spec_value, is_numberlike. rewrite K, El. cbn [negb].
  unfold sint_type in S.
  apply orb_true_iff in S. destruct S as [S|S]; [apply orb_true_iff in S; destruct S as [S|S];
                                                  [apply orb_true_iff in S; destruct S as [S|S]|]|].
  - excl S. cbn [orb negb andb].
    destruct (f_lookup f) as [t|]; [|discriminate]. destruct (find_tbl t L); [|discriminate].
    cbn [bind fst snd]. intros Sv. inversion Sv. reflexivity.
  - excl S. cbn [orb negb andb].
    destruct (f_bitlookup f) as [t|]; [|discriminate]. destruct (find_tbl t LB); [|discriminate].
    cbn [bind fst snd]. intros Sv. inversion Sv. reflexivity.
  - excl S. cbn [orb negb andb bind fst snd]. intros Sv. inversion Sv. reflexivity.
  - excl S. cbn [orb negb andb bind fst snd]. intros Sv. inversion Sv. reflexivity.
Qed.

Definition TEMP_VAL : value := VText [84; 69; 77; 80; 95; 86; 65; 76].

Section Indirect.
  Variable L LB : lookups.
  Variable LI : ilookups.
  Variable p : Z.
  Variable all : list dbfield.
  Notation run := (run_steps L LB LI p).
  (* the INDIRECT_LOOKUP field is number j (0-based); it names field number k (Order), which is r *)
  Variable j : nat.
  Variable k : Z.
  Variable t : str.
  Variable tb : list ((Z * Z) * str).
  Variable r : dbfield.
  Variable offk lenk : Z.
  Hypothesis Htb : find_tbl t LI = Some tb.
  Hypothesis Hr : nth_error all (Z.to_nat (k - 1)) = Some r.
  Hypothesis Hsint : sint_type r = true.
  Hypothesis Hro : f_bitoff r = Some offk.
  Hypothesis Hrl : f_bitlen r = Some lenk.
  Hypothesis Hjk : Z.of_nat j + 1 < k.

  Let n := mkNs (Some (Z.of_nat j + 1)) (Some k) (Some t).
  Definition specv (own : Z) : value :=
    match get_zz (field_bits p offk lenk, own) tb with Some nm => VText (bytes_of_str nm) | None => VNone end.

  Definition fire_of (f : dbfield) : list dstep := if k =? f_order f then [SIndirect t j j] else [].

  Lemma field_steps_n f b : body_steps f = Some b -> not_raise b = true -> is_t f T_INDIRECT = false ->
    field_steps f n = Some ((pre_of f ++ b ++ [append_step f] ++ addlen_of f) ++ fire_of f, n, false).
  Proof.
    intros B NR T. unfold field_steps. rewrite B, T. fold (pre_of f). fold (addlen_of f).
    unfold n. cbn [ns_order ns_orig ns_tbl].
    replace (Z.to_nat (Z.of_nat j + 1 - 1)) with j by lia. fold (fire_of f).
    rewrite <- !app_assoc.
    destruct b as [|st b']; [reflexivity|].
    destruct st; try reflexivity. discriminate NR.
  Qed.

  (* the fields after the INDIRECT_LOOKUP field: while field k has not been reached the code's list
     carries 'TEMP_VAL' at place j where the specification already has the looked-up value *)
  Lemma after_run : forall fs done s acc pos steps,
    all = done ++ fs -> length acc = length done -> (j < length done)%nat ->
    after_ok (length done) fs = true ->
    fields_steps fs n = Some steps ->
    (exists fj own, nth_error acc j = Some fj /\ fl_raw fj = VInt own /\ fl_val fj = specv own) ->
    i_acc s = (if Z.of_nat (length done) <? k then patch_val j TEMP_VAL acc else acc) ->
    0 <= i_off s ->
    bind (run s steps) (fun s' => Ok (i_acc s')) = spec_fields_var L LB LI p all pos true acc fs.
  Proof.
    induction fs as [|f fs IH]; intros done s acc pos steps Hall Hlen Hj V F Hfj Hacc Ho.
    - cbn in F. inversion F; subst steps. cbn [run_steps bind]. unfold spec_fields_var. cbn [spec_fields_gen].
      rewrite Hacc. rewrite app_nil_r in Hall. subst done.
      assert (Z.to_nat (k - 1) < length all)%nat by (apply nth_error_Some; rewrite Hr; discriminate).
      destruct (Z.ltb_spec (Z.of_nat (length all)) k); [lia|reflexivity].
    - cbn [after_ok] in V. apply andb_true_iff in V. destruct V as [V Vt].
      apply andb_true_iff in V. destruct V as [Vf Tind]. apply negb_true_iff in Tind.
      set (i := length done) in *.
      destruct (ifield_facts i f Vf) as (Eord & K & Tlau & Tlz & off & len & Eo & El & Hoff & Hl).
      pose proof (ifield_var_ok i (match fs with [] => true | _ => false end) f Vf Tind) as Vv.
      assert (Hlen' : length (i_acc s) = i).
      { rewrite Hacc. destruct (Z.of_nat i <? k); [rewrite patch_val_length|]; exact Hlen. }
      destruct (body_steps f) as [b|] eqn:B;
        [|cbn [fields_steps] in F; unfold field_steps in F; rewrite B in F; discriminate F].
      destruct (body_run L LB LI p all f off VNone VNone 0 (i_acc s) off i true _ b K Vv Hlen' B Hoff Hoff eq_refl) as [NR _].
      pose proof (field_steps_ns0 f b B NR Tind) as F0.
      cbn [fields_steps] in F. rewrite (field_steps_n f b B NR Tind) in F.
      set (base := pre_of f ++ b ++ [append_step f] ++ addlen_of f) in *.
      destruct (fields_steps fs n) as [rest|] eqn:Er; [|discriminate F]. inversion F; subst steps. clear F.
      destruct (field_run L LB LI p all f s (i_off s) i true _ _ _ _ Vv Hlen' F0 Ho Ho eq_refl) as (_ & _ & R).
      assert (St : start_of true true (i_off s) f = off) by (unfold start_of; rewrite Eo; reflexivity).
      assert (St' : start_of true true pos f = off) by (unfold start_of; rewrite Eo; reflexivity).
      rewrite St in R. rewrite (spec_value_var_acc L LB LI p all off (i_acc s) acc f len El) in R.
      unfold spec_fields_var. cbn [spec_fields_gen]. rewrite St'.
      assert (Fx : fixed_size f = true) by (unfold fixed_size; rewrite El, Tlau; reflexivity).
      rewrite Fx. cbn [andb].
      rewrite (run_app L LB LI p (base ++ fire_of f) rest), (run_app L LB LI p base (fire_of f)).
      destruct (spec_value_var L LB LI p all off acc f) as [[[v raw] size]|e|] eqn:Sv;
        cbn [bind fst snd]; [|rewrite R; reflexivity|rewrite R; reflexivity].
      destruct R as (s' & R & A & Raw & P1 & _ & _). rewrite R. cbn [bind].
      destruct Hfj as (fj & own & Nj & Rj & Vj).
      assert (Hfj' : exists fj own, nth_error (acc ++ [mk_field f v raw]) j = Some fj /\ fl_raw fj = VInt own /\ fl_val fj = specv own).
      { exists fj, own. split; [|split; assumption]. rewrite nth_error_app1 by lia. exact Nj. }
      assert (Hall' : all = (done ++ [f]) ++ fs) by (rewrite <- app_assoc; exact Hall).
      assert (Hlen2 : length (acc ++ [mk_field f v raw]) = length (done ++ [f])) by (rewrite !app_length; cbn [length]; lia).
      assert (Hj' : (j < length (done ++ [f]))%nat) by (rewrite app_length; lia).
      assert (Ei : length (done ++ [f]) = S i) by (rewrite app_length; cbn [length]; lia).
      unfold fire_of. rewrite Eord.
      destruct (Z.eqb_spec k (Z.of_nat i + 1)) as [Ek|Nk].
      + (* field k: the code resolves the pending value *)
        assert (Efr : f = r).
        { rewrite Hall in Hr. replace (Z.to_nat (k - 1)) with (i + 0)%nat in Hr by lia.
          rewrite nth_error_app2 in Hr by lia. replace (i + 0 - length done)%nat with 0%nat in Hr by lia.
          cbn in Hr. inversion Hr. reflexivity. }
        assert (Eoff : off = offk) by (subst f; congruence).
        assert (Elen : len = lenk) by (subst f; congruence).
        assert (Rw : raw = VInt (field_bits p off len)).
        { apply (sint_raw L LB LI p all off acc f len v raw size K); [subst f; exact Hsint|exact El|exact Sv]. }
        assert (Raw' : i_raw s' = VInt (field_bits p off len)) by (rewrite Raw; exact Rw).
        assert (Acc' : i_acc s' = patch_val j TEMP_VAL acc ++ [mk_field f v raw]).
        { rewrite A, Hacc. destruct (Z.ltb_spec (Z.of_nat i) k); [reflexivity|lia]. }
        assert (Nj' : nth_error (i_acc s') j = Some (with_val fj TEMP_VAL)).
        { rewrite Acc'. rewrite nth_error_app1 by (rewrite patch_val_length; lia). apply nth_error_patch. exact Nj. }
        cbn [app run_steps step]. rewrite Htb, Raw', Nj'. cbn [fl_raw with_val]. rewrite Rj. cbn [bind].
        apply (IH (done ++ [f]) _ (acc ++ [mk_field f v raw]) (off + size) rest Hall' Hlen2 Hj'); try assumption; try reflexivity.
        * rewrite Ei. exact Vt.
        * cbn [i_acc]. rewrite Ei. destruct (Z.ltb_spec (Z.of_nat (S i)) k); [lia|].
          rewrite Acc'. rewrite patch_val_app by (rewrite patch_val_length; lia).
          f_equal. rewrite Eoff, Elen. fold (specv own). rewrite <- Vj. apply patch_patch_id. exact Nj.
      + cbn [app].
        apply (IH (done ++ [f]) s' (acc ++ [mk_field f v raw]) (off + size) rest Hall' Hlen2 Hj'); try assumption; try reflexivity.
        * rewrite Ei. exact Vt.
        * rewrite Ei, A, Hacc.
          destruct (Z.ltb_spec (Z.of_nat i) k); destruct (Z.ltb_spec (Z.of_nat (S i)) k); try lia; try reflexivity.
          rewrite patch_val_app by lia. reflexivity.
  Qed.
End Indirect.

Lemma field_steps_indirect f off len tbn k :
  is_t f T_INDIRECT = true -> f_bitoff f = Some off -> f_bitlen f = Some len ->
  f_indirect f = Some tbn -> f_indirect_order f = Some k -> k <> f_order f ->
  field_steps f ns0 = Some ([SSetOff off; SInt false len; STempVal; append_step f; SAddOff len],
                            mkNs (Some (f_order f)) (Some k) (Some tbn), false).
Proof.
  intros T Eo El Et Ek Nk.
  destruct (indirect_excl f T) as (X1 & X2 & X3 & X4 & X5 & X6 & X7 & X8 & X9 & X10 & X11).
  unfold field_steps, body_steps. rewrite X1, X2, X3, X4, X5, X6, X7, X8, X9, X10, T, Eo, El, Et, Ek.
  cbn [ns_order ns_orig ns_tbl app].
  destruct (Z.eqb_spec k (f_order f)) as [E|_]; [contradiction|]. reflexivity.
Qed.

Definition tables_ok_fields (LI : ilookups) (fs : list dbfield) : bool :=
  forallb (fun f => if is_t f T_INDIRECT
                    then match f_indirect f with
                         | Some t => match find_tbl t LI with Some _ => true | None => false end
                         | None => false
                         end
                    else true) fs.

Lemma before_run L LB LI p all : forall fs done s pos steps,
  all = done ++ fs -> length (i_acc s) = length done ->
  before_ok all (length done) fs = true -> tables_ok_fields LI fs = true ->
  fields_steps fs ns0 = Some steps -> 0 <= i_off s ->
  bind (run_steps L LB LI p s steps) (fun s' => Ok (i_acc s'))
  = spec_fields_var L LB LI p all pos true (i_acc s) fs.
Proof.
  induction fs as [|f fs IH]; intros done s pos steps Hall Hlen V Tb F Ho; [discriminate V|].
  cbn [before_ok] in V. apply andb_true_iff in V. destruct V as [Vf V].
  cbn [tables_ok_fields forallb] in Tb. apply andb_true_iff in Tb. destruct Tb as [Tbf Tbt].
  set (i := length done) in *.
  destruct (ifield_facts i f Vf) as (Eord & K & Tlau & Tlz & off & len & Eo & El & Hoff & Hl).
  assert (St : forall q, start_of true true q f = off) by (intros q; unfold start_of; rewrite Eo; reflexivity).
  assert (Fx : fixed_size f = true) by (unfold fixed_size; rewrite El, Tlau; reflexivity).
  assert (Hall' : all = (done ++ [f]) ++ fs) by (rewrite <- app_assoc; exact Hall).
  assert (Ei : length (done ++ [f]) = S i) by (rewrite app_length; cbn [length]; lia).
  unfold spec_fields_var. cbn [spec_fields_gen]. rewrite St, Fx. cbn [andb].
  destruct (is_t f T_INDIRECT) eqn:Tind.
  - (* the INDIRECT_LOOKUP field itself *)
    destruct (f_indirect f) as [tbn|] eqn:Et; [|discriminate V].
    destruct (f_indirect_order f) as [k|] eqn:Ek; [|discriminate V].
    apply andb_true_iff in V. destruct V as [V Va]. apply andb_true_iff in V. destruct V as [Vk Vr].
    apply Z.ltb_lt in Vk.
    destruct (nth_error all (Z.to_nat (k - 1))) as [r|] eqn:Hr; [|discriminate Vr].
    apply andb_true_iff in Vr. destruct Vr as [Hsint Vr].
    destruct (f_bitoff r) as [offk|] eqn:Hro; [|discriminate Vr].
    destruct (f_bitlen r) as [lenk|] eqn:Hrl; [|discriminate Vr].
    destruct (find_tbl tbn LI) as [tb|] eqn:Htb; [|discriminate Tbf].
    assert (Nk : k <> f_order f) by lia.
    cbn [fields_steps] in F. rewrite (field_steps_indirect f off len tbn k Tind Eo El Et Ek Nk) in F.
    cbn [negb] in F. rewrite Eord in F.
    destruct (fields_steps fs (mkNs (Some (Z.of_nat i + 1)) (Some k) (Some tbn))) as [rest|] eqn:Er; [|discriminate F].
    inversion F; subst steps. clear F.
    (* what the specification says of the field *)
    unfold spec_value_var at 1. rewrite K, Tlau, Tlz, Tind, El, Et, Ek. cbn [negb].
    unfold field_by_order. rewrite Hr, Hro, Hrl, Htb. cbn [bind fst snd].
    (* what the code does *)
    unfold append_step. cbn [run_steps step bind i_off i_val i_raw i_skip i_acc set_off set_regs set_val].
    rewrite decode_int_bits by lia.
    set (own := field_bits p off len).
    apply (after_run L LB LI p all i k tbn tb r offk lenk Htb Hr Hsint Hro Hrl Vk fs (done ++ [f]) _ _ _ rest Hall');
      try assumption; try reflexivity.
    + rewrite !app_length. cbn [length]. lia.
    + rewrite Ei. lia.
    + rewrite Ei. exact Va.
    + eexists. exists own. split.
      { rewrite nth_error_app2 by lia. replace (i - length (i_acc s))%nat with 0%nat by lia. reflexivity. }
      split; reflexivity.
    + cbn [i_acc]. rewrite Ei. destruct (Z.ltb_spec (Z.of_nat (S i)) k); [|lia].
      rewrite <- Hlen. rewrite patch_val_last. reflexivity.
    + cbn [i_off set_off]. lia.
  - (* a fixed-layout field before it *)
    pose proof (ifield_var_ok i (match fs with [] => true | _ => false end) f Vf Tind) as Vv.
    cbn [fields_steps] in F.
    destruct (field_steps f ns0) as [[[st n'] stop]|] eqn:Ef; [|discriminate F].
    destruct (field_run L LB LI p all f s (i_off s) i true _ st n' stop Vv Hlen Ef Ho Ho eq_refl) as (-> & -> & R).
    rewrite K in F. cbn [negb] in F. rewrite St in R.
    destruct (fields_steps fs ns0) as [rest|] eqn:Er; [|discriminate F]. inversion F; subst steps. clear F.
    rewrite run_app.
    destruct (spec_value_var L LB LI p all off (i_acc s) f) as [[[v raw] size]|e|];
      cbn [bind fst snd]; [|rewrite R; reflexivity|rewrite R; reflexivity].
    destruct R as (s' & R & A & _ & P1 & _ & _). rewrite R. cbn [bind]. rewrite <- A.
    apply (IH (done ++ [f]) s' (off + size) rest Hall'); try assumption; try reflexivity.
    + rewrite A, !app_length. cbn [length]. lia.
    + rewrite Ei. exact V.
Qed.

Theorem run_template_is_spec_decode_indirect L LB LI p d td :
  indirect_def d = true -> indirect_tables_ok LI d = true -> ddef_of_db d = Some td ->
  run_ddef L LB LI p td = spec_decode_var L LB LI p d.
Proof.
  unfold indirect_def, indirect_tables_ok, ddef_of_db, run_ddef, spec_decode_var. intros V Tb F.
  destruct (fields_steps (d_fields d) ns0) as [steps|] eqn:Es; [|discriminate]. inversion F; subst. clear F.
  cbn [c_steps c_pgn c_id c_descr c_ttl run_steps step bind].
  change (set_off (mkIst 0 VNone VNone 0 []) 0) with (mkIst 0 VNone VNone 0 []).
  pose proof (before_run L LB LI p (d_fields d) (d_fields d) [] (mkIst 0 VNone VNone 0 []) 0 steps
                eq_refl eq_refl V Tb Es (Z.le_refl 0)) as R.
  cbn [i_acc] in R. rewrite <- R.
  destruct (run_steps L LB LI p (mkIst 0 VNone VNone 0 []) steps) as [s'|e|]; reflexivity.
Qed.

(* ---------- C01 for every definition of the class var_def ---------- *)
Theorem run_template_is_spec_decode_var L LB LI p d td :
  var_def d = true -> indirect_tables_ok LI d = true -> ddef_of_db d = Some td ->
  run_ddef L LB LI p td = spec_decode_var L LB LI p d.
Proof.
  unfold var_def. intros V Tb F. apply orb_true_iff in V. destruct V as [V|V].
  - apply run_template_is_spec_decode_layout; assumption.
  - apply run_template_is_spec_decode_indirect; assumption.
Qed.

(* from the table obligation to the statement about the translated code *)
Theorem def_ok_sound_var code_dec L LB LI g d :
  def_ok code_dec g d = true -> var_def d = true -> indirect_tables_ok LI d = true ->
  exists cd, find_fname (fname_of g d) code_dec = Some cd /\
             forall p, run_ddef L LB LI p cd = spec_decode_var L LB LI p d.
Proof.
  unfold def_ok. intros H S Tb.
  destruct (find_fname (fname_of g d) code_dec) as [cd|]; [|discriminate].
  destruct (ddef_of_db d) as [td|] eqn:T; [|discriminate].
  apply ddef_eqb_eq in H. subst td. exists cd. split; [reflexivity|].
  intros p. apply run_template_is_spec_decode_var; assumption.
Qed.

Lemma simple_is_var d : simple_def d = true -> var_def d = true.
Proof. intros S. unfold var_def. rewrite (simple_is_layout d S). reflexivity. Qed.
