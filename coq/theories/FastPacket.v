(* FastPacket.v — model of the fast-packet segmenter and reassembler.

   encoder.py  NMEA2000Encoder._encode_fast_message (32-63)        -> total_frames, seg_loop, segment, encode_fast
   decoder.py  fast_pgn_metadata (13-21)                            -> rec, new_rec
   decoder.py  NMEA2000Decoder._decode_fast_message (94-178)        -> fp_step (one (pgn,src,dst) key), g_step (dict self.data)
   decoder.py  NMEA2000Decoder._decode (383-423), default-configured decoder -> dec_step

   BYTE ORDER.  Every decoder front-end reverses the CAN data bytes before calling _decode, so inside
   _decode_fast_message `can_data[-1]` is the FIRST byte on the wire, `can_data[-2]` the second,
   `can_data[:-2]` / `can_data[:-1]` the remaining wire bytes (reversed), and the final
   `bytes([... frames[idx][::-1] ...])[:payload_length][::-1]` is the wire-order concatenation (cut to the announced
   length) reversed once more for `int.from_bytes(.., "big")`.  This model works in WIRE byte order throughout:
   a frame is the list of its data bytes as transmitted, a delivered payload is the list of payload bytes as the
   sender numbered them (the argument of _call_decode_function is its reversal).

   The model is of the code WITH the repair fixes/F-pad.patch (line 166: `[:fast_pgn.payload_length]` before the
   final reversal).  The unrepaired line is kept as `fp_step_unrepaired` for the refutation in FastPacketProofs.v.

   Models only, no proofs. *)
From NV Require Import Base.

(* ------------------------------------------------------------------------------------------------ *)
(** * Encoder side: _encode_fast_message *)

(* lines 35-40 *)
Definition total_frames (n : Z) : Z := if n <=? 6 then 1 else 1 + (n - 6 + 7 - 1) / 7.

(* Python slice l[a:b] for 0 <= a *)
Definition slice (l : list Z) (a b : Z) : list Z := firstn (Z.to_nat (b - a)) (skipn (Z.to_nat a) l).

(* the for-loop of lines 44-60; cnt = remaining iterations of range(total_frames), fc = frame_counter,
   off = frame_offset.  (`frame_counter += 1` on line 60 is dead: the loop variable is rebound.) *)
Fixpoint seg_loop (cnt : nat) (fc off seq : Z) (payload : list Z) : list (list Z) :=
  match cnt with
  | O => []
  | S c =>
    let chunk := if fc =? 0 then 6 else 7 in
    let e := Z.min (off + chunk) (zlen payload) in
    let data := slice payload off e in
    let hd := Z.lor (Z.shiftl seq 5) fc :: (if fc =? 0 then [zlen payload] else []) in
    (hd ++ data) :: seg_loop c (fc + 1) e seq payload
  end.

Definition segment (seq : Z) (payload : list Z) : list (list Z) :=
  seg_loop (Z.to_nat (total_frames (zlen payload))) 0 0 seq payload.

(* line 62 *)
Definition next_seq (s : Z) : Z := (s + 1) mod 8.

(* the whole method, encoder state = the 3-bit counter: `bytes([payload_length])` raises ValueError for a
   payload above 255 bytes, before line 62, so the counter is not advanced.  (For 224..255 bytes the 5-bit
   frame counter silently overflows into the sequence bits; C03 is stated for 0..223.) *)
Definition encode_fast (seq : Z) (payload : list Z) : result (list (list Z)) * Z :=
  if 255 <? zlen payload then (Err ERange, seq) else (Ok (segment seq payload), next_seq seq).

(* a list of payloads through one encoder *)
Fixpoint enc_run (seq : Z) (ps : list (list Z)) : list (list (list Z)) :=
  match ps with
  | [] => []
  | p :: t => segment seq p :: enc_run (next_seq seq) t
  end.

(* ------------------------------------------------------------------------------------------------ *)
(** * Decoder side: one reassembly record *)

Definition fr := (Z * list Z)%type.                 (* frame counter, data bytes (wire order) *)
Record rec := { frames : list fr; plen : Z; stored : Z; rseq : Z }.
Definition new_rec : rec := {| frames := []; plen := 0; stored := 0; rseq := -1 |}.

(* dict `frames`: kept sorted by key so that `sorted(fast_pgn.frames)` is the list itself *)
Fixpoint has (k : Z) (fs : list fr) : bool :=
  match fs with [] => false | (k', _) :: t => (k =? k') || has k t end.
Fixpoint ins (k : Z) (d : list Z) (fs : list fr) : list fr :=
  match fs with
  | [] => [(k, d)]
  | (k', d') :: t => if k <? k' then (k, d) :: fs else (k', d') :: ins k d t
  end.
Definition payload_of (fs : list fr) : list Z := concat (map snd fs).

(* Nothing   = returns None without calling the PGN decode function
   Deliver p = _call_decode_function was called with payload p (wire order) and returned; record deleted
   DecRaise p= _call_decode_function was called with p and raised: the exception propagates and the record,
               already updated, is NOT deleted (line 174 is after the call)
   Raise     = IndexError from can_data[-1] / can_data[-2] on a frame of 0 / 1 bytes *)
Inductive out := Nothing | Deliver (p : list Z) | DecRaise (p : list Z) | Raise.

Definition call (dok : list Z -> bool) (p : list Z) : out := if dok p then Deliver p else DecRaise p.

(* lines 160-178; `r` is the record after lines 147-148.  `dok p` = the PGN decode function returns normally on p *)
Definition finish (dok : list Z -> bool) (r : rec) : option rec * out :=
  if plen r <=? stored r then
    let p := firstn (Z.to_nat (plen r)) (payload_of (frames r)) in
    if dok p then (None, Deliver p) else (Some r, DecRaise p)
  else (Some r, Nothing).

(* lines 96-178 for one key; st = self.data.get(key) *)
Definition fp_step (dok : list Z -> bool) (st : option rec) (can : list Z) : option rec * out :=
  let r := match st with Some r => r | None => new_rec end in            (* 99-102: record created first *)
  match can with
  | [] => (Some r, Raise)                                                 (* 105: can_data[-1] *)
  | b0 :: rest =>
    let sc := Z.land (Z.shiftr b0 5) 7 in                                 (* 108 *)
    let fc := Z.land b0 31 in                                             (* 109 *)
    if negb (fc =? 0) && (plen r =? 0) then (Some r, Nothing)             (* 113-115 *)
    else if (fc =? 0) && negb (sc =? rseq r) then                         (* 118 *)
      match rest with
      | [] => (Some r, Raise)                                             (* 121: can_data[-2], nothing changed yet *)
      | total :: data =>                                                  (* 125-131, 144-148 *)
        finish dok {| frames := [(0, data)]; plen := total; stored := zlen data; rseq := sc |}
      end
    else if negb (sc =? rseq r) then (Some r, Nothing)                    (* 134-136 *)
    else if has fc (frames r) then (Some r, Nothing)                      (* 137-139 *)
    else finish dok {| frames := ins fc rest (frames r); plen := plen r;  (* 142, 144-148 *)
                       stored := stored r + zlen rest; rseq := rseq r |}
  end.

(* the code before fixes/F-pad.patch: no truncation on line 166 *)
Definition finish_unrepaired (dok : list Z -> bool) (r : rec) : option rec * out :=
  if plen r <=? stored r then
    let p := payload_of (frames r) in
    if dok p then (None, Deliver p) else (Some r, DecRaise p)
  else (Some r, Nothing).
Definition fp_step_unrepaired (dok : list Z -> bool) (st : option rec) (can : list Z) : option rec * out :=
  let r := match st with Some r => r | None => new_rec end in
  match can with
  | [] => (Some r, Raise)
  | b0 :: rest =>
    let sc := Z.land (Z.shiftr b0 5) 7 in
    let fc := Z.land b0 31 in
    if negb (fc =? 0) && (plen r =? 0) then (Some r, Nothing)
    else if (fc =? 0) && negb (sc =? rseq r) then
      match rest with
      | [] => (Some r, Raise)
      | total :: data =>
        finish_unrepaired dok {| frames := [(0, data)]; plen := total; stored := zlen data; rseq := sc |}
      end
    else if negb (sc =? rseq r) then (Some r, Nothing)
    else if has fc (frames r) then (Some r, Nothing)
    else finish_unrepaired dok {| frames := ins fc rest (frames r); plen := plen r;
                                  stored := stored r + zlen rest; rseq := rseq r |}
  end.

(* a run of one key *)
Fixpoint run (dok : list Z -> bool) (st : option rec) (fs : list (list Z)) : option rec * list out :=
  match fs with
  | [] => (st, [])
  | f :: t => let '(st', o) := fp_step dok st f in
              let '(st'', os) := run dok st' t in (st'', o :: os)
  end.

(* ------------------------------------------------------------------------------------------------ *)
(** * The dictionary self.data, keyed by f"{pgn}_{src}_{dest}" (line 96) — here the triple itself;
      injectivity of the string on integers is FastPacketProofs.key_string_inj *)

Definition key := (Z * Z * Z)%type.
Definition key_eqb (a b : key) : bool :=
  let '(p, s, d) := a in let '(p', s', d') := b in (p =? p') && (s =? s') && (d =? d').
Definition gstate := list (key * rec).

Fixpoint lookup (k : key) (g : gstate) : option rec :=
  match g with [] => None | (k', r) :: t => if key_eqb k k' then Some r else lookup k t end.
Fixpoint remove_key (k : key) (g : gstate) : gstate :=
  match g with [] => [] | (k', r) :: t => if key_eqb k k' then remove_key k t else (k', r) :: remove_key k t end.
Definition set_key (k : key) (r : rec) (g : gstate) : gstate := (k, r) :: remove_key k g.

Definition g_step (dok : key -> list Z -> bool) (g : gstate) (k : key) (can : list Z) : gstate * out :=
  let '(st', o) := fp_step (dok k) (lookup k g) can in
  (match st' with Some r => set_key k r g | None => remove_key k g end, o).

Fixpoint g_run (dok : key -> list Z -> bool) (g : gstate) (h : list (key * list Z)) : gstate * list (key * out) :=
  match h with
  | [] => (g, [])
  | (k, f) :: t => let '(g', o) := g_step dok g k f in
                   let '(g'', os) := g_run dok g' t in (g'', (k, o) :: os)
  end.

(* projections of a global history / output list on one key *)
Definition proj {A} (k : key) (h : list (key * A)) : list A :=
  map snd (filter (fun kf => key_eqb k (fst kf)) h).

(* ------------------------------------------------------------------------------------------------ *)
(** * _decode (383-423) for a decoder built with default arguments (no filters, no network map):
      `isfast` = _isFastPGN: None (no is_fast_pgn_N function), Some true, Some false.
      A single-frame PGN goes straight to _call_decode_function and does not touch self.data. *)
Definition dec_step (isfast : Z -> option bool) (dok : key -> list Z -> bool)
           (g : gstate) (k : key) (can : list Z) : gstate * out :=
  let '(pgn, _, _) := k in
  match isfast pgn with
  | None => (g, Nothing)
  | Some true => g_step dok g k can
  | Some false => (g, call (dok k) can)
  end.

Fixpoint dec_run isfast dok (g : gstate) (h : list (key * list Z)) : gstate * list (key * out) :=
  match h with
  | [] => (g, [])
  | (k, f) :: t => let '(g', o) := dec_step isfast dok g k f in
                   let '(g'', os) := dec_run isfast dok g' t in (g'', (k, o) :: os)
  end.
