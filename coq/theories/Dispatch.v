(* Dispatch.v — C08 model: the generated `# Complex PGN` dispatchers (python.PGNs.j2:93-111),
   the database-side selection rule, and the Gallina rendering of what the generator is meant
   to produce from a database group (Template part for dispatchers). *)
From NV Require Import Base Defn.

(* ---------- what the code does: an if-chain of conjunctions, then the fallback ---------- *)
Definition cond_holds (p : Z) (c : cond) : bool :=
  let '(s, m, v) := c in Z.land (Z.shiftr p s) m =? v.
Definition arm_taken (p : Z) (a : arm) : bool :=
  negb (a_never a) && forallb (cond_holds p) (a_conds a).
Fixpoint run_disp (arms : list arm) (fb : option fname) (p : Z) : option fname :=
  match arms with
  | [] => fb
  | a :: t => if arm_taken p a then Some (a_target a) else run_disp t fb p
  end.

(* ---------- what the database says ---------- *)
Definition field_bits (p off len : Z) : Z := (p / 2 ^ off) mod 2 ^ len.
Definition match_ok (p : Z) (f : dbfield) : bool :=
  match f_match f with
  | None => true
  | Some m => match f_bitoff f, f_bitlen f with
              | Some off, Some len => field_bits p off len =? m
              | _, _ => false
              end
  end.
Definition def_matches (p : Z) (d : dbdef) : bool := forallb (match_ok p) (d_fields d).
(* last definition marked Fallback (the template keeps overwriting ns_pgn.fallback_pgn) *)
Definition last_fallback (g : list dbdef) : option dbdef :=
  fold_left (fun acc d => if d_fallback d then Some d else acc) g None.
(* first non-fallback definition, in database order, all of whose match fields equal the payload's
   bits; otherwise the fallback definition; otherwise nothing *)
Definition spec_select (g : list dbdef) (p : Z) : option dbdef :=
  match find (fun d => negb (d_fallback d) && def_matches p d) g with
  | Some d => Some d
  | None => last_fallback g
  end.

(* ---------- Template: the arms the generator is meant to emit for a group ---------- *)
Definition has_match (d : dbdef) : bool := existsb (fun f => match f_match f with Some _ => true | None => false end) (d_fields d).
Definition conds_of_field (f : dbfield) : list cond :=
  match f_match f, f_bitoff f, f_bitlen f with
  | Some m, Some off, Some len => [(off, 2 ^ len - 1, m)]
  | _, _, _ => []
  end.
Definition conds_of (d : dbdef) : list cond := flat_map conds_of_field (d_fields d).
Definition arm_of (d : dbdef) : arm := mkArm false (conds_of d) (d_pgn d, Some (d_id d)).
Definition arms_of_group (g : list dbdef) : list arm := map arm_of (filter (fun d => negb (d_fallback d)) g).
Definition fallback_of_group (g : list dbdef) : option fname :=
  option_map (fun d => (d_pgn d, Some (d_id d))) (last_fallback g).
(* a group gets a dispatcher iff it has several definitions and at least one match field *)
Definition is_dispatched (g : list dbdef) : bool := (1 <? zlen g) && existsb has_match g.

(* well-formedness of a database group for the dispatcher theorem *)
Definition match_field_wf (f : dbfield) : bool :=
  match f_match f with
  | None => true
  | Some _ => match f_bitoff f, f_bitlen f with Some off, Some len => (0 <=? off) && (0 <=? len) | _, _ => false end
  end.
Definition group_wf (g : list dbdef) : bool := forallb (fun d => forallb match_field_wf (d_fields d)) g.

(* grouping by PGN, first-appearance order (the template's groups_ns.pgn_groups) *)
Fixpoint insert_group (d : dbdef) (gs : list (list dbdef)) : list (list dbdef) :=
  match gs with
  | [] => [[d]]
  | g :: t => match g with
              | d0 :: _ => if d_pgn d0 =? d_pgn d then (g ++ [d]) :: t else g :: insert_group d t
              | [] => g :: insert_group d t
              end
  end.
Definition groups (db : list dbdef) : list (list dbdef) := fold_left (fun gs d => insert_group d gs) db [].
Definition group_pgn (g : list dbdef) : Z := match g with d :: _ => d_pgn d | [] => -1 end.

(* ---------- the table obligation for one group, against the translated code ---------- *)
Section Tables.
  Variable code_disp : list disp.
  Variable code_ids : list (fname * (Z * str)).

  Definition find_disp (pgn : Z) : option disp := find (fun d => dp_pgn d =? pgn) code_disp.
  Definition id_of (fn : fname) : option (Z * str) := find_fname fn code_ids.

  (* what the code selects for payload p under PGN pgn: the (PGN, id) the reached function names *)
  Definition code_select (pgn p : Z) : option (Z * str) :=
    match find_disp pgn with
    | Some d => match run_disp (dp_arms d) (dp_fallback d) p with
                | Some fn => id_of fn
                | None => None
                end
    | None => id_of (pgn, None)
    end.

  Definition target_ok (fn : fname) : bool :=
    match fn, id_of fn with
    | (pgn, Some id), Some (pgn', id') => (pgn =? pgn') && (id =? id')
    | _, _ => false
    end.

  Definition group_ok (g : list dbdef) : bool :=
    group_wf g &&
    if is_dispatched g then
      match find_disp (group_pgn g) with
      | Some d => list_eqb arm_eqb (dp_arms d) (arms_of_group g)
                  && option_eqb fname_eqb (dp_fallback d) (fallback_of_group g)
                  && forallb (fun a => target_ok (a_target a)) (arms_of_group g)
                  && match fallback_of_group g with Some fn => target_ok fn | None => true end
      | None => false
      end
    else
      (* no dispatcher: decode_pgn_<PGN> is bound directly (a later def of the same name wins).
         Without any match field the selection does not depend on the payload and the bound
         definition must be the one spec_select yields; a single definition that carries match
         fields is outside C08 (nothing to select between) — only its binding is checked. *)
      match find_disp (group_pgn g), id_of (group_pgn g, None) with
      | None, Some (pgn', id') =>
          if existsb has_match g
          then match g with [d] => (d_pgn d =? pgn') && (d_id d =? id') | _ => false end
          else match spec_select g 0 with
               | Some d => (d_pgn d =? pgn') && (d_id d =? id')
               | None => false
               end
      | _, _ => false
      end.
  Definition in_scope (g : list dbdef) : bool := is_dispatched g || negb (existsb has_match g).
End Tables.
