(* Spec.v — the declarative specification of decoding, written with the database attributes only:
   the bits of a field are (payload / 2^BitOffset) mod 2^BitLength; two's complement by cases; the
   not-available pattern; raw * Resolution; lookup by the database's table name; metadata straight
   from the record. Each field is specified independently of every other field. *)
From NV Require Import Base Bits Defn PyNum Fields Dispatch Template.

Definition spec_signed (signed : bool) (len bits : Z) : Z :=
  if signed && (2 ^ (len - 1) <=? bits) then bits - 2 ^ len else bits.
Definition spec_na (signed : bool) (len n : Z) : bool :=
  if len <=? 3 then n =? 2 ^ len - 1
  else n =? (if signed then 2 ^ (len - 1) - 1 else 2 ^ len - 1).
Definition spec_number (bits len : Z) (signed : bool) (res mn mx : num) : result value :=
  let n := spec_signed signed len bits in
  if spec_na signed len n then Ok VNone
  else do v <- py_mul_int n (pynum_of_num res);
       do v' <- range_check v (pynum_of_num mn) (pynum_of_num mx);
       Ok (value_of_pynum v').

Section Spec.
  Variable L LB : lookups.
  Variable p : Z.

  (* (value, raw value) of a field with a fixed position *)
  Definition spec_value (f : dbfield) (off len : Z) : result (value * value) :=
    let bits := field_bits p off len in
    if is_numberlike f then
      match f_res f, f_min f, f_max f with
      | Some r, Some mn, Some mx => do v <- spec_number bits len (f_signed f) r mn mx; Ok (v, v)
      | _, _, _ => Err EOther
      end
    else if is_t f T_LOOKUP then
      match f_lookup f with
      | Some t => match find_tbl t L with
                  | Some tb => Ok (match get_z bits tb with Some nm => VText (bytes_of_str nm) | None => VNone end, VInt bits)
                  | None => Err EOther
                  end
      | None => Err EOther
      end
    else if is_t f T_BITLOOKUP then
      match f_bitlookup f with
      | Some t => match find_tbl t LB with
                  | Some tb => Ok (decode_bit_lookup bits tb, VInt bits)
                  | None => Err EOther
                  end
      | None => Err EOther
      end
    else if is_t f T_STRING_FIX then do v <- strfix_of_bits bits len; Ok (v, v)
    else if is_t f T_FLOAT then
      match f_min f, f_max f with
      | Some mn, Some mx => do v <- float_of_fbits bits (pynum_of_num mn) (pynum_of_num mx); Ok (v, v)
      | _, _ => Err EOther
      end
    else if is_t f T_TIME then
      match f_res f, f_min f, f_max f with
      | Some r, Some mn, Some mx =>
          do raw <- spec_number bits len (f_signed f) r mn mx; do v <- decode_time raw; Ok (v, raw)
      | _, _, _ => Err EOther
      end
    else if is_t f T_DATE then
      match f_res f, f_min f, f_max f with
      | Some r, Some mn, Some mx =>
          do raw <- spec_number bits len (f_signed f) r mn mx; do v <- decode_date raw; Ok (v, raw)
      | _, _, _ => Err EOther
      end
    else if is_t f T_RESERVED || is_t f T_SPARE then Ok (VInt bits, VInt bits)
    else if is_t f T_BINARY then Ok (VBytes (int_to_bytes bits), VBytes (int_to_bytes bits))
    else Err EUnsupported.

  Definition spec_field (f : dbfield) : result field :=
    match f_bitoff f, f_bitlen f with
    | Some off, Some len =>
        do vr <- spec_value f off len;
        Ok (mkField (field_id f) (f_name f) (f_descr f) (f_unit f) (fst vr) (snd vr) (f_pq f) (f_type f)
                    (match f_pk f with Some b => b | None => false end))
    | _, _ => Err EOther
    end.

  Fixpoint spec_fields (fs : list dbfield) : result (list field) :=
    match fs with
    | [] => Ok []
    | f :: t => do x <- spec_field f; do r <- spec_fields t; Ok (x :: r)
    end.

  Definition spec_decode (d : dbdef) : result msg :=
    do fs <- spec_fields (d_fields d);
    Ok (mkMsg (d_pgn d) (d_id d) (d_descr d) (d_interval d) fs).
End Spec.

(* the definitions the generic theorem covers: every field has a database position and length
   (>= 1 bit, offset >= 0) and is not an indirect lookup; unsupported field types are included
   (the specification says: the decoder answers "not supported") *)
Definition simple_field (f : dbfield) : bool :=
  match f_bitoff f, f_bitlen f with
  | Some off, Some len => (0 <=? off) && (1 <=? len) && negb (is_t f T_INDIRECT)
                          && negb (is_t f T_STRING_LZ) && negb (is_t f T_STRING_LAU)
  | _, _ => false
  end.
Definition simple_def (d : dbdef) : bool := forallb simple_field (d_fields d).
