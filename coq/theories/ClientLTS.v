(* ClientLTS.v — nmea2000/ioclient.py (AsyncIOClient and the four gateway clients) as a labelled
   transition system.  Model only, no proofs (DESIGN §2 "Concurrency", §5 C13/C14, Appendix F).

   One transition = one atomic block of one task between two real suspension points of asyncio
   (the receive loop and the queue consumer are split further: one transition per `_receive_impl`
   call / per receive-callback invocation, with a `busy` guard that forbids every other task from
   moving while such a task is in the middle of its event-loop step).  The scheduler and the
   environment (connect succeeds / fails, bytes arrive, EOF, reset, write error, drain suspends,
   timer fires, callbacks return / raise / suspend) are nondeterministic; every choice is visible in
   the action, so `trans` is a deterministic partial function and doubles as the acceptor for the
   traces logged from the real clients (tools/vloop.py).

   Switches (as in Appendix F): [fe] = F-eofspin repaired (an empty read raises),
   [fc] = F-closerace repaired (CLOSED re-checked after `await self._connect_impl()`),
   [fl] = F-connect-lost repaired (connect() re-checks for DISCONNECTED before it releases the lock),
   [fd] = F-serial-drain-leak repaired (the serial `_connect_impl` closes the port it has just opened when the
   configuration write / drain raises).
   [fg] = close() has NO idempotence guard (the code as it is: a second close() closes the link and cancels the tasks
   again); [fg = false] models the variant `if self._state == State.CLOSED: return` at the top of close().
   The theorems are about [fe = fc = fl = fd = fg = true]; the refutations use [false].

   Not modelled: the number of frames a
   `send` still has to write (a suspended drain may be followed by another), cancellation of
   `connect`/`send`/`close` tasks by the application, a status/receive callback that swallows
   CancelledError. *)
From NV Require Import Base.
From RecordUpdate Require Import RecordSet.
Import RecordSetNotations.

Inductive cst := Disc | Conn | Closed.                 (* State.DISCONNECTED / CONNECTED / CLOSED *)
Definition cst_eqb a b := match a, b with Disc,Disc | Conn,Conn | Closed,Closed => true | _,_ => false end.
Definition cst_code s := match s with Disc => 0 | Conn => 1 | Closed => 2 end.

Inductive kind := KEByte | KText | KSerial.            (* readexactly(13) / readline() / read(100) *)

Inductive cbout := CbNone | CbRet | CbRaise | CbSusp.  (* status callback: not invoked / returned / raised / suspended *)
Inductive rcout := RcRet | RcRaise | RcSusp.           (* receive callback *)
Inductive rxout :=
| RxRet (b q : Z)          (* _receive_impl returned; b bytes left in the StreamReader buffer, queue size q *)
| RxSusp                   (* suspended inside the read *)
| RxSleep30 (b : Z)        (* EByte 'Sorry,Limited': asyncio.sleep(30) *)
| RxRaise (b : Z) (cb : cbout).   (* raised; the fault handler ran up to the status callback's first suspension *)
Inductive sendout := SReturn | SDrainSusp | SFault (cb : cbout).

Inductive holder :=            (* program counter of the one connect() coroutine that owns the lock *)
| HNone
| HAwaitImpl (k : nat)         (* awaiting open_connection / open_serial_connection, attempt k *)
| HAwaitDrain (k : nat)        (* serial: writer assigned, config packet written, awaiting drain *)
| HBackoff (k : nat)           (* tenacity sleep after failed attempt k *)
| HStatusCb                    (* inside _update_state(CONNECTED): awaiting the user's status callback *)
| HCancelWait.                 (* asyncio.sleep(0.01) after cancelling the old receive task *)

Inductive rxs := RNone | RCreated | RRun | RWait | RSleep30 | RInCb | RDone.   (* self._receive_task *)
Inductive conss := CNew | CWait | CRun | CInCb | CDone.                        (* self._process_queue_task *)
Inductive cpc := KNone | KInCb | KSleepRx | KSleepCons | KDone.                (* the close() coroutine *)

Record g := mkG {
  st : cst; lock : bool; hold : holder;
  pending_connects : nat;        (* create_task(self.connect()) not yet started *)
  writer : option nat; next_w : nat; closed_w : list nat;
  drainfail_w : list nat;        (* writers whose _connect_impl failed after they were obtained and that were left open (fd = false) *)
  attempts : nat;                (* number of _connect_impl calls started *)
  rx : rxs; rx_creq : bool;      (* current receive task and "cancel() requested, not yet delivered" *)
  old_creq : nat;                (* superseded receive tasks, cancel requested, not yet finished *)
  old_live : nat;                (* superseded receive tasks that were NOT cancelled (C13_single_rx: always 0) *)
  cons : conss; cons_creq : bool;
  q : Z;                         (* queue.qsize() *)
  buf : Z; eof : bool; rexc : bool;   (* self.reader: buffered bytes, feed_eof() seen, set_exception() seen *)
  send_drain : nat; send_cb : nat;    (* send() coroutines suspended in drain / in the status callback *)
  (* `_seed_network_map()` tasks (created by every successful connect() when the parameter [seeding] is on): sleep 2 s, send,
     sleep 2 s, send, sleep 2 s, send.  The tasks are anonymous; what each still has to do is kept in two shared pools,
     an over-approximation: [seed_more] = how many more times a task may go back to sleep after a send (2 per task created),
     [seed_susp] = how many more times a seeding send may suspend (2 per send: the send lock, the drain of its one frame) *)
  seed_new : nat;                (* created, not started *)
  seed_sleep : nat;              (* asleep before a send *)
  seed_drain : nat; seed_cb : nat;    (* inside send(): suspended in the lock / drain; in the status callback of its fault handler *)
  seed_more : nat; seed_susp : nat;
  closing : cpc;                 (* the FIRST close() call *)
  c2_rx : nat; c2_cons : nat;    (* further close() calls asleep after cancelling the receive task / the queue consumer *)
  closes_done : nat;             (* ghost: number of close() calls that have returned *)
  n0 : nat;                      (* ghost: next_w when close() was called *)
  trace : list cst               (* arguments of the status callback, newest first *)
}.
#[export] Instance eta_g : Settable _ := settable! mkG
  <st; lock; hold; pending_connects; writer; next_w; closed_w; drainfail_w; attempts; rx; rx_creq; old_creq;
   old_live; cons; cons_creq; q; buf; eof; rexc; send_drain; send_cb; seed_new; seed_sleep; seed_drain; seed_cb; seed_more; seed_susp; closing; c2_rx; c2_cons; closes_done; n0; trace>.

Definition init : g :=
  {| st := Disc; lock := false; hold := HNone; pending_connects := 0; writer := None; next_w := 0;
     closed_w := []; drainfail_w := []; attempts := 0; rx := RNone; rx_creq := false; old_creq := 0;
     old_live := 0; cons := CNew; cons_creq := false; q := 0; buf := 0; eof := false; rexc := false;
     send_drain := 0; send_cb := 0; seed_new := 0; seed_sleep := 0; seed_drain := 0; seed_cb := 0; seed_more := 0;
     seed_susp := 0; closing := KNone; c2_rx := 0; c2_cons := 0; closes_done := 0; n0 := 0; trace := [] |}.

Inductive act :=
| AUserConnect                 (* the application: create_task(client.connect()) *)
| AConnEntry (attempt : bool)  (* a connect() coroutine runs up to its first suspension / return *)
| AImplOpened                  (* serial: port opened, config written, drain suspended *)
| AImplOk (cb : cbout)         (* _connect_impl returned *)
| AImplFail (d : Z)            (* _connect_impl raised; tenacity sleeps d half-seconds *)
| AImplFailOpened (d : Z)      (* serial: port opened but the config drain raised at once *)
| ABackoffDone | AConnCbDone | ACancelWaitDone
| ARxStart | ARxIter (o : rxout) | ARxSleepDone (cb : cbout) | ARxCbDone | ARxCancelled | AOldRxCancelled
| AConsStart | AConsGot (o : rcout) | AConsCbDone | AConsCancelled
| ASendEntry (o : sendout) | ASendDrainDone (o : sendout) | ASendCbDone
| AClose (cb : cbout) | ACloseCbDone | ACloseTimer
| AEnvFeed (n : Z) | AEnvEof | AEnvReset
| AClose2Entry                 (* a further close() call (the state is CLOSED already: no status callback) runs up to its first sleep / return *)
| AClose2Timer (rxphase : bool)  (* its 10 ms sleep after cancelling the receive task (true) / the queue consumer (false) is over *)
| ASeedStart                   (* a `_seed_network_map()` task runs up to its first sleep *)
| ASeedTimer (o : sendout) (more : bool)     (* its 2 s sleep is over: it calls send(); [o] = what that send does in this step;
                                                [more] (when the send returns in this step) = another sleep follows / the task ends *)
| ASeedDrainDone (o : sendout) (more : bool) (* its send() resumes from the lock / the drain *)
| ASeedCbDone (more : bool).                 (* its send()'s fault handler resumes from the status callback *)

(* ---- tenacity.wait_exponential(multiplier=0.5, max=10) in units of 0.5 s (exact) ----
     try:    exp = 2 ** (attempt_number - 1); result = 0.5 * exp      # int -> float conversion
     except OverflowError: return self.max                           # raised when exp >= 2**1024
     return max(max(0, self.min), min(result, self.max))             # min = 0, max = 10 *)
Definition wait2 (k : Z) : Z :=
  let e := 2 ^ (k - 1) in
  if 2 ^ 1024 <=? e then 20 else Z.max (Z.max 0 0) (Z.min e 20).

(* ---- helpers ---- *)
Definition rx_alive (x : g) : bool := match rx x with RNone | RDone => false | _ => true end.
Definition cons_alive (x : g) : bool := match cons x with CDone => false | _ => true end.
Definition is_closed (x : g) : bool := cst_eqb (st x) Closed.

(* `_update_state(s)` up to the callback's first suspension *)
Definition upd (x : g) (s : cst) (cb : cbout) : option g :=
  if cst_eqb (st x) s then match cb with CbNone => Some x | _ => None end
  else match cb with CbNone => None | _ => Some (x <| st := s |> <| trace := s :: trace x |>) end.

Definition spawn_connect (x : g) : g := x <| pending_connects := S (pending_connects x) |>.
Definition release (x : g) : g := x <| hold := HNone |> <| lock := false |>.
Definition start_attempt (x : g) (k : nat) : g :=
  x <| lock := true |> <| hold := HAwaitImpl k |> <| attempts := S (attempts x) |>.
Definition new_conn (x : g) : g :=       (* self.reader, self.writer = <fresh connection> *)
  x <| writer := Some (next_w x) |> <| next_w := S (next_w x) |> <| buf := 0 |> <| eof := false |> <| rexc := false |>.
Definition close_cur_writer (x : g) : g :=
  match writer x with Some w => x <| closed_w := w :: closed_w x |> | None => x end.

(* asyncio.create_task(self._receive_loop()) replacing self._receive_task; then (repaired) the
   `if self._state == State.DISCONNECTED: create_task(self.connect())` check; releases the lock *)
Definition seed_task (sd : bool) (x : g) : g :=      (* `if self.seed_network_map: asyncio.create_task(self._seed_network_map())` *)
  if sd then x <| seed_new := S (seed_new x) |> <| seed_more := S (S (seed_more x)) |> else x.
Definition start_rx (sd fl : bool) (x : g) : g :=
  let a := rx_alive x in
  let y := release (seed_task sd (x <| old_creq := if a && rx_creq x then S (old_creq x) else old_creq x |>
                      <| old_live := if a && negb (rx_creq x) then S (old_live x) else old_live x |>
                      <| rx := RCreated |> <| rx_creq := false |>)) in
  if fl && cst_eqb (st y) Disc then spawn_connect y else y.

(* connect(): after `await self._update_state(State.CONNECTED)` *)
Definition post_status (sd fl : bool) (x : g) : g :=
  if rx_alive x then x <| rx_creq := true |> <| hold := HCancelWait |> else start_rx sd fl x.

Definition impl_ok (sd fc fl : bool) (y : g) (cb : cbout) : option g :=
  if fc && is_closed y then
    match cb with CbNone => Some (release (close_cur_writer y)) | _ => None end
  else match upd y Conn cb with
       | None => None
       | Some z => match cb with CbSusp => Some (z <| hold := HStatusCb |>) | _ => Some (post_status sd fl z) end
       end.

(* fault handler shared by _receive_loop and send: `fin` = what the task does after create_task(connect()),
   `susp` = the task's state while the status callback is suspended *)
Definition fault (x : g) (cb : cbout) (fin susp : g -> g) : option g :=
  if is_closed x then match cb with CbNone => Some (fin x) | _ => None end
  else match upd x Disc cb with
       | None => None
       | Some z => match cb with CbSusp => Some (susp z) | _ => Some (fin (spawn_connect z)) end
       end.
Definition rx_done (x : g) : g := x <| rx := RDone |>.
Definition rx_fault (x : g) (cb : cbout) : option g :=
  fault x cb rx_done (fun z => z <| rx := RInCb |>).

(* what one read attempt may do, per client, given the reader state *)
(* [fresh]: the read starts in this block (it checks `self._exception` first); a read that was suspended and is
   resumed by feed_data() returns its data even if set_exception() came in between *)
Definition ret_ok (k : kind) (fe fresh : bool) (x : g) (b : Z) : bool :=
  (negb (rexc x) || negb fresh) &&
  match k with
  | KEByte => (13 <=? buf x) && (b =? buf x - 13)
  | KText => ((0 <=? b) && (b <? buf x)) || (negb fe && eof x && (buf x =? 0) && (b =? 0))
  | KSerial => ((0 <? buf x) && (b =? Z.max 0 (buf x - 100))) || (negb fe && eof x && (buf x =? 0) && (b =? 0))
  end.
(* a resumed read that still lacks data waits again WITHOUT looking at `self._exception` (CPython 3.12 streams.py) *)
Definition susp_ok (k : kind) (fresh : bool) (x : g) : bool :=
  (negb (rexc x) || negb fresh) && negb (eof x) &&
  match k with KEByte => buf x <? 13 | KText => true | KSerial => buf x =? 0 end.
Definition raise_ok (k : kind) (fe fresh : bool) (x : g) (b : Z) : bool :=
  (rexc x && (b =? buf x)) ||
  (negb (rexc x) || negb fresh) &&
  match k with
  | KEByte => (buf x <? 13) && eof x && (b =? 0)
  | KText => (fe && eof x && (buf x =? 0) && (b =? 0)) || ((65536 <? buf x) && (0 <=? b) && (b <=? buf x))
  | KSerial => fe && eof x && (buf x =? 0) && (b =? 0)
  end.

(* after a `_receive_impl` returned: the `while self._state != State.CLOSED` test *)
Definition rx_loop_test (x : g) : g := if is_closed x then rx_done x else x <| rx := RRun |>.

Definition rx_iter (k : kind) (fe fresh : bool) (x : g) (o : rxout) : option g :=
  match o with
  | RxRet b q' => if ret_ok k fe fresh x b && (q x <=? q') then Some (rx_loop_test (x <| buf := b |> <| q := q' |>)) else None
  | RxSusp => if susp_ok k fresh x then Some (x <| rx := RWait |>) else None
  | RxSleep30 b => match k with
                   | KEByte => if (negb (rexc x) || negb fresh) && (13 <=? buf x) && (b =? buf x - 13)
                               then Some (x <| buf := b |> <| rx := RSleep30 |>) else None
                   | _ => None end
  | RxRaise b cb => if raise_ok k fe fresh x b then rx_fault (x <| buf := b |>) cb else None
  end.

(* queue consumer: after the receive callback finished *)
Definition cons_after_cb (x : g) : g :=
  if is_closed x then x <| cons := CDone |> else if 0 <? q x then x <| cons := CRun |> else x <| cons := CWait |>.

Definition send_out (x : g) (o : sendout) : option g :=
  match o with
  | SReturn => Some x
  | SDrainSusp => Some (x <| send_drain := S (send_drain x) |>)
  | SFault cb => if is_closed x then None
                 else fault x cb (fun z => z) (fun z => z <| send_cb := S (send_cb z) |>)
  end.

(* a seeding task after a send() of its own has returned: another sleep (uses one [seed_more]) or the end of the task *)
Definition seed_next (more : bool) (x : g) : option g :=
  if more then match seed_more x with
               | O => None
               | S n => Some (x <| seed_more := n |> <| seed_sleep := S (seed_sleep x) |>)
               end
  else Some x.
(* one step of a send() made by a seeding task: as [send_out], then the task goes on *)
Definition seed_send (x : g) (o : sendout) (more : bool) : option g :=
  match o with
  | SReturn => seed_next more x
  | SDrainSusp => match seed_susp x with
                  | O => None
                  | S n => Some (x <| seed_susp := n |> <| seed_drain := S (seed_drain x) |>)
                  end
  | SFault cb =>
      if is_closed x then None
      else match cb with
           | CbSusp => fault x cb (fun z => z) (fun z => z <| seed_cb := S (seed_cb z) |>)
           | _ => match fault x cb (fun z => z) (fun z => z) with Some z => seed_next more z | None => None end
           end
  end.

(* close(): from `if self.writer: self.writer.close()` on *)
Definition close_returned (x : g) : g := x <| closes_done := S (closes_done x) |>.
Definition close_cons (x : g) : g :=
  if cons_alive x then x <| cons_creq := true |> <| closing := KSleepCons |> else close_returned (x <| closing := KDone |>).
(* a further close() call: the consumer part *)
Definition close2_cons (x : g) : g :=
  if cons_alive x then x <| cons_creq := true |> <| c2_cons := S (c2_cons x) |> else close_returned x.
Definition close_rest (x : g) : g :=
  let y := close_cur_writer x in
  if rx_alive y then y <| rx_creq := true |> <| closing := KSleepRx |> else close_cons y.

(* a task in the middle of its event-loop step excludes everybody else *)
Definition busy (x : g) : bool :=
  match rx x with RRun => true | _ => false end || match cons x with CRun => true | _ => false end.
Definition allowed (x : g) (a : act) : bool :=
  match rx x, cons x with
  | RRun, _ => match a with ARxIter _ => true | _ => false end
  | _, CRun => match a with AConsGot _ => true | _ => false end
  | _, _ => true
  end.

Section Model.
Variable k : kind.
Variable sd : bool.                  (* [seeding]: connect() creates a `_seed_network_map()` task (build_network_map=True on a seeding client) *)
Variables fe fc fl fd fg : bool.

Definition trans (x : g) (a : act) : option g :=
  if negb (allowed x a) then None else
  match a with
  | AUserConnect => Some (spawn_connect x)
  | AConnEntry att =>
      match pending_connects x with
      | O => None
      | S n =>
        let x := x <| pending_connects := n |> in
        let go := cst_eqb (st x) Disc && negb (lock x) in
        if Bool.eqb att go then (if go then Some (start_attempt x 1) else Some x) else None
      end
  | AImplOpened =>
      match k, hold x with
      | KSerial, HAwaitImpl n => Some (new_conn x <| hold := HAwaitDrain n |>)
      | _, _ => None
      end
  | AImplOk cb =>
      match hold x with
      | HAwaitImpl _ => impl_ok sd fc fl (new_conn x) cb
      | HAwaitDrain _ => impl_ok sd fc fl x cb
      | _ => None
      end
  | AImplFail d =>
      match hold x with
      | HAwaitImpl n => if d =? wait2 (Z.of_nat n) then Some (x <| hold := HBackoff n |>) else None
      | HAwaitDrain n =>
          if d =? wait2 (Z.of_nat n)
          then (if fd then Some (close_cur_writer x <| hold := HBackoff n |>)       (* except: self.writer.close(); raise *)
                else Some (x <| drainfail_w := match writer x with Some w => w :: drainfail_w x | None => drainfail_w x end |>
                             <| hold := HBackoff n |>))
          else None
      | _ => None
      end
  | AImplFailOpened d =>
      match k, hold x with
      | KSerial, HAwaitImpl n =>
          if d =? wait2 (Z.of_nat n)
          then (if fd then Some (close_cur_writer (new_conn x) <| hold := HBackoff n |>)
                else Some (new_conn x <| drainfail_w := next_w x :: drainfail_w x |> <| hold := HBackoff n |>))
          else None
      | _, _ => None
      end
  | ABackoffDone =>
      match hold x with
      | HBackoff n => if is_closed x then Some (release x) else Some (start_attempt x (S n))
      | _ => None
      end
  | AConnCbDone => match hold x with HStatusCb => Some (post_status sd fl x) | _ => None end
  | ACancelWaitDone => match hold x with HCancelWait => Some (start_rx sd fl x) | _ => None end
  | ARxStart =>
      match rx x with
      | RCreated => if rx_creq x then None else Some (rx_loop_test x)
      | _ => None
      end
  | ARxIter o =>
      match rx x with
      | RRun => if rx_creq x then None else rx_iter k fe true x o
      | RWait => if rx_creq x then None else rx_iter k fe false x o
      | _ => None
      end
  | ARxSleepDone cb =>
      match rx x with
      | RSleep30 => if rx_creq x then None else rx_fault x cb
      | _ => None
      end
  | ARxCbDone =>
      match rx x with
      | RInCb => if rx_creq x then None else Some (rx_done (spawn_connect x))
      | _ => None
      end
  | ARxCancelled =>
      if rx_alive x && rx_creq x then Some (x <| rx := RDone |> <| rx_creq := false |>) else None
  | AOldRxCancelled =>
      match old_creq x with O => None | S n => Some (x <| old_creq := n |>) end
  | AConsStart =>
      match cons x with
      | CNew => if cons_creq x then None else Some (cons_after_cb x)
      | _ => None
      end
  | AConsGot o =>
      match cons x with
      | CWait | CRun =>
          if cons_creq x || negb (0 <? q x) then None else
          let y := x <| q := q x - 1 |> in
          match o with RcSusp => Some (y <| cons := CInCb |>) | _ => Some (cons_after_cb y) end
      | _ => None
      end
  | AConsCbDone =>
      match cons x with
      | CInCb => if cons_creq x then None else Some (cons_after_cb x)
      | _ => None
      end
  | AConsCancelled =>
      if cons_alive x && cons_creq x then Some (x <| cons := CDone |> <| cons_creq := false |>) else None
  | ASendEntry o => send_out x o
  | ASendDrainDone o =>
      match send_drain x with O => None | S n => send_out (x <| send_drain := n |>) o end
  | ASendCbDone =>
      match send_cb x with O => None | S n => Some (spawn_connect (x <| send_cb := n |>)) end
  | AClose cb =>
      match closing x with
      | KNone =>
          match upd (x <| n0 := next_w x |>) Closed cb with
          | None => None
          | Some y => match cb with CbSusp => Some (y <| closing := KInCb |>) | _ => Some (close_rest y) end
          end
      | _ => None
      end
  | ACloseCbDone => match closing x with KInCb => Some (close_rest x) | _ => None end
  | ACloseTimer =>
      match closing x with
      | KSleepRx =>       (* FIFO: the cancelled task was scheduled before this timer could fire *)
          if negb (rx_creq x) && (old_creq x =? 0)%nat then Some (close_cons x) else None
      | KSleepCons => if negb (cons_creq x) then Some (close_returned (x <| closing := KDone |>)) else None
      | _ => None
      end
  | AEnvFeed n =>
      match writer x with
      | Some _ => if (0 <? n) && negb (eof x) && negb (rexc x) then Some (x <| buf := buf x + n |>) else None
      | None => None
      end
  | AEnvEof => match writer x with Some _ => if eof x then None else Some (x <| eof := true |>) | None => None end
  | AEnvReset => match writer x with Some _ => if rexc x then None else Some (x <| rexc := true |>) | None => None end
  | AClose2Entry =>
      match closing x with
      | KNone => None              (* the first call to run is AClose *)
      | _ =>
        if fg then
          let y := close_cur_writer x in
          if rx_alive y then Some (y <| rx_creq := true |> <| c2_rx := S (c2_rx y) |>) else Some (close2_cons y)
        else Some (close_returned x)      (* variant: `if self._state == State.CLOSED: return` *)
      end
  | AClose2Timer true =>
      match c2_rx x with
      | O => None
      | S n => if negb (rx_creq x) && (old_creq x =? 0)%nat then Some (close2_cons (x <| c2_rx := n |>)) else None
      end
  | AClose2Timer false =>
      match c2_cons x with
      | O => None
      | S n => if negb (cons_creq x) then Some (close_returned (x <| c2_cons := n |>)) else None
      end
  | ASeedStart =>
      match seed_new x with O => None | S n => Some (x <| seed_new := n |> <| seed_sleep := S (seed_sleep x) |>) end
  | ASeedTimer o more =>
      match seed_sleep x with
      | O => None
      | S n => seed_send (x <| seed_sleep := n |> <| seed_susp := S (S (seed_susp x)) |>) o more
      end
  | ASeedDrainDone o more =>
      match seed_drain x with O => None | S n => seed_send (x <| seed_drain := n |>) o more end
  | ASeedCbDone more =>
      match seed_cb x with O => None | S n => seed_next more (spawn_connect (x <| seed_cb := n |>)) end
  end.

Fixpoint run (x : g) (ls : list act) : option g :=
  match ls with [] => Some x | a :: t => match trans x a with Some y => run y t | None => None end end.

(* ---- acceptor for logged traces: every label carries what the harness saw after the block ---- *)
Record snap := mkSnap { s_st : Z; s_lock : bool; s_rx : bool; s_cons : bool; s_wid : Z; s_wclosed : bool; s_q : Z;
  s_pc : Z (* connect() coroutines created and not yet started *) }.
Inductive label := Lab (a : act) (s : snap).

Definition mem_nat (n : nat) (l : list nat) : bool := existsb (Nat.eqb n) l.
Definition snap_ok (y : g) (s : snap) : bool :=
  (cst_code (st y) =? s_st s) && Bool.eqb (lock y) (s_lock s) && Bool.eqb (rx_alive y) (s_rx s) &&
  Bool.eqb (cons_alive y) (s_cons s) &&
  (match writer y with Some w => Z.of_nat w | None => -1 end =? s_wid s) &&
  Bool.eqb (match writer y with Some w => mem_nat w (closed_w y) | None => false end) (s_wclosed s) &&
  (q y =? s_q s) && (Z.of_nat (pending_connects y) =? s_pc s).

Definition step_lab (x : g) (l : label) : option g :=
  let '(Lab a s) := l in
  match trans x a with Some y => if snap_ok y s then Some y else None | None => None end.

(* number of labels accepted before the first rejection (= length when all are accepted) *)
Fixpoint accepted_prefix (x : g) (ls : list label) (n : nat) : nat * bool :=
  match ls with
  | [] => (n, true)
  | l :: t => match step_lab x l with Some y => accepted_prefix y t (S n) | None => (n, false) end
  end.
Definition lts_accepts (ls : list label) : bool := snd (accepted_prefix init ls 0).
End Model.
