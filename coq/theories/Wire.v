(* Wire.v — the gateway wire formats.  Models only, no proofs.

   Encoders (encoder.py:89-183, with the repair F-ebyte13 applied to encode_ebyte):
     enc_ebyte / enc_usb / enc_yd  pgn src dst prio msgs   — `msgs` is the list of CAN-frame data
                                   byte strings that `_encode` returned (one per frame)
     enc_actisense pgn src dst prio payload                — whole payload, one text line
   Parsers (decoder.py:180-363) down to the argument tuple handed to `_decode`:
     parse_tcp, parse_usb : bytes -> result (option dec_args)
     parse_yd, parse_acti, parse_basic : str -> result (option dec_args)
       Ok (Some args) : `_decode` is called with args        Ok None : returns None without calling `_decode`
       Err e : raises (EMalformed = ValueError, EIndex = IndexError, EOther = Exception, ERange = OverflowError)
       Unmodelled : non-ASCII text, Actisense time offsets beyond 10^10, base-10 tokens over 4300 characters
   The header arithmetic is Header.v (`extract_header`, `build_header`, `acti_build`, `acti_parse`).
   `datetime.strptime` is the Section variable `ts_ok fmt token` (fmt 0 = "%H:%M:%S.%f",
   1 = "%Y-%m-%dT%H:%M:%S.%fZ", 2 = "%Y-%m-%d-%H:%M:%S.%f"). *)
From NV Require Import Base Header PyText.

(* (pgn, priority, source, destination, reversed data bytes, already_combined) *)
Definition dec_args := (Z * Z * Z * Z * list Z * bool)%type.
Definition mk_args (h : hdr) (data : list Z) (combined : bool) : dec_args :=
  let '(pgn, src, dst, prio) := h in (pgn, prio, src, dst, data, combined).

(* utils.calculate_canbus_checksum: sum(data[2:19]) & 0xff *)
Definition checksum (p : list Z) : Z := Z.land (zsum (firstn 17 (skipn 2 p))) 255.

(* ------------------------------------------------------------------ encoders *)
(* the range checks at the head of NMEA2000Encoder._encode (ValueError) *)
Definition enc_check (pgn src prio : Z) : result unit :=
  if negb ((0 <=? prio) && (prio <=? 7)) then Err EMalformed
  else if negb ((0 <=? src) && (src <=? 255)) then Err EMalformed
  else if negb ((0 <=? pgn) && (pgn <=? 262143)) then Err EMalformed
  else Ok tt.

Definition zeros (n : Z) : list Z := repeat 0 (Z.to_nat n).

(* encode_ebyte, repaired (F-ebyte13): the data is zero-padded to 8 bytes (bytes.ljust: no effect on
   longer data); the type byte keeps the real length *)
Definition enc_ebyte1 (idb data : list Z) : list Z :=
  Z.lor (Z.land (zlen data) 15) 128 :: idb ++ data ++ zeros (8 - zlen data).
Definition enc_ebyte (pgn src dst prio : Z) (msgs : list (list Z)) : result (list (list Z)) :=
  do _ <- enc_check pgn src prio;
  do idb <- to_be4 (build_header pgn src dst prio);
  Ok (map (enc_ebyte1 idb) msgs).

(* encode_usb *)
Definition usb_body (idb data : list Z) : list Z :=
  [170; 85; 1; 2; 1] ++ idb ++ [zlen data] ++ data ++ zeros (8 - zlen data) ++ [0].
Definition enc_usb1 (idb data : list Z) : result (list Z) :=
  if 255 <? zlen data then Err EMalformed            (* bytes([len(message)]) *)
  else let body := usb_body idb data in Ok (body ++ [checksum body]).
Definition enc_usb (pgn src dst prio : Z) (msgs : list (list Z)) : result (list (list Z)) :=
  do _ <- enc_check pgn src prio;
  do idb <- to_le4 (build_header pgn src dst prio);
  map_result (enc_usb1 idb) msgs.

(* encode_yacht_devices: frame_id_bytes.hex().upper() + " " + ' '.join(f'{b:02X}') + "\r\n" *)
Definition enc_yd1 (idb data : list Z) : list Z :=
  hex_bytes_u idb ++ [32] ++ join [32] (map (fmt_X 2) data) ++ [13; 10].
Definition enc_yd (pgn src dst prio : Z) (msgs : list (list Z)) : result (list (list Z)) :=
  do _ <- enc_check pgn src prio;
  do idb <- to_be4 (build_header pgn src dst prio);
  Ok (map (enc_yd1 idb) msgs).

(* encode_actisense: no range checks, only masks; `payload` is what `_call_encode_function` returned *)
Definition enc_actisense (pgn src dst prio : Z) (payload : list Z) : list Z :=
  fmt_X 5 (acti_build src dst prio) ++ [32] ++ fmt_X 5 (Z.land pgn 16777215) ++ [32] ++ hex_bytes_u payload.

(* ------------------------------------------------------------------ binary parsers *)
(* decode_tcp *)
Definition parse_tcp (p : list Z) : result (option dec_args) :=
  match p with
  | [] => Err EIndex
  | t :: _ =>
      let dl := Z.land t 15 in
      let id := from_be (firstn 4 (skipn 1 p)) in
      Ok (Some (mk_args (extract_header id) (rev (firstn (Z.to_nat dl) (skipn 5 p))) false))
  end.

(* decode_usb *)
Definition parse_usb (p : list Z) : result (option dec_args) :=
  match p with
  | [] => Err EIndex
  | a :: t =>
      if negb (a =? 170) then Err EOther
      else match t with
           | [] => Err EIndex
           | b :: _ =>
               if negb (b =? 85) then Err EOther
               else if negb (zlen p =? 20) then Ok None
               else
                 let id := from_le (firstn 4 (skipn 5 p)) in
                 if negb (checksum p =? nth 19 p 0) then Ok None
                 else
                   let dl := nth 9 p 0 in
                   Ok (Some (mk_args (extract_header id) (rev (firstn (Z.to_nat dl) (skipn 10 p))) false))
           end
  end.

(* ------------------------------------------------------------------ text parsers *)
Definition bytes_of_ints (l : list Z) : result (list Z) :=     (* bytes([...]) *)
  if bytes_ok l then Ok l else Err EMalformed.
Definition ends_with (s : list Z) (c : Z) : bool := match rev s with x :: _ => x =? c | [] => false end.
Definition ts_limit : Z := 10000000000.

Section Parsers.
Variable ts_ok : Z -> list Z -> bool.

(* decode_yacht_devices_string *)
Definition parse_yd (s : list Z) : result (option dec_args) :=
  if negb (all_ascii s) then Unmodelled
  else match split_ws s with
       | ts :: dir :: idt :: d0 :: drest =>
           if negb (str_eqb dir [82] || str_eqb dir [84]) then Err EMalformed
           else if negb (ts_ok 0 ts) then Err EMalformed
           else
             do msgid <- py_int 16 idt;
             do vals <- map_result (py_int 16) (rev (d0 :: drest));
             do bs <- bytes_of_ints vals;
             Ok (Some (mk_args (extract_header msgid) bs false))
       | _ => Err EMalformed                      (* len(parts) < 4 *)
       end.

(* decode_actisense_string *)
Definition parse_acti (s : list Z) : result (option dec_args) :=
  if negb (all_ascii s) then Unmodelled
  else match split_ws s with
       | p0 :: p1 :: p2 :: rest =>
           match p0 with
           | c :: tsr =>
               if negb (c =? 65) then Err EMalformed
               else match split_on 46 tsr with
                    | [a; b] =>
                        do sec <- py_int 10 a;
                        do ms <- py_int 10 b;
                        if (ts_limit <? Z.abs sec) || (ts_limit <? Z.abs ms) then Unmodelled
                        else
                          do n <- py_int 16 p1;
                          let '(src, dst, prio) := acti_parse n in
                          do pgn <- py_int 16 p2;
                          match rest with
                          | [] => Err EIndex                          (* parts[3] *)
                          | p3 :: _ =>
                              match fromhex p3 with
                              | None => Err EMalformed
                              | Some bs => Ok (Some (pgn, prio, src, dst, rev bs, true))
                              end
                          end
                    | _ => Err EMalformed                             (* unpacking / int() *)
                    end
           | [] => Err EMalformed
           end
       | _ => Err EMalformed                      (* len(parts) < 3 *)
       end.

(* decode_basic_string *)
Definition parse_basic (s : list Z) (combined : bool) : result (option dec_args) :=
  if negb (all_ascii s) then Unmodelled
  else
    let parts := split_on 44 s in
    match parts with
    | p0 :: p1 :: p2 :: p3 :: p4 :: p5 :: _ :: _ =>
        if negb (ts_ok (if ends_with p0 90 then 1 else 2) p0) then Err EMalformed
        else
          do prio <- py_int 10 p1;
          do pgn <- py_int 10 p2;
          do src <- py_int 10 p3;
          do dst <- py_int 10 p4;
          do len <- py_int 10 p5;
          do vals <- map_result (py_int 16) (rev (py_slice parts 6 (6 + len)));
          do bs <- bytes_of_ints vals;
          Ok (Some (pgn, prio, src, dst, bs, combined))
    | _ => Err EMalformed                         (* len(parts) < 7 *)
    end.
End Parsers.

(* ------------------------------------------------------------------ receive framing *)
(* fixed-size reads (readexactly(n)); a short tail is not a packet *)
Fixpoint chunks_f (n : nat) (fuel : nat) (l : list Z) : list (list Z) :=
  match fuel with
  | O => []
  | S f => if (length l <? n)%nat then [] else firstn n l :: chunks_f n f (skipn n l)
  end.
Definition chunks (n : nat) (l : list Z) : list (list Z) :=
  match n with O => [] | _ => chunks_f n (length l) l end.

(* readline(): cut after every LF; a tail without LF is returned last (EOF) *)
Fixpoint lines_aux (cur : list Z) (l : list Z) : list (list Z) :=
  match l with
  | [] => match cur with [] => [] | _ => [rev cur] end
  | x :: t => if x =? 10 then rev (x :: cur) :: lines_aux [] t else lines_aux (x :: cur) t
  end.
Definition lines (l : list Z) : list (list Z) := lines_aux [] l.

(* the serial client's window search (ioclient.py:690-712): find b"\xaa\x55", take 20 bytes from there *)
Fixpoint find_marker (l : list Z) : option nat :=
  match l with
  | a :: t =>
      match t with
      | b :: _ => if (a =? 170) && (b =? 85) then Some O else option_map S (find_marker t)
      | [] => None
      end
  | [] => None
  end.
Fixpoint serial_frames_f (fuel : nat) (buf : list Z) : list (list Z) :=
  match fuel with
  | O => []
  | S f =>
      match find_marker buf with
      | None => []
      | Some start =>
          if (length buf <? start + 20)%nat then []
          else firstn 20 (skipn start buf) :: serial_frames_f f (skipn (start + 20) buf)
      end
  end.
Definition serial_frames (buf : list Z) : list (list Z) := serial_frames_f (length buf) buf.

Definition set_nth {A} (k : nat) (v : A) (l : list A) : list A := firstn k l ++ match skipn k l with [] => [] | _ :: t => v :: t end.
