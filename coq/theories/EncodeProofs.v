(* EncodeProofs.v — C02 / C09, the bit-level part: what the generated encoder writes, field by field. *)
From NV Require Import Base Bits Defn PyNum Fields Dispatch Template TemplateEnc Encode Spec SpecProofs.

Section Enc.
  Variable LE : enc_lookups.

  (* the (value, offset, length) triple each database field contributes, or the first error *)
  Fixpoint enc_vals (fs : list dbfield) (mf : list field) : result (list fld) :=
    match fs with
    | [] => Ok []
    | f :: t =>
        match f_bitlen f, f_bitoff f with
        | Some len, Some off =>
            match ekind_of f len with
            | Some (Some k) =>
                match get_field (field_id f) mf with
                | None => Err EMissing
                | Some x => do v <- field_value LE k x; do r <- enc_vals t mf; Ok ((v, off, len) :: r)
                end
            | _ => Err EUnsupported
            end
        | _, _ => Err EUnsupported
        end
    end.

  Definition put_fld (acc : Z) (x : fld) : Z := let '(v, off, len) := x in put acc v off len.

  Lemma ones_mask len : 0 <= len -> 2 ^ len - 1 = Z.ones len.
  Proof. intros. rewrite Z.ones_equiv. lia. Qed.

  (* the generated encoder = OR of the masked, shifted field values, in field order *)
  Lemma run_esteps_vals : forall fs steps mf acc,
    esteps_of fs = Some steps ->
    forallb (fun st => match st with EField _ _ _ _ => true | _ => false end) steps = true ->
    forallb (fun f => match f_bitlen f with Some l => 0 <=? l | None => false end) fs = true ->
    run_esteps LE acc steps mf = bind (enc_vals fs mf) (fun vs => Ok (fold_left put_fld vs acc)).
  Proof.
    induction fs as [|f fs IH]; intros steps mf acc E A W.
    - simpl in E. inversion E; subst. reflexivity.
    - simpl in E, W. apply andb_true_iff in W. destruct W as [Wf W].
      cbn [enc_vals].
      destruct (f_bitlen f) as [len|]; [|discriminate].
      destruct (f_bitoff f) as [off|].
      2:{ inversion E; subst. simpl in A. discriminate. }
      destruct (ekind_of f len) as [[k|]|]; [| inversion E; subst; simpl in A; discriminate | discriminate].
      destruct (esteps_of fs) as [r|] eqn:Er; [|discriminate]. inversion E; subst. clear E.
      simpl in A. cbn [run_esteps].
      destruct (get_field (field_id f) mf) as [x|]; [|reflexivity].
      destruct (field_value LE k x) as [v|e|]; [|reflexivity|reflexivity]. cbn [bind].
      rewrite (IH r mf _ eq_refl A W).
      destruct (enc_vals fs mf) as [vs|e|]; [|reflexivity|reflexivity]. cbn [bind fold_left put_fld].
      apply Z.leb_le in Wf. unfold put. rewrite ones_mask by lia. reflexivity.
  Qed.
End Enc.

Lemma fold_put_fld vs acc :
  fold_left put_fld vs acc = fold_left (fun a '(v, off, len) => put a v off len) vs acc.
Proof. revert acc. induction vs as [|[[v o] l] vs IH]; intros acc; simpl; [reflexivity | apply IH]. Qed.

(* reading a field back from the encoded integer gives the written value modulo 2^len, provided
   the fields are pairwise disjoint *)
Theorem encoded_field_reads_back vs v off len :
  Forall fwf vs -> In (v, off, len) vs ->
  (forall g, In g vs -> g = (v, off, len) \/ disj (v, off, len) g) ->
  decode_int (fold_left put_fld vs 0) off len = v mod 2 ^ len.
Proof. intros. rewrite fold_put_fld. apply insert_then_extract; assumption. Qed.

(* changing the values written changes no bit outside the ranges of the fields that changed *)
Theorem encoded_bits_local vs ws i :
  Forall fwf vs -> Forall fwf ws -> 0 <= i ->
  (* same layout *)
  map (fun x => (snd (fst x), snd x)) vs = map (fun x => (snd (fst x), snd x)) ws ->
  (* every field whose range contains bit i carries the same value in both *)
  (forall n a b, nth_error vs n = Some a -> nth_error ws n = Some b ->
                 snd (fst a) <= i < snd (fst a) + snd a -> fst (fst a) = fst (fst b)) ->
  Z.testbit (fold_left put_fld vs 0) i = Z.testbit (fold_left put_fld ws 0) i.
Proof.
  intros Wv Ww Hi L HS. rewrite !fold_put_fld, !testbit_fold by assumption.
  rewrite Z.bits_0. simpl orb.
  revert ws Ww L HS. induction vs as [|[[v o] l] vs IH]; intros [|[[w o'] l'] ws] Ww L HS; simpl in L; try discriminate; [reflexivity|].
  inversion L; subst o' l'. clear L. cbn [existsb].
  inversion Wv as [|? ? Wa Wv']; subst. inversion Ww as [|? ? Wb Ww']; subst.
  f_equal.
  - destruct ((o <=? i) && (i <? o + l)) eqn:R; [|reflexivity]. simpl.
    apply andb_true_iff in R. destruct R as [R1 R2]. apply Z.leb_le in R1. apply Z.ltb_lt in R2.
    assert (v = w) by (apply (HS 0%nat (v, o, l) (w, o, l) eq_refl eq_refl); simpl; lia). subst w. reflexivity.
  - apply IH; try assumption. intros n a b Ha Hb. apply (HS (Datatypes.S n) a b); assumption.
Qed.

(* a message that lacks a field the definition lists is never encoded *)
Theorem missing_field_is_error LE : forall steps mf acc id k m s,
  In (EField id k m s) steps -> get_field id mf = None ->
  forall x, run_esteps LE acc steps mf <> Ok x.
Proof.
  induction steps as [|st steps IH]; intros mf acc id k m s Hin Hg x; [destruct Hin|].
  destruct Hin as [->|Hin].
  - cbn [run_esteps]. rewrite Hg. discriminate.
  - destruct st as [id' k' m' s'| |id']; cbn [run_esteps]; try discriminate.
    + destruct (get_field id' mf); [|discriminate].
      destruct (field_value LE k' f); cbn [bind]; try discriminate. eapply IH; eassumption.
    + destruct (get_field id' mf); discriminate.
Qed.

(* encode_number: what an accepted value becomes; a rounded quotient outside the representable
   interval (top code reserved for "not available") is rejected, never wrapped or clipped *)
Theorem encode_num_inv v len signed res z :
  encode_num v len signed res = Ok z ->
  exists q n, py_div v res = Ok q /\ (match q with PF f => py_round f | PI k => Ok k end) = Ok n /\
    (if signed then - Z.shiftl 1 (len - 1) <= n <= Z.shiftl 1 (len - 1) - 2 else 0 <= n <= Z.shiftl 1 len - 2) /\
    z = (if signed && (n <? 0) then Z.shiftl 1 len + n else n).
Proof.
  unfold encode_num. intros H.
  destruct (py_div v res) as [q|e|]; cbn [bind] in H; try discriminate.
  destruct (match q with PF f => py_round f | PI k => Ok k end) as [n|e|] eqn:R; cbn [bind] in H; try discriminate.
  exists q, n. split; [reflexivity|]. split; [exact R|].
  destruct (_ && _) eqn:B in H; [|discriminate]. inversion H; subst. clear H.
  apply andb_true_iff in B. destruct B as [B1 B2]. apply Z.leb_le in B1, B2.
  split; [destruct signed; lia | reflexivity].
Qed.

(* the encoded number, read back by the decoder's sign extension, is the rounded quotient itself
   and is never mistaken for "not available" *)
Definition rounded_quotient (v res : pynum) : result Z :=
  do q <- py_div v res; match q with PF f => py_round f | PI k => Ok k end.

Theorem encode_num_reads_back v len signed res z : 1 <= len -> (signed = true -> 4 <= len) ->
  encode_num v len signed res = Ok z ->
  exists n, rounded_quotient v res = Ok n /\ 0 <= z < 2 ^ len /\
            sign_extend signed len z = n /\ not_available signed len n = false.
Proof.
  intros Hl Hs H. destruct (encode_num_inv _ _ _ _ _ H) as [q [n [Q [R [B ->]]]]].
  exists n. split; [unfold rounded_quotient; rewrite Q; exact R|].
  rewrite !shiftl1 in * by lia.
  assert (P : 2 ^ len = 2 * 2 ^ (len - 1)).
  { replace len with ((len - 1) + 1) at 1 by lia. rewrite Z.pow_add_r by lia. lia. }
  assert (P1 : 0 < 2 ^ (len - 1)) by (apply Z.pow_pos_nonneg; lia).
  destruct signed.
  - specialize (Hs eq_refl).
    destruct (Z.ltb_spec n 0); simpl.
    + split; [lia|]. split.
      * rewrite sign_extend_spec by lia. unfold spec_signed. simpl.
        destruct (Z.leb_spec (2 ^ (len - 1)) (2 ^ len + n)); lia.
      * unfold not_available. destruct (Z.leb_spec len 3); [lia|]. rewrite shiftl1 by lia. apply Z.eqb_neq. lia.
    + split; [lia|]. split.
      * rewrite sign_extend_spec by lia. unfold spec_signed. simpl.
        destruct (Z.leb_spec (2 ^ (len - 1)) n); lia.
      * unfold not_available. destruct (Z.leb_spec len 3); [lia|]. rewrite shiftl1 by lia. apply Z.eqb_neq. lia.
  - simpl. split; [lia|]. split.
    + unfold sign_extend. reflexivity.
    + unfold not_available. rewrite !shiftl1 by lia. destruct (len <=? 3); apply Z.eqb_neq; lia.
Qed.

(* absent -> the not-available pattern, which the decoder reports as no value *)
Theorem absent_roundtrip len signed : 1 <= len -> (signed = true -> 4 <= len) ->
  let z := na_pattern len signed in
  0 <= z < 2 ^ len /\ not_available signed len (sign_extend signed len z) = true.
Proof.
  intros Hl Hs. unfold na_pattern.
  assert (P : 2 ^ len = 2 * 2 ^ (len - 1)).
  { replace len with ((len - 1) + 1) at 1 by lia. rewrite Z.pow_add_r by lia. lia. }
  assert (P1 : 0 < 2 ^ (len - 1)) by (apply Z.pow_pos_nonneg; lia).
  destruct (Z.leb_spec len 3) as [L3|L3].
  - assert (signed = false) by (destruct signed; [specialize (Hs eq_refl); lia | reflexivity]). subst.
    cbn zeta. rewrite !shiftl1 by lia. split; [lia|]. unfold sign_extend, not_available. simpl.
    destruct (Z.leb_spec len 3); [|lia]. rewrite shiftl1 by lia. apply Z.eqb_refl.
  - destruct signed; cbn zeta; rewrite ?shiftl1 by lia; (split; [lia|]).
    + rewrite sign_extend_spec by lia. unfold spec_signed, not_available. simpl.
      destruct (Z.leb_spec (2 ^ (len - 1)) (2 ^ (len - 1) - 1)); [lia|].
      destruct (Z.leb_spec len 3); [lia|]. rewrite shiftl1 by lia. apply Z.eqb_refl.
    + unfold sign_extend, not_available. simpl. destruct (Z.leb_spec len 3); [lia|].
      rewrite shiftl1 by lia. apply Z.eqb_refl.
Qed.

(* ---------- pairwise disjoint layouts (boolean, checked on the tables) ---------- *)
Definition disj_b (a b : fld) : bool :=
  let '(_, o1, l1) := a in let '(_, o2, l2) := b in (o1 + l1 <=? o2) || (o2 + l2 <=? o1).
Fixpoint pairwise_disj (l : list fld) : bool :=
  match l with [] => true | x :: t => forallb (disj_b x) t && pairwise_disj t end.

Lemma disj_b_sound a b : disj_b a b = true -> disj a b.
Proof.
  destruct a as [[v1 o1] l1], b as [[v2 o2] l2]. simpl. intros H.
  apply orb_true_iff in H. destruct H as [H|H]; apply Z.leb_le in H; [left|right]; exact H.
Qed.
Lemma disj_sym a b : disj a b -> disj b a.
Proof. destruct a as [[v1 o1] l1], b as [[v2 o2] l2]. simpl. tauto. Qed.

Lemma pairwise_sound l : pairwise_disj l = true ->
  forall x, In x l -> forall g, In g l -> g = x \/ disj x g.
Proof.
  induction l as [|a l IH]; intros P x Hx g Hg; [destruct Hx|].
  simpl in P. apply andb_true_iff in P. destruct P as [Pa P]. rewrite forallb_forall in Pa.
  destruct Hx as [->|Hx], Hg as [->|Hg].
  - left; reflexivity.
  - right. apply disj_b_sound. apply Pa. exact Hg.
  - right. apply disj_sym. apply disj_b_sound. apply Pa. exact Hx.
  - apply IH; assumption.
Qed.

(* C02/C09 at the payload level: every field the encoder wrote reads back as written (mod 2^len) *)
Theorem encoder_fields_read_back LE fs steps mf x :
  esteps_of fs = Some steps ->
  forallb (fun st => match st with EField _ _ _ _ => true | _ => false end) steps = true ->
  forallb (fun f => match f_bitlen f with Some l => 0 <=? l | None => false end) fs = true ->
  run_esteps LE 0 steps mf = Ok x ->
  exists vs, enc_vals LE fs mf = Ok vs /\ x = fold_left put_fld vs 0 /\
    (Forall fwf vs -> pairwise_disj vs = true ->
     forall v off len, In (v, off, len) vs -> decode_int x off len = v mod 2 ^ len).
Proof.
  intros E A W R. rewrite (run_esteps_vals LE fs steps mf 0 E A W) in R.
  destruct (enc_vals LE fs mf) as [vs|e|]; cbn [bind] in R; try discriminate.
  inversion R; subst. exists vs. split; [reflexivity|]. split; [reflexivity|].
  intros Wf P v off len Hin. apply encoded_field_reads_back; [exact Wf | exact Hin |].
  apply pairwise_sound; assumption.
Qed.

(* ---------- from the database layout to the premises above ---------- *)
Definition db_layout (fs : list dbfield) : list (Z * Z) :=
  flat_map (fun f => match f_bitoff f, f_bitlen f with Some o, Some l => [(o, l)] | _, _ => [] end) fs.
Definition layout_of (vs : list fld) : list (Z * Z) := map (fun x => (snd (fst x), snd x)) vs.

Lemma enc_vals_layout LE : forall fs mf vs, enc_vals LE fs mf = Ok vs -> layout_of vs = db_layout fs.
Proof.
  induction fs as [|f fs IH]; intros mf vs H; simpl in H.
  - inversion H; reflexivity.
  - unfold db_layout. simpl. fold (db_layout fs).
    destruct (f_bitlen f) as [len|]; [|discriminate]. destruct (f_bitoff f) as [off|]; [|discriminate].
    destruct (ekind_of f len) as [[k|]|]; try discriminate.
    destruct (get_field (field_id f) mf) as [x|]; [|discriminate].
    destruct (field_value LE k x) as [v|e|]; cbn [bind] in H; try discriminate.
    destruct (enc_vals LE fs mf) as [r|e|] eqn:Er; cbn [bind] in H; try discriminate.
    inversion H; subst. simpl. f_equal. apply (IH mf r Er).
Qed.

Definition lay_disj_b (a b : Z * Z) : bool := (fst a + snd a <=? fst b) || (fst b + snd b <=? fst a).
Fixpoint lay_pairwise (l : list (Z * Z)) : bool :=
  match l with [] => true | x :: t => forallb (lay_disj_b x) t && lay_pairwise t end.
Definition lay_wf (l : list (Z * Z)) : bool := forallb (fun x => (0 <=? fst x) && (0 <=? snd x)) l.

Lemma pairwise_of_layout vs : lay_pairwise (layout_of vs) = true -> pairwise_disj vs = true.
Proof.
  induction vs as [|[[v o] l] vs IH]; simpl; intros H; [reflexivity|].
  apply andb_true_iff in H. destruct H as [H1 H2]. apply andb_true_iff. split; [|apply IH; exact H2].
  apply forallb_forall. intros [[v' o'] l'] Hin. rewrite forallb_forall in H1.
  specialize (H1 (o', l')). simpl in H1. apply H1. unfold layout_of.
  change (o', l') with ((fun x : fld => (snd (fst x), snd x)) (v', o', l')). apply in_map. exact Hin.
Qed.
Lemma wf_of_layout vs : lay_wf (layout_of vs) = true -> Forall fwf vs.
Proof.
  induction vs as [|[[v o] l] vs IH]; simpl; intros H; constructor.
  - apply andb_true_iff in H. destruct H as [H _]. apply andb_true_iff in H. destruct H as [A B].
    apply Z.leb_le in A, B. simpl. split; assumption.
  - apply IH. apply andb_true_iff in H. tauto.
Qed.

(* the layout side conditions of a database definition *)
Definition layout_ok (d : dbdef) : bool :=
  lay_wf (db_layout (d_fields d)) && lay_pairwise (db_layout (d_fields d))
  && forallb (fun f => match f_bitlen f with Some l => 1 <=? l | None => false end) (d_fields d)
  && match d_length d with
     | Some n => forallb (fun x => fst x + snd x <=? 8 * n) (db_layout (d_fields d))
     | None => true
     end.

Lemma ekind_eqb_eq a b : ekind_eqb a b = true -> a = b.
Proof.
  destruct a, b; simpl; intros H; try discriminate; try reflexivity; split_andb H; eqb_to_eq; subst;
    try reflexivity; try (apply Z.eqb_eq in H; congruence).
Qed.
Lemma estep_eqb_eq a b : estep_eqb a b = true -> a = b.
Proof.
  destruct a, b; simpl; intros H; try discriminate; try reflexivity.
  - split_andb H. eqb_to_eq.
    repeat match goal with Hk : ekind_eqb _ _ = true |- _ => apply ekind_eqb_eq in Hk end. subst. reflexivity.
  - apply Z.eqb_eq in H. congruence.
Qed.
Lemma estep_eqb_refl a : estep_eqb a a = true.
Proof.
  destruct a as [i k m s| |i]; simpl; rewrite ?Z.eqb_refl; try reflexivity.
  assert (ekind_eqb k k = true).
  { destruct k; simpl; rewrite ?Z.eqb_refl, ?eqb_reflx; try reflexivity;
      match goal with |- context [num_eqb ?n ?n] => destruct n; simpl; rewrite Z.eqb_refl; reflexivity end. }
  rewrite H. reflexivity.
Qed.
Lemma edef_eqb_eq a b : edef_eqb a b = true -> a = b.
Proof.
  unfold edef_eqb. intros H. apply andb_true_iff in H. destruct H as [H1 H2]. apply oz_eqb_eq in H2.
  assert (e_steps a = e_steps b).
  { apply (list_eqb_eq estep_eqb); [|exact H1]. intros x y. split; [apply estep_eqb_eq | intros ->; apply estep_eqb_refl]. }
  destruct a, b; simpl in *; congruence.
Qed.

(* C02/C09, bits: for an encodable definition whose translated encoder passes the table check and whose
   layout is disjoint, whatever message is encoded, every field reads back from the produced integer
   as the value the field conversion produced (mod 2^len) *)
Theorem edef_ok_sound code_enc LE g d :
  edef_ok code_enc g d = true -> encodable d = true -> layout_ok d = true ->
  exists ce, find_fname (fname_of g d) code_enc = Some ce /\ e_length ce = d_length d /\
    forall mf x, run_esteps LE 0 (e_steps ce) mf = Ok x ->
      exists vs, enc_vals LE (d_fields d) mf = Ok vs /\ layout_of vs = db_layout (d_fields d) /\
        forall v off len, In (v, off, len) vs -> decode_int x off len = v mod 2 ^ len.
Proof.
  unfold edef_ok, encodable, layout_ok, edef_of_db. intros H En Lo.
  destruct (find_fname (fname_of g d) code_enc) as [ce|]; [|discriminate].
  destruct (esteps_of (d_fields d)) as [steps|] eqn:Es; [|discriminate].
  apply edef_eqb_eq in H. subst ce. exists (mkE steps (d_length d)). split; [reflexivity|]. split; [reflexivity|].
  cbn [e_steps]. intros mf x R.
  apply andb_true_iff in Lo. destruct Lo as [Lo _]. apply andb_true_iff in Lo. destruct Lo as [Lo L1].
  apply andb_true_iff in Lo. destruct Lo as [Lw Lp].
  assert (W : forallb (fun f => match f_bitlen f with Some l => 0 <=? l | None => false end) (d_fields d) = true).
  { apply forallb_forall. intros f Hf. rewrite forallb_forall in L1. specialize (L1 f Hf).
    destruct (f_bitlen f); [|discriminate]. apply Z.leb_le in L1. apply Z.leb_le. lia. }
  destruct (encoder_fields_read_back LE (d_fields d) steps mf x Es En W R) as [vs [Ev [_ Hrd]]].
  exists vs. split; [exact Ev|]. pose proof (enc_vals_layout LE _ _ _ Ev) as Lay. split; [exact Lay|].
  apply Hrd; [apply wf_of_layout | apply pairwise_of_layout]; rewrite Lay; assumption.
Qed.
