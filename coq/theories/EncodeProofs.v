(* EncodeProofs.v — C02 / C09, the bit-level part: what the generated encoder writes, field by field. *)
From NV Require Import Base Bits Defn PyNum Fields Dispatch Template TemplateEnc Encode SpecProofs.

Section Enc.
  Variable LE : enc_lookups.

  (* the (value, offset, length) triple each database field contributes, or the first error *)
  Fixpoint enc_vals (fs : list dbfield) (mf : list field) : result (list fld) :=
    match fs with
    | [] => Ok []
    | f :: t =>
        match f_bitlen f, f_bitoff f with
        | Some len, Some off =>
            match ekind_of f len with
            | Some (Some k) =>
                match get_field (field_id f) mf with
                | None => Err EMissing
                | Some x => do v <- field_value LE k x; do r <- enc_vals t mf; Ok ((v, off, len) :: r)
                end
            | _ => Err EUnsupported
            end
        | _, _ => Err EUnsupported
        end
    end.

  Definition put_fld (acc : Z) (x : fld) : Z := let '(v, off, len) := x in put acc v off len.

  Lemma ones_mask len : 0 <= len -> 2 ^ len - 1 = Z.ones len.
  Proof. intros. rewrite Z.ones_equiv. lia. Qed.

  (* the generated encoder = OR of the masked, shifted field values, in field order *)
  Lemma run_esteps_vals : forall fs steps mf acc,
    esteps_of fs = Some steps ->
    forallb (fun st => match st with EField _ _ _ _ => true | _ => false end) steps = true ->
    forallb (fun f => match f_bitlen f with Some l => 0 <=? l | None => false end) fs = true ->
    run_esteps LE acc steps mf = bind (enc_vals fs mf) (fun vs => Ok (fold_left put_fld vs acc)).
  Proof.
    induction fs as [|f fs IH]; intros steps mf acc E A W.
    - simpl in E. inversion E; subst. reflexivity.
    - simpl in E, W. apply andb_true_iff in W. destruct W as [Wf W].
      cbn [enc_vals].
      destruct (f_bitlen f) as [len|]; [|discriminate].
      destruct (f_bitoff f) as [off|].
      2:{ inversion E; subst. simpl in A. discriminate. }
      destruct (ekind_of f len) as [[k|]|]; [| inversion E; subst; simpl in A; discriminate | discriminate].
      destruct (esteps_of fs) as [r|] eqn:Er; [|discriminate]. inversion E; subst. clear E.
      simpl in A. cbn [run_esteps].
      destruct (get_field (field_id f) mf) as [x|]; [|reflexivity].
      destruct (field_value LE k x) as [v|e|]; [|reflexivity|reflexivity]. cbn [bind].
      rewrite (IH r mf _ eq_refl A W).
      destruct (enc_vals fs mf) as [vs|e|]; [|reflexivity|reflexivity]. cbn [bind fold_left put_fld].
      apply Z.leb_le in Wf. unfold put. rewrite ones_mask by lia. reflexivity.
  Qed.
End Enc.

Lemma fold_put_fld vs acc :
  fold_left put_fld vs acc = fold_left (fun a '(v, off, len) => put a v off len) vs acc.
Proof. revert acc. induction vs as [|[[v o] l] vs IH]; intros acc; simpl; [reflexivity | apply IH]. Qed.

(* reading a field back from the encoded integer gives the written value modulo 2^len, provided
   the fields are pairwise disjoint *)
Theorem encoded_field_reads_back vs v off len :
  Forall fwf vs -> In (v, off, len) vs ->
  (forall g, In g vs -> g = (v, off, len) \/ disj (v, off, len) g) ->
  decode_int (fold_left put_fld vs 0) off len = v mod 2 ^ len.
Proof. intros. rewrite fold_put_fld. apply insert_then_extract; assumption. Qed.

(* changing the values written changes no bit outside the ranges of the fields that changed *)
Theorem encoded_bits_local vs ws i :
  Forall fwf vs -> Forall fwf ws -> 0 <= i ->
  (* same layout *)
  map (fun x => (snd (fst x), snd x)) vs = map (fun x => (snd (fst x), snd x)) ws ->
  (* every field whose range contains bit i carries the same value in both *)
  (forall n a b, nth_error vs n = Some a -> nth_error ws n = Some b ->
                 snd (fst a) <= i < snd (fst a) + snd a -> fst (fst a) = fst (fst b)) ->
  Z.testbit (fold_left put_fld vs 0) i = Z.testbit (fold_left put_fld ws 0) i.
Proof.
  intros Wv Ww Hi L S. rewrite !fold_put_fld, !testbit_fold by assumption.
  rewrite Z.bits_0. simpl orb.
  revert ws Ww L S. induction vs as [|[[v o] l] vs IH]; intros [|[[w o'] l'] ws] Ww L S; simpl in L; try discriminate; [reflexivity|].
  inversion L; subst o' l'. clear L. cbn [existsb].
  inversion Wv as [|? ? Wa Wv']; subst. inversion Ww as [|? ? Wb Ww']; subst.
  f_equal.
  - destruct ((o <=? i) && (i <? o + l)) eqn:R; [|reflexivity]. simpl.
    apply andb_true_iff in R. destruct R as [R1 R2]. apply Z.leb_le in R1. apply Z.ltb_lt in R2.
    rewrite (S 0%nat (v, o, l) (w, o, l) eq_refl eq_refl); [reflexivity | simpl; lia].
  - apply IH; try assumption. intros n a b Ha Hb. apply (S (S n) a b); assumption.
Qed.

(* a message that lacks a field the definition lists is never encoded *)
Theorem missing_field_is_error LE : forall steps mf acc id k m s,
  In (EField id k m s) steps -> get_field id mf = None ->
  forall x, run_esteps LE acc steps mf <> Ok x.
Proof.
  induction steps as [|st steps IH]; intros mf acc id k m s Hin Hg x; [destruct Hin|].
  destruct Hin as [->|Hin].
  - cbn [run_esteps]. rewrite Hg. discriminate.
  - destruct st as [id' k' m' s'| |id']; cbn [run_esteps]; try discriminate.
    + destruct (get_field id' mf); [|discriminate].
      destruct (field_value LE k' f); cbn [bind]; try discriminate. eapply IH; eassumption.
    + destruct (get_field id' mf); discriminate.
Qed.

(* encode_number: what an accepted value becomes; a rounded quotient outside the representable
   interval (top code reserved for "not available") is rejected, never wrapped or clipped *)
Theorem encode_num_inv v len signed res z :
  encode_num v len signed res = Ok z ->
  exists q n, py_div v res = Ok q /\ (match q with PF f => py_round f | PI k => Ok k end) = Ok n /\
    (if signed then - Z.shiftl 1 (len - 1) <= n <= Z.shiftl 1 (len - 1) - 2 else 0 <= n <= Z.shiftl 1 len - 2) /\
    z = (if signed && (n <? 0) then Z.shiftl 1 len + n else n).
Proof.
  unfold encode_num. intros H.
  destruct (py_div v res) as [q|e|]; cbn [bind] in H; try discriminate.
  destruct (match q with PF f => py_round f | PI k => Ok k end) as [n|e|] eqn:R; cbn [bind] in H; try discriminate.
  exists q, n. split; [reflexivity|]. split; [exact R|].
  destruct (_ && _) eqn:B in H; [|discriminate]. inversion H; subst. clear H.
  apply andb_true_iff in B. destruct B as [B1 B2]. apply Z.leb_le in B1, B2.
  split; [destruct signed; lia | reflexivity].
Qed.

(* the encoded number, read back with sign extension, is the rounded quotient itself *)
Theorem encode_num_reads_back v len signed res z : 1 <= len ->
  encode_num v len signed res = Ok z ->
  0 <= z < 2 ^ len /\
  exists n, sign_extend signed len z = n /\ not_available signed len n = false \/ (len <= 3 /\ signed = false /\ False) \/
            (signed = true /\ len <= 3).
Proof.
  intros Hl H. destruct (encode_num_inv _ _ _ _ _ H) as [q [n [_ [_ [B ->]]]]].
  rewrite !shiftl1 in * by lia.
  assert (P : 2 ^ len = 2 * 2 ^ (len - 1)).
  { replace len with ((len - 1) + 1) at 1 by lia. rewrite Z.pow_add_r by lia. lia. }
  assert (P1 : 0 < 2 ^ (len - 1)) by (apply Z.pow_pos_nonneg; lia).
  destruct signed.
  - destruct (Z.ltb_spec n 0); simpl.
    + split; [lia|]. destruct (Z.leb_spec len 3); [exists 0; right; right; split; [reflexivity | assumption]|].
      exists n. left. split.
      * rewrite sign_extend_spec by lia. unfold spec_signed. simpl.
        destruct (Z.leb_spec (2 ^ (len - 1)) (2 ^ len + n)); lia.
      * unfold not_available. destruct (Z.leb_spec len 3); [lia|]. rewrite shiftl1 by lia. apply Z.eqb_neq. lia.
    + split; [lia|]. destruct (Z.leb_spec len 3); [exists 0; right; right; split; [reflexivity | assumption]|].
      exists n. left. split.
      * rewrite sign_extend_spec by lia. unfold spec_signed. simpl.
        destruct (Z.leb_spec (2 ^ (len - 1)) n); lia.
      * unfold not_available. destruct (Z.leb_spec len 3); [lia|]. rewrite shiftl1 by lia. apply Z.eqb_neq. lia.
  - simpl. split; [lia|]. exists n. left. split.
    + unfold sign_extend. reflexivity.
    + unfold not_available. rewrite !shiftl1 by lia. destruct (len <=? 3); apply Z.eqb_neq; lia.
Qed.

(* absent -> the not-available pattern, which the decoder reports as no value *)
Theorem absent_roundtrip len signed : 1 <= len -> (signed = true -> 4 <= len) ->
  let z := na_pattern len signed in
  0 <= z < 2 ^ len /\ not_available signed len (sign_extend signed len z) = true.
Proof.
  intros Hl Hs. unfold na_pattern.
  assert (P : 2 ^ len = 2 * 2 ^ (len - 1)).
  { replace len with ((len - 1) + 1) at 1 by lia. rewrite Z.pow_add_r by lia. lia. }
  assert (P1 : 0 < 2 ^ (len - 1)) by (apply Z.pow_pos_nonneg; lia).
  destruct (Z.leb_spec len 3) as [L3|L3].
  - assert (signed = false) by (destruct signed; [specialize (Hs eq_refl); lia | reflexivity]). subst.
    cbn zeta. rewrite !shiftl1 by lia. split; [lia|]. unfold sign_extend, not_available. simpl.
    destruct (Z.leb_spec len 3); [|lia]. rewrite shiftl1 by lia. apply Z.eqb_refl.
  - destruct signed; cbn zeta; rewrite ?shiftl1 by lia; (split; [lia|]).
    + rewrite sign_extend_spec by lia. unfold spec_signed, not_available. simpl.
      destruct (Z.leb_spec (2 ^ (len - 1)) (2 ^ (len - 1) - 1)); [lia|].
      destruct (Z.leb_spec len 3); [lia|]. rewrite shiftl1 by lia. apply Z.eqb_refl.
    + unfold sign_extend, not_available. simpl. destruct (Z.leb_spec len 3); [lia|].
      rewrite shiftl1 by lia. apply Z.eqb_refl.
Qed.
