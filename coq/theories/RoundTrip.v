(* RoundTrip.v — C02 end to end, on the specification of decoding and the encoder template:
   whatever message the decoder produces from a payload p for a database definition d, the encoder
   template of d, run on that message, writes back exactly the bits of p in every field that is not
   a FLOAT (binary32) field.  Composition of
     - Spec.spec_decode  (what the decoder returns: C01 proves the generated decoders equal to it),
     - FloatRT.number_field_roundtrip (IEEE-754: decoded numbers re-encode to the same bits),
     - EncodeProofs.encoder_fields_read_back (disjoint fields are read back as written). *)
From NV Require Import Base Bits Defn PyNum Fields Dispatch Template TemplateEnc Encode Spec SpecProofs EncodeProofs FloatRT.

(* ---------- the field-type tags are pairwise different ---------- *)
Definition all_tags : list str :=
  [T_NUMBER; T_MMSI; T_PGN; T_DURATION; T_LOOKUP; T_BITLOOKUP; T_STRING_FIX; T_STRING_LZ; T_STRING_LAU;
   T_FLOAT; T_TIME; T_DATE; T_RESERVED; T_SPARE; T_INDIRECT; T_BINARY].

(* the class of a field as the two templates see it *)
Inductive fclass := CNumber | CDuration | CLookup | CFloat | CTime | CDate | CReserved | COther.
Definition fclass_of (f : dbfield) : fclass :=
  if is_t f T_NUMBER || is_t f T_PGN then CNumber
  else if is_t f T_DURATION then CDuration
  else if is_t f T_LOOKUP then CLookup
  else if is_t f T_FLOAT then CFloat
  else if is_t f T_TIME then CTime
  else if is_t f T_DATE then CDate
  else if is_t f T_RESERVED then CReserved
  else COther.

(* is_t tests of a field whose type is one given tag, as closed booleans *)
Lemma is_t_of_tag f t u : f_type f = t -> is_t f u = (t =? u).
Proof. intros E. unfold is_t. rewrite E. reflexivity. Qed.

Ltac tag_tests f t H :=
  repeat match goal with
  | |- context [is_t f ?u] => rewrite (is_t_of_tag f t u H)
  | X : context [is_t f ?u] |- _ => rewrite (is_t_of_tag f t u H) in X
  end.

(* Deciding a closed tag comparison without unfolding anything else *)
Ltac tag_compute :=
  repeat match goal with
  | |- context [?a =? ?b] =>
      is_const a; is_const b; let v := eval vm_compute in (a =? b) in change (a =? b) with v
  | X : context [?a =? ?b] |- _ =>
      is_const a; is_const b; let v := eval vm_compute in (a =? b) in change (a =? b) with v in X
  end.

(* per-field side condition (decided per run for every field of every encodable definition) *)
Definition rt_field_ok (f : dbfield) : bool :=
  match f_bitoff f, f_bitlen f with
  | Some off, Some len =>
      (0 <=? off) && (1 <=? len) &&
      match fclass_of f with
      | CNumber | CDuration | CTime | CDate =>
          match f_res f with
          | Some r => num_field_okb len (f_signed f) r && (negb (f_signed f) || (4 <=? len))
          | None => false
          end
      | _ => true
      end
  | _, _ => false
  end.

(* the fields whose bits the theorem speaks about *)
Definition exact_field (f : dbfield) : bool := negb (is_t f T_FLOAT).

Lemma num_ok_parts len signed r :
  num_field_okb len signed r && (negb signed || (4 <=? len)) = true ->
  num_field_ok len signed (pynum_of_num r) /\ (signed = true -> 4 <= len).
Proof.
  intros H. apply andb_true_iff in H. destruct H as [H1 H2]. split.
  - apply num_field_okb_sound. exact H1.
  - intros ->. simpl in H2. apply Z.leb_le. exact H2.
Qed.

Lemma spec_number_reencodes bits len signed r mn mx v :
  1 <= len -> 0 <= bits < 2 ^ len ->
  num_field_ok len signed (pynum_of_num r) -> (signed = true -> 4 <= len) ->
  spec_number bits len signed r mn mx = Ok v ->
  encode_number v len signed (pynum_of_num r) = Ok bits /\
  (v = VNone \/ is_number v = true).
Proof.
  intros Hl Hb Hok Hs S.
  assert (N : number_of_raw (sign_extend signed len bits) len signed (pynum_of_num r) (pynum_of_num mn) (pynum_of_num mx) = Ok v).
  { unfold number_of_raw. rewrite sign_extend_spec by assumption. rewrite not_available_spec by lia. exact S. }
  split.
  - eapply number_field_roundtrip; eassumption.
  - unfold number_of_raw in N. destruct (not_available _ _ _).
    + inversion N. left. reflexivity.
    + destruct (py_mul_int _ _) as [a|e|]; cbn [bind] in N; try discriminate.
      destruct (range_check _ _ _) as [b|e|]; cbn [bind] in N; try discriminate.
      inversion N. right. destruct b; reflexivity.
Qed.

Section RT.
  Variable L LB : lookups.
  Variable LE : enc_lookups.
  Variable p : Z.

  (* ONE FIELD: the field the decoder builds re-encodes to the field's bits of p *)
  Lemma field_roundtrip f off len k x :
    f_bitoff f = Some off -> f_bitlen f = Some len -> rt_field_ok f = true -> exact_field f = true ->
    ekind_of f len = Some (Some k) ->
    spec_field L LB p f = Ok x ->
    fl_id x = field_id f /\ field_value LE k x = Ok (field_bits p off len).
  Proof.
    intros Eo El Hok Hex Ek S.
    unfold rt_field_ok in Hok. rewrite Eo, El in Hok.
    apply andb_true_iff in Hok. destruct Hok as [Hol Hcls]. apply andb_true_iff in Hol. destruct Hol as [Ho Hl].
    apply Z.leb_le in Ho, Hl.
    assert (Hb : 0 <= field_bits p off len < 2 ^ len) by (apply field_bits_range; lia).
    unfold spec_field in S. rewrite Eo, El in S.
    destruct (spec_value L LB p f off len) as [[v raw]|e|] eqn:SV; cbn [bind] in S; try discriminate.
    inversion S; subst x; clear S. cbn [fl_id fl_val fl_raw fst snd]. split; [reflexivity|].
    unfold exact_field in Hex. apply negb_true_iff in Hex.
    unfold ekind_of in Ek. unfold fclass_of in Hcls. unfold spec_value, is_numberlike in SV.
    (* case analysis on the type tag *)
    destruct (is_t f T_NUMBER) eqn:TN; [apply Z.eqb_eq in TN|].
    { tag_tests f T_NUMBER TN. tag_compute. cbn [orb] in *.
      destruct (f_res f) as [r|]; [|discriminate]. inversion Ek; subst k; clear Ek.
      destruct (f_min f) as [mn|]; [|discriminate]. destruct (f_max f) as [mx|]; [|discriminate].
      destruct (spec_number _ _ _ _ _ _) as [w|e|] eqn:SN; cbn [bind] in SV; try discriminate.
      inversion SV; subst v raw; clear SV.
      destruct (num_ok_parts _ _ _ Hcls) as [Hnf Hs].
      destruct (spec_number_reencodes _ _ _ _ _ _ _ Hl Hb Hnf Hs SN) as [E C].
      cbn [field_value fl_val]. destruct C as [->|C].
      - exact E.
      - destruct w; try discriminate; exact E. }
    destruct (is_t f T_PGN) eqn:TP; [apply Z.eqb_eq in TP|].
    { tag_tests f T_PGN TP. tag_compute. cbn [orb] in *.
      destruct (f_res f) as [r|]; [|discriminate]. inversion Ek; subst k; clear Ek.
      destruct (f_min f) as [mn|]; [|discriminate]. destruct (f_max f) as [mx|]; [|discriminate].
      destruct (spec_number _ _ _ _ _ _) as [w|e|] eqn:SN; cbn [bind] in SV; try discriminate.
      inversion SV; subst v raw; clear SV.
      destruct (num_ok_parts _ _ _ Hcls) as [Hnf Hs].
      destruct (spec_number_reencodes _ _ _ _ _ _ _ Hl Hb Hnf Hs SN) as [E C].
      cbn [field_value fl_val]. destruct C as [->|C].
      - exact E.
      - destruct w; try discriminate; exact E. }
    cbn [orb] in Ek, Hcls.
    destruct (is_t f T_RESERVED) eqn:TR; [apply Z.eqb_eq in TR|].
    { tag_tests f T_RESERVED TR. tag_compute. cbn [orb] in *.
      inversion Ek; subst k; clear Ek. inversion SV; subst v raw. reflexivity. }
    rewrite Hex in Ek.
    destruct (is_t f T_LOOKUP) eqn:TL; [apply Z.eqb_eq in TL|].
    { tag_tests f T_LOOKUP TL. tag_compute. cbn [orb] in *.
      destruct (f_lookup f) as [t|]; [|discriminate]. inversion Ek; subst k; clear Ek.
      destruct (find_tbl t L); [|discriminate]. inversion SV; subst v raw. reflexivity. }
    destruct (is_t f T_DATE) eqn:TD; [apply Z.eqb_eq in TD|].
    { tag_tests f T_DATE TD. tag_compute. cbn [orb] in *.
      destruct (f_res f) as [r|]; [|discriminate]. inversion Ek; subst k; clear Ek.
      destruct (f_min f) as [mn|]; [|discriminate]. destruct (f_max f) as [mx|]; [|discriminate].
      destruct (spec_number _ _ _ _ _ _) as [w|e|] eqn:SN; cbn [bind] in SV; try discriminate.
      destruct (decode_date w) as [dv|e|] eqn:DD; cbn [bind] in SV; try discriminate.
      inversion SV; subst v raw; clear SV.
      destruct (num_ok_parts _ _ _ Hcls) as [Hnf Hs].
      destruct (spec_number_reencodes _ _ _ _ _ _ _ Hl Hb Hnf Hs SN) as [E C].
      cbn [field_value fl_val fl_raw]. destruct C as [->|C].
      - simpl in DD. inversion DD; subst dv. exact E.
      - destruct w; try discriminate; exact E. }
    destruct (is_t f T_TIME) eqn:TT; [apply Z.eqb_eq in TT|].
    { tag_tests f T_TIME TT. tag_compute. cbn [orb] in *.
      destruct (f_res f) as [r|]; [|discriminate]. inversion Ek; subst k; clear Ek.
      destruct (f_min f) as [mn|]; [|discriminate]. destruct (f_max f) as [mx|]; [|discriminate].
      destruct (spec_number _ _ _ _ _ _) as [w|e|] eqn:SN; cbn [bind] in SV; try discriminate.
      destruct (decode_time w) as [dv|e|] eqn:DD; cbn [bind] in SV; try discriminate.
      inversion SV; subst v raw; clear SV.
      destruct (num_ok_parts _ _ _ Hcls) as [Hnf Hs].
      destruct (spec_number_reencodes _ _ _ _ _ _ _ Hl Hb Hnf Hs SN) as [E C].
      cbn [field_value fl_val fl_raw]. destruct C as [->|C].
      - simpl in DD. inversion DD; subst dv. exact E.
      - destruct w; try discriminate; cbn [is_number]; exact E. }
    destruct (is_t f T_DURATION) eqn:TU; [apply Z.eqb_eq in TU|].
    { tag_tests f T_DURATION TU. tag_compute. cbn [orb] in *.
      destruct (f_res f) as [r|]; [|discriminate]. inversion Ek; subst k; clear Ek.
      destruct (f_min f) as [mn|]; [|discriminate]. destruct (f_max f) as [mx|]; [|discriminate].
      destruct (spec_number _ _ _ _ _ _) as [w|e|] eqn:SN; cbn [bind] in SV; try discriminate.
      inversion SV; subst v raw; clear SV.
      destruct (num_ok_parts _ _ _ Hcls) as [Hnf Hs].
      destruct (spec_number_reencodes _ _ _ _ _ _ _ Hl Hb Hnf Hs SN) as [E C].
      cbn [field_value fl_val fl_raw]. destruct C as [->|C].
      - exact E.
      - destruct w; try discriminate; cbn [is_number]; exact E. }
    cbn [orb] in Ek. discriminate.
  Qed.
End RT.

(* ---------- the whole field list ---------- *)
Fixpoint ids_nodup (ids : list str) : bool :=
  match ids with [] => true | x :: t => negb (existsb (Z.eqb x) t) && ids_nodup t end.
Definition rt_def_ok (d : dbdef) : bool :=
  forallb rt_field_ok (d_fields d) && ids_nodup (map field_id (d_fields d)).
Definition no_float (d : dbdef) : bool := forallb exact_field (d_fields d).

Section RTList.
  Variable L LB : lookups.
  Variable LE : enc_lookups.
  Variable p : Z.

  Lemma spec_field_id f x : spec_field L LB p f = Ok x -> fl_id x = field_id f.
  Proof.
    unfold spec_field. destruct (f_bitoff f) as [off|]; [|discriminate]. destruct (f_bitlen f) as [len|]; [|discriminate].
    destruct (spec_value L LB p f off len) as [[v r]|e|]; cbn [bind]; try discriminate.
    intros H. inversion H. reflexivity.
  Qed.

  (* looking a field up by id in the decoded message finds the field decoded for that definition field *)
  Lemma get_field_spec : forall fs xs, spec_fields L LB p fs = Ok xs -> ids_nodup (map field_id fs) = true ->
    forall f, In f fs -> exists x, spec_field L LB p f = Ok x /\ get_field (field_id f) xs = Some x.
  Proof.
    induction fs as [|f0 fs IH]; intros xs S N f Hin; [destruct Hin|].
    cbn [spec_fields] in S.
    destruct (spec_field L LB p f0) as [x0|e|] eqn:S0; cbn [bind] in S; try discriminate.
    destruct (spec_fields L LB p fs) as [xs'|e|] eqn:S1; cbn [bind] in S; try discriminate.
    inversion S; subst xs; clear S.
    cbn [map ids_nodup] in N. apply andb_true_iff in N. destruct N as [N0 N1]. apply negb_true_iff in N0.
    pose proof (spec_field_id f0 x0 S0) as I0.
    destruct Hin as [<-|Hin].
    - exists x0. split; [exact S0|]. unfold get_field. cbn [find]. rewrite I0, Z.eqb_refl. reflexivity.
    - destruct (IH xs' eq_refl N1 f Hin) as [x [Sx Gx]]. exists x. split; [exact Sx|].
      unfold get_field. cbn [find]. rewrite I0.
      destruct (Z.eqb_spec (field_id f0) (field_id f)) as [E|_]; [|exact Gx].
      exfalso. assert (X : existsb (Z.eqb (field_id f0)) (map field_id fs) = true).
      { apply existsb_exists. exists (field_id f). split; [apply in_map; exact Hin | apply Z.eqb_eq; exact E]. }
      rewrite X in N0. discriminate.
  Qed.

  (* the triples the encoder template ORs together carry, for every non-FLOAT field, the bits of p *)
  Lemma enc_vals_exact fs_all xs : spec_fields L LB p fs_all = Ok xs -> ids_nodup (map field_id fs_all) = true ->
    forall fs vs, (forall f, In f fs -> In f fs_all) -> forallb rt_field_ok fs = true ->
    enc_vals LE fs xs = Ok vs ->
    forall f off len, In f fs -> f_bitoff f = Some off -> f_bitlen f = Some len -> exact_field f = true ->
    In (field_bits p off len, off, len) vs.
  Proof.
    intros S N. induction fs as [|f0 fs IH]; intros vs Sub Ok_ E f off len Hin Eo El Ex; [destruct Hin|].
    cbn [forallb] in Ok_. apply andb_true_iff in Ok_. destruct Ok_ as [Ok0 Ok1].
    cbn [enc_vals] in E.
    destruct (f_bitlen f0) as [len0|] eqn:El0; [|discriminate].
    destruct (f_bitoff f0) as [off0|] eqn:Eo0; [|discriminate].
    destruct (ekind_of f0 len0) as [[k|]|] eqn:Ek; try discriminate.
    destruct (get_field_spec fs_all xs S N f0 (Sub f0 (or_introl eq_refl))) as [x0 [S0 G0]].
    rewrite G0 in E.
    destruct (field_value LE k x0) as [v|e|] eqn:FV; cbn [bind] in E; try discriminate.
    destruct (enc_vals LE fs xs) as [r|e|] eqn:Er; cbn [bind] in E; try discriminate.
    inversion E; subst vs; clear E.
    destruct Hin as [<-|Hin].
    - left. rewrite Eo0 in Eo. rewrite El0 in El. inversion Eo; inversion El; subst off0 len0.
      destruct (field_roundtrip L LB LE p f0 off len k x0 Eo0 El0 Ok0 Ex Ek S0) as [_ FV']. rewrite FV' in FV.
      inversion FV. reflexivity.
    - right. apply (IH r (fun g Hg => Sub g (or_intror Hg)) Ok1 eq_refl f off len Hin Eo El Ex).
  Qed.

  (* when no field is a FLOAT field, every field value conversion succeeds *)
  Lemma enc_vals_total fs_all xs : spec_fields L LB p fs_all = Ok xs -> ids_nodup (map field_id fs_all) = true ->
    forall fs steps, (forall f, In f fs -> In f fs_all) -> forallb rt_field_ok fs = true -> forallb exact_field fs = true ->
    esteps_of fs = Some steps ->
    forallb (fun st => match st with EField _ _ _ _ => true | _ => false end) steps = true ->
    exists vs, enc_vals LE fs xs = Ok vs.
  Proof.
    intros S N. induction fs as [|f0 fs IH]; intros steps Sub Ok_ Ex Es A; [exists []; reflexivity|].
    cbn [forallb] in Ok_, Ex. apply andb_true_iff in Ok_. destruct Ok_ as [Ok0 Ok1].
    apply andb_true_iff in Ex. destruct Ex as [Ex0 Ex1].
    cbn [esteps_of] in Es. cbn [enc_vals].
    destruct (f_bitlen f0) as [len0|] eqn:El0; [|inversion Es; subst; discriminate].
    destruct (f_bitoff f0) as [off0|] eqn:Eo0; [|inversion Es; subst; discriminate].
    destruct (ekind_of f0 len0) as [[k|]|] eqn:Ek; [| inversion Es; subst; discriminate | discriminate].
    destruct (esteps_of fs) as [r|] eqn:Er; [|discriminate]. inversion Es; subst steps; clear Es.
    cbn [forallb] in A.
    destruct (get_field_spec fs_all xs S N f0 (Sub f0 (or_introl eq_refl))) as [x0 [S0 G0]].
    rewrite G0.
    destruct (field_roundtrip L LB LE p f0 off0 len0 k x0 Eo0 El0 Ok0 Ex0 Ek S0) as [_ FV]. rewrite FV. cbn [bind].
    destruct (IH r (fun g Hg => Sub g (or_intror Hg)) Ok1 Ex1 eq_refl A) as [vs Evs]. rewrite Evs. cbn [bind].
    eexists. reflexivity.
  Qed.
End RTList.

(* C02 END TO END for one database definition whose translated encoder passes the table check:
   decode (specification) then encode (template = translated code) reproduces the payload's bits in
   every non-FLOAT field; and when the definition has no FLOAT field the encoder does return. *)
Theorem roundtrip_def code_enc LE L LB g d :
  edef_ok code_enc g d = true -> encodable d = true -> layout_ok d = true -> rt_def_ok d = true ->
  exists ce, find_fname (fname_of g d) code_enc = Some ce /\
    forall p m, spec_decode L LB p d = Ok m ->
      (forall x, run_esteps LE 0 (e_steps ce) (m_fields m) = Ok x ->
         forall f off len, In f (d_fields d) -> f_bitoff f = Some off -> f_bitlen f = Some len ->
           exact_field f = true -> decode_int x off len = field_bits p off len) /\
      (no_float d = true -> exists x, run_esteps LE 0 (e_steps ce) (m_fields m) = Ok x).
Proof.
  intros H En Lo Rt.
  destruct (edef_ok_sound code_enc LE g d H En Lo) as [ce [Fc [_ Rd]]].
  exists ce. split; [exact Fc|]. intros p m S.
  unfold spec_decode in S.
  destruct (spec_fields L LB p (d_fields d)) as [xs|e|] eqn:Sf; cbn [bind] in S; try discriminate.
  inversion S; subst m; clear S. cbn [m_fields].
  unfold rt_def_ok in Rt. apply andb_true_iff in Rt. destruct Rt as [Rf Rn].
  split.
  - intros x R f off len Hin Eo El Ex.
    destruct (Rd xs x R) as [vs [Ev [_ Hrd]]].
    pose proof (enc_vals_exact L LB LE p (d_fields d) xs Sf Rn (d_fields d) vs (fun (f0 : dbfield) (h : In f0 (d_fields d)) => h) Rf Ev f off len Hin Eo El Ex) as I.
    rewrite (Hrd _ _ _ I). apply Z.mod_small.
    rewrite forallb_forall in Rf. specialize (Rf f Hin). unfold rt_field_ok in Rf. rewrite Eo, El in Rf.
    apply andb_true_iff in Rf. destruct Rf as [Rf _]. apply andb_true_iff in Rf. destruct Rf as [_ Hl]. apply Z.leb_le in Hl.
    apply field_bits_range. lia.
  - intros Nf.
    (* the steps of ce are the template's steps *)
    unfold edef_ok, edef_of_db in H. rewrite Fc in H.
    unfold encodable in En.
    destruct (esteps_of (d_fields d)) as [steps|] eqn:Es; [|discriminate].
    apply edef_eqb_eq in H. subst ce. cbn [e_steps].
    destruct (enc_vals_total L LB LE p (d_fields d) xs Sf Rn (d_fields d) steps (fun (f0 : dbfield) (h : In f0 (d_fields d)) => h) Rf Nf Es En) as [vs Ev].
    unfold layout_ok in Lo.
    apply andb_true_iff in Lo. destruct Lo as [Lo _]. apply andb_true_iff in Lo. destruct Lo as [_ L1].
    assert (W : forallb (fun f => match f_bitlen f with Some l => 0 <=? l | None => false end) (d_fields d) = true).
    { apply forallb_forall. intros f Hf. rewrite forallb_forall in L1. specialize (L1 f Hf).
      destruct (f_bitlen f); [|discriminate]. apply Z.leb_le in L1. apply Z.leb_le. lia. }
    rewrite (run_esteps_vals LE (d_fields d) steps xs 0 Es En W). rewrite Ev. cbn [bind]. eexists. reflexivity.
Qed.
