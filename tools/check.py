#!/venv/bin/python
"""check.py <id> --tier quick|thorough [--replay path]   (DESIGN §3.4)

Exit 0: the property held on everything explored (KNOWN-FINDING lines allowed).
Exit 1: a line `VIOLATION property=<id> replay=<path>` was printed.
"""
from __future__ import annotations
import argparse
import contextlib
import importlib
import io
import json
import os
import random
import sys
import time
import traceback

sys.path.insert(0, os.path.dirname(os.path.abspath(__file__)))
import vlib  # noqa: E402


class Ctx:
    def __init__(self, prop, tier, seed):
        self.prop, self.tier, self.seed = prop, tier, seed
        self.rng = random.Random(f"{prop}:{seed}")
        self.thorough = tier == "thorough"
        self.notes: list[str] = []
        self.extra_obligations: list[dict] = []   # generated obligations (name, ok, detail)
        self.hints: list[dict] = []               # what broke, for the witness search

    def n(self, quick: int, thorough: int) -> int:
        return thorough if self.thorough else quick


def main() -> int:
    ap = argparse.ArgumentParser()
    ap.add_argument("prop")
    ap.add_argument("--tier", default=os.environ.get("VERIF_TIER", "quick"), choices=["quick", "thorough"])
    ap.add_argument("--replay")
    a = ap.parse_args()
    prop = a.prop.upper()
    seed = int(os.environ.get("VERIF_SEED", "0"))
    t0 = time.time()
    vlib.use_repo()
    mod = importlib.import_module(f"props.{prop.lower()}")
    ctx = Ctx(prop, a.tier, seed)

    if a.replay:
        data = json.load(open(a.replay))
        still = mod.replay(ctx, data)
        print(("REPLAY: still fails" if still else "REPLAY: does not fail") + f" property={prop} file={a.replay}")
        return 1 if still else 0

    obligations: list[dict] = []
    axioms: set[str] = set()
    broken: list[str] = []

    ok, tail = vlib.ensure_static_build()
    if not ok:
        obligations.append({"name": "static Coq build (make)", "ok": False, "detail": tail[-1500:]})
        broken.append("static Coq build")
    for rel in getattr(mod, "PROPS_FILES", []):
        if not ok:
            break
        r = vlib.check_props_file(rel)
        for nm in r["theorems"]:
            obligations.append({"name": f"{rel}:{nm}", "ok": r["ok"]})
        axioms.update(r["axioms"])
        if not r["ok"]:
            broken.append(f"theorem file {rel} no longer checks: {r['output_tail'][-600:]}")
            ctx.hints.append({"kind": "props", "file": rel})

    corr_reports: list[dict] = []
    try:
        if ok and hasattr(mod, "gen"):
            mod.gen(ctx)
        for ob in ctx.extra_obligations:
            obligations.append(ob)
            if not ob["ok"]:
                broken.append(f"generated obligation {ob['name']} no longer checks: {str(ob.get('detail',''))[:600]}")
        if ok:
            corr_reports = mod.correspond(ctx) or []
    except Exception:
        tb = traceback.format_exc()
        broken.append("harness exception: " + tb[-1500:])
        ctx.hints.append({"kind": "exception", "text": tb[-1500:]})
    for rep in corr_reports:
        if rep.get("failing") or rep.get("errors"):
            broken.append(f"correspondence {rep['name']}: {len(rep.get('failing', []))} disagreement(s), "
                          f"{len(rep.get('errors', []))} error(s)")
            ctx.hints.append({"kind": "corr", "name": rep["name"], "cases": rep.get("failing_cases", [])[:20],
                              "errors": rep.get("errors", [])[:3]})

    # witness search: on any break, and always in the thorough tier
    witnesses: list[dict] = []
    if broken or ctx.thorough or getattr(mod, "ALWAYS_SEARCH", False):
        try:
            witnesses = mod.search(ctx) or []
        except Exception:
            tb = traceback.format_exc()
            broken.append("witness search exception: " + tb[-1500:])

    # known findings (committed file, never written here)
    kf = [f for f in vlib.known_findings() if f["property"] == prop]
    known_keys = set()
    for f in kf:
        if f.get("status") != "known":
            continue
        try:
            still = mod.replay(ctx, f["witness"])
        except Exception:
            still = True
        if still:
            known_keys.add(f["key"])
            print(f"KNOWN-FINDING: property={prop} {f['what']}")
    # fixed findings suppress nothing: their witnesses are a regression corpus, replayed on every run;
    # one that fails again is an ordinary violation
    n_fixed = n_fixed_err = 0
    witness_keys = {w.get("key") for w in witnesses}
    for f in kf:
        if f.get("status") != "fixed" or not f.get("witness"):
            continue
        n_fixed += 1
        try:
            with contextlib.redirect_stdout(io.StringIO()):
                again = mod.replay(ctx, f["witness"])
        except Exception:
            n_fixed_err += 1
            ctx.notes.append(f"replay of fixed finding {f['key']} raised: " + traceback.format_exc()[-300:])
            continue
        if again and f["key"] not in witness_keys:
            w = dict(f["witness"]) if isinstance(f["witness"], dict) else {"witness": f["witness"]}
            w["key"] = f["key"]
            w["what"] = "REGRESSION of a repaired defect: " + f["what"]
            witnesses.append(w)
            witness_keys.add(f["key"])
    # regression corpus (committed under corpus/<prop>/, never written here): minimised inputs on which earlier changes of the
    # implementation broke the property. They hold on the unchanged tree; one that fails is an ordinary violation.
    n_corpus = n_corpus_err = 0
    cdir = os.path.join(vlib.VERIF, "corpus", prop)
    if os.path.isdir(cdir):
        for fn in sorted(os.listdir(cdir)):
            if not fn.endswith(".json"):
                continue
            try:
                data = json.load(open(os.path.join(cdir, fn)))
            except Exception:
                continue
            wit = data.get("witness", data)
            if not isinstance(wit, dict) or (wit.get("key") in witness_keys):
                continue
            n_corpus += 1
            try:
                with contextlib.redirect_stdout(io.StringIO()):
                    again = mod.replay(ctx, data)
            except Exception:
                n_corpus_err += 1
                ctx.notes.append(f"replay of corpus input {fn} raised: " + traceback.format_exc()[-300:])
                continue
            if again:
                w = dict(wit)
                w["what"] = f"corpus input {fn}: " + str(wit.get("what", ""))
                witnesses.append(w)
                witness_keys.add(w.get("key"))
    new_w = [w for w in witnesses if w.get("key") not in known_keys]

    rc = 0
    nviol = 0
    seen_keys = set()
    for w in new_w:
        k = w.get("key")
        if k in seen_keys:
            continue
        seen_keys.add(k)
        path = vlib.write_replay(prop, {"property": prop, "witness": w, "broken": broken, "tier": a.tier, "seed": seed})
        print(f"VIOLATION property={prop} replay={path}")
        print(f"  {w.get('what','')}")
        nviol += 1
        rc = 1
    if broken and not new_w:
        # a broken obligation/correspondence fully explained by a listed finding is not re-reported
        explained = all(h.get("explained_by") in known_keys for h in ctx.hints) and ctx.hints and known_keys
        if not explained:
            path = vlib.write_replay(prop, {"property": prop, "no_failing_input_found": True,
                                            "no_longer_checks": broken, "hints": ctx.hints,
                                            "tier": a.tier, "seed": seed})
            print(f"VIOLATION property={prop} replay={path} no-failing-input-found")
            for b in broken:
                print("  " + b[:800].replace("\n", "\n  "))
            nviol += 1
            rc = 1

    # evidence
    evaluations = sum(r.get("n", 0) for r in corr_reports)
    distinct = sum(r.get("distinct_nontrivial", 0) for r in corr_reports)
    samples = []
    for r in corr_reports:
        samples.extend(r.get("samples", [])[:3])
    samples.extend({"obligation": o["name"]} for o in obligations[:3])
    ev = {
        "property_id": prop, "tier": a.tier, "seed": seed, "level": "proof",
        "coverage": {
            "obligations": len(obligations),
            "discharged": sum(1 for o in obligations if o["ok"]),
            "obligation_names": [o["name"] for o in obligations],
            "checker_cmd": "coqc -Q /verif/coq/theories NV (Coq 8.16.1 kernel incl. vm_compute); "
                           "full .vo build by `make` in /verif/coq; per run: " +
                           ", ".join(getattr(mod, "PROPS_FILES", [])) + " recompiled with Print Assumptions, "
                           "generated tables/obligations and cases_*.v recompiled from /repo's working tree",
            "trusted_base": list(getattr(mod, "TRUSTED", [])) + [
                "Coq 8.16.1 kernel and its vm_compute evaluator (no native_compute)",
                "axioms reported by Print Assumptions: " + (", ".join(sorted(axioms)) if axioms else
                                                           "none (closed under the global context)"),
                "correspondence harness tools/props/%s.py and tools/vlib.py (sampling; seeded)" % prop.lower()],
            "evaluations": evaluations,
            "distinct_nontrivial": distinct,
            "rule": getattr(mod, "RULE", ""),
            "samples": samples[:12],
            "correspondences": [{k: v for k, v in r.items() if k not in ("failing_cases", "samples")}
                                for r in corr_reports],
            "witness_search": {"ran": bool(broken or ctx.thorough or getattr(mod, "ALWAYS_SEARCH", False)),
                               "witnesses": len(witnesses), "known": sorted(known_keys),
                               "fixed_findings_replayed": n_fixed, "fixed_replay_errors": n_fixed_err,
                               "corpus_inputs_replayed": n_corpus, "corpus_replay_errors": n_corpus_err},
            "notes": ctx.notes,
        },
        "assumptions": list(getattr(mod, "ASSUMPTIONS", [])),
        "wall_s": round(time.time() - t0, 2),
        "violations": nviol,
    }
    os.makedirs(os.path.join(vlib.OUT, "evidence"), exist_ok=True)
    with open(os.path.join(vlib.OUT, "evidence", f"{prop}.json"), "w") as fh:
        json.dump(ev, fh, indent=1, default=str)
    print(f"{prop} {a.tier}: obligations {ev['coverage']['discharged']}/{len(obligations)}, "
          f"correspondence cases {evaluations}, violations {nviol}, {ev['wall_s']} s")
    return rc


if __name__ == "__main__":
    sys.exit(main())
