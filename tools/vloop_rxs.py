"""vloop_rxs.py — virtual-time event loop, fake transports and session runners for the
receive side (C12) and the send side (C19) of nmea2000.ioclient (DESIGN §3.3, Appendix E).

Two roles:
  * worker  (`/venv/bin/python vloop_rxs.py` with PYTHONPATH=<repo>): reads a JSON list of
    session specs from stdin, runs every session on a fresh VirtualLoop with the REAL client
    class, a REAL asyncio.StreamReader and a scripted fake writer; prints one JSON line per
    session (flushed), so that the parent knows which session hung if the watchdog fires;
  * parent  (`run_jobs`): splits a job list over <= 3 worker subprocesses, each under a
    wall-clock watchdog; a session that does not come back is reported as {"hang": true}.

Nothing of /repo is edited: `asyncio.open_connection` and
`serial_asyncio.open_serial_connection` are replaced in the worker process, and methods of
the client / its decoder are wrapped from outside to produce the event log.
"""
from __future__ import annotations
import asyncio
import json
import os
import selectors
import signal
import subprocess
import sys
import time

HERE = os.path.dirname(os.path.abspath(__file__))


# ------------------------------------------------------------------ virtual loop (Appendix E)
class _NoBlockSelector(selectors.BaseSelector):
    """Selector with no real fds: 'waiting' advances the owning loop's virtual clock."""

    def __init__(self):
        self.loop = None
        self._map = {}

    def register(self, fileobj, events, data=None):
        key = selectors.SelectorKey(fileobj, fileobj if isinstance(fileobj, int) else fileobj.fileno(), events, data)
        self._map[key.fd] = key
        return key

    def unregister(self, fileobj):
        fd = fileobj if isinstance(fileobj, int) else fileobj.fileno()
        return self._map.pop(fd)

    def select(self, timeout=None):
        if timeout is None:
            raise RuntimeError("virtual loop would block forever (deadlock): no ready handles and no timers")
        if timeout > 0:
            self.loop._vt += timeout
        return []

    def get_map(self):
        return self._map

    def close(self):
        pass


class VirtualLoop(asyncio.SelectorEventLoop):
    def __init__(self):
        sel = _NoBlockSelector()
        super().__init__(sel)
        sel.loop = self
        self._vt = 0.0

    def time(self):
        return self._vt


class SessionTimeout(BaseException):
    pass


# ------------------------------------------------------------------ fake transports
class FakeWriter:
    """Scripted stand-in for asyncio.StreamWriter. Every write made from a task named
    'send<i>' consumes one entry of the session's write script."""

    def __init__(self, sess, wid):
        self.sess, self.wid = sess, wid
        self.closed = False
        self._last = None      # script entry of the last write by the current task
        self._lastname = None

    def write(self, data):
        s = self.sess
        name = _tname()
        if name == "probe":
            # the probe sent after the session proper: a writer the client has closed drops what is written to it
            if self.closed:
                s.probe_dropped += 1
            else:
                s.probelog.append((self.wid, bytes(data)))
            return
        if not name.startswith("send") or name in s.cb_send_tasks:
            # not one of the session's senders (configuration packet, or a message a callback sends while it runs on a
            # sender's task): logged apart, never scripted to fail
            s.ev(["cfg", self.wid, bytes(data).hex()])
            self._last, self._lastname = {"w": "ok", "d": "ret"}, name
            return
        i = int(name[4:])
        k = s.nwrites
        s.nwrites += 1
        ent = s.wscript[k] if k < len(s.wscript) else {"w": "ok", "d": "ret"}
        s.pending_drain[name] = ent
        if ent.get("w") == "raise":
            s.ev(["wraise", i, self.wid])
            raise ConnectionResetError("scripted write failure")
        s.ev(["w", i, self.wid, bytes(data).hex()])
        s.bytelog.append((self.wid, i, bytes(data)))

    async def drain(self):
        s = self.sess
        name = _tname()
        if name == "probe" and self.closed:
            raise ConnectionResetError("Connection lost")      # what StreamWriter.drain() does on a closing transport
        if not name.startswith("send") or name in s.cb_send_tasks:
            return
        i = int(name[4:])
        ent = s.pending_drain.pop(name, {"d": "ret"})
        d = ent.get("d", "ret")
        if d == "ret":
            s.ev(["d", i, "ret"])
            return
        if d == "raise":
            s.ev(["d", i, "raise"])
            raise ConnectionResetError("scripted drain failure")
        s.ev(["d", i, "susp"])
        n = int(ent.get("n", 1))
        if n >= 100:
            await asyncio.sleep(n / 1000.0)
        else:
            for _ in range(max(1, n)):
                await asyncio.sleep(0)
        if d == "susp_raise":
            s.ev(["dres", i, "raise"])
            raise ConnectionResetError("scripted drain failure after suspension")
        s.ev(["dres", i, "ok"])

    def close(self):
        self.closed = True
        self.sess.ev(["wclose", self.wid])

    def is_closing(self):
        return self.closed

    async def wait_closed(self):
        return

    def get_extra_info(self, key, default=None):
        return default


class _OddError(Exception):
    """an application exception with no arguments and an unhelpful text"""
    def __str__(self):
        return ""


def _cb_exc(n: int) -> Exception:
    """callback failures of different shapes (no arguments, several arguments, OSError with errno, subclass ...):
    whatever the callback raises must be harmless to the client"""
    kinds = [lambda: RuntimeError("scripted callback failure"), lambda: ValueError(), lambda: TimeoutError(),
             lambda: AssertionError(), lambda: KeyError("k"), lambda: OSError(5, "scripted"), lambda: _OddError(),
             lambda: IndexError(), lambda: ZeroDivisionError("division by zero", 1, 2)]
    return kinds[n % len(kinds)]()


def _tname():
    t = asyncio.current_task()
    return t.get_name() if t is not None else "?"


class Session:
    def __init__(self, spec):
        self.spec = spec
        self.events = []
        self.nwrites = 0
        self.wscript = spec.get("wscript", [])
        self.pending_drain = {}
        self.bytelog = []
        self.probelog = []
        self.cb_send_tasks = set()
        self.probe_dropped = 0
        self.readers = []
        self.writers = []
        self.refuse = int(spec.get("refuse", 0))
        self.nopen = 0
        self.alarmed = []

    def ev(self, e):
        self.events.append(e)
        if len(self.events) > 250000:      # a client spinning without yielding: stop it, report a hang
            self.alarmed.append("events")
            del self.events[:-200]
            raise SessionTimeout()

    async def open(self, *a, limit=None, **kw):
        self.nopen += 1
        if self.nopen > 1 and self.refuse > 0:
            self.refuse -= 1
            self.ev(["refused"])
            raise ConnectionRefusedError("scripted refusal")
        lim = self.spec.get("limit") or limit          # the session's own limit, else the one the client asked for
        r = asyncio.StreamReader(limit=lim) if lim else asyncio.StreamReader()
        w = FakeWriter(self, len(self.writers))
        self.readers.append(r)
        self.writers.append(w)
        self.ev(["opened", w.wid])
        return r, w


def _install(sess):
    import serial_asyncio

    async def fake_open_connection(host=None, port=None, **kw):
        return await sess.open(limit=kw.get("limit"))

    async def fake_open_serial(*a, **kw):
        return await sess.open()

    asyncio.open_connection = fake_open_connection
    serial_asyncio.open_serial_connection = fake_open_serial


def _make_client(kind, opts):
    from nmea2000 import ioclient
    kw = {}
    for k in ("exclude_pgns", "include_pgns"):
        if opts.get(k):
            kw[k] = opts[k]
    if kind == "ebyte":
        return ioclient.EByteNmea2000Gateway("h", 1, **kw)
    if kind == "actisense":
        return ioclient.ActisenseNmea2000Gateway("h", 1, **kw)
    if kind == "yd":
        return ioclient.YachtDevicesNmea2000Gateway("h", 1, **kw)
    if kind == "waveshare":
        return ioclient.WaveShareNmea2000Gateway("/dev/null", **kw)
    raise ValueError(kind)


DECODE_FN = {"ebyte": "decode_tcp", "actisense": "decode_actisense_string", "yd": "decode_yacht_devices_string",
             "waveshare": "decode_usb"}


def canon_msg(m):
    """Everything of a message the property compares (no time-stamp, no object identity)."""
    return [m.PGN, m.id, m.source, m.destination, m.priority,
            [[f.id, repr(f.value), repr(f.raw_value)] for f in m.fields]]


# ------------------------------------------------------------------ receive session (C12)
async def _rx_session(spec, sess):
    kind = spec["kind"]
    _install(sess)
    client = _make_client(kind, spec.get("opts", {}))
    produced = []          # messages returned by the client's own decoder, by decode-call order
    ident = {}

    fn = DECODE_FN[kind]
    real = getattr(client.decoder, fn)

    def wrapped(pkt):
        arg = pkt if isinstance(pkt, str) else bytes(pkt).hex()
        try:
            m = real(pkt)
        except Exception as e:  # noqa: BLE001
            sess.ev(["pkt", arg, -2, type(e).__name__])
            raise
        if m is None:
            sess.ev(["pkt", arg, -1])
        else:
            ident[id(m)] = len(produced)
            produced.append(m)
            sess.ev(["pkt", arg, len(produced) - 1])
        return m

    setattr(client.decoder, fn, wrapped)
    real_rx = client._receive_impl

    async def rx_wrapped():
        try:
            await real_rx()
        except asyncio.CancelledError:
            sess.ev(["rxi", "cancel"])
            raise
        except Exception as e:  # noqa: BLE001
            sess.ev(["rxi", "exc", type(e).__name__])
            raise
        sess.ev(["rxi", "ok"])

    client._receive_impl = rx_wrapped

    cb = spec.get("cb", {})
    ncb = [0]

    async def on_msg(m):
        ncb[0] += 1
        n = ncb[0]
        idx = ident.get(id(m), -1)
        if idx >= 0 and produced[idx] is not m:
            idx = -1
        sess.ev(["cbs", idx])
        try:
            if cb.get("sleep_every") and n % cb["sleep_every"] == 0:
                sess.ev(["cbsusp", idx])
                await asyncio.sleep(cb.get("sleep_s", 0.25))
            if cb.get("yield_every") and n % cb["yield_every"] == 0:
                sess.ev(["cbsusp", idx])
                await asyncio.sleep(0)
            if cb.get("send_every") and n % cb["send_every"] == 0:
                # an application that answers what it receives: a valid message sent from inside the receive callback
                await client.send(load_msg({"basic": POOL_BASIC[1]}))
            if cb.get("raise_every") and n % cb["raise_every"] == 0:
                raise _cb_exc(n)
        except BaseException as e:
            sess.ev(["cbe", idx, "raise" if isinstance(e, Exception) else "cancel"])
            raise
        sess.ev(["cbe", idx, "ret"])

    async def on_status(s):
        sess.ev(["status", s.name])

    if not spec.get("no_callback"):
        client.set_receive_callback(on_msg)
    client.set_status_callback(on_status)
    await client.connect()
    reader = sess.readers[-1]
    chunks = [bytes.fromhex(c) for c in spec["chunks"]]
    gaps = spec.get("gaps") or [1] * len(chunks)
    for k, c in enumerate(chunks):
        if reader is not sess.readers[-1]:
            break                      # the client reconnected (banner / fault): stop feeding the old link
        sess.ev(["feed", k])
        reader.feed_data(c)
        g = gaps[k] if k < len(gaps) else 1
        if g == 1:
            await asyncio.sleep(0)
        elif g == 2:
            for _ in range(3):
                await asyncio.sleep(0)
        elif g == 3:
            await asyncio.sleep(0.05)
    if spec.get("eof"):
        sess.ev(["eof"])
        reader.feed_eof()
    await asyncio.sleep(float(spec.get("settle", 2000.0)))
    final = {
        "queue_empty": client.queue.empty(),
        "rx_blocked": reader._waiter is not None,
        "reader_left": len(reader._buffer),
        "state": client.state.name,
        "nopen": sess.nopen,
        "rx_done": client._receive_task.done() if client._receive_task else None,
        "consumer_done": client._process_queue_task.done(),
        "ncb": ncb[0],
    }
    await client.close()
    return {"events": sess.events, "msgs": [canon_msg(m) for m in produced], "final": final}


def load_msg(s):
    """A send's message: {"msg": <NMEA2000Message JSON>} or, compactly, {"basic": <basic-format string>}."""
    from nmea2000.message import NMEA2000Message
    if "basic" in s:
        from nmea2000.decoder import NMEA2000Decoder
        return NMEA2000Decoder().decode_basic_string(s["basic"], True)
    return NMEA2000Message.from_json(s["msg"])


# ------------------------------------------------------------------ send session (C19)
async def _tx_session(spec, sess):
    from nmea2000.message import NMEA2000Message
    kind = spec["kind"]
    _install(sess)
    client = _make_client(kind, spec.get("opts", {}))
    real_enc = client._encode_impl

    def enc_wrapped(m):
        name = _tname()
        i = int(name[4:]) if name.startswith("send") and name not in sess.cb_send_tasks else -1
        try:
            r = real_enc(m)
        except ValueError as e:
            sess.ev(["enc", i, "ValueError", type(e).__name__])
            raise
        except Exception as e:  # noqa: BLE001
            sess.ev(["enc", i, "other", type(e).__name__])
            raise
        sess.ev(["enc", i, "ok", [bytes(p).hex() for p in r]])
        return r

    client._encode_impl = enc_wrapped
    real_connect = client.connect
    nconn = [0]

    def connect_wrapped():
        # a plain function: runs when `self.connect()` is evaluated, i.e. in the task that CREATES the connect
        # task (a send() fault handler, or connect() itself re-arming after a fault reported while it was
        # finishing — fix ec78efa), so the creator is known
        nconn[0] += 1
        sess.ev(["connect_call", _tname()])
        return real_connect()

    client.connect = connect_wrapped
    real_send = client.send
    scb = spec.get("status_cb", "ret")

    nst = [0]

    async def on_status(s):
        sess.ev(["status", s.name, _tname()])
        if scb == "sleep":
            await asyncio.sleep(0.3)
        elif scb == "yield":
            await asyncio.sleep(0)
        elif scb == "raise":
            nst[0] += 1
            raise _cb_exc(nst[0])
        elif scb == "sends" and s.name == "DISCONNECTED" and not nst[0]:
            # an application that reacts to the loss by sending: that send() must come back (it fails or succeeds, the
            # library decides) — a callback is awaited by the library, so a send() that waits for ITS caller never returns
            nst[0] = 1
            sess.cb_send_tasks.add(_tname())
            try:
                await asyncio.wait_for(real_send(load_msg({"basic": POOL_BASIC[1]})), 30.0)
            except asyncio.TimeoutError:
                sess.ev(["callback_send_stuck"])
            except Exception:  # noqa: BLE001
                pass
            finally:
                sess.cb_send_tasks.discard(_tname())
        sess.ev(["status_done", s.name, _tname()])

    if scb != "none":
        client.set_status_callback(on_status)
    if not spec.get("no_connect"):
        await client.connect()
    sess.ev(["begin"])
    tasks = []
    for i, s in enumerate(spec["sends"]):
        m = load_msg(s)

        async def one(i=i, m=m):
            try:
                await client.send(m)
            except BaseException as e:  # noqa: BLE001
                sess.ev(["send_exc", i, type(e).__name__])
                if not isinstance(e, Exception):
                    raise
            else:
                sess.ev(["done", i])

        tasks.append(asyncio.create_task(one(), name=f"send{i}"))
        if s.get("cancel_after") is not None:
            # the application gives up on this send() (a wait_for timeout, a task group being torn down): cancelled after
            # `cancel_after` loop turns, wherever it is suspended then
            async def canceller(t=tasks[-1], n=int(s["cancel_after"]), i=i):
                for _ in range(n):
                    await asyncio.sleep(0)
                if not t.done():
                    sess.ev(["cancel", i])
                    t.cancel()
            asyncio.create_task(canceller(), name="harness-cancel")
        d = int(s.get("delay", 0))
        if d >= 100:
            await asyncio.sleep(d / 1000.0)
        else:
            for _ in range(d):
                await asyncio.sleep(0)
    if spec.get("close_after") is not None:
        for _ in range(int(spec["close_after"])):
            await asyncio.sleep(0)
        sess.ev(["close"])
        await client.close()
    await asyncio.sleep(float(spec.get("settle", 200.0)))
    final = {
        "state": client.state.name,
        "nconnect": nconn[0],
        "nopen": sess.nopen,
        "writer": sess.writers.index(client.writer) if client.writer in sess.writers else None,
        "sends_done": [t.done() for t in tasks],
        "rx_alive": bool(client._receive_task and not client._receive_task.done()),
        "consumer_alive": not client._process_queue_task.done(),
        # writes whose failure the transport would have reported through drain() - and nobody asked
        "undrained_faults": [[n_, e_.get("d")] for n_, e_ in sess.pending_drain.items() if e_.get("d") in ("raise", "susp_raise")],
    }
    sess.ev(["end"])
    if spec.get("probe") and spec.get("close_after") is None:
        # afterwards: one more valid message on whatever connection the client says it has
        pm = load_msg(spec["probe"])
        before = {"state": client.state.name, "nopen": sess.nopen, "nev": len(sess.events),
                  "writer": sess.writers.index(client.writer) if client.writer in sess.writers else None,
                  "writer_closed": bool(getattr(client.writer, "closed", False))}
        encoded = []

        def enc_probe(m):
            r = real_enc(m)
            encoded.append([bytes(p).hex() for p in r])
            return r

        client._encode_impl = enc_probe
        t = asyncio.create_task(client.send(pm), name="probe")
        exc = None
        try:
            await t
        except Exception as e:  # noqa: BLE001
            exc = type(e).__name__
        await asyncio.sleep(50.0)
        final["probe"] = {"before": before, "encoded": encoded[0] if encoded else None, "exc": exc,
                          "written": [[w, b.hex()] for w, b in sess.probelog], "dropped": sess.probe_dropped,
                          "state_after": client.state.name, "nopen_after": sess.nopen,
                          "status_after": [e[1] for e in sess.events[before["nev"]:] if e[0] == "status"]}
    await client.close()
    return {"events": sess.events, "bytelog": [[w, i, b.hex()] for (w, i, b) in sess.bytelog], "final": final}


# ------------------------------------------------------------------ plain StreamReader op sequences (C12 corr a)
async def _reader_session(spec, sess):
    """ops: ["feed", hex] | ["eof"] | ["readexactly", n] | ["readline"] | ["read", n].
    A read that would suspend is observed as 'wait' (the coroutine is started as a task, given
    a few loop turns, found pending, cancelled; the reader is left untouched by that)."""
    lim = spec.get("limit")
    r = asyncio.StreamReader(limit=lim) if lim else asyncio.StreamReader()
    out = []
    for op in spec["ops"]:
        if op[0] == "feed":
            try:
                r.feed_data(bytes.fromhex(op[1]))
                out.append(["ok"])
            except AssertionError:
                out.append(["assert"])
        elif op[0] == "eof":
            r.feed_eof()
            out.append(["ok"])
        else:
            if op[0] == "readexactly":
                co = r.readexactly(op[1])
            elif op[0] == "readline":
                co = r.readline()
            else:
                co = r.read(op[1])
            t = asyncio.ensure_future(co)
            for _ in range(3):
                await asyncio.sleep(0)
            if not t.done():
                t.cancel()
                try:
                    await t
                except BaseException:  # noqa: BLE001
                    pass
                out.append(["wait"])
            else:
                e = t.exception()
                if e is None:
                    out.append(["data", t.result().hex()])
                elif isinstance(e, asyncio.IncompleteReadError):
                    out.append(["incomplete", bytes(e.partial).hex()])
                elif isinstance(e, ValueError):
                    out.append(["limit"])
                else:
                    out.append(["exc", type(e).__name__])
        out[-1].append(bytes(r._buffer).hex() if spec.get("with_buffer") else len(r._buffer))
    return {"out": out}


RUNNERS = {"rx": _rx_session, "tx": _tx_session, "reader": _reader_session}


def run_session(spec, wall_s=12):
    """Run one session on a fresh virtual loop (worker process only)."""
    sess = Session(spec)
    loop = VirtualLoop()
    asyncio.set_event_loop(loop)

    alarmed = sess.alarmed

    def on_alarm(signum, frame):
        # raised inside whatever is running: a task that spins without yielding dies with it, the
        # session may then even complete; the flag makes sure it is still reported as a hang
        alarmed.append(True)
        raise SessionTimeout()

    signal.signal(signal.SIGALRM, on_alarm)
    signal.alarm(int(wall_s))
    res = None
    try:
        res = loop.run_until_complete(RUNNERS[spec["mode"]](spec, sess))
    except SessionTimeout:
        res = {"hang": True, "events": sess.events[-200:], "nevents": len(sess.events),
               "bytelog": [[w, i, b.hex()] for (w, i, b) in sess.bytelog]}
    except Exception as e:  # noqa: BLE001
        import traceback
        res = {"error": repr(e), "tb": traceback.format_exc()[-1500:], "events": sess.events[-200:]}
    finally:
        signal.alarm(0)
        if alarmed and not (isinstance(res, dict) and res.get("hang")):
            res = {"hang": True, "events": sess.events[-200:], "nevents": len(sess.events),
                   "bytelog": [[w, i, b.hex()] for (w, i, b) in sess.bytelog]}
        try:
            for t in asyncio.all_tasks(loop):
                t.cancel()
            loop.run_until_complete(asyncio.sleep(0))
        except BaseException:  # noqa: BLE001
            pass
        try:
            loop.close()
        except BaseException:  # noqa: BLE001
            pass
    return res


def worker_main():
    import logging
    logging.disable(logging.CRITICAL)
    sys.dont_write_bytecode = True
    jobs = json.load(sys.stdin)
    for k, spec in enumerate(jobs):
        res = run_session(spec, wall_s=spec.get("wall_s", 12))
        sys.stdout.write(json.dumps({"k": k, "res": res}) + "\n")
        sys.stdout.flush()


# ------------------------------------------------------------------ parent side
def _run_batch(jobs, repo, timeout):
    env = dict(os.environ)
    env["PYTHONPATH"] = repo
    env["PYTHONHASHSEED"] = "0"
    env["PYTHONDONTWRITEBYTECODE"] = "1"
    env["NMEA2000_VERIF"] = "1"
    p = subprocess.Popen(["/venv/bin/python", os.path.join(HERE, "vloop_rxs.py")], stdin=subprocess.PIPE,
                         stdout=subprocess.PIPE, stderr=subprocess.PIPE, env=env, text=True)
    try:
        out, err = p.communicate(json.dumps(jobs), timeout=timeout)
    except subprocess.TimeoutExpired:
        p.kill()
        out, err = p.communicate()
    res = [None] * len(jobs)
    for line in out.splitlines():
        try:
            d = json.loads(line)
            res[d["k"]] = d["res"]
        except Exception:  # noqa: BLE001
            pass
    for k in range(len(res)):
        if res[k] is None:
            res[k] = {"hang": True, "watchdog": True, "stderr": (err or "")[-500:]}
    return res


def run_jobs(jobs, repo=None, nproc=3, per_job_s=12):
    """Run the session specs in <= nproc worker subprocesses, each under a wall-clock watchdog."""
    from concurrent.futures import ThreadPoolExecutor
    if repo is None:
        repo = os.environ.get("NMEA2000_REPO", "/repo")
    if not jobs:
        return []
    n = max(1, min(nproc, len(jobs)))
    parts = [list(range(i, len(jobs), n)) for i in range(n)]
    results = [None] * len(jobs)

    def one(idx):
        sub = [jobs[i] for i in idx]
        # watchdog: generous per batch, but bounded; the in-worker SIGALRM catches single hung sessions
        r = _run_batch(sub, repo, timeout=30 + per_job_s + 0.5 * len(sub))
        return idx, r

    t0 = time.time()
    with ThreadPoolExecutor(max_workers=n) as ex:
        for idx, r in ex.map(one, parts):
            for i, x in zip(idx, r):
                results[i] = x
    _ = t0
    return results


# ------------------------------------------------------------------ message pool and wire formats (parent side)
POOL_BASIC = [
    "2020-01-01-00:00:00.000,6,59904,1,255,3,00,ee,00",
    "2020-01-01-00:00:00.000,2,127250,1,255,8,01,10,27,ff,7f,ff,7f,fd",
    "2020-01-01-00:00:00.000,2,130306,1,255,8,01,10,27,ff,7f,fa,ff,ff",
    "2020-01-01-00:00:00.000,2,129025,1,255,8,01,10,27,0f,7f,fa,0f,0f",
    "2020-01-01-00:00:00.000,2,129026,1,255,8,01,fc,27,0f,7f,0a,ff,ff",
    "2020-01-01-00:00:00.000,2,128267,1,255,8,01,10,27,00,00,fa,0f,0f",
    "2020-01-01-00:00:00.000,6,126992,1,255,8,01,f0,10,47,00,a3,b2,1c",
    "2020-01-01-00:00:00.000,5,130312,1,255,8,01,01,01,10,75,ff,ff,ff",
    "2020-01-01-00:00:00.000,5,127257,1,255,8,01,10,27,10,07,10,03,ff",
    "2020-01-01-00:00:00.000,5,127245,1,255,8,01,f8,10,07,10,03,ff,ff",
    "2020-01-01-00:00:00.000,3,129029,7,255,43,01,10,47,00,a3,b2,1c,00,00,00,c0,5d,a1,13,05,00,00,00,40,9c,24,0b,01,00,"
    "40,42,0f,00,00,00,00,13,fc,08,64,00,c8,00,10,27,00,00,00",
    "2020-01-01-00:00:00.000,6,128275,1,255,14,10,47,00,a3,b2,1c,00,40,e2,01,00,80,84,1e",
    "2020-01-01-00:00:00.000,6,127506,1,255,11,01,02,00,50,50,10,0e,ff,ff,ff,ff",
]


def build_pool():
    """Messages that decode and re-encode in every wire format: [(msg, n_frames)]."""
    from nmea2000.decoder import NMEA2000Decoder
    from nmea2000.encoder import NMEA2000Encoder
    dec, enc = NMEA2000Decoder(), NMEA2000Encoder()
    pool = []
    for s in POOL_BASIC:
        try:
            m = dec.decode_basic_string(s, True)
            n = len(enc.encode_usb(m))
            enc.encode_ebyte(m)
            enc.encode_yacht_devices(m)
            enc.encode_actisense(m)
        except Exception:  # noqa: BLE001
            continue
        if m is not None:
            pool.append((m, n))
    return pool


def wire_rx(kind, m, enc, ts="00:01:02.345", direction="R"):
    """The packets a gateway of this kind would send for message m (receive direction)."""
    if kind == "ebyte":
        return [p.ljust(13, b"\0") for p in enc.encode_ebyte(m)]
    if kind == "waveshare":
        return list(enc.encode_usb(m))
    if kind == "yd":
        # the RAW protocol has two directions: R (received from the bus) and T (the gateway's own transmissions, echoed)
        return [(ts + " " + direction + " ").encode() + p for p in enc.encode_yacht_devices(m)]
    if kind == "actisense":
        return [("A000123.456 " + enc.encode_actisense(m) + "\r\n").encode()]
    raise ValueError(kind)


if __name__ == "__main__":
    worker_main()
