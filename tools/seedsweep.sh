#!/bin/sh
# seedsweep.sh "<seeds>" "<props>" [tier]: run checks under several VERIF_SEED values; prints one line per run
cd "$(dirname "$0")/.." || exit 2
T=${3:-quick}
for s in $1; do for p in $2; do
  VERIF_SEED=$s VERIF_OUT=${VERIF_OUT:-/tmp/sweep_out} ./check $p --tier $T > /tmp/sweep_${p}_${s}.log 2>&1; rc=$?
  echo "seed=$s $p rc=$rc $(grep -c '^VIOLATION' /tmp/sweep_${p}_${s}.log) $(tail -1 /tmp/sweep_${p}_${s}.log)"
  [ $rc != 0 ] && grep -A3 '^VIOLATION' /tmp/sweep_${p}_${s}.log | cut -c1-600
done; done
