"""tr_init.py — fail-closed `ast` pass for the part of C16 a functional model cannot express:
aliasing between Python objects (DESIGN §5 C16 (a)).

Checked on nmea2000/decoder.py, encoder.py, message.py (anything outside the enumerated shapes is REFUSED —
the pass never guesses):

 R1  every attribute assigned in NMEA2000Decoder.__init__, NMEA2000Encoder.__init__ and
     fast_pgn_metadata.__init__ is bound to a freshly constructed or immutable object: a literal, a
     comprehension, a call of an allowed constructor (split_pgn_list, set/dict/list/open/datetime.now), an
     immutable-valued expression (comparison, len(), boolean/arithmetic combination of those), or a parameter
     whose annotation is an immutable scalar type.  Never a parameter that can be a container, never a default
     object, never a module-level object.  In-place mutations inside __init__ may only touch attributes of self
     that were bound fresh earlier in the same __init__.
 R2  no class body of the three modules binds a mutable object (allowed: constants, annotations without
     value, dataclasses.field(default_factory=...), datetime.now(), docstrings, function definitions).
 R3  no function of the three modules declares `global`/`nonlocal`, assigns to / deletes / augments a
     subscript or attribute of a module-level name, calls a mutating method on a module-level name, or uses
     globals()/vars()/locals()/setattr/delattr/exec/eval other than `globals().get(...)`.
 R4  no function mutates one of its parameters (other than attribute assignment on `self`), and a parameter
     whose default is a mutable literal ([], {}, set()) is only read (len, isinstance, iteration, .items(),
     handed to split_pgn_list / comparison) — never stored, returned or mutated.

db_hypotheses(pgns.py): the database hypotheses of the C10/C11 theorems, checked on the generated code:
 every `decode_pgn_<N>[_suffix]` that builds a message builds `NMEA2000Message(PGN=N, id=...)`; the id is
 'isoAddressClaim' (case-insensitively) exactly for N = 60928; `is_fast_pgn_60928` returns False.
"""
from __future__ import annotations
import ast
import os
import re
import sys

MUTATORS = {"append", "extend", "insert", "remove", "pop", "clear", "sort", "reverse", "add", "discard", "update",
            "setdefault", "popitem", "__setitem__", "__delitem__", "__iadd__", "write", "writelines", "close",
            "intersection_update", "difference_update", "symmetric_difference_update", "appendleft", "popleft"}
IMMUTABLE_ANN = {"bool", "int", "str", "float", "None", "bytes"}
FRESH_CALLS = {"set", "dict", "list", "open", "fast_pgn_metadata", "bytes", "int", "str", "bool", "tuple", "frozenset",
               "len"}
FRESH_ATTR_CALLS = {("datetime", "now"), ("self", "split_pgn_list"), ("NMEA2000Decoder", "split_pgn_list")}
ENUMS = {"FieldTypes", "PhysicalQuantities"}
FORBIDDEN_CALLS = {"setattr", "delattr", "exec", "eval", "__import__", "vars", "locals", "compile"}
INIT_CLASSES = {"decoder.py": ["NMEA2000Decoder", "fast_pgn_metadata"], "encoder.py": ["NMEA2000Encoder"], "message.py": []}


class Refuse(Exception):
    def __init__(self, file, node, msg):
        super().__init__(f"{file}:{getattr(node, 'lineno', '?')}: {msg}")
        self.file, self.lineno, self.msg = file, getattr(node, "lineno", None), msg


def _ann_names(a):
    """names in an annotation like `str | None`"""
    if a is None:
        return None
    if isinstance(a, ast.Name):
        return {a.id}
    if isinstance(a, ast.Constant) and a.value is None:
        return {"None"}
    if isinstance(a, ast.BinOp) and isinstance(a.op, ast.BitOr):
        l, r = _ann_names(a.left), _ann_names(a.right)
        return None if l is None or r is None else l | r
    return None


def _immutable_expr(e, imm_params) -> bool:
    if isinstance(e, ast.Constant):
        return True
    if isinstance(e, ast.Compare):
        return True
    if isinstance(e, ast.Call) and isinstance(e.func, ast.Name) and e.func.id == "len":
        return True
    if isinstance(e, ast.UnaryOp):
        return _immutable_expr(e.operand, imm_params)
    if isinstance(e, ast.BoolOp):
        return all(_immutable_expr(v, imm_params) for v in e.values)
    if isinstance(e, ast.BinOp):
        return _immutable_expr(e.left, imm_params) and _immutable_expr(e.right, imm_params)
    if isinstance(e, ast.Name):
        return e.id in imm_params
    return False


def _fresh_expr(e, imm_params) -> bool:
    if _immutable_expr(e, imm_params):
        return True
    if isinstance(e, (ast.List, ast.Dict, ast.Set, ast.Tuple)):
        elts = e.elts if not isinstance(e, ast.Dict) else list(e.keys) + list(e.values)
        return all(_immutable_expr(x, imm_params) for x in elts if x is not None)
    if isinstance(e, (ast.ListComp, ast.SetComp, ast.DictComp)):
        # a new container; its elements must be immutable-valued or method results on str (k.lower())
        els = [e.elt] if not isinstance(e, ast.DictComp) else [e.key, e.value]
        for x in els:
            ok = isinstance(x, ast.Name) or _immutable_expr(x, imm_params) or (
                isinstance(x, ast.Call) and isinstance(x.func, ast.Attribute) and x.func.attr in ("lower", "upper", "strip"))
            if not ok:
                return False
        return True
    if isinstance(e, ast.Call):
        if isinstance(e.func, ast.Name) and e.func.id in FRESH_CALLS:
            return True
        if isinstance(e.func, ast.Attribute) and isinstance(e.func.value, ast.Name) and \
                (e.func.value.id, e.func.attr) in FRESH_ATTR_CALLS:
            return True
    return False


def _self_attr(t):
    return t.attr if isinstance(t, ast.Attribute) and isinstance(t.value, ast.Name) and t.value.id == "self" else None


def check_init(file, cls: ast.ClassDef, report):
    init = next((n for n in cls.body if isinstance(n, ast.FunctionDef) and n.name == "__init__"), None)
    if init is None:
        raise Refuse(file, cls, f"class {cls.name} has no __init__ (instance state would be class-level)")
    args = init.args
    params = [a for a in args.posonlyargs + args.args + args.kwonlyargs if a.arg != "self"]
    if args.vararg or args.kwarg:
        raise Refuse(file, init, f"{cls.name}.__init__ takes *args/**kwargs")
    imm_params = set()
    for a in params:
        names = _ann_names(a.annotation)
        if names is not None and names <= IMMUTABLE_ANN:
            imm_params.add(a.arg)
    fresh_attrs, nassign = set(), 0
    for node in ast.walk(init):
        if isinstance(node, (ast.Assign, ast.AnnAssign, ast.AugAssign)):
            targets = node.targets if isinstance(node, ast.Assign) else [node.target]
            value = node.value
            flat = []
            for t in targets:
                flat += list(t.elts) if isinstance(t, (ast.Tuple, ast.List)) else [t]
            for t in flat:
                a = _self_attr(t)
                if a is None:
                    if isinstance(t, ast.Name):
                        continue      # a local
                    if isinstance(t, (ast.Subscript, ast.Attribute)):
                        base = t.value
                        while isinstance(base, (ast.Subscript, ast.Attribute)) and _self_attr(base) is None:
                            base = base.value
                        if _self_attr(base) in fresh_attrs:
                            continue
                    raise Refuse(file, node, f"{cls.name}.__init__: assignment target {ast.unparse(t)} is not an attribute of self")
                if isinstance(node, ast.AugAssign) or value is None:
                    continue
                # self.a = self.b = expr : inner targets share one fresh object, still private to the instance
                if not _fresh_expr(value, imm_params):
                    raise Refuse(file, node, f"{cls.name}.__init__: self.{a} is bound to `{ast.unparse(value)}`, "
                                             "which is not a freshly constructed or immutable object")
                fresh_attrs.add(a)
                nassign += 1
        if isinstance(node, ast.Call) and isinstance(node.func, ast.Attribute) and node.func.attr in MUTATORS:
            base = node.func.value
            if _self_attr(base) in fresh_attrs:
                continue
            if isinstance(base, ast.Name) and base.id == "logger":
                continue
            raise Refuse(file, node, f"{cls.name}.__init__: in-place mutation `{ast.unparse(node)}` of an object that is "
                                     "not a fresh attribute of self")
    report["init_attrs"][cls.name] = sorted(fresh_attrs)
    report["n_init_assign"] += nassign


def check_class_body(file, cls: ast.ClassDef, report):
    for n in cls.body:
        if isinstance(n, (ast.FunctionDef, ast.AsyncFunctionDef, ast.Pass)):
            continue
        if isinstance(n, ast.Expr) and isinstance(n.value, ast.Constant):
            continue
        if isinstance(n, ast.AnnAssign) and n.value is None:
            continue
        if isinstance(n, (ast.Assign, ast.AnnAssign)):
            v = n.value
            ok = _immutable_expr(v, set())
            if isinstance(v, ast.Attribute) and isinstance(v.value, ast.Name) and v.value.id in ENUMS:
                ok = True      # enum members are immutable singletons
            if isinstance(v, ast.Call):
                f = v.func
                if isinstance(f, ast.Name) and f.id == "field" and all(k.arg in ("default_factory", "repr", "compare", "init")
                                                                        for k in v.keywords) and not v.args:
                    ok = True
                if isinstance(f, ast.Attribute) and isinstance(f.value, ast.Name) and (f.value.id, f.attr) == ("datetime", "now"):
                    ok = True      # datetime objects are immutable
            if not ok:
                raise Refuse(file, n, f"class {cls.name} binds a possibly mutable object at class level: `{ast.unparse(n)}`")
            report["n_class_bindings"] += 1
            continue
        raise Refuse(file, n, f"class {cls.name}: statement of an unexpected shape in the class body: `{ast.unparse(n)[:80]}`")


def _locals_of(fn) -> set:
    loc = {a.arg for a in fn.args.posonlyargs + fn.args.args + fn.args.kwonlyargs}
    if fn.args.vararg:
        loc.add(fn.args.vararg.arg)
    if fn.args.kwarg:
        loc.add(fn.args.kwarg.arg)
    for n in ast.walk(fn):
        if isinstance(n, ast.Name) and isinstance(n.ctx, ast.Store):
            loc.add(n.id)
        elif isinstance(n, ast.ExceptHandler) and n.name:
            loc.add(n.name)
        elif isinstance(n, (ast.Import, ast.ImportFrom)):
            for a in n.names:
                loc.add((a.asname or a.name).split(".")[0])
        elif isinstance(n, (ast.FunctionDef, ast.AsyncFunctionDef)) and n is not fn:
            loc.add(n.name)
    return loc


def _base_name(e):
    while isinstance(e, (ast.Attribute, ast.Subscript)):
        e = e.value
    return e.id if isinstance(e, ast.Name) else None


def check_function(file, fn, qual, report):
    loc = _locals_of(fn)
    params = [a.arg for a in fn.args.posonlyargs + fn.args.args + fn.args.kwonlyargs]
    nself = [p for p in params if p not in ("self", "cls")]
    defaults = fn.args.defaults
    pos = fn.args.posonlyargs + fn.args.args
    mut_default = set()
    for a, d in list(zip(pos[len(pos) - len(defaults):], defaults)) + \
            [(a, d) for a, d in zip(fn.args.kwonlyargs, fn.args.kw_defaults) if d is not None]:
        if isinstance(d, (ast.List, ast.Dict, ast.Set)) or (isinstance(d, ast.Call) and isinstance(d.func, ast.Name)
                                                             and d.func.id in ("list", "dict", "set")):
            mut_default.add(a.arg)
        elif not _immutable_expr(d, set()):
            raise Refuse(file, d, f"{qual}: default value `{ast.unparse(d)}` of parameter {a.arg} is neither immutable nor a literal container")
    report["n_mutable_defaults"] += len(mut_default)
    parents = {}
    for n in ast.walk(fn):
        for c in ast.iter_child_nodes(n):
            parents[c] = n
    for n in ast.walk(fn):
        if isinstance(n, (ast.Global, ast.Nonlocal)):
            raise Refuse(file, n, f"{qual}: `{ast.unparse(n)}`")
        if isinstance(n, (ast.Assign, ast.AugAssign, ast.AnnAssign, ast.Delete)):
            targets = n.targets if isinstance(n, (ast.Assign, ast.Delete)) else [n.target]
            flat = []
            for t in targets:
                flat += list(t.elts) if isinstance(t, (ast.Tuple, ast.List)) else [t]
            for t in flat:
                if isinstance(t, ast.Name):
                    if isinstance(n, ast.AugAssign) and t.id in mut_default:
                        raise Refuse(file, n, f"{qual}: augmented assignment to parameter {t.id} with a mutable default")
                    continue
                b = _base_name(t)
                if b is None:
                    raise Refuse(file, n, f"{qual}: assignment target `{ast.unparse(t)}` has no name at its base")
                if b not in loc:
                    raise Refuse(file, n, f"{qual}: writes through module-level name `{b}`: `{ast.unparse(t)}`")
                if b in nself:
                    raise Refuse(file, n, f"{qual}: mutates its parameter `{b}`: `{ast.unparse(t)}`")
        if isinstance(n, ast.Call):
            f = n.func
            if isinstance(f, ast.Name) and f.id in FORBIDDEN_CALLS and f.id not in loc:
                raise Refuse(file, n, f"{qual}: call of `{f.id}`")
            if isinstance(f, ast.Name) and f.id == "globals":
                p = parents.get(n)
                if not (isinstance(p, ast.Attribute) and p.attr == "get" and isinstance(parents.get(p), ast.Call)):
                    raise Refuse(file, n, f"{qual}: globals() used other than as globals().get(...)")
            if isinstance(f, ast.Attribute) and f.attr in MUTATORS:
                b = _base_name(f.value)
                if b is None:
                    # e.g. globals().update(...): base is a call
                    raise Refuse(file, n, f"{qual}: mutating call on an unnamed object: `{ast.unparse(n)[:80]}`")
                if b == "logger":
                    continue
                if b not in loc:
                    raise Refuse(file, n, f"{qual}: mutating method on module-level name `{b}`: `{ast.unparse(n)[:80]}`")
                if b in nself:
                    raise Refuse(file, n, f"{qual}: mutating method on its parameter `{b}`: `{ast.unparse(n)[:80]}`")
        # uses of a parameter with a mutable default: read-only shapes only
        if isinstance(n, ast.Name) and isinstance(n.ctx, ast.Load) and n.id in mut_default:
            p = parents.get(n)
            ok = False
            if isinstance(p, ast.Call) and isinstance(p.func, ast.Name) and p.func.id in ("len", "isinstance") and n in p.args:
                ok = True
            elif isinstance(p, ast.Call) and isinstance(p.func, ast.Attribute) and p.func.attr == "split_pgn_list" and n in p.args:
                ok = True
            elif isinstance(p, ast.comprehension) and p.iter is n:
                ok = True
            elif isinstance(p, ast.For) and p.iter is n:
                ok = True
            elif isinstance(p, ast.Attribute) and p.attr in ("items", "keys", "values", "get") and isinstance(parents.get(p), ast.Call):
                ok = True
            elif isinstance(p, ast.Compare):
                ok = True
            elif isinstance(p, ast.Call) and isinstance(p.func, ast.Attribute) and isinstance(p.func.value, ast.Name) \
                    and p.func.value.id == "logger":
                ok = True
            elif isinstance(p, ast.Call) and isinstance(p.func, ast.Attribute) and p.func.attr == "apply_preferred_units":
                ok = True
            if not ok:
                raise Refuse(file, n, f"{qual}: parameter `{n.id}` has a mutable default object and is used in a shape "
                                      f"that may store or mutate it: `{ast.unparse(p)[:80]}`")
    report["n_functions"] += 1


def check_module(path, report):
    file = os.path.basename(path)
    tree = ast.parse(open(path).read(), path)
    module_names = set()
    for n in tree.body:
        if isinstance(n, (ast.Assign, ast.AnnAssign)):
            v = n.value
            targets = n.targets if isinstance(n, ast.Assign) else [n.target]
            for t in targets:
                if not isinstance(t, ast.Name):
                    raise Refuse(file, n, f"module-level assignment to `{ast.unparse(t)}`")
                module_names.add(t.id)
            ok = _immutable_expr(v, set()) or (isinstance(v, ast.Call) and isinstance(v.func, ast.Attribute)
                                               and ast.unparse(v.func) == "logging.getLogger")
            if not ok:
                raise Refuse(file, n, f"module-level name bound to a possibly mutable object: `{ast.unparse(n)[:80]}`")
            report["n_module_bindings"] += 1
        elif isinstance(n, (ast.Import, ast.ImportFrom)):
            continue
        elif isinstance(n, ast.Expr) and isinstance(n.value, ast.Constant):
            continue
        elif isinstance(n, (ast.FunctionDef, ast.AsyncFunctionDef)):
            check_function(file, n, n.name, report)
        elif isinstance(n, ast.ClassDef):
            check_class_body(file, n, report)
            for m in n.body:
                if isinstance(m, (ast.FunctionDef, ast.AsyncFunctionDef)):
                    check_function(file, m, f"{n.name}.{m.name}", report)
            if n.name in INIT_CLASSES.get(file, []):
                check_init(file, n, report)
                report["classes_checked"].append(n.name)
        else:
            raise Refuse(file, n, f"module-level statement of an unexpected shape: `{ast.unparse(n)[:80]}`")
    missing = [c for c in INIT_CLASSES.get(file, []) if c not in report["classes_checked"]]
    if missing:
        raise Refuse(file, tree, f"class(es) {missing} not found")


def check_repo(repo) -> dict:
    """Returns {'ok', 'detail', 'report'}; ok False = REFUSED (a broken tie, not a guess)."""
    report = {"init_attrs": {}, "n_init_assign": 0, "n_class_bindings": 0, "n_functions": 0, "n_mutable_defaults": 0,
              "n_module_bindings": 0, "classes_checked": []}
    try:
        for f in ("decoder.py", "encoder.py", "message.py"):
            check_module(os.path.join(repo, "nmea2000", f), report)
    except Refuse as e:
        return {"ok": False, "detail": str(e), "report": report}
    except SyntaxError as e:
        return {"ok": False, "detail": f"does not parse: {e}", "report": report}
    return {"ok": True, "detail": "", "report": report}


# ------------------------------------------------------------------ database hypotheses of C10 / C11
def db_hypotheses(pgns_path) -> dict:
    try:
        tree = ast.parse(open(pgns_path).read(), pgns_path)
    except SyntaxError as e:
        return {"ok": False, "detail": f"pgns.py does not parse: {e}", "n": 0}
    bound = {}
    for n in tree.body:      # later definition wins, as Python binds it
        if isinstance(n, ast.FunctionDef):
            bound[n.name] = n
    n_checked, fast60928 = 0, None
    for name, fn in bound.items():
        if name == "is_fast_pgn_60928":
            rets = [s for s in ast.walk(fn) if isinstance(s, ast.Return)]
            fast60928 = len(rets) == 1 and isinstance(rets[0].value, ast.Constant) and rets[0].value.value is False
        m = re.fullmatch(r"decode_pgn_(\d+)(_.*)?", name)
        if not m:
            continue
        pgn = int(m.group(1))
        for c in ast.walk(fn):
            if isinstance(c, ast.Call) and isinstance(c.func, ast.Name) and c.func.id == "NMEA2000Message":
                kw = {k.arg: k.value for k in c.keywords}
                if c.args or "PGN" not in kw or "id" not in kw or not isinstance(kw["PGN"], ast.Constant) \
                        or not isinstance(kw["id"], ast.Constant) or not isinstance(kw["id"].value, str):
                    return {"ok": False, "detail": f"pgns.py:{c.lineno}: {name}: NMEA2000Message(...) of an unexpected shape", "n": n_checked}
                if kw["PGN"].value != pgn:
                    return {"ok": False, "detail": f"pgns.py:{c.lineno}: {name} builds a message with PGN {kw['PGN'].value}", "n": n_checked}
                is_claim_id = kw["id"].value.lower() == "isoaddressclaim"
                if is_claim_id != (pgn == 60928):
                    return {"ok": False, "detail": f"pgns.py:{c.lineno}: {name} builds id {kw['id'].value!r}: the id isoAddressClaim "
                                                   "must belong to PGN 60928 and only to it", "n": n_checked}
                if not kw["id"].value.isascii():
                    return {"ok": False, "detail": f"pgns.py:{c.lineno}: {name}: non-ASCII id", "n": n_checked}
                n_checked += 1
            # a decode function may not assign the PGN or id of a message afterwards
            if isinstance(c, (ast.Assign, ast.AugAssign)):
                for t in (c.targets if isinstance(c, ast.Assign) else [c.target]):
                    if isinstance(t, ast.Attribute) and t.attr in ("PGN", "id") and isinstance(t.value, ast.Name) \
                            and t.value.id == "nmea2000Message":
                        return {"ok": False, "detail": f"pgns.py:{c.lineno}: {name} reassigns nmea2000Message.{t.attr}", "n": n_checked}
    if fast60928 is not True:
        return {"ok": False, "detail": "is_fast_pgn_60928 is missing or does not simply return False", "n": n_checked}
    return {"ok": True, "detail": "", "n": n_checked}


if __name__ == "__main__":
    repo = sys.argv[1] if len(sys.argv) > 1 else os.environ.get("NMEA2000_REPO", "/repo")
    r = check_repo(repo)
    print(r)
    print(db_hypotheses(os.path.join(repo, "nmea2000", "pgns.py")))
    sys.exit(0 if r["ok"] else 1)
