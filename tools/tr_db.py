"""tr_db.py — canboat.json -> Coq tables of what the database SAYS (DESIGN §3.2).

Deliberately trivial: a verbatim dump of the attributes. All logic connecting a database record
to what the generated code should look like lives in Coq (Template.v)."""
from __future__ import annotations
import json
import struct
import sys
import os

sys.path.insert(0, os.path.dirname(os.path.abspath(__file__)))
from vlib import cstr_z, cz  # noqa: E402

NSHARD = 16


def cnum(x) -> str:
    if isinstance(x, bool):
        raise ValueError("bool where a number is expected")
    if isinstance(x, int):
        return f"(NI {cz(x)})"
    if isinstance(x, float):
        return f"(NF {struct.unpack('>Q', struct.pack('>d', x))[0]})"
    raise ValueError(f"unexpected numeric literal {x!r}")


def o(x, f) -> str:
    return "None" if x is None else f"(Some {f(x)})"


def cb(b) -> str:
    if b is True:
        return "true"
    if b is False:
        return "false"
    raise ValueError(f"not a bool: {b!r}")


def field(f: dict) -> str:
    g = f.get
    parts = [
        cz(f["Order"]), cstr_z(f["Id"]), cstr_z(f["Name"]), o(g("Description"), cstr_z), o(g("Unit"), cstr_z),
        cstr_z(f["FieldType"]), o(g("BitLength"), cz), o(g("BitOffset"), cz), cb(g("Signed", False)),
        o(g("Resolution"), cnum), o(g("Offset"), cnum), o(g("RangeMin"), cnum), o(g("RangeMax"), cnum),
        o(g("LookupEnumeration"), cstr_z), o(g("LookupBitEnumeration"), cstr_z),
        o(g("LookupIndirectEnumeration"), cstr_z), o(g("LookupIndirectEnumerationFieldOrder"), cz),
        o(g("Match"), cz), o(g("PhysicalQuantity"), cstr_z), o(g("PartOfPrimaryKey"), cb), o(g("BitLengthField"), cz),
    ]
    return "(mkF " + " ".join(parts) + ")"


def definition(p: dict) -> str:
    g = p.get
    fields = ";\n    ".join(field(f) for f in p["Fields"])
    return (f"(mkDb {cz(p['PGN'])} {cstr_z(p['Id'])} {cstr_z(p['Description'])} {cstr_z(p['Type'])} "
            f"{cb(bool(g('Fallback', False)))} {o(g('Length'), cz)} {o(g('TransmissionInterval'), cz)}\n   [{fields}])")


def emit(json_path: str, outdir: str) -> dict:
    d = json.load(open(json_path))
    pgns = d["PGNs"]
    os.makedirs(outdir, exist_ok=True)
    per = (len(pgns) + NSHARD - 1) // NSHARD
    names = []
    for k in range(NSHARD):
        chunk = pgns[k * per:(k + 1) * per]
        with open(os.path.join(outdir, f"GenDb_{k}.v"), "w") as fh:
            fh.write("From NV Require Import Base Defn.\n")
            fh.write(f"Definition db_{k} : list dbdef :=\n [")
            fh.write(";\n  ".join(definition(p) for p in chunk))
            fh.write("].\n")
        names.append(f"GenDb_{k}")
    with open(os.path.join(outdir, "GenDb.v"), "w") as fh:
        fh.write("From NV Require Import Base Defn.\n")
        fh.write("From NVGen Require Import " + " ".join(names) + ".\n")
        fh.write("Definition db_defs : list dbdef := " + " ++ ".join(f"db_{k}" for k in range(NSHARD)) + ".\n")
    # lookup tables, verbatim and in database order (duplicates kept: Coq applies dict semantics)
    with open(os.path.join(outdir, "GenDbLookups.v"), "w") as fh:
        fh.write("From NV Require Import Base Defn.\n")
        fh.write("Definition db_lookups : list (str * list (Z * str)) :=\n [")
        fh.write(";\n  ".join(
            f"({cstr_z(l['Name'])}, [" + "; ".join(f"({cz(e['Value'])}, {cstr_z(e['Name'])})" for e in l["EnumValues"]) + "])"
            for l in d["LookupEnumerations"]))
        fh.write("].\n")
        fh.write("Definition db_bitlookups : list (str * list (Z * str)) :=\n [")
        fh.write(";\n  ".join(
            f"({cstr_z(l['Name'])}, [" + "; ".join(f"({cz(e['Bit'])}, {cstr_z(e['Name'])})" for e in l["EnumBitValues"]) + "])"
            for l in d["LookupBitEnumerations"]))
        fh.write("].\n")
        fh.write("Definition db_indirect : list (str * list ((Z * Z) * str)) :=\n [")
        fh.write(";\n  ".join(
            f"({cstr_z(l['Name'])}, [" + "; ".join(
                f"(({cz(e['Value1'])}, {cz(e['Value2'])}), {cstr_z(e['Name'])})" for e in l["EnumValues"]) + "])"
            for l in d["LookupIndirectEnumerations"]))
        fh.write("].\n")
    return {"definitions": len(pgns), "fields": sum(len(p["Fields"]) for p in pgns),
            "lookups": len(d["LookupEnumerations"]), "bitlookups": len(d["LookupBitEnumerations"]),
            "indirect": len(d["LookupIndirectEnumerations"]),
            "modules": names + ["GenDb", "GenDbLookups"]}


if __name__ == "__main__":
    print(emit(sys.argv[1], sys.argv[2]))
