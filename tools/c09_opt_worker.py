#!/venv/bin/python
"""c09_opt_worker.py <seed> <ndefs> | --replay <json>   (run as: python -O c09_opt_worker.py ...)

The C09 oracle of tools/enc_common.py (out-of-range / missing / locality classes on the real encoder) executed in an
interpreter started with -O: the property is about the library, not about an interpreter mode, and `assert`
statements do not run there. Prints one JSON witness per line."""
import json
import os
import random
import sys

HERE = os.path.dirname(os.path.abspath(__file__))
sys.path.insert(0, HERE)
import vlib  # noqa: E402
vlib.use_repo()
import enc_common as EC  # noqa: E402
import payloads as PL  # noqa: E402


def main():
    from nmea2000.decoder import NMEA2000Decoder
    from nmea2000.encoder import NMEA2000Encoder
    dec, enc = NMEA2000Decoder(), NMEA2000Encoder()
    if sys.argv[1] == "--replay":
        w = json.loads(sys.argv[2])
        w.pop("interp", None)
        import contextlib
        import io
        buf = io.StringIO()
        with contextlib.redirect_stdout(buf):
            ok = EC.c09_replay(None, w)
        print(json.dumps({"still_fails": bool(ok), "text": buf.getvalue()[-400:]}))
        return
    rng = random.Random("c09-opt:" + sys.argv[1])
    want = int(sys.argv[2])
    defs = [d for d in PL.definitions() if EC.encodable(d)]
    rng.shuffle(defs)
    seen = set()
    n = 0
    for d in defs:
        if n >= want:
            break
        g = PL.groups()[d["PGN"]]
        multi = len(g) > 1 and any("Match" in f for x in g for f in x["Fields"])
        if not multi and d is not g[-1]:
            continue
        try:
            base = EC._decode(dec, d, PL.compose(d, rng))
        except Exception:  # noqa: BLE001
            continue
        if base is None or base.id != d["Id"]:
            continue
        n += 1
        msgs = []
        for _ in range(3):
            msgs += EC.mutate_message(base, d, rng)
        for label, m in msgs:
            w = EC.c09_check(d, m, label, dec, enc)
            if w and w["key"] not in seen:
                seen.add(w["key"])
                print(json.dumps(w), flush=True)


if __name__ == "__main__":
    main()
