"""vlib.py — shared plumbing for the per-property checks (DESIGN §3.3, §3.4).

  * Coq literal printers
  * the vm_compute case runner: writes cases_<name>_<k>.v, compiles the shards in
    parallel with coqc, returns the indices on which `model input = observed` fails
  * evidence / replay / known-findings helpers
"""
from __future__ import annotations
import hashlib
import json
import os
import re
import subprocess
import sys
import time
from concurrent.futures import ThreadPoolExecutor

VERIF = os.path.dirname(os.path.dirname(os.path.abspath(__file__)))
REPO = os.environ.get("NMEA2000_REPO", "/repo")
COQ = os.path.join(VERIF, "coq")
THEORIES = os.path.join(COQ, "theories")
BUILD = os.environ.get("VERIF_BUILD") or os.path.join(VERIF, "build")   # VERIF_BUILD: private scratch build dir (parallel runs against scratch worktrees)
OUT = os.environ.get("VERIF_OUT") or VERIF   # VERIF_OUT: where evidence/ and replays/ go (scratch evaluations of seeded changes)
GUARD = "NMEA2000_VERIF"
NCPU = max(1, min(16, os.cpu_count() or 1))


def repo_env() -> dict:
    env = dict(os.environ)
    env["PYTHONPATH"] = REPO
    env["PYTHONHASHSEED"] = "0"
    env[GUARD] = "1"
    env["PYTHONDONTWRITEBYTECODE"] = "1"
    return env


def use_repo():
    """Make `import nmea2000` resolve to the working tree of /repo in this process."""
    os.environ[GUARD] = "1"
    sys.dont_write_bytecode = True
    if REPO not in sys.path:
        sys.path.insert(0, REPO)
    import logging
    logging.disable(logging.CRITICAL)


# ---------------------------------------------------------------- Coq literals
def cz(n: int) -> str:
    if n < 0:
        return f"({n})" if n > -(1 << 64) else f"(-{hex(-n)})"
    return str(n) if n < (1 << 64) else hex(n)   # Coq parses long decimal numerals slowly


def clist(items) -> str:
    return "[" + "; ".join(items) + "]"


def cbytes(b) -> str:
    return clist(str(x) for x in b)


def cbool(b: bool) -> str:
    return "true" if b else "false"


def copt(x, f=cz) -> str:
    return "None" if x is None else f"(Some {f(x)})"


def ctuple(*items) -> str:
    return "(" + ", ".join(items) + ")"


def cstr_z(s: str | bytes) -> str:
    """A string as a Z numeral: int.from_bytes(b'\\x01' + utf8, 'big') — injective."""
    b = s.encode("utf-8") if isinstance(s, str) else bytes(s)
    return hex(int.from_bytes(b"\x01" + b, "big"))


def cfloat(x: float) -> str:
    """A Python float as a Coq primitive-float literal with the identical bits."""
    import math
    if math.isnan(x):
        return "nan"
    if math.isinf(x):
        return "infinity" if x > 0 else "neg_infinity"
    h = x.hex()
    if h.startswith("-"):
        return f"(-{h[1:]})%float"
    return f"({h})%float"


# ---------------------------------------------------------------- running coqc
def coqc(path: str, timeout: int = 600) -> tuple[int, str]:
    p = subprocess.run(
        ["timeout", str(timeout), "coqc", "-Q", THEORIES, "NV", "-Q", os.path.join(BUILD, "gen"), "NVGen", path],
        capture_output=True, text=True, cwd=os.path.dirname(path))
    return p.returncode, p.stdout + p.stderr


_LIST_RE = re.compile(r"=\s*\(?\s*(\d+)%?n?a?t?\s*,\s*\[(.*?)\]\s*\)?\s*:", re.S)


def run_cases(prop: str, name: str, imports: str, ty: str, chk: str, cases: list[str],
              shard: int = 400, timeout: int = 900, prelude: str = "", count: str | None = None) -> dict:
    """Kernel-decide `chk case = true` for every case. Returns
    {'n': total, 'failing': [global indices], 'errors': [text], 'wall_s': s}."""
    t0 = time.time()
    d = os.path.join(BUILD, "cases", prop)
    os.makedirs(d, exist_ok=True)
    for f in os.listdir(d):
        if f.startswith(f"cases_{name}_"):
            os.unlink(os.path.join(d, f))
    shards = [cases[i:i + shard] for i in range(0, len(cases), shard)] or [[]]
    paths = []
    for k, sh in enumerate(shards):
        p = os.path.join(d, f"cases_{name}_{k}.v")
        with open(p, "w") as fh:
            fh.write(f"{imports}\n{prelude}\n")
            fh.write(f"Definition cases : list ({ty}) :=\n [")
            fh.write(";\n  ".join(sh))
            fh.write("].\n")
            fh.write(f"Definition bad := failing ({chk}) cases.\n")
            fh.write("Eval vm_compute in (length bad, firstn 50 bad).\n")
            if count:
                fh.write(f"Eval vm_compute in (77777%Z, length (filter ({count}) cases)).\n")
        paths.append(p)
    failing, errors = [], []
    counted = 0

    def one(kp):
        k, p = kp
        rc, out = coqc(p, timeout)
        return k, rc, out

    with ThreadPoolExecutor(max_workers=NCPU) as ex:
        for k, rc, out in ex.map(one, enumerate(paths)):
            flat = " ".join(out.split())
            mc = re.search(r"\(77777,\s*(\d+)%nat\)", flat)
            if mc:
                counted += int(mc.group(1))
            m = _LIST_RE.search(flat)
            if rc != 0 or not m:
                errors.append(f"shard {k}: rc={rc}: {out[-2000:]}")
                continue
            nbad = int(m.group(1))
            idx = [int(x) for x in re.findall(r"\d+", m.group(2))]
            if nbad != 0 and not idx:
                errors.append(f"shard {k}: could not parse failing list: {flat[-500:]}")
            failing.extend(k * shard + i for i in idx)
    for p in paths:  # keep the .v of failing shards for inspection, drop build products
        for ext in (".vo", ".vok", ".vos", ".glob"):
            q = p[:-2] + ext
            if os.path.exists(q):
                os.unlink(q)
        aux = os.path.join(os.path.dirname(p), "." + os.path.basename(p)[:-2] + ".aux")
        if os.path.exists(aux):
            os.unlink(aux)
    return {"n": len(cases), "failing": sorted(failing), "errors": errors, "counted": counted,
            "wall_s": round(time.time() - t0, 2)}


# ---------------------------------------------------------------- static build / theorem files
def ensure_static_build(timeout: int = 3000) -> tuple[bool, str]:
    """`make` in /verif/coq (a no-op when setup_cmd already ran). Full .vo build."""
    import fcntl
    os.makedirs(BUILD, exist_ok=True)
    with open(os.path.join(BUILD, ".static.lock"), "w") as lk:
        fcntl.flock(lk, fcntl.LOCK_EX)
        if not os.path.exists(os.path.join(COQ, "Makefile")):
            subprocess.run(["coq_makefile", "-f", "_CoqProject", "-o", "Makefile"], cwd=COQ, check=True,
                           capture_output=True)
        p = subprocess.run(["timeout", str(timeout), "make", f"-j{NCPU}"], cwd=COQ, capture_output=True, text=True)
        return p.returncode == 0, (p.stdout + p.stderr)[-4000:]


_THM_RE = re.compile(r"^\s*(Theorem|Lemma|Corollary|Example)\s+([A-Za-z0-9_']+)", re.M)


def check_props_file(relpath: str, timeout: int = 900) -> dict:
    """Recompile a props/Cxx.v file, return theorem names, success, and the axioms
    Print Assumptions reports."""
    path = os.path.join(THEORIES, relpath)
    src = open(path).read()
    names = [m.group(2) for m in _THM_RE.finditer(src)]
    rc, out = coqc(path, timeout)
    axioms = set()
    closed = out.count("Closed under the global context")
    for blk in re.split(r"Closed under the global context", out):
        if "Axioms:" in blk:
            for sec in blk.split("Axioms:")[1:]:
                for m in re.finditer(r"^([A-Za-z_][A-Za-z0-9_.']*)\s*:", sec, re.M):
                    axioms.add(m.group(1))
    prims = sorted(a for a in axioms if a.startswith(("PrimInt63.", "PrimFloat.", "Uint63.", "Int63.")) and "_spec" not in a
                   and "_equiv" not in a)
    axioms = {a for a in axioms if a not in prims}
    if prims:
        axioms.add(f"[{len(prims)} native int63/float primitives: " + ", ".join(p.split(".")[-1] for p in prims) + "]")
    return {"file": relpath, "theorems": names, "ok": rc == 0, "axioms": sorted(axioms),
            "closed_count": closed, "output_tail": out[-1500:] if rc != 0 else ""}


# ---------------------------------------------------------------- findings / replays / evidence
def known_findings() -> list[dict]:
    p = os.path.join(VERIF, "known_findings.json")
    if not os.path.exists(p):
        return []
    return json.load(open(p)).get("findings", [])


def write_replay(prop: str, data: dict) -> str:
    d = os.path.join(OUT, "replays")
    os.makedirs(d, exist_ok=True)
    blob = json.dumps(data, sort_keys=True, default=str)
    h = hashlib.sha256(blob.encode()).hexdigest()[:10]
    p = os.path.join(d, f"{prop}-{h}.json")
    with open(p, "w") as fh:
        json.dump(data, fh, indent=1, sort_keys=True, default=str)
    return p


def sha_files(paths) -> str:
    h = hashlib.sha256()
    for p in sorted(paths):
        h.update(p.encode())
        with open(p, "rb") as fh:
            h.update(fh.read())
    return h.hexdigest()


def distinct_count(items) -> int:
    return len({hashlib.sha1(repr(x).encode()).digest() for x in items})
