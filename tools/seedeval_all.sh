#!/bin/sh
# seedeval_all.sh Cxx [tier] : evaluate /tmp/seedout_Cxx/{1,2}
P=$1; T=${2:-quick}
for k in 1 2; do [ -f /tmp/seedout_$P/$k/patch.diff ] && /verif/tools/seedeval.sh $P /tmp/seedout_$P/$k $T; done > /tmp/chk/seed_$P.txt 2>&1
