#!/bin/sh
# seedeval_all.sh Cxx [tier] [base] : evaluate <base>_Cxx/{1,2} (base default /tmp/seedout)
P=$1; T=${2:-quick}; B=${3:-/tmp/seedout}
mkdir -p /tmp/chk
for k in 1 2; do [ -f ${B}_$P/$k/patch.diff ] && /verif/tools/seedeval.sh $P ${B}_$P/$k $T; done > /tmp/chk/$(basename $B)_$P.txt 2>&1
