(* OblE2EfastEnc.v — the closing corollary for FAST-PACKET PGNs: decode(encode(decode p)) = decode p THROUGH the frame-level
   entry points, for the tables of this run (compiled after OblE2Efast and OblEncE2E; copied into build/gen and compiled as
   NVGen.OblE2EfastEnc on every run).

   OblEncE2E.ENC_E2E_fast_frames stops at "the C03 reassembler, fed these frames, calls the decode function on the payload";
   OblE2Efast.E2E_fast_frames starts at "inputs that parse to frames the C03 reassembler turns into the payload".  Composed:

   E2E_fast_roundtrip_ebyte / _usb: for every definition d of OblEncE2E.enc_fast (fast-packet PGN, inside C02_roundtrip, fixed
     Length <= 223, not the address claim), EVERY payload p the decoder accepts for d (`spec_decode p d = Ok m`; dispatched PGN:
     p is one the Match rule assigns to d), EVERY source, destination, priority in range and EVERY value of the encoder's
     sequence counter: `NMEA2000Encoder.encode_ebyte / encode_usb` (model enc_e2e_step) applied to the decoded message m
     returns packets `pkts` and advances the counter to a different value; these packets, given ONE AFTER THE OTHER to
     `decode_tcp` / `decode_usb` of an unfiltered decoder (model EndToEnd.e2e_step iterated = OblE2Efast.run_here) in ANY state
     in which the source has no identity with a non-ASCII manufacturer and the reassembly record of (PGN, source, destination)
     is absent or carries another counter, return None for every packet but the last and at the last packet a message with the
     PGN and id of d, the source, the destination (255 for a broadcast PGN), the priority, the stored identity, and a content
     whose serialisation (EVERY field — EndToEnd.ser_msg) is that of m itself; afterwards the source map is unchanged, the
     key has no reassembly record, and no other key's record was touched. *)
From NV Require Import Base Bits Defn PyNum Fields Dispatch DispatchProofs Template Spec SpecProofs
                       Header HeaderProofs PyText Wire WireProofs DecoderCtl EndToEnd EndToEndProofs EncEndToEnd E2EFast.
From NV Require FastPacket FastPacketProofs.
From NVGen Require Import GenDb GenCode GenDisp GenLookups GenDbLookups.
From NVGen Require OblE2E OblEncE2E.
From NVGen Require Import OblE2Efast.

Lemma fast_roundtrip_core : forall g d, In g OblEncE2E.db_groups -> In d (bound_defs g) -> OblEncE2E.c_fast g d = true ->
  forall payload m, spec_decode OblEncE2E.SL OblEncE2E.SLB (le_int payload) d = Ok m ->
  (is_dispatched g = true -> spec_select g (le_int payload) = Some d) ->
  forall src dst' prio seq,
  reassembles seq (FastPacket.segment seq payload) payload ->
  forall fmt (parse : list Z -> result (option dec_args)) pkts,
  (forall ts_ok inp, parse_with ts_ok fmt inp = parse inp) ->
  map parse pkts = map (fun fr => Ok (Some (Defn.d_pgn d, prio, src, dst', rev fr, false))) (FastPacket.segment seq payload) ->
  forall ts_ok st win,
  (forall n, zlookup src (srcmap st) = Some n -> mfr_modelled n = true) ->
  fresh_key seq (klookup (Defn.d_pgn d, src, dst') (reasm st)) ->
  let ins := pkt_inputs fmt win pkts in
  let st' := final_here ts_ok cfg0 st ins in
  map snd (run_here ts_ok cfg0 st ins)
  = repeat (Ok None) (length pkts - 1) ++ [OblEncE2E.returned d m src dst' prio (zlookup src (srcmap st))] /\
  srcmap st' = srcmap st /\
  klookup (Defn.d_pgn d, src, dst') (reasm st') = None /\
  (forall k', k' <> (Defn.d_pgn d, src, dst') -> klookup k' (reasm st') = klookup k' (reasm st)).
Proof.
  intros g d Hg Hd C payload m Sx Selx src dst' prio seq Re fmt parse pkts Hparse P ts_ok st win Hi Fr. cbv zeta.
  unfold OblEncE2E.c_fast in C.
  apply andb_true_iff in C. destruct C as [C Cf]. apply andb_true_iff in C. destruct C as [C _].
  apply andb_true_iff in C. destruct C as [Cm _].
  pose proof (OblEncE2E.fast_is_inv _ _ Cf) as Hf.
  destruct (OblEncE2E.common_parts g d Cm) as [Sd Hp].
  assert (HgE : In g OblE2E.db_groups) by (rewrite OblEncE2E.GE2E; exact Hg).
  pose proof OblE2E.E2E_side as Side. rewrite forallb_forall in Side. specialize (Side g HgE).
  rewrite forallb_forall in Side. specialize (Side d (bound_defs_in g d Hd)).
  apply andb_true_iff in Side. destruct Side as [Pg _]. apply Z.eqb_eq in Pg.
  pose proof (parses_of_map ts_ok fmt parse (Defn.d_pgn d) prio src dst' win (Hparse ts_ok) pkts
                (FastPacket.segment seq payload) P) as PP.
  assert (Len : length pkts = length (FastPacket.segment seq payload)).
  { apply (f_equal (@length _)) in P. rewrite !map_length in P. exact P. }
  assert (Exp : e2e_expected OblE2E.SL OblE2E.SLB d (le_int payload) src dst' prio (zlookup src (srcmap st))
                = OblEncE2E.returned d m src dst' prio (zlookup src (srcmap st))).
  { unfold e2e_expected, OblEncE2E.returned.
    change OblE2E.SL with OblEncE2E.SL. change OblE2E.SLB with OblEncE2E.SLB. rewrite Sx. reflexivity. }
  assert (T : let res := e2e_expected OblE2E.SL OblE2E.SLB d (le_int payload) src dst' prio (zlookup src (srcmap st)) in
              let st' := final_here ts_ok cfg0 st (pkt_inputs fmt win pkts) in
              map snd (run_here ts_ok cfg0 st (pkt_inputs fmt win pkts))
              = repeat (Ok None) (length (FastPacket.segment seq payload) - 1) ++ [res] /\
              srcmap st' = srcmap st /\
              (is_ok res = true -> klookup (Defn.d_pgn d, src, dst') (reasm st') = None) /\
              (forall k', k' <> (Defn.d_pgn d, src, dst') -> klookup k' (reasm st') = klookup k' (reasm st))).
  { destruct (is_dispatched g) eqn:D.
    - exact (E2E_fast_frames g d HgE ltac:(unfold in_scope; rewrite D; reflexivity) Hd Sd ts_ok st (pkt_inputs fmt win pkts)
               (Defn.d_pgn d) prio src dst' seq (FastPacket.segment seq payload) payload PP Re Pg Hp Hf Hi Fr (Selx eq_refl)).
    - exact (E2E_fast_frames_undispatched g d HgE D Hd Sd ts_ok st (pkt_inputs fmt win pkts)
               (Defn.d_pgn d) prio src dst' seq (FastPacket.segment seq payload) payload PP Re Pg Hp Hf Hi Fr). }
  cbv zeta in T. rewrite Exp in T. rewrite <- Len in T.
  destruct T as (T1 & T2 & T3 & T4).
  split; [exact T1|]. split; [exact T2|]. split; [apply T3; reflexivity | exact T4].
Qed.

Theorem E2E_fast_roundtrip_ebyte : forall g d, In g OblEncE2E.db_groups -> In d (bound_defs g) -> OblEncE2E.c_fast g d = true ->
  forall p m, spec_decode OblEncE2E.SL OblEncE2E.SLB p d = Ok m -> (is_dispatched g = true -> spec_select g p = Some d) ->
  forall src dst prio seq, 0 <= src < 256 -> 0 <= dst < 256 -> 0 <= prio < 8 -> 0 <= seq < 8 ->
  exists pkts,
    OblEncE2E.enc_step_here FEbyte seq (emsg_of m src dst prio) = (Ok pkts, FastPacket.next_seq seq) /\
    FastPacket.next_seq seq <> seq /\
    forall ts_ok st win,
    let dst' := if is_pdu1 (Defn.d_pgn d) then dst else 255 in
    (forall n, zlookup src (srcmap st) = Some n -> mfr_modelled n = true) ->
    fresh_key seq (klookup (Defn.d_pgn d, src, dst') (reasm st)) ->
    let ins := pkt_inputs WTcp win pkts in
    let st' := final_here ts_ok cfg0 st ins in
    map snd (run_here ts_ok cfg0 st ins)
    = repeat (Ok None) (length pkts - 1) ++ [OblEncE2E.returned d m src dst' prio (zlookup src (srcmap st))] /\
    srcmap st' = srcmap st /\
    klookup (Defn.d_pgn d, src, dst') (reasm st') = None /\
    (forall k', k' <> (Defn.d_pgn d, src, dst') -> klookup k' (reasm st') = klookup k' (reasm st)).
Proof.
  intros g d Hg Hd C p m S Sel src dst prio seq Hs Hd' Hq Hseq.
  destruct (OblEncE2E.ENC_E2E_fast_frames g d Hg Hd C p m S Sel src dst prio seq Hs Hd' Hq Hseq)
    as (payload & Sx & Selx & Rest).
  cbv zeta in Rest. destruct Rest as ((pk1 & E1 & P1) & _ & R & Ne).
  exists pk1. split; [exact E1|]. split; [exact Ne|].
  intros ts_ok st win. cbv zeta. intros Hi Fr.
  exact (fast_roundtrip_core g d Hg Hd C payload m Sx Selx src _ prio seq R WTcp parse_tcp pk1
           (fun _ _ => eq_refl) P1 ts_ok st win Hi Fr).
Qed.
Print Assumptions E2E_fast_roundtrip_ebyte.

Theorem E2E_fast_roundtrip_usb : forall g d, In g OblEncE2E.db_groups -> In d (bound_defs g) -> OblEncE2E.c_fast g d = true ->
  forall p m, spec_decode OblEncE2E.SL OblEncE2E.SLB p d = Ok m -> (is_dispatched g = true -> spec_select g p = Some d) ->
  forall src dst prio seq, 0 <= src < 256 -> 0 <= dst < 256 -> 0 <= prio < 8 -> 0 <= seq < 8 ->
  exists pkts,
    OblEncE2E.enc_step_here FUsb seq (emsg_of m src dst prio) = (Ok pkts, FastPacket.next_seq seq) /\
    FastPacket.next_seq seq <> seq /\
    forall ts_ok st win,
    let dst' := if is_pdu1 (Defn.d_pgn d) then dst else 255 in
    (forall n, zlookup src (srcmap st) = Some n -> mfr_modelled n = true) ->
    fresh_key seq (klookup (Defn.d_pgn d, src, dst') (reasm st)) ->
    let ins := pkt_inputs WUsb win pkts in
    let st' := final_here ts_ok cfg0 st ins in
    map snd (run_here ts_ok cfg0 st ins)
    = repeat (Ok None) (length pkts - 1) ++ [OblEncE2E.returned d m src dst' prio (zlookup src (srcmap st))] /\
    srcmap st' = srcmap st /\
    klookup (Defn.d_pgn d, src, dst') (reasm st') = None /\
    (forall k', k' <> (Defn.d_pgn d, src, dst') -> klookup k' (reasm st') = klookup k' (reasm st)).
Proof.
  intros g d Hg Hd C p m S Sel src dst prio seq Hs Hd' Hq Hseq.
  destruct (OblEncE2E.ENC_E2E_fast_frames g d Hg Hd C p m S Sel src dst prio seq Hs Hd' Hq Hseq)
    as (payload & Sx & Selx & Rest).
  cbv zeta in Rest. destruct Rest as (_ & (pk2 & E2 & P2) & R & Ne).
  exists pk2. split; [exact E2|]. split; [exact Ne|].
  intros ts_ok st win. cbv zeta. intros Hi Fr.
  exact (fast_roundtrip_core g d Hg Hd C payload m Sx Selx src _ prio seq R WUsb parse_usb pk2
           (fun _ _ => eq_refl) P2 ts_ok st win Hi Fr).
Qed.
Print Assumptions E2E_fast_roundtrip_usb.

(* ---- coverage: the definitions of OblEncE2E.enc_fast (all of them: the corollary adds no side condition) ---- *)
Eval vm_compute in (66666%Z, length OblEncE2E.enc_fast).

(* ---- non-vacuity: PGN 128275 (Distance Log), the payload of OblE2Efast's example, source 35, priority 6, counter 5, on a
        fresh decoder ---- *)
Definition ex_d : dbdef := match rev (bound_defs ex_g) with d :: _ => d | [] => mkDb 0 0 0 0 false None None [] end.
Example E2E_fast_roundtrip_nonvacuous :
  In ex_g OblEncE2E.db_groups /\ In ex_d (bound_defs ex_g) /\ OblEncE2E.c_fast ex_g ex_d = true /\
  exists m, spec_decode OblEncE2E.SL OblEncE2E.SLB (le_int ex_payload) ex_d = Ok m /\
  exists pkts r,
    OblEncE2E.enc_step_here FEbyte 5 (emsg_of m 35 255 6) = (Ok pkts, 6) /\
    map snd (run_here (fun _ _ => false) cfg0 init (pkt_inputs WTcp false pkts))
    = repeat (Ok None) (length pkts - 1) ++ [Ok (Some (r, 6))] /\
    m_body r = ser_msg m /\ DecoderCtl.m_pgn r = 128275 /\ m_src r = 35 /\ m_dst r = 255.
Proof.
  assert (Hg : In ex_g OblEncE2E.db_groups).
  { unfold ex_g. change OblEncE2E.db_groups with OblE2E.db_groups.
    destruct (find (fun g => group_pgn g =? 128275) OblE2E.db_groups) as [g|] eqn:F.
    - apply find_some in F. tauto.
    - exfalso. vm_compute in F. discriminate. }
  assert (Hd : In ex_d (bound_defs ex_g)).
  { unfold ex_d. destruct (rev (bound_defs ex_g)) as [|d0 r] eqn:E; [exfalso; vm_compute in E; discriminate|].
    apply in_rev. rewrite E. left. reflexivity. }
  assert (Hc : OblEncE2E.c_fast ex_g ex_d = true) by (vm_compute; reflexivity).
  split; [exact Hg|]. split; [exact Hd|]. split; [exact Hc|].
  destruct (spec_decode OblEncE2E.SL OblEncE2E.SLB (le_int ex_payload) ex_d) as [m| |] eqn:S;
    [|exfalso; vm_compute in S; discriminate ..].
  exists m. split; [reflexivity|].
  destruct (E2E_fast_roundtrip_ebyte ex_g ex_d Hg Hd Hc (le_int ex_payload) m S
              ltac:(intros D; exfalso; vm_compute in D; discriminate) 35 255 6 5 ltac:(lia) ltac:(lia) ltac:(lia) ltac:(lia))
    as (pkts & E & _ & Dk).
  assert (N : FastPacket.next_seq 5 = 6) by reflexivity. rewrite N in E.
  specialize (Dk (fun _ _ => false) init false). cbv zeta in Dk.
  destruct (Dk ltac:(intros n Hn; discriminate) ltac:(left; reflexivity)) as (D1 & _).
  exists pkts. eexists. split; [exact E|]. split; [exact D1|].
  cbn [m_body DecoderCtl.m_pgn m_src m_dst].
  split; [reflexivity|]. split; [vm_compute; reflexivity|]. split; [reflexivity|].
  destruct (is_pdu1 (Defn.d_pgn ex_d)); reflexivity.
Qed.
