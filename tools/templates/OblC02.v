(* OblC02.v — generated-table obligations for the encoders (C02, C09); compiled on every run. *)
From NV Require Import Base Bits Defn PyNum Fields Dispatch Template TemplateEnc.
From NVGen Require Import GenDb GenCode.

Definition db_groups : list (list dbdef) := groups db_defs.

(* every generated encoder equals, step by step (field id, conversion kind, bit length, signedness,
   resolution, mask, shift, serialised length), the encoder template of its database record *)
Theorem C02_tables : forallb (group_edefs_ok code_enc) db_groups = true.
Proof. vm_compute. reflexivity. Qed.

Eval vm_compute in (length (flat_map bound_defs db_groups), length (filter encodable (flat_map bound_defs db_groups))).
