(* OblC02.v — generated-table obligations for the encoders (C02, C09); compiled on every run. *)
From NV Require Import Base Bits Defn PyNum Fields Dispatch Template TemplateEnc Encode Spec SpecProofs EncodeProofs FloatRT.
From NVGen Require Import GenDb GenCode GenLookups GenDbLookups.

Definition db_groups : list (list dbdef) := groups db_defs.
Definition enc_defs : list dbdef := filter encodable (flat_map bound_defs db_groups).

(* every generated encoder equals, step by step (field id, conversion kind, bit length, signedness,
   resolution, mask, shift, serialised length), the encoder template of its database record *)
Theorem C02_tables : forallb (group_edefs_ok code_enc) db_groups = true.
Proof. vm_compute. reflexivity. Qed.

(* side conditions on all encodable definitions: offsets >= 0, lengths >= 1, fields pairwise
   disjoint and inside the definition's length; no signed number/date/time field of <= 3 bits *)
Definition no_small_signed (d : dbdef) : bool :=
  forallb (fun f => negb (f_signed f) || match f_bitlen f with Some l => 4 <=? l | None => true end) (d_fields d).
Theorem C02_side : forallb (fun d => layout_ok d && no_small_signed d) enc_defs = true.
Proof. vm_compute. reflexivity. Qed.

(* the name -> value dictionaries the encoders use for a LOOKUP field given by name (lookup_dict_encode_<T>) are the
   database's tables inverted (Python dict-literal semantics: a repeated name keeps its first position and takes the
   last value): a name is never encoded to a value the database lists under another name *)
Definition inv_tbl (e : str * list (Z * str)) : str * list (str * Z) :=
  (fst e, dict_of Z.eqb (map (fun vn => (snd vn, fst vn)) (snd e))).
Definition enc_tbl_eqb (a b : str * list (str * Z)) : bool :=
  (fst a =? fst b) && list_eqb (fun x y => (fst x =? fst y) && (snd x =? snd y)) (snd a) (snd b).
Theorem C09_enc_lookups :
  list_eqb enc_tbl_eqb code_enc_lookups (dict_of Z.eqb (map inv_tbl db_lookups)) = true.
Proof. vm_compute. reflexivity. Qed.

(* C02/C09 at the payload level for the code of this run: every encodable definition, every message *)
Theorem C02_bits : forall g d, In g db_groups -> In d (bound_defs g) -> encodable d = true ->
  exists ce, find_fname (fname_of g d) code_enc = Some ce /\ e_length ce = d_length d /\
    forall mf x, run_esteps code_enc_lookups 0 (e_steps ce) mf = Ok x ->
      exists vs, enc_vals code_enc_lookups (d_fields d) mf = Ok vs /\ layout_of vs = db_layout (d_fields d) /\
        forall v off len, In (v, off, len) vs -> decode_int x off len = v mod 2 ^ len.
Proof.
  intros g d Hg Hd En. apply edef_ok_sound; [|exact En|].
  - pose proof C02_tables as T. rewrite forallb_forall in T. specialize (T g Hg).
    unfold group_edefs_ok in T. rewrite forallb_forall in T. apply T. exact Hd.
  - pose proof C02_side as S. rewrite forallb_forall in S.
    assert (I : In d enc_defs).
    { unfold enc_defs. apply filter_In. split; [|exact En]. apply in_flat_map. exists g. tauto. }
    specialize (S d I). apply andb_true_iff in S. tauto.
Qed.
Print Assumptions C02_bits.

(* the hypotheses of C02_float hold for every number / date / time / duration field of every encodable
   definition that is at most 48 bits wide (wider fields: the property only asks for closeness) *)
Definition numeric_params (f : dbfield) : option (Z * bool * num) :=
  match f_bitlen f, f_res f with
  | Some len, Some r =>
      if is_t f T_NUMBER || is_t f T_PGN || is_t f T_DATE || is_t f T_TIME || is_t f T_DURATION
      then Some (len, f_signed f, r) else None
  | _, _ => None
  end.
Definition narrow (x : Z * bool * num) : bool := fst (fst x) <=? 48.
Definition numeric_fields : list (Z * bool * num) := flat_map (fun d => flat_map (fun f => match numeric_params f with Some x => [x] | None => [] end) (d_fields d)) enc_defs.
Theorem C02_numeric_fields :
  forallb (fun x => num_field_okb (fst (fst x)) (snd (fst x)) (snd x)) (filter narrow numeric_fields) = true.
Proof. vm_compute. reflexivity. Qed.

Eval vm_compute in (length numeric_fields, length (filter narrow numeric_fields)).
Eval vm_compute in (length (flat_map bound_defs db_groups), length enc_defs,
                    length (flat_map d_fields enc_defs)).
