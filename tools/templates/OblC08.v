(* OblC08.v — generated-table obligations for C08 (copied into build/gen and compiled on every run;
   GenDb / GenDisp are regenerated from /repo's canboat.json and nmea2000/pgns.py). *)
From NV Require Import Base Defn Dispatch DispatchProofs.
From NVGen Require Import GenDb GenDisp.

Definition db_groups : list (list dbdef) := groups db_defs.

(* kernel computation over all PGN groups of the database (bound = length db_groups, printed below) *)
Theorem C08_tables : forallb (group_ok code_disp code_ids) db_groups = true.
Proof. vm_compute. reflexivity. Qed.

Theorem C08 : forall g, In g db_groups -> in_scope g = true -> forall p,
  code_select code_disp code_ids (group_pgn g) p
  = option_map (fun d => (d_pgn d, d_id d)) (spec_select g p).
Proof.
  intros g Hg. apply group_ok_sound.
  pose proof C08_tables as T. rewrite forallb_forall in T. apply T. exact Hg.
Qed.
Print Assumptions C08.

(* every dispatcher in the code belongs to a database group (no stray dispatcher) *)
Theorem C08_no_stray : forallb (fun d => existsb (fun g => (group_pgn g =? dp_pgn d) && is_dispatched g) db_groups) code_disp = true.
Proof. vm_compute. reflexivity. Qed.

Eval vm_compute in (length db_groups, length (filter is_dispatched db_groups),
                    length (filter in_scope db_groups), length code_disp).
