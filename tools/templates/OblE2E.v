(* OblE2E.v — the END-TO-END theorem for the tables of this run (compiled after OblC01.v and OblC08.v, whose table
   theorems it uses; copied into build/gen and compiled as NVGen.OblE2E on every run).

   E2E_any_entry: for NMEA2000Decoder() (no filter, no manufacturer list, no network map), ANY decoder state in which the
   source of the frame has no claimed identity or one with an ASCII manufacturer name, ANY of the five entry points whose
   front-end accepted the input and handed `_decode` a frame (pgn, prio, src, dst, data) of a single-frame PGN other than
   the address claim (or a frame marked already combined), ANY data: the call returns exactly the message
   `spec_decode` (the database semantics: div/mod bits, two's complement, not-available, resolution, range, lookups,
   metadata) assigns to the definition `spec_select` (the database's Match rule) picks for the little-endian payload
   integer — with source, destination, priority of the frame and the identity the source claimed — or raises what
   `spec_decode` says, and leaves the decoder state unchanged.  Fixed-layout definitions (those C01 covers).
   E2E_single_frame: the instance for decode_tcp on the EByte packet  t :: identifier (4 bytes, big endian) ++ data ++ pad.
   E2E_all_formats: the instance for every rendering of the frame in the five input grammars (those of C07_frontends).
   E2E_no_definition: a dispatched PGN whose payload matches no definition (no fallback): the call returns None.
   E2E_undispatched: a PGN without dispatcher — the bound definition, every payload (no Match rule is consulted).
   E2E_claim: the address claim 60928 — message with the identity built from its fields, source map updated.
   E2E_*_var: the same statements for EVERY definition of the class var_def (SpecVar.v: it contains the fixed-layout
   definitions and, on today's tables, every definition owning a function — variable-length strings, fields without
   BitOffset, BINARY with BitLengthField, INDIRECT_LOOKUP), with `spec_decode_var` (the position-threading specification,
   C01_var) in place of `spec_decode`; on a fixed-layout definition the two expected results are equal
   (EndToEndProofs.e2e_expected_var_simple).  E2E_claim_var is the one that applies to the real address-claim
   definition (its deviceFunction field is an INDIRECT_LOOKUP, so it is not fixed-layout). *)
From NV Require Import Base Bits Defn PyNum Fields Dispatch DispatchProofs Template Spec SpecProofs SpecVar SpecVarProofs
                       Header HeaderProofs PyText Wire WireProofs DecoderCtl EndToEnd EndToEndProofs.
From NVGen Require Import GenDb GenCode GenDisp GenLookups GenDbLookups.
From NVGen Require OblC01 OblC08.

Definition db_groups : list (list dbdef) := groups db_defs.

(* side conditions on the database, decided by the kernel over all groups: every definition of a group carries the
   group's PGN, and every definition id is ASCII *)
Theorem E2E_side :
  forallb (fun g => forallb (fun d => (Defn.d_pgn d =? group_pgn g) && ascii (bytes_of_str (Defn.d_id d))) g) db_groups = true.
Proof. vm_compute. reflexivity. Qed.

(* the two table theorems of this run, restated over this file's `db_groups` (one conversion each) *)
Lemma G_ok : forall g, In g db_groups -> group_ok code_disp code_ids g = true.
Proof. intros g Hg. pose proof OblC08.C08_tables as T. rewrite forallb_forall in T. apply T. exact Hg. Qed.
Lemma C01_here : forall g d, In g db_groups -> In d (bound_defs g) -> simple_def d = true ->
  exists cd, find_fname (fname_of g d) code_dec = Some cd /\
    forall p, run_ddef code_lookups code_bitlookups code_indirect p cd
              = spec_decode (norm_lookups db_lookups) (norm_lookups db_bitlookups) p d.
Proof. intros g d Hg. exact (OblC01.C01 g d Hg). Qed.

Definition SL := norm_lookups db_lookups.
Definition SLB := norm_lookups db_bitlookups.
Definition step := e2e_step code_dec code_disp code_fast code_lookups code_bitlookups code_indirect.

Theorem E2E_any_entry : forall g d, In g db_groups -> in_scope g = true -> In d (bound_defs g) -> simple_def d = true ->
  forall ts_ok st i pgn prio src dst data comb,
  parse_with ts_ok (e_fmt i) (e_data i) = Ok (Some (pgn, prio, src, dst, rev data, comb)) ->
  pgn = group_pgn g -> pgn <> 60928 ->
  (comb = true \/ tbl_is_fast code_fast pgn = Ok (Some false)) ->
  (forall n, zlookup src (srcmap st) = Some n -> mfr_modelled n = true) ->
  spec_select g (le_int data) = Some d ->
  step ts_ok cfg0 st i = (st, e2e_expected SL SLB d (le_int data) src dst prio (zlookup src (srcmap st))).
Proof.
  intros g d Hg Sc Hd S ts_ok st i pgn prio src dst data comb P Ep Hp Hf Hi Sel.
  pose proof (G_ok g Hg) as G.
  pose proof E2E_side as Sd. rewrite forallb_forall in Sd. specialize (Sd g Hg).
  rewrite forallb_forall in Sd. specialize (Sd d (bound_defs_in g d Hd)).
  apply andb_true_iff in Sd. destruct Sd as [Pg A]. apply Z.eqb_eq in Pg.
  unfold step.
  apply (e2e_single_frame_tables code_dec code_disp code_ids code_fast code_lookups code_bitlookups code_indirect
           ts_ok SL SLB g d st i pgn prio src dst data comb); try assumption.
  exact (C01_here g d Hg Hd S).
Qed.
Print Assumptions E2E_any_entry.

Theorem E2E_single_frame : forall g d, In g db_groups -> in_scope g = true -> In d (bound_defs g) -> simple_def d = true ->
  forall ts_ok st id data t pad win,
  0 <= id < 536870912 -> bytes_ok data = true -> Z.land t 15 = zlen data ->
  let '(pgn, src, dst, prio) := extract_header id in
  pgn = group_pgn g -> pgn <> 60928 ->
  tbl_is_fast code_fast pgn = Ok (Some false) ->
  (forall n, zlookup src (srcmap st) = Some n -> mfr_modelled n = true) ->
  spec_select g (le_int data) = Some d ->
  step ts_ok cfg0 st {| e_fmt := WTcp; e_data := t :: be4 id ++ data ++ pad; e_win := win |}
  = (st, e2e_expected SL SLB d (le_int data) src dst prio (zlookup src (srcmap st))).
Proof.
  intros g d Hg Sc Hd S ts_ok st id data t pad win Hid Hb Ht.
  assert (P : parse_tcp (t :: be4 id ++ data ++ pad) = Ok (target id data false))
    by (apply parse_tcp_render; [lia | exact Ht]).
  unfold target in P. destruct (extract_header id) as [[[pgn src] dst] prio].
  intros Ep Hp Hf Hi Sel.
  apply (E2E_any_entry g d Hg Sc Hd S ts_ok st
           {| e_fmt := WTcp; e_data := t :: be4 id ++ data ++ pad; e_win := win |} pgn prio src dst data false);
    [cbn [parse_with e_fmt e_data]; exact P | assumption | assumption | right; exact Hf | assumption | assumption].
Qed.
Print Assumptions E2E_single_frame.

(* every rendering of the frame in the five input grammars (the renderings of C07_frontends) *)
Theorem E2E_all_formats : forall g d, In g db_groups -> in_scope g = true -> In d (bound_defs g) -> simple_def d = true ->
  forall ts_ok st id data win,
  0 <= id < 536870912 -> bytes_ok data = true ->
  let '(pgn, src, dst, prio) := extract_header id in
  pgn = group_pgn g -> pgn <> 60928 ->
  (forall n, zlookup src (srcmap st) = Some n -> mfr_modelled n = true) ->
  spec_select g (le_int data) = Some d ->
  let R := (st, e2e_expected SL SLB d (le_int data) src dst prio (zlookup src (srcmap st))) in
  let run := fun f inp => step ts_ok cfg0 st {| e_fmt := f; e_data := inp; e_win := win |} in
  (tbl_is_fast code_fast pgn = Ok (Some false) ->
     forall t pad, Z.land t 15 = zlen data -> run WTcp (t :: be4 id ++ data ++ pad) = R) /\
  (tbl_is_fast code_fast pgn = Ok (Some false) ->
     forall b2 b3 b4 pad r, (length data + length pad = 8)%nat -> run WUsb (usb_render b2 b3 b4 id data pad r) = R) /\
  (forall ts ptok gtok stok dtok ltok dts extra c,
     (c = true \/ tbl_is_fast code_fast pgn = Ok (Some false)) ->
     basic_ts ts_ok ts -> dec_tok ptok prio -> dec_tok gtok pgn -> dec_tok stok src -> dec_tok dtok dst ->
     dec_tok ltok (zlen data) -> Forall2 (fun t b => tokval 16 t = Some b) dts data ->
     Forall (fun t => nocomma t /\ all_ascii t = true) extra -> dts ++ extra <> [] ->
     run (WBasic c) (basic_line ts ptok gtok stok dtok ltok dts extra) = R) /\
  (data <> [] -> tbl_is_fast code_fast pgn = Ok (Some false) ->
     forall ts dir idt dts tail,
     ts_tok ts_ok 0 ts -> dir_tok dir -> tokval 16 idt = Some id ->
     Forall2 (fun t b => tokval 16 t = Some b) dts data -> forallb is_ws tail = true ->
     run WYd (yd_line ts dir idt dts tail) = R) /\
  (data <> [] ->
     forall sec ms ntok ptok dtoks tail,
     acti_ts_ok sec ms -> tokval 16 ntok = Some (acti_build src dst prio) -> tokval 16 ptok = Some pgn ->
     Forall2 (fun t b => length t = 2%nat /\ tokval 16 t = Some b) dtoks data -> forallb is_ws tail = true ->
     run WActi (acti_line sec ms ntok ptok (concat dtoks) tail) = R).
Proof.
  intros g d Hg Sc Hd S ts_ok st id data win Hid Hb.
  pose proof (frontends ts_ok id data Hid Hb) as F.
  destruct (extract_header id) as [[[pgn src] dst] prio].
  intros Ep Hp Hi Sel. cbv zeta. cbv zeta in F. destruct F as (F1 & F2 & F3 & F4 & F5).
  pose proof (fun i comb => E2E_any_entry g d Hg Sc Hd S ts_ok st i pgn prio src dst data comb) as A.
  repeat split.
  - intros Hf t pad Ht. apply (A _ false); try assumption; [|right; exact Hf].
    cbn [parse_with e_fmt e_data]. apply F1. exact Ht.
  - intros Hf b2 b3 b4 pad r Hl. apply (A _ false); try assumption; [|right; exact Hf].
    cbn [parse_with e_fmt e_data]. apply F2. exact Hl.
  - intros ts ptok gtok stok dtok ltok dts extra c Hc H1 H2 H3 H4 H5 H6 H7 H8 H9. apply (A _ c); try assumption.
    cbn [parse_with e_fmt e_data]. apply F3; assumption.
  - intros Hne Hf ts dir idt dts tail H1 H2 H3 H4 H5. apply (A _ false); try assumption; [|right; exact Hf].
    cbn [parse_with e_fmt e_data]. apply F4; assumption.
  - intros Hne sec ms ntok ptok dtoks tail H1 H2 H3 H4 H5. apply (A _ true); try assumption; [|left; reflexivity].
    cbn [parse_with e_fmt e_data]. apply F5; assumption.
Qed.
Print Assumptions E2E_all_formats.

Theorem E2E_no_definition : forall g, In g db_groups -> is_dispatched g = true ->
  forall ts_ok st i pgn prio src dst data comb,
  parse_with ts_ok (e_fmt i) (e_data i) = Ok (Some (pgn, prio, src, dst, rev data, comb)) ->
  pgn = group_pgn g -> pgn <> 60928 ->
  (comb = true \/ tbl_is_fast code_fast pgn = Ok (Some false)) ->
  (forall n, zlookup src (srcmap st) = Some n -> mfr_modelled n = true) ->
  spec_select g (le_int data) = None ->
  step ts_ok cfg0 st i = (st, Ok None).
Proof.
  intros g Hg D ts_ok st i pgn prio src dst data comb P Ep Hp Hf Hi Sel.
  pose proof (G_ok g Hg) as G.
  unfold step.
  apply (e2e_single_frame_tables_none code_dec code_disp code_ids code_fast code_lookups code_bitlookups code_indirect
           ts_ok g st i pgn prio src dst data comb); assumption.
Qed.
Print Assumptions E2E_no_definition.

(* a PGN without dispatcher: the bound definition decodes EVERY payload (no Match rule is consulted by the code); this
   covers, beyond E2E_any_entry, the single definitions that carry match fields *)
Theorem E2E_undispatched : forall g d, In g db_groups -> is_dispatched g = false -> In d (bound_defs g) -> simple_def d = true ->
  forall ts_ok st i pgn prio src dst data comb,
  parse_with ts_ok (e_fmt i) (e_data i) = Ok (Some (pgn, prio, src, dst, rev data, comb)) ->
  pgn = group_pgn g -> pgn <> 60928 ->
  (comb = true \/ tbl_is_fast code_fast pgn = Ok (Some false)) ->
  (forall n, zlookup src (srcmap st) = Some n -> mfr_modelled n = true) ->
  step ts_ok cfg0 st i = (st, e2e_expected SL SLB d (le_int data) src dst prio (zlookup src (srcmap st))).
Proof.
  intros g d Hg D Hd S ts_ok st i pgn prio src dst data comb P Ep Hp Hf Hi.
  pose proof (G_ok g Hg) as G.
  pose proof E2E_side as Sd. rewrite forallb_forall in Sd. specialize (Sd g Hg).
  rewrite forallb_forall in Sd. specialize (Sd d (bound_defs_in g d Hd)).
  apply andb_true_iff in Sd. destruct Sd as [Pg A]. apply Z.eqb_eq in Pg.
  unfold step.
  apply (e2e_single_frame_tables_undispatched code_dec code_disp code_ids code_fast code_lookups code_bitlookups
           code_indirect ts_ok SL SLB g d st i pgn prio src dst data comb); try assumption.
  exact (C01_here g d Hg Hd S).
Qed.
Print Assumptions E2E_undispatched.

(* the address claim, PGN 60928: the message carries the identity IsoName.__init__ builds from the decoded fields (or the
   stored one when the NAME is unchanged), and the source map is updated — `claim_result` of EndToEndProofs.v *)
Theorem E2E_claim : forall g d, In g db_groups -> group_pgn g = 60928 -> In d (bound_defs g) -> simple_def d = true ->
  forall ts_ok st i prio src dst data comb,
  parse_with ts_ok (e_fmt i) (e_data i) = Ok (Some (60928, prio, src, dst, rev data, comb)) ->
  (comb = true \/ tbl_is_fast code_fast 60928 = Ok (Some false)) ->
  step ts_ok cfg0 st i
  = let sr := claim_result st {| c_pgn := 60928; c_src := src; c_dst := dst; c_data := data; c_win := e_win i |}
                           (spec_dmsg SL SLB (le_int data) d) in
    (fst sr, with_prio prio (snd sr)).
Proof.
  intros g d Hg Eg Hd S ts_ok st i prio src dst data comb P Hf.
  pose proof (G_ok g Hg) as G.
  assert (D : is_dispatched g = false).
  { assert (A : forallb (fun g => negb (group_pgn g =? 60928) || negb (is_dispatched g)) db_groups = true)
      by (vm_compute; reflexivity).
    rewrite forallb_forall in A. specialize (A g Hg). rewrite Eg in A. cbn in A.
    destruct (is_dispatched g); [discriminate | reflexivity]. }
  pose proof E2E_side as Sd. rewrite forallb_forall in Sd. specialize (Sd g Hg).
  rewrite forallb_forall in Sd. specialize (Sd d (bound_defs_in g d Hd)).
  apply andb_true_iff in Sd. destruct Sd as [Pg _]. apply Z.eqb_eq in Pg.
  unfold step.
  apply (e2e_claim_tables code_dec code_disp code_ids code_fast code_lookups code_bitlookups code_indirect ts_ok SL SLB g d
           st i prio src dst data comb); try assumption.
  exact (C01_here g d Hg Hd S).
Qed.
Print Assumptions E2E_claim.

(* ====================================================================================================== *)
(* the same for every definition of the class var_def, against the position-threading specification        *)
(* ====================================================================================================== *)
Definition SLI := norm_ilookups db_indirect.
Lemma C01_var_here : forall g d, In g db_groups -> In d (bound_defs g) -> var_def d = true ->
  exists cd, find_fname (fname_of g d) code_dec = Some cd /\
    forall p, run_ddef code_lookups code_bitlookups code_indirect p cd = spec_decode_var SL SLB SLI p d.
Proof. intros g d Hg. exact (OblC01.C01_var g d Hg). Qed.

Theorem E2E_any_entry_var : forall g d, In g db_groups -> in_scope g = true -> In d (bound_defs g) -> var_def d = true ->
  forall ts_ok st i pgn prio src dst data comb,
  parse_with ts_ok (e_fmt i) (e_data i) = Ok (Some (pgn, prio, src, dst, rev data, comb)) ->
  pgn = group_pgn g -> pgn <> 60928 ->
  (comb = true \/ tbl_is_fast code_fast pgn = Ok (Some false)) ->
  (forall n, zlookup src (srcmap st) = Some n -> mfr_modelled n = true) ->
  spec_select g (le_int data) = Some d ->
  step ts_ok cfg0 st i = (st, e2e_expected_var SL SLB SLI d (le_int data) src dst prio (zlookup src (srcmap st))).
Proof.
  intros g d Hg Sc Hd S ts_ok st i pgn prio src dst data comb P Ep Hp Hf Hi Sel.
  pose proof (G_ok g Hg) as G.
  pose proof E2E_side as Sd. rewrite forallb_forall in Sd. specialize (Sd g Hg).
  rewrite forallb_forall in Sd. specialize (Sd d (bound_defs_in g d Hd)).
  apply andb_true_iff in Sd. destruct Sd as [Pg A]. apply Z.eqb_eq in Pg.
  unfold step, e2e_expected_var.
  apply (e2e_single_frame_tables_of code_dec code_disp code_ids code_fast code_lookups code_bitlookups code_indirect
           ts_ok (spec_decode_var SL SLB SLI) g d st i pgn prio src dst data comb (spec_head_var SL SLB SLI)); try assumption.
  exact (C01_var_here g d Hg Hd S).
Qed.
Print Assumptions E2E_any_entry_var.

Theorem E2E_single_frame_var : forall g d, In g db_groups -> in_scope g = true -> In d (bound_defs g) -> var_def d = true ->
  forall ts_ok st id data t pad win,
  0 <= id < 536870912 -> bytes_ok data = true -> Z.land t 15 = zlen data ->
  let '(pgn, src, dst, prio) := extract_header id in
  pgn = group_pgn g -> pgn <> 60928 ->
  tbl_is_fast code_fast pgn = Ok (Some false) ->
  (forall n, zlookup src (srcmap st) = Some n -> mfr_modelled n = true) ->
  spec_select g (le_int data) = Some d ->
  step ts_ok cfg0 st {| e_fmt := WTcp; e_data := t :: be4 id ++ data ++ pad; e_win := win |}
  = (st, e2e_expected_var SL SLB SLI d (le_int data) src dst prio (zlookup src (srcmap st))).
Proof.
  intros g d Hg Sc Hd S ts_ok st id data t pad win Hid Hb Ht.
  assert (P : parse_tcp (t :: be4 id ++ data ++ pad) = Ok (target id data false))
    by (apply parse_tcp_render; [lia | exact Ht]).
  unfold target in P. destruct (extract_header id) as [[[pgn src] dst] prio].
  intros Ep Hp Hf Hi Sel.
  apply (E2E_any_entry_var g d Hg Sc Hd S ts_ok st
           {| e_fmt := WTcp; e_data := t :: be4 id ++ data ++ pad; e_win := win |} pgn prio src dst data false);
    [cbn [parse_with e_fmt e_data]; exact P | assumption | assumption | right; exact Hf | assumption | assumption].
Qed.
Print Assumptions E2E_single_frame_var.

Theorem E2E_all_formats_var : forall g d, In g db_groups -> in_scope g = true -> In d (bound_defs g) -> var_def d = true ->
  forall ts_ok st id data win,
  0 <= id < 536870912 -> bytes_ok data = true ->
  let '(pgn, src, dst, prio) := extract_header id in
  pgn = group_pgn g -> pgn <> 60928 ->
  (forall n, zlookup src (srcmap st) = Some n -> mfr_modelled n = true) ->
  spec_select g (le_int data) = Some d ->
  let R := (st, e2e_expected_var SL SLB SLI d (le_int data) src dst prio (zlookup src (srcmap st))) in
  let run := fun f inp => step ts_ok cfg0 st {| e_fmt := f; e_data := inp; e_win := win |} in
  (tbl_is_fast code_fast pgn = Ok (Some false) ->
     forall t pad, Z.land t 15 = zlen data -> run WTcp (t :: be4 id ++ data ++ pad) = R) /\
  (tbl_is_fast code_fast pgn = Ok (Some false) ->
     forall b2 b3 b4 pad r, (length data + length pad = 8)%nat -> run WUsb (usb_render b2 b3 b4 id data pad r) = R) /\
  (forall ts ptok gtok stok dtok ltok dts extra c,
     (c = true \/ tbl_is_fast code_fast pgn = Ok (Some false)) ->
     basic_ts ts_ok ts -> dec_tok ptok prio -> dec_tok gtok pgn -> dec_tok stok src -> dec_tok dtok dst ->
     dec_tok ltok (zlen data) -> Forall2 (fun t b => tokval 16 t = Some b) dts data ->
     Forall (fun t => nocomma t /\ all_ascii t = true) extra -> dts ++ extra <> [] ->
     run (WBasic c) (basic_line ts ptok gtok stok dtok ltok dts extra) = R) /\
  (data <> [] -> tbl_is_fast code_fast pgn = Ok (Some false) ->
     forall ts dir idt dts tail,
     ts_tok ts_ok 0 ts -> dir_tok dir -> tokval 16 idt = Some id ->
     Forall2 (fun t b => tokval 16 t = Some b) dts data -> forallb is_ws tail = true ->
     run WYd (yd_line ts dir idt dts tail) = R) /\
  (data <> [] ->
     forall sec ms ntok ptok dtoks tail,
     acti_ts_ok sec ms -> tokval 16 ntok = Some (acti_build src dst prio) -> tokval 16 ptok = Some pgn ->
     Forall2 (fun t b => length t = 2%nat /\ tokval 16 t = Some b) dtoks data -> forallb is_ws tail = true ->
     run WActi (acti_line sec ms ntok ptok (concat dtoks) tail) = R).
Proof.
  intros g d Hg Sc Hd S ts_ok st id data win Hid Hb.
  pose proof (frontends ts_ok id data Hid Hb) as F.
  destruct (extract_header id) as [[[pgn src] dst] prio].
  intros Ep Hp Hi Sel. cbv zeta. cbv zeta in F. destruct F as (F1 & F2 & F3 & F4 & F5).
  pose proof (fun i comb => E2E_any_entry_var g d Hg Sc Hd S ts_ok st i pgn prio src dst data comb) as A.
  repeat split.
  - intros Hf t pad Ht. apply (A _ false); try assumption; [|right; exact Hf].
    cbn [parse_with e_fmt e_data]. apply F1. exact Ht.
  - intros Hf b2 b3 b4 pad r Hl. apply (A _ false); try assumption; [|right; exact Hf].
    cbn [parse_with e_fmt e_data]. apply F2. exact Hl.
  - intros ts ptok gtok stok dtok ltok dts extra c Hc H1 H2 H3 H4 H5 H6 H7 H8 H9. apply (A _ c); try assumption.
    cbn [parse_with e_fmt e_data]. apply F3; assumption.
  - intros Hne Hf ts dir idt dts tail H1 H2 H3 H4 H5. apply (A _ false); try assumption; [|right; exact Hf].
    cbn [parse_with e_fmt e_data]. apply F4; assumption.
  - intros Hne sec ms ntok ptok dtoks tail H1 H2 H3 H4 H5. apply (A _ true); try assumption; [|left; reflexivity].
    cbn [parse_with e_fmt e_data]. apply F5; assumption.
Qed.
Print Assumptions E2E_all_formats_var.

Theorem E2E_undispatched_var : forall g d, In g db_groups -> is_dispatched g = false -> In d (bound_defs g) -> var_def d = true ->
  forall ts_ok st i pgn prio src dst data comb,
  parse_with ts_ok (e_fmt i) (e_data i) = Ok (Some (pgn, prio, src, dst, rev data, comb)) ->
  pgn = group_pgn g -> pgn <> 60928 ->
  (comb = true \/ tbl_is_fast code_fast pgn = Ok (Some false)) ->
  (forall n, zlookup src (srcmap st) = Some n -> mfr_modelled n = true) ->
  step ts_ok cfg0 st i = (st, e2e_expected_var SL SLB SLI d (le_int data) src dst prio (zlookup src (srcmap st))).
Proof.
  intros g d Hg D Hd S ts_ok st i pgn prio src dst data comb P Ep Hp Hf Hi.
  pose proof (G_ok g Hg) as G.
  pose proof E2E_side as Sd. rewrite forallb_forall in Sd. specialize (Sd g Hg).
  rewrite forallb_forall in Sd. specialize (Sd d (bound_defs_in g d Hd)).
  apply andb_true_iff in Sd. destruct Sd as [Pg A]. apply Z.eqb_eq in Pg.
  unfold step, e2e_expected_var.
  apply (e2e_single_frame_tables_undispatched_of code_dec code_disp code_ids code_fast code_lookups code_bitlookups
           code_indirect ts_ok (spec_decode_var SL SLB SLI) g d st i pgn prio src dst data comb (spec_head_var SL SLB SLI));
    try assumption.
  exact (C01_var_here g d Hg Hd S).
Qed.
Print Assumptions E2E_undispatched_var.

(* the address claim: the database definition of PGN 60928 carries an INDIRECT_LOOKUP (deviceFunction, keyed by
   deviceClass), so this — not E2E_claim — is the statement that applies to it *)
Theorem E2E_claim_var : forall g d, In g db_groups -> group_pgn g = 60928 -> In d (bound_defs g) -> var_def d = true ->
  forall ts_ok st i prio src dst data comb,
  parse_with ts_ok (e_fmt i) (e_data i) = Ok (Some (60928, prio, src, dst, rev data, comb)) ->
  (comb = true \/ tbl_is_fast code_fast 60928 = Ok (Some false)) ->
  step ts_ok cfg0 st i
  = let sr := claim_result st {| c_pgn := 60928; c_src := src; c_dst := dst; c_data := data; c_win := e_win i |}
                           (spec_dmsg_var SL SLB SLI (le_int data) d) in
    (fst sr, with_prio prio (snd sr)).
Proof.
  intros g d Hg Eg Hd S ts_ok st i prio src dst data comb P Hf.
  pose proof (G_ok g Hg) as G.
  assert (D : is_dispatched g = false).
  { assert (A : forallb (fun g => negb (group_pgn g =? 60928) || negb (is_dispatched g)) db_groups = true)
      by (vm_compute; reflexivity).
    rewrite forallb_forall in A. specialize (A g Hg). rewrite Eg in A. cbn in A.
    destruct (is_dispatched g); [discriminate | reflexivity]. }
  pose proof E2E_side as Sd. rewrite forallb_forall in Sd. specialize (Sd g Hg).
  rewrite forallb_forall in Sd. specialize (Sd d (bound_defs_in g d Hd)).
  apply andb_true_iff in Sd. destruct Sd as [Pg _]. apply Z.eqb_eq in Pg.
  unfold step, spec_dmsg_var.
  apply (e2e_claim_tables_of code_dec code_disp code_ids code_fast code_lookups code_bitlookups code_indirect ts_ok
           (spec_decode_var SL SLB SLI) g d st i prio src dst data comb (spec_head_var SL SLB SLI)); try assumption.
  exact (C01_var_here g d Hg Hd S).
Qed.
Print Assumptions E2E_claim_var.

(* ---- coverage: groups; in scope; (group, bound definition) pairs; of which fixed-layout and in scope (covered by
        E2E_any_entry); of which their PGN is single-frame in the code (covered through the frame-by-frame entry points
        too; the others through the already-combined entry points) ---- *)
Definition covered : list (list dbdef * dbdef) :=
  flat_map (fun g => if in_scope g then map (fun d => (g, d)) (filter simple_def (bound_defs g)) else []) db_groups.
(* (group, bound definition) pairs covered by E2E_any_entry or E2E_undispatched *)
Definition covered_all : list (list dbdef * dbdef) :=
  flat_map (fun g => if in_scope g || negb (is_dispatched g) then map (fun d => (g, d)) (filter simple_def (bound_defs g)) else [])
           db_groups.
Eval vm_compute in (88888%Z, length covered_all).
(* the same for the _var theorems: pairs covered by E2E_any_entry_var; by it or E2E_undispatched_var (+ E2E_claim_var for
   60928); of the former, single-frame in the code; of the latter, not fixed-layout; bound definitions of PGN 60928 in
   var_def / fixed-layout *)
Definition covered_var : list (list dbdef * dbdef) :=
  flat_map (fun g => if in_scope g then map (fun d => (g, d)) (filter var_def (bound_defs g)) else []) db_groups.
Definition covered_all_var : list (list dbdef * dbdef) :=
  flat_map (fun g => if in_scope g || negb (is_dispatched g) then map (fun d => (g, d)) (filter var_def (bound_defs g)) else [])
           db_groups.
Eval vm_compute in
  (88889%Z, length covered_var, length covered_all_var,
   length (filter (fun gd => match tbl_is_fast code_fast (group_pgn (fst gd)) with Ok (Some false) => true | _ => false end) covered_var),
   length (filter (fun gd => negb (simple_def (snd gd))) covered_all_var),
   length (filter (fun gd => group_pgn (fst gd) =? 60928) covered_all_var),
   length (filter (fun gd => group_pgn (fst gd) =? 60928) covered_all)).
Eval vm_compute in
  (length db_groups, length (filter in_scope db_groups), length (flat_map bound_defs db_groups), length covered,
   length (filter (fun gd => match tbl_is_fast code_fast (group_pgn (fst gd)) with Ok (Some false) => true | _ => false end) covered)).

(* ---- non-vacuity: PGN 127250 (Vessel Heading), priority 2, source 35, on a fresh decoder ---- *)
Definition ex_id : Z := 2 * 67108864 + 127250 * 256 + 35.
Definition ex_data : list Z := [1; 16; 39; 0; 0; 255; 127; 253].
Definition ex_g : list dbdef := match find (fun g => group_pgn g =? 127250) db_groups with Some g => g | None => [] end.
Example E2E_nonvacuous :
  exists d, In ex_g db_groups /\ in_scope ex_g = true /\ In d (bound_defs ex_g) /\ simple_def d = true /\
    extract_header ex_id = (127250, 35, 255, 2) /\ 127250 = group_pgn ex_g /\
    tbl_is_fast code_fast 127250 = Ok (Some false) /\ spec_select ex_g (le_int ex_data) = Some d /\
    exists m, step (fun _ _ => false) cfg0 init {| e_fmt := WTcp; e_data := 136 :: be4 ex_id ++ ex_data; e_win := false |}
              = (init, Ok (Some (m, 2))) /\ DecoderCtl.m_pgn m = 127250 /\ m_src m = 35 /\ m_dst m = 255.
Proof.
  assert (Hg : In ex_g db_groups).
  { unfold ex_g. destruct (find (fun g => group_pgn g =? 127250) db_groups) as [g|] eqn:F.
    - apply find_some in F. tauto.
    - exfalso. vm_compute in F. discriminate. }
  destruct (spec_select ex_g (le_int ex_data)) as [d|] eqn:S; [|exfalso; vm_compute in S; discriminate].
  exists d. split; [exact Hg|]. split; [vm_compute; reflexivity|].
  assert (Hd : In d (bound_defs ex_g)).
  { assert (B : bound_defs ex_g = ex_g) by (vm_compute; reflexivity). rewrite B. exact (spec_select_in _ _ _ S). }
  split; [exact Hd|].
  assert (Sd : simple_def d = true).
  { assert (A : forallb simple_def ex_g = true) by (vm_compute; reflexivity).
    rewrite forallb_forall in A. apply A. exact (spec_select_in _ _ _ S). }
  split; [exact Sd|]. split; [vm_compute; reflexivity|]. split; [vm_compute; reflexivity|].
  split; [vm_compute; reflexivity|]. split; [reflexivity|].
  pose proof (E2E_single_frame ex_g d Hg eq_refl Hd Sd (fun _ _ => false) init ex_id ex_data 136 [] false) as T.
  assert (X : extract_header ex_id = (127250, 35, 255, 2)) by (vm_compute; reflexivity).
  rewrite X in T. rewrite app_nil_r in T.
  rewrite T; [| unfold ex_id; lia | reflexivity | reflexivity | vm_compute; reflexivity | discriminate | vm_compute; reflexivity
              | intros n Hn; discriminate | exact S].
  unfold e2e_expected.
  destruct (spec_decode SL SLB (le_int ex_data) d) as [m| |] eqn:E.
  - eexists. split; [reflexivity|]. cbn [DecoderCtl.m_pgn m_src m_dst].
    split; [|split; reflexivity].
    assert (Pg : forallb (fun d => Defn.d_pgn d =? 127250) ex_g = true) by (vm_compute; reflexivity).
    rewrite forallb_forall in Pg. apply Z.eqb_eq. apply Pg. exact (spec_select_in _ _ _ S).
  - exfalso. revert E. generalize (spec_select_in _ _ _ S). intros I.
    assert (A : forallb (fun d => match spec_decode SL SLB (le_int ex_data) d with Ok _ => true | _ => false end) ex_g = true)
      by (vm_compute; reflexivity).
    rewrite forallb_forall in A. specialize (A d I). intros E. rewrite E in A. discriminate.
  - exfalso. generalize (spec_select_in _ _ _ S). intros I.
    assert (A : forallb (fun d => match spec_decode SL SLB (le_int ex_data) d with Ok _ => true | _ => false end) ex_g = true)
      by (vm_compute; reflexivity).
    rewrite forallb_forall in A. specialize (A d I). rewrite E in A. discriminate.
Qed.

(* ---- non-vacuity of the _var theorems: PGN 126998 (Configuration Information: three STRING_LAU, only the first with
        a BitOffset), the line of tests/test_decoder.py::test_STRING_LAU_parse given to decode_basic_string(line, True):
        "2021-01-30-20:43:21.684,6,126998,1,255,19,07,01,68,65,6C,6C,6F,0c,00,77,00,F3,00,72,00,6C,00,64,00"
        = 07 01 "hello" | 0c 00 "wórld" in UTF-16 | nothing.  The front-end model parses the text to the frame, the
        database selects the definition, E2E_any_entry_var gives the returned message, and its body is the serialisation
        of the message whose field values are 'hello', 'wórld', None. ---- *)
Definition ex_vline : list Z :=
  [50;48;50;49;45;48;49;45;51;48;45;50;48;58;52;51;58;50;49;46;54;56;52;44;54;44;49;50;54;57;57;56;44;49;44;50;53;53;44;49;57;44;
   48;55;44;48;49;44;54;56;44;54;53;44;54;67;44;54;67;44;54;70;44;48;99;44;48;48;44;55;55;44;48;48;44;70;51;44;48;48;44;55;50;44;
   48;48;44;54;67;44;48;48;44;54;52;44;48;48].
Definition ex_vdata : list Z := [7; 1; 104; 101; 108; 108; 111; 12; 0; 119; 0; 243; 0; 114; 0; 108; 0; 100; 0].
Definition ex_vg : list dbdef := match find (fun g => group_pgn g =? 126998) db_groups with Some g => g | None => [] end.
Definition ex_vin : einput := {| e_fmt := WBasic true; e_data := ex_vline; e_win := false |}.
Definition vtext_is (v : value) (b : list Z) : bool := match v with VText t => list_eqb Z.eqb t b | _ => false end.
Definition ex_vtexts (m : Fields.msg) : bool :=
  match map fl_val (m_fields m) with
  | [a; b; VNone] => vtext_is a [104; 101; 108; 108; 111] && vtext_is b [119; 195; 179; 114; 108; 100]
  | _ => false
  end.
Example E2E_var_nonvacuous :
  exists d m', In ex_vg db_groups /\ in_scope ex_vg = true /\ In d (bound_defs ex_vg) /\
    var_def d = true /\ simple_def d = false /\
    parse_with (fun _ _ => true) (WBasic true) ex_vline = Ok (Some (126998, 6, 1, 255, rev ex_vdata, true)) /\
    spec_select ex_vg (le_int ex_vdata) = Some d /\
    spec_decode_var SL SLB SLI (le_int ex_vdata) d = Ok m' /\ ex_vtexts m' = true /\
    step (fun _ _ => true) cfg0 init ex_vin
    = (init, Ok (Some ({| DecoderCtl.m_pgn := 126998; DecoderCtl.m_id := bytes_of_str (Defn.d_id d);
                          m_src := 1; m_dst := 255; m_iso := None; m_body := ser_msg m' |}, 6))).
Proof.
  assert (Hg : In ex_vg db_groups).
  { unfold ex_vg. destruct (find (fun g => group_pgn g =? 126998) db_groups) as [g|] eqn:F.
    - apply find_some in F. tauto.
    - exfalso. vm_compute in F. discriminate. }
  destruct (spec_select ex_vg (le_int ex_vdata)) as [d|] eqn:S; [|exfalso; vm_compute in S; discriminate].
  pose proof (spec_select_in _ _ _ S) as I.
  assert (A : forallb (fun d => var_def d && negb (simple_def d) && (Defn.d_pgn d =? 126998)
                                && match spec_decode_var SL SLB SLI (le_int ex_vdata) d with Ok m => ex_vtexts m | _ => false end)
                      ex_vg = true) by (vm_compute; reflexivity).
  rewrite forallb_forall in A. specialize (A d I).
  apply andb_true_iff in A. destruct A as [A At]. apply andb_true_iff in A. destruct A as [A Ap].
  apply andb_true_iff in A. destruct A as [Av As]. apply negb_true_iff in As. apply Z.eqb_eq in Ap.
  destruct (spec_decode_var SL SLB SLI (le_int ex_vdata) d) as [m'| |] eqn:E; try discriminate At.
  exists d, m'. split; [exact Hg|]. split; [vm_compute; reflexivity|].
  assert (Hd : In d (bound_defs ex_vg)).
  { assert (B : bound_defs ex_vg = ex_vg) by (vm_compute; reflexivity). rewrite B. exact I. }
  split; [exact Hd|]. split; [exact Av|]. split; [exact As|].
  assert (P : parse_with (fun _ _ => true) (WBasic true) ex_vline = Ok (Some (126998, 6, 1, 255, rev ex_vdata, true)))
    by (vm_compute; reflexivity).
  split; [exact P|]. split; [reflexivity|]. split; [exact E|]. split; [exact At|].
  rewrite (E2E_any_entry_var ex_vg d Hg eq_refl Hd Av (fun _ _ => true) init ex_vin 126998 6 1 255 ex_vdata true P);
    [| vm_compute; reflexivity | discriminate | left; reflexivity | intros n Hn; discriminate | exact S].
  unfold e2e_expected_var, e2e_expected_of. rewrite E, Ap. reflexivity.
Qed.
