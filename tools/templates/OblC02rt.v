(* OblC02rt.v — C02 end to end for the regenerated tables (compiled after OblC01.v and OblC02.v, whose
   table theorems it uses). *)
From NV Require Import Base Bits Defn PyNum Fields Dispatch Template TemplateEnc Encode Spec SpecProofs EncodeProofs FloatRT RoundTrip.
From NVGen Require Import GenDb GenCode GenLookups GenDbLookups.
From NVGen Require OblC01 OblC02.
Import OblC02.

(* C02 END TO END for the code of this run.  rt_defs: the encodable definitions whose every field has a
   fixed position, whose number/date/time/duration fields satisfy the hypotheses of C02_float (at most 48
   bits, ordinary resolution) and whose field ids are pairwise different.  For each of them and EVERY
   payload p: whatever message the generated decoder returns for p, the generated encoder run on that
   message writes an integer that agrees with p on every field that is not a FLOAT (binary32) field; and
   it does return one when the definition has no FLOAT field. *)
Definition rt_defs : list dbdef := filter (fun d => simple_def d && rt_def_ok d) enc_defs.
Theorem C02_roundtrip : forall g d, In g db_groups -> In d (bound_defs g) -> In d rt_defs ->
  exists cd ce, find_fname (fname_of g d) code_dec = Some cd /\ find_fname (fname_of g d) code_enc = Some ce /\
    forall p m, run_ddef code_lookups code_bitlookups code_indirect p cd = Ok m ->
      (forall x, run_esteps code_enc_lookups 0 (e_steps ce) (m_fields m) = Ok x ->
         forall f off len, In f (d_fields d) -> f_bitoff f = Some off -> f_bitlen f = Some len ->
           exact_field f = true -> decode_int x off len = decode_int p off len) /\
      (no_float d = true -> exists x, run_esteps code_enc_lookups 0 (e_steps ce) (m_fields m) = Ok x).
Proof.
  intros g d Hg Hd Hr. unfold rt_defs in Hr.
  destruct (proj1 (filter_In (fun d => simple_def d && rt_def_ok d) d enc_defs) Hr) as [He Hr']. clear Hr. rename Hr' into Hr.
  apply andb_true_iff in Hr. destruct Hr as [Sd Rt].
  assert (En : encodable d = true) by exact (proj2 (proj1 (filter_In encodable d (flat_map bound_defs db_groups)) He)).
  (* decoder side: the generated decoder is spec_decode *)
  destruct OblC01.C01_lookups as [E1 [E2 _]].
  assert (Dd : def_ok code_dec g d = true).
  { pose proof OblC01.C01_tables as T. rewrite forallb_forall in T. specialize (T g Hg).
    unfold group_defs_ok in T. rewrite forallb_forall in T. apply T. exact Hd. }
  destruct (def_ok_sound code_dec (norm_lookups db_lookups) (norm_lookups db_bitlookups) code_indirect g d Dd Sd) as [cd [Fd Sp]].
  (* encoder side *)
  assert (De : edef_ok code_enc g d = true).
  { pose proof C02_tables as T. rewrite forallb_forall in T. specialize (T g Hg).
    unfold group_edefs_ok in T. rewrite forallb_forall in T. apply T. exact Hd. }
  assert (Lo : layout_ok d = true).
  { pose proof C02_side as S. rewrite forallb_forall in S.
    assert (I : In d enc_defs).
    { unfold enc_defs. apply filter_In. split; [|exact En]. apply in_flat_map. exists g. tauto. }
    specialize (S d I). apply andb_true_iff in S. tauto. }
  destruct (roundtrip_def code_enc code_enc_lookups (norm_lookups db_lookups) (norm_lookups db_bitlookups) g d De En Lo Rt)
    as [ce [Fe Rd]].
  exists cd, ce. split; [exact Fd|]. split; [exact Fe|].
  intros p m Run. rewrite <- E1, <- E2 in Run. rewrite Sp in Run.
  destruct (Rd p m Run) as [R1 R2]. split; [|exact R2].
  intros x Rx f off len Hin Eo El Ex. rewrite (R1 x Rx f off len Hin Eo El Ex).
  symmetry. apply decode_int_bits.
  - assert (Sf : simple_field f = true) by (unfold simple_def in Sd; rewrite forallb_forall in Sd; apply Sd; exact Hin).
    unfold simple_field in Sf. rewrite Eo, El in Sf. apply andb_true_iff in Sf. destruct Sf as [Sf _].
    apply andb_true_iff in Sf. destruct Sf as [Sf _]. apply andb_true_iff in Sf. destruct Sf as [Sf _].
    apply andb_true_iff in Sf. destruct Sf as [Sf _]. apply Z.leb_le in Sf. exact Sf.
  - assert (Sf : simple_field f = true) by (unfold simple_def in Sd; rewrite forallb_forall in Sd; apply Sd; exact Hin).
    unfold simple_field in Sf. rewrite Eo, El in Sf. apply andb_true_iff in Sf. destruct Sf as [Sf _].
    apply andb_true_iff in Sf. destruct Sf as [Sf _]. apply andb_true_iff in Sf. destruct Sf as [Sf _].
    apply andb_true_iff in Sf. destruct Sf as [_ Sf]. apply Z.leb_le in Sf. lia.
Qed.
Print Assumptions C02_roundtrip.
(* coverage of C02_roundtrip: encodable definitions, of which covered; fields of covered definitions, of which exact *)
Eval vm_compute in (length enc_defs, length rt_defs, length (filter no_float rt_defs),
                    length (flat_map d_fields rt_defs), length (filter exact_field (flat_map d_fields rt_defs))).
(* the encodable definitions NOT covered, with the reason: (pgn, not fixed-layout, field conditions fail, duplicate ids) *)
Eval vm_compute in map (fun d => (d_pgn d, negb (simple_def d), negb (forallb rt_field_ok (d_fields d)), negb (ids_nodup (map field_id (d_fields d)))))
                       (filter (fun d => negb (simple_def d && rt_def_ok d)) enc_defs).

