(* OblC17.v — generated-table obligations for C17 (copied into build/gen and compiled on every run;
   GenCode is regenerated from /repo's nmea2000/pgns.py, GenDb from /repo's canboat.json). *)
From NV Require Import Base Defn Message MessageProofs.
From NVGen Require Import GenCode GenDb.
From Coq Require Import PrimFloat.

Definition T_STRING_FIX := 0x1535452494e475f464958.
Definition T_STRING_LZ := 0x1535452494e475f4c5a.
Definition T_STRING_LAU := 0x1535452494e475f4c4155.
Definition T_NUMBER := 0x14e554d424552.
Definition T_LOOKUP := 0x14c4f4f4b5550.
Definition T_MMSI := 0x14d4d5349.

(* kind of raw value a key field of this FieldType carries; any other type as a key: fail closed *)
Definition kind_of_ftype (t : Defn.str) : option kkind :=
  if (t =? T_STRING_FIX) || (t =? T_STRING_LZ) || (t =? T_STRING_LAU) then Some KText
  else if (t =? T_NUMBER) || (t =? T_LOOKUP) || (t =? T_MMSI) then Some KNum
  else None.

(* FieldTypes of the fields the code appends with part_of_primary_key=True, in order *)
Definition key_types (d : ddef) : list Defn.str :=
  flat_map (fun s => match s with SAppend _ _ _ _ _ ft true => [ft] | _ => [] end) (c_steps d).
Definition def_sig (d : ddef) : list kkind :=
  flat_map (fun t => match kind_of_ftype t with Some k => [k] | None => [] end) (key_types d).
Definition def_ok (d : ddef) : bool :=
  no_us (str_bytes (c_id d)) &&
  forallb (fun t => match kind_of_ftype t with Some _ => true | None => false end) (key_types d) &&
  sig_ok (def_sig d).

(* (1) no id contains '_'; every key field has a supported type; a text-valued key field is the last key
   field of its definition — all definitions of the code table (bound printed below) *)
Theorem C17_tables : forallb (fun p => def_ok (snd p)) code_dec = true.
Proof. vm_compute. reflexivity. Qed.

Fixpoint dups (l : list Z) : list Z :=
  match l with [] => [] | x :: r => if existsb (Z.eqb x) r then x :: dups r else dups r end.
(* (2) ids identify definitions *)
Theorem C17_ids_unique : dups (map (fun p => c_id (snd p)) code_dec) = [].
Proof. vm_compute. reflexivity. Qed.

(* (3) the primary-key flag of every appended field equals the database's PartOfPrimaryKey (absent = False).
   A decoder that raises on an unsupported field type appends only the fields before it: prefix. *)
Definition code_pk (d : ddef) : list bool :=
  flat_map (fun s => match s with SAppend _ _ _ _ _ _ pk => [pk] | _ => [] end) (c_steps d).
Definition raises (d : ddef) : bool := existsb (fun s => match s with SRaise => true | _ => false end) (c_steps d).
Definition db_pk (d : dbdef) : list bool :=
  map (fun f => match Defn.f_pk f with Some b => b | None => false end) (d_fields d).
Definition find_db (pgn : Z) (id : Defn.str) : option dbdef :=
  find (fun d => (d_pgn d =? pgn) && (d_id d =? id)) db_defs.
Definition pk_ok (d : ddef) : bool :=
  match find_db (c_pgn d) (c_id d) with
  | Some db => list_eqb Bool.eqb (code_pk d) (firstn (length (code_pk d)) (db_pk db)) &&
               (raises d || Nat.eqb (length (code_pk d)) (length (db_pk db)))
  | None => false
  end.
Theorem C17_pk_tables : forallb (fun p => pk_ok (snd p)) code_dec = true.
Proof. vm_compute. reflexivity. Qed.
(* the signature table of the generated code *)
Definition sig_of_table (i : bytes) : list kkind :=
  match find (fun p => bytes_eqb (str_bytes (c_id (snd p))) i) code_dec with
  | Some p => def_sig (snd p)
  | None => []
  end.
Lemma sig_of_table_ok i : sig_ok (sig_of_table i) = true.
Proof.
  unfold sig_of_table. destruct (find _ code_dec) as [p|] eqn:F; [|reflexivity].
  apply find_some in F. destruct F as [I _]. pose proof C17_tables as T. rewrite forallb_forall in T.
  specialize (T _ I). unfold def_ok in T. apply andb_true_iff in T. tauto.
Qed.

(* C17 for the definitions of this very pgns.py: the hash key is injective in (id, key raw values), and
   hashes differ when md5 does not collide on the two keys *)
Theorem C17_key_injective_table :
  forall (py_str_float : float -> bytes),
    (forall a b, py_str_float a = py_str_float b -> a = b) ->
    (forall a, no_us (py_str_float a) = true) ->
    (forall a z, py_str_float a <> py_str_int z) ->
    (forall a, py_str_float a <> s_None) ->
  forall m1 m2 k, conf_b sig_of_table m1 = true -> conf_b sig_of_table m2 = true ->
    hash_key py_str_float m1 = Ok k -> hash_key py_str_float m2 = Ok k ->
    m_id m1 = m_id m2 /\ key_raws m1 = key_raws m2.
Proof.
  intros psf H1 H2 H3 H4. apply (hash_key_injective psf H1 H2 H3 H4 sig_of_table). exact sig_of_table_ok.
Qed.
Print Assumptions C17_key_injective_table.

Eval vm_compute in (length code_dec, length db_defs,
                    length (filter (fun p => negb (Nat.eqb (length (key_types (snd p))) 0)) code_dec),
                    length (flat_map (fun p => key_types (snd p)) code_dec)).
