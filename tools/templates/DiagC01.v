From NV Require Import Base Bits Defn PyNum Fields Dispatch Template Spec.
From NVGen Require Import GenDb GenCode GenLookups GenDbLookups.
Definition db_groups : list (list dbdef) := groups db_defs.
(* (PGN, id, index of the first differing step) for every definition whose code differs from the template *)
Fixpoint first_diff (a b : list dstep) (i : Z) : Z :=
  match a, b with
  | [], [] => -1
  | x :: a', y :: b' => if dstep_eqb x y then first_diff a' b' (i + 1) else i
  | _, _ => i
  end.
Definition diag (g : list dbdef) (d : dbdef) : Z * str * Z :=
  match find_fname (fname_of g d) code_dec, ddef_of_db d with
  | Some cd, Some td => (d_pgn d, d_id d, first_diff (c_steps cd) (c_steps td) 0)
  | None, _ => (d_pgn d, d_id d, -2)
  | _, None => (d_pgn d, d_id d, -3)
  end.
Eval vm_compute in flat_map (fun g => map (diag g) (filter (fun d => negb (def_ok code_dec g d)) (bound_defs g))) db_groups.
Eval vm_compute in (no_stray code_dec db_groups,
  list_eqb (fun a b => fst a =? fst b) (norm_lookups db_lookups) code_lookups).
