(* OblC12.v — C12 for the code of this run, EByte client: the universally quantified `decode` of props/C12.v is
   instantiated with the COMPOSED decoder of the regenerated tables (EndToEnd.e2e_step through decode_tcp: front-end,
   filters, identity, fast-packet reassembly, dispatcher, per-definition decoder).  So: for every filter
   configuration, every initial decoder state, every byte stream without the gateway's banner, every segmentation
   into reads and every interleaving of arrivals, receive steps and callback outcomes, the messages passed to the
   receive callback are a prefix of — and at quiescence exactly — the messages that decoder returns for the stream's
   13-byte packets, in order, once each; with E2E_single_frame / C01 their content is the database's reading. *)
From NV Require Import Base Stream StreamProofs DecoderCtl EndToEnd.
From NV.props Require C12.
From NVGen Require Import GenCode GenDisp GenLookups.

Definition M := (DecoderCtl.msg * Z)%type.
(* what EByteNmea2000Gateway._receive_impl does with one 13-byte block: decode_tcp on the client's decoder; None and
   exceptions are logged and skipped (an input outside the model counts as skipped, like an exception) *)
Definition client_decode (ts_ok : Z -> list Z -> bool) (c : cfg) (win : bool) (st : DecoderCtl.state) (p : list Z)
  : DecoderCtl.state * dres M :=
  let '(st', r) := e2e_step code_dec code_disp code_fast code_lookups code_bitlookups code_indirect ts_ok c st
                            {| e_fmt := WTcp; e_data := p; e_win := win |} in
  (st', match r with Ok (Some m) => DMsg m | Ok None => DNone | _ => DRaise end).

Theorem C12_delivery_ebyte_for_this_code : forall ts_ok c win limit st0 ls g,
  rx_run DecoderCtl.state M (client_decode ts_ok c win) KEbyte (rx_init DecoderCtl.state M limit st0) ls = Some g ->
  eof (rd g) = false ->
  stream_ok KEbyte limit (concat (chunks_of ls)) = true ->
  let expected := snd (decode_all DecoderCtl.state M (client_decode ts_ok c win) st0
                                  (frame KEbyte (concat (chunks_of ls)))) in
  (exists later, expected = NV.Stream.delivered g ++ NV.Stream.q g ++ later) /\
  (quiescent DecoderCtl.state M (client_decode ts_ok c win) KEbyte g -> NV.Stream.delivered g = expected).
Proof. intros ts_ok c win. exact (NV.props.C12.C12_delivery DecoderCtl.state M (client_decode ts_ok c win) KEbyte). Qed.
Print Assumptions C12_delivery_ebyte_for_this_code.

Theorem C12_chunking_ebyte_for_this_code : forall ts_ok c win limit st0 chunks, 0 <= limit ->
  forallb (fun p => negb (is_banner p)) (frame_ebyte (concat chunks)) = true ->
  packets_seen DecoderCtl.state M
    (feed_all DecoderCtl.state M (client_decode ts_ok c win) KEbyte (rx_init DecoderCtl.state M limit st0) chunks)
  = frame_ebyte (concat chunks).
Proof. intros ts_ok c win. exact (NV.props.C12.C12_chunking_ebyte DecoderCtl.state M (client_decode ts_ok c win)). Qed.
