From NV Require Import Base Defn Dispatch.
From NVGen Require Import GenDb GenDisp.
Definition db_groups : list (list dbdef) := groups db_defs.
Eval vm_compute in map group_pgn (filter (fun g => negb (group_ok code_disp code_ids g)) db_groups).
