(* OblC10.v — C10 and C11 for the CODE OF THIS RUN, with no hypothesis on the database left.
   The generic theorems (props/C10.v, props/C11.v) assume that decode_pgn_N builds a message with PGN N, that the id
   isoAddressClaim belongs to PGN 60928 and only to it, and that 60928 is a single-frame PGN.  Here these are decided
   by the kernel on the tables regenerated from /repo's pgns.py (DbHyps.v: dec_pgn_okb, disp_okb, claim_id_okb), and the
   theorems are instantiated with the composed decode function of those tables (EndToEnd.tbl_decode: dispatcher, then
   the per-definition decoder, every field) and their fast-packet table. *)
From NV Require Import Base Defn Fields Dispatch DecoderCtl DecoderCtlProofs EndToEnd DbHyps.
From NVGen Require Import GenCode GenDisp GenLookups.

Definition dec := tbl_decode code_dec code_disp code_lookups code_bitlookups code_indirect.
Definition isf := tbl_is_fast code_fast.

Theorem C10_db_tables : dec_pgn_okb code_dec = true /\ disp_okb code_disp = true /\ claim_id_okb code_dec = true.
Proof. vm_compute. repeat split; reflexivity. Qed.
Theorem C10_claim_single_frame : isf CLAIM = Ok (Some false).
Proof. vm_compute. reflexivity. Qed.

Lemma H_pgn : db_pgn_ok dec.
Proof. destruct C10_db_tables as [A [B _]]. exact (tbl_db_pgn_ok _ _ _ _ _ A B). Qed.
Lemma H_claim : db_claim_id_ok dec.
Proof. destruct C10_db_tables as [A [B C]]. exact (tbl_db_claim_id_ok _ _ _ _ _ A B C). Qed.

(* C10: every filter configuration, every history; the decoders are the generated ones *)
Theorem C10_for_this_code : forall ex inc exm incm nm cF cU,
  mk_cfg ex inc exm incm nm = Ok cF -> mk_cfg [] [] exm incm nm = Ok cU ->
  forall h,
  outs (run dec isf cF init h) = map (restrict (permitted ex inc)) (outs (run dec isf cU init h)) /\
  maps (run dec isf cF init h) = maps (run dec isf cU init h).
Proof. exact (c10_main dec isf H_pgn H_claim). Qed.
Print Assumptions C10_for_this_code.

(* C11 *)
Theorem C11_identity_for_this_code : forall c h cl m,
  snd (ctl_step dec isf c (final dec isf c init h) cl) = Ok (Some m) ->
  m_src m = c_src cl /\ m_iso m = identity_after dec (h ++ [cl]) (c_src cl).
Proof. exact (c11_identity dec isf H_pgn C10_claim_single_frame). Qed.
Theorem C11_srcmap_for_this_code : forall c h s,
  zlookup s (srcmap (final dec isf c init h)) = identity_after dec h s.
Proof. exact (c11_srcmap dec isf H_pgn C10_claim_single_frame). Qed.
Theorem C11_manufacturer_for_this_code : forall ex inc exm incm nm c h cl m o,
  mk_cfg ex inc exm incm nm = Ok c ->
  snd (ctl_step dec isf c (final dec isf c init h) cl) = Ok (Some m) ->
  m_pgn m <> CLAIM -> identity_after dec h (c_src cl) = Some o ->
  mfr_pass exm incm o = true.
Proof. exact (c11_manufacturer dec isf H_pgn C10_claim_single_frame). Qed.
Theorem C11_discovery_for_this_code : forall c h cl m,
  netmap c = true -> c_win cl = true ->
  snd (ctl_step dec isf c (final dec isf c init h) cl) = Ok (Some m) ->
  m_pgn m = CLAIM \/ identity_after dec h (c_src cl) <> None.
Proof. exact (c11_discovery dec isf H_pgn C10_claim_single_frame). Qed.
Print Assumptions C11_identity_for_this_code.

(* C16: a fast-packet message with a fresh counter gives the same results after any two histories *)
Theorem C16_fast_fresh_for_this_code : forall c st1 st2 cl rest,
  c_pgn cl <> CLAIM -> isf (c_pgn cl) = Ok (Some true) ->
  Forall (fun cl' => key_of cl' = key_of cl /\ c_win cl' = c_win cl) rest ->
  zlookup (c_src cl) (srcmap st1) = zlookup (c_src cl) (srcmap st2) ->
  fresh_first st1 cl -> fresh_first st2 cl ->
  map snd (run dec isf c st1 (cl :: rest)) = map snd (run dec isf c st2 (cl :: rest)).
Proof. exact (c16_fast_fresh dec isf H_pgn). Qed.

Eval vm_compute in (length code_dec, length code_disp, length code_fast).
