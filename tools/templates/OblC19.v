(* OblC19.v — C19 for the code of this run: the universally quantified `encode` of props/C19.v (the client's
   _encode_impl) is instantiated with the COMPOSED encoder of the regenerated tables (EncEndToEnd.enc_e2e_step:
   function lookup by PGN and id, generated encoder, fast-packet segmentation with the encoder's 3-bit counter as the
   state, wire format of the client: EByte, Waveshare USB or Yacht Devices).  So the packets one send() writes are
   exactly the packets that encoder produces for its message (C19_exact), for any number of concurrent send() calls,
   every write/drain/callback outcome and every schedule; with ENC_E2E_* (OblEncE2E.v) those packets decode back to the
   message.  A message the encoder refuses (every refusal surfaces as ValueError) writes nothing (C19_bad_message). *)
From NV Require Import Base SendModel SendProofs Defn Fields Encode EncEndToEnd.
From NV.props Require C19.
From NVGen Require Import GenCode GenDisp GenLookups.

Definition client_encode (f : efmt) (e : Z) (m : emsg) : Z * enc_outcome :=
  let r := enc_e2e_step code_enc code_enc_lookups code_fast f e m in
  (snd r, match fst r with Ok ps => EncOk ps | Err _ => EncValueError | Unmodelled => EncOther end).

Theorem C19_exact_for_this_code : forall f x ls y i pc,
  initial Z emsg x -> run Z emsg (client_encode f) true x ls = Some y -> nth_error (pcs y) i = Some pc ->
  match pc with
  | SDone c OSent => enc_of Z emsg (client_encode f) c = EncOk (sent i (log y))
  | SDone c OEncFail => enc_of Z emsg (client_encode f) c = EncValueError /\ sent i (log y) = []
  | SNew _ | SWaitLock _ _ => sent i (log y) = []
  | SWrite c rest | SDrain c rest => enc_of Z emsg (client_encode f) c = EncOk (sent i (log y) ++ rest)
  | SFaultCb c | SDone c _ =>
      (enc_of Z emsg (client_encode f) c = EncOther /\ sent i (log y) = []) \/
      exists rest, enc_of Z emsg (client_encode f) c = EncOk (sent i (log y) ++ rest)
  end.
Proof. intros f. exact (NV.props.C19.C19_exact Z emsg (client_encode f)). Qed.
Print Assumptions C19_exact_for_this_code.

Theorem C19_contiguous_for_this_code : forall f x ls y,
  initial Z emsg x -> run Z emsg (client_encode f) true x ls = Some y -> ~ interleaved (senders (log y)).
Proof. intros f. exact (NV.props.C19.C19_contiguous Z emsg (client_encode f)). Qed.
