(* OblEncE2E.v — the ENCODER END-TO-END theorems for the tables of this run (compiled after OblC01, OblC02, OblC02rt, OblC08,
   OblE2E, whose table theorems it composes; copied into build/gen and compiled as NVGen.OblEncE2E on every run).

   C06, composed: "for every encodable message and each gateway format, the packets produced by the encoder are accepted by
   the library's decoder for that format and yield a message with the same PGN, addressing, priority and field values".
   Here: for every definition d of the covered lists below, EVERY payload p the decoder accepts for d
   (`spec_decode p d = Ok m`; for a PGN with several definitions: p is one the database's Match rule assigns to d), EVERY source,
   destination, priority in range and EVERY value of the encoder's sequence counter:

   ENC_E2E_ebyte / ENC_E2E_usb   (single-frame PGNs) `NMEA2000Encoder.encode_ebyte / encode_usb` (model enc_e2e_step) applied to the
       decoded message m returns ONE packet of 13 / 20 bytes and leaves the counter alone; that packet, given to
       `decode_tcp` / `decode_usb` of an unfiltered decoder (model EndToEnd.e2e_step) in ANY state in which the source has no
       identity with a non-ASCII manufacturer, returns a message with the PGN and id of d, the source, the destination (255
       for a broadcast PGN), the priority, and a content whose serialisation (EVERY field: id, name, value, raw value, unit,
       ... — EndToEnd.ser_msg) is that of m itself; the decoder's state is unchanged.  I.e. decode(encode(decode p)) = decode p.
   ENC_E2E_actisense   (every PGN, fast-packet ones included: the line carries the whole payload) the same through
       `encode_actisense` / `decode_actisense_string`, after any accepted time stamp.
   ENC_E2E_fast_frames (fast-packet PGNs, frame formats) the encoder emits exactly `segment seq payload`, one EByte / USB packet
       per frame, each parsed back by decode_tcp / decode_usb to its frame with the message's addressing, and advances its
       counter to a different value; the C03 reassembler, fed these frames from any state fresh for the counter, is silent
       until the last frame and then calls the decode function on exactly the payload, and decoding THAT payload gives m.
   Ingredients: C02_roundtrip (OblC02rt: the encoder's integer agrees with p on every field's bits and the encoder returns),
   Spec's locality (spec_decode_agree), the `to_bytes` length check cannot fail (run_edef_of_def), the name lookup of
   `_call_encode_function` (find_encoder_of_def; table fact: a dispatched PGN has no plain encode_pgn_<PGN>), the wire round
   trips of C06 (WireProofs), E2E_any_entry / E2E_undispatched (OblE2E), C03 inverse_run.
   Not covered (stated; the second Eval below lists them with the reason): the address claim 60928 (its decoding updates the
   source map: E2E_claim; it is not encodable today), definitions outside C02_roundtrip (129029: 64-bit fields), definitions
   without fixed Length (12, repeating fields: the generated `to_bytes` uses the minimal length — an all-zero message becomes an
   EMPTY payload, which `decode_actisense_string` rejects: finding ence2e:acti:empty-payload), a definition of a dispatched PGN
   for which neither criterion of `sel_kept` shows that the Match rule still selects it (1 of 126720), Yacht Devices text (same
   frames as EByte; its text round trip is C06 roundtrip_yd). *)
From NV Require Import Base Bits Defn PyNum Fields Dispatch DispatchProofs Template TemplateEnc Encode Spec SpecProofs
                       EncodeProofs FloatRT RoundTrip Header HeaderProofs PyText Wire WireProofs FastPacket FastPacketProofs
                       DecoderCtl EndToEnd EndToEndProofs EncEndToEnd EncEndToEndProofs.
From NVGen Require Import GenDb GenCode GenDisp GenLookups GenDbLookups.
From NVGen Require OblC01 OblC02 OblC02rt OblC08 OblE2E.

Definition db_groups : list (list dbdef) := groups db_defs.
Definition SL := norm_lookups db_lookups.
Definition SLB := norm_lookups db_bitlookups.
Definition enc_step_here := enc_e2e_step code_enc code_enc_lookups code_fast.
Definition dec_step_here := e2e_step code_dec code_disp code_fast code_lookups code_bitlookups code_indirect.

(* ---- the covered (group, bound definition) pairs, decided by the kernel ---- *)
Definition len_in (lo hi : Z) (d : dbdef) : bool :=
  match Defn.d_length d with Some n => (lo <=? n) && (n <=? hi) | None => false end.
Definition fast_is (b : bool) (pgn : Z) : bool :=
  match tbl_is_fast code_fast pgn with Ok (Some a) => Bool.eqb a b | _ => false end.
Definition no_plain_name (pgn : Z) : bool :=
  match find_fname (pgn, @None Defn.str) code_enc with None => true | Some _ => false end.
(* d is inside C02_roundtrip and has no FLOAT field; not the address claim; when its PGN has a dispatcher: the database's
   Match rule cannot tell the re-encoded payload from the original one (every bit of every match field of the group lies in
   a field of d, or — d not being a fallback — every other definition is a fallback, has its match bits inside fields of
   d, or prescribes a different value than d for some bit), and no function `encode_pgn_<PGN>` shadows
   `encode_pgn_<PGN>_<id>` *)
Definition sel_kept (g : list dbdef) (d : dbdef) : bool := match_covered g d || sel_stable g d.
Definition cond_common (g : list dbdef) (d : dbdef) : bool :=
  encodable d && simple_def d && rt_def_ok d && no_float d && negb (Defn.d_pgn d =? 60928)
  && (negb (is_dispatched g) || (sel_kept g d && no_plain_name (Defn.d_pgn d))).
Definition cov_gen (gs : list (list dbdef)) (c : list dbdef -> dbdef -> bool) : list (list dbdef * dbdef) :=
  flat_map (fun g => map (fun d => (g, d)) (filter (c g) (bound_defs g))) gs.
Definition cov := cov_gen db_groups.

Definition c_single (g : list dbdef) (d : dbdef) : bool :=
  cond_common g d && len_in 0 8 d && pgn_canonical (Defn.d_pgn d) && fast_is false (Defn.d_pgn d).
Definition c_acti (g : list dbdef) (d : dbdef) : bool :=
  cond_common g d && len_in 1 223 d && (0 <=? Defn.d_pgn d) && (Defn.d_pgn d <? 16777216).
Definition c_fast (g : list dbdef) (d : dbdef) : bool :=
  cond_common g d && len_in 0 223 d && pgn_canonical (Defn.d_pgn d) && fast_is true (Defn.d_pgn d).
Definition enc_single : list (list dbdef * dbdef) := cov c_single.
Definition enc_acti : list (list dbdef * dbdef) := cov c_acti.
Definition enc_fast : list (list dbdef * dbdef) := cov c_fast.

Lemma cov_gen_in gs c g d : In (g, d) (cov_gen gs c) -> In g gs /\ In d (bound_defs g) /\ c g d = true.
Proof.
  unfold cov_gen. intros H. apply in_flat_map in H. destruct H as [g' [Hg H]].
  apply in_map_iff in H. destruct H as [d' [E H]]. inversion E; subst g' d'.
  apply filter_In in H. tauto.
Qed.
Lemma cov_gen_intro gs c g d : In g gs -> In d (bound_defs g) -> c g d = true -> In (g, d) (cov_gen gs c).
Proof.
  intros Hg Hd C. unfold cov_gen. apply in_flat_map. exists g. split; [exact Hg|].
  apply in_map. apply filter_In. split; [exact Hd | exact C].
Qed.
Lemma cov_in c g d : In (g, d) (cov c) -> In g db_groups /\ In d (bound_defs g) /\ c g d = true.
Proof. exact (cov_gen_in db_groups c g d). Qed.

(* the three copies of `groups db_defs` (each obligation file names its own) are one list *)
Lemma G02 : OblC02.db_groups = db_groups. Proof. reflexivity. Qed.
Lemma GE2E : OblE2E.db_groups = db_groups. Proof. reflexivity. Qed.

Lemma len_in_inv lo hi d : len_in lo hi d = true -> exists n, Defn.d_length d = Some n /\ lo <= n <= hi.
Proof.
  unfold len_in. destruct (Defn.d_length d) as [n|]; [|discriminate]. intros H.
  apply andb_true_iff in H. destruct H as [A B]. apply Z.leb_le in A, B. exists n. split; [reflexivity | lia].
Qed.
Lemma fast_is_inv b pgn : fast_is b pgn = true -> tbl_is_fast code_fast pgn = Ok (Some b).
Proof.
  unfold fast_is. destruct (tbl_is_fast code_fast pgn) as [[a|]| |]; try discriminate.
  intros H. apply eqb_prop in H. subst. reflexivity.
Qed.

(* ---- the encoder side and the agreement of the two payloads, for one covered definition ---- *)
Lemma enc_core : forall g d, In g db_groups -> In d (bound_defs g) -> cond_common g d = true ->
  forall p m, spec_decode SL SLB p d = Ok m -> (is_dispatched g = true -> spec_select g p = Some d) ->
  exists ce x,
    find_fname (fname_of g d) code_enc = Some ce /\
    (is_dispatched g = true -> find_fname (Defn.d_pgn d, None) code_enc = None) /\
    Fields.m_pgn m = Defn.d_pgn d /\ Fields.m_id m = Defn.d_id d /\
    run_esteps code_enc_lookups 0 (e_steps ce) (Fields.m_fields m) = Ok x /\
    e_length ce = Defn.d_length d /\ 0 <= x /\ (forall n, Defn.d_length d = Some n -> 0 <= n -> x < 256 ^ n) /\
    spec_decode SL SLB x d = Ok m /\ (is_dispatched g = true -> spec_select g x = Some d).
Proof.
  intros g d Hg Hd C p m S Sel. unfold cond_common in C.
  apply andb_true_iff in C. destruct C as [C Cd]. apply andb_true_iff in C. destruct C as [C _].
  apply andb_true_iff in C. destruct C as [C Nf]. apply andb_true_iff in C. destruct C as [C Rt].
  apply andb_true_iff in C. destruct C as [En Sd].
  assert (Hg2 : In g OblC02.db_groups) by (rewrite G02; exact Hg).
  assert (HgE : In g OblE2E.db_groups) by (rewrite GE2E; exact Hg).
  assert (Ie : In d OblC02.enc_defs).
  { unfold OblC02.enc_defs. apply filter_In. split; [|exact En]. apply in_flat_map. exists g. split; [exact Hg2 | exact Hd]. }
  assert (Hr : In d OblC02rt.rt_defs).
  { unfold OblC02rt.rt_defs. apply filter_In. split; [exact Ie|]. rewrite Sd, Rt. reflexivity. }
  destruct (OblC02rt.C02_roundtrip g d Hg2 Hd Hr) as [cd [ce [Fd [Fe Rd]]]].
  destruct (OblE2E.C01_here g d HgE Hd Sd) as [cd' [Fd' Sp]].
  assert (cd' = cd) by congruence. subst cd'.
  assert (Run : run_ddef code_lookups code_bitlookups code_indirect p cd = Ok m) by (rewrite Sp; exact S).
  destruct (Rd p m Run) as [R1 R2]. destruct (R2 Nf) as [x Rx].
  assert (De : edef_ok code_enc g d = true).
  { pose proof OblC02.C02_tables as T. rewrite forallb_forall in T. specialize (T g Hg2).
    unfold group_edefs_ok in T. rewrite forallb_forall in T. apply T. exact Hd. }
  assert (Lo : layout_ok d = true).
  { pose proof OblC02.C02_side as Sc. rewrite forallb_forall in Sc. specialize (Sc d Ie).
    apply andb_true_iff in Sc. tauto. }
  destruct (run_edef_of_def code_enc code_enc_lookups g d De En Lo) as [ce' [Fe' [El B]]].
  assert (ce' = ce) by congruence. subst ce'.
  destruct (B _ _ Rx) as [X0 Xn].
  destruct (spec_decode_head _ _ _ _ _ S) as [Ep Ei].
  (* the two payloads agree on the bits of every field of d *)
  assert (Ag : forall f off len, In f (Defn.d_fields d) -> f_bitoff f = Some off -> f_bitlen f = Some len ->
                                 field_bits x off len = field_bits p off len).
  { intros f off len Hin Eo Elf.
    assert (Ex : exact_field f = true) by (unfold no_float in Nf; rewrite forallb_forall in Nf; apply Nf; exact Hin).
    assert (Sf : simple_field f = true) by (unfold simple_def in Sd; rewrite forallb_forall in Sd; apply Sd; exact Hin).
    unfold simple_field in Sf. rewrite Eo, Elf in Sf.
    apply andb_true_iff in Sf. destruct Sf as [Sf _]. apply andb_true_iff in Sf. destruct Sf as [Sf _].
    apply andb_true_iff in Sf. destruct Sf as [Sf _]. apply andb_true_iff in Sf. destruct Sf as [So Sl].
    apply Z.leb_le in So, Sl.
    assert (Hl0 : 0 <= len) by (apply Z.le_trans with 1; [exact Z.le_0_1 | exact Sl]).
    rewrite <- (decode_int_bits x off len So Hl0), <- (decode_int_bits p off len So Hl0).
    exact (R1 x Rx f off len Hin Eo Elf Ex). }
  exists ce, x. split; [exact Fe|].
  assert (Dn : is_dispatched g = true -> sel_kept g d = true /\ no_plain_name (Defn.d_pgn d) = true).
  { intros D. rewrite D in Cd. cbn [negb orb] in Cd. apply andb_true_iff in Cd. exact Cd. }
  split.
  { intros D. destruct (Dn D) as [_ Np]. unfold no_plain_name in Np.
    destruct (find_fname (Defn.d_pgn d, None) code_enc); [discriminate | reflexivity]. }
  split; [exact Ep|]. split; [exact Ei|]. split; [exact Rx|]. split; [exact El|]. split; [exact X0|]. split; [exact Xn|].
  split.
  - rewrite (spec_decode_agree SL SLB p x d Ag). exact S.
  - intros D. destruct (Dn D) as [Mc _]. unfold sel_kept in Mc. apply orb_true_iff in Mc. destruct Mc as [Mc | Ms].
    + rewrite (match_covered_sound g d p x Mc (fun f off len Hin Eo Elf _ => Ag f off len Hin Eo Elf)). exact (Sel D).
    + exact (sel_stable_sound g d p x Ms (fun f off len Hin Eo Elf _ => Ag f off len Hin Eo Elf) (Sel D)).
Qed.

(* the message the caller of the decoder receives for the decoded content m of definition d *)
Definition returned (d : dbdef) (m : Fields.msg) (src dst prio : Z) (i : option iso) : result (option (DecoderCtl.msg * Z)) :=
  Ok (Some ({| DecoderCtl.m_pgn := Defn.d_pgn d; DecoderCtl.m_id := bytes_of_str (Defn.d_id d); m_src := src; m_dst := dst;
               m_iso := i; m_body := ser_msg m |}, prio)).

(* ---- the decoder side: whatever entry point handed `_decode` the frame (PGN of d, payload whose integer is x) ---- *)
Lemma dec_side : forall g d, In g db_groups -> In d (bound_defs g) -> simple_def d = true -> Defn.d_pgn d <> 60928 ->
  forall x m, spec_decode SL SLB x d = Ok m -> (is_dispatched g = true -> spec_select g x = Some d) ->
  forall ts_ok st i prio src dst data comb,
  parse_with ts_ok (e_fmt i) (e_data i) = Ok (Some (Defn.d_pgn d, prio, src, dst, rev data, comb)) ->
  le_int data = x ->
  (comb = true \/ tbl_is_fast code_fast (Defn.d_pgn d) = Ok (Some false)) ->
  (forall n, zlookup src (srcmap st) = Some n -> mfr_modelled n = true) ->
  dec_step_here ts_ok cfg0 st i = (st, returned d m src dst prio (zlookup src (srcmap st))).
Proof.
  intros g d Hg Hd Sd Hp x m S Sel ts_ok st i prio src dst data comb P Ex Hf Hi.
  assert (HgE : In g OblE2E.db_groups) by (rewrite GE2E; exact Hg).
  pose proof OblE2E.E2E_side as Side. rewrite forallb_forall in Side. specialize (Side g HgE).
  rewrite forallb_forall in Side. specialize (Side d (bound_defs_in g d Hd)).
  apply andb_true_iff in Side. destruct Side as [Pg _]. apply Z.eqb_eq in Pg.
  assert (Exp : e2e_expected SL SLB d (le_int data) src dst prio (zlookup src (srcmap st))
                = returned d m src dst prio (zlookup src (srcmap st))).
  { unfold e2e_expected, returned. rewrite Ex, S. reflexivity. }
  rewrite <- Exp. unfold dec_step_here.
  destruct (is_dispatched g) eqn:D.
  - apply (OblE2E.E2E_any_entry g d HgE ltac:(unfold in_scope; rewrite D; reflexivity) Hd Sd ts_ok st i
             (Defn.d_pgn d) prio src dst data comb P Pg Hp Hf Hi).
    rewrite Ex. exact (Sel eq_refl).
  - exact (OblE2E.E2E_undispatched g d HgE D Hd Sd ts_ok st i (Defn.d_pgn d) prio src dst data comb P Pg Hp Hf Hi).
Qed.

Ltac split_cond C :=
  repeat match type of C with
         | (_ && _ = true) => let A := fresh "C" in let B := fresh "C" in
                              apply andb_true_iff in C; destruct C as [A B]; try split_cond A; try split_cond B
         end.

Lemma common_parts g d : cond_common g d = true -> simple_def d = true /\ Defn.d_pgn d <> 60928.
Proof.
  unfold cond_common. intros C.
  apply andb_true_iff in C. destruct C as [C _]. apply andb_true_iff in C. destruct C as [C Np].
  apply andb_true_iff in C. destruct C as [C _]. apply andb_true_iff in C. destruct C as [C _].
  apply andb_true_iff in C. destruct C as [_ Sd]. split; [exact Sd|].
  apply negb_true_iff in Np. apply Z.eqb_neq in Np. exact Np.
Qed.

(* ====================================================================== single frame: EByte and USB *)
Theorem ENC_E2E_ebyte : forall g d, In g db_groups -> In d (bound_defs g) -> c_single g d = true ->
  forall p m, spec_decode SL SLB p d = Ok m -> (is_dispatched g = true -> spec_select g p = Some d) ->
  forall src dst prio seq, 0 <= src < 256 -> 0 <= dst < 256 -> 0 <= prio < 8 ->
  exists pkt, enc_step_here FEbyte seq (emsg_of m src dst prio) = (Ok [pkt], seq) /\ length pkt = 13%nat /\
    forall ts_ok st win, (forall n, zlookup src (srcmap st) = Some n -> mfr_modelled n = true) ->
      dec_step_here ts_ok cfg0 st {| e_fmt := WTcp; e_data := pkt; e_win := win |}
      = (st, returned d m src (if is_pdu1 (Defn.d_pgn d) then dst else 255) prio (zlookup src (srcmap st))).
Proof.
  intros g d Hg Hd C p m S Sel src dst prio seq Hs Hd' Hq. unfold c_single, c_acti, c_fast in C.
  apply andb_true_iff in C. destruct C as [C Cf]. apply andb_true_iff in C. destruct C as [C Cc].
  apply andb_true_iff in C. destruct C as [Cm Cl].
  destruct (len_in_inv _ _ _ Cl) as [n [Ln Hn]]. pose proof (fast_is_inv _ _ Cf) as Hf.
  destruct (common_parts g d Cm) as [Sd Hp].
  destruct (enc_core g d Hg Hd Cm p m S Sel) as (ce & x & Fe & Np & Ep & Ei & Rx & El & X0 & Xn & Sx & Selx).
  assert (Hh : hdr_ok (Defn.d_pgn d) src dst prio) by (split; [exact Hq | split; [exact Hs | split; [exact Hd' | exact Cc]]]).
  destruct (enc_single_frame code_enc code_enc_lookups code_fast g d ce m x n src dst prio seq Fe Np Ep Ei Rx
              ltac:(rewrite El; exact Ln) Hn ltac:(split; [exact X0 | apply Xn; [exact Ln | lia]]) Hh (or_introl Hf))
    as [Li [[pkt [E1 [L1 P1]]] _]].
  exists pkt. split; [exact E1|]. split; [exact L1|].
  intros ts_ok st win Hi.
  apply (dec_side g d Hg Hd Sd Hp x m Sx Selx ts_ok st {| e_fmt := WTcp; e_data := pkt; e_win := win |} prio src
           (if is_pdu1 (Defn.d_pgn d) then dst else 255) (le_bytes (Z.to_nat n) x) false);
    [cbn [parse_with e_fmt e_data]; exact P1 | exact Li | right; exact Hf | exact Hi].
Qed.
Print Assumptions ENC_E2E_ebyte.

Theorem ENC_E2E_usb : forall g d, In g db_groups -> In d (bound_defs g) -> c_single g d = true ->
  forall p m, spec_decode SL SLB p d = Ok m -> (is_dispatched g = true -> spec_select g p = Some d) ->
  forall src dst prio seq, 0 <= src < 256 -> 0 <= dst < 256 -> 0 <= prio < 8 ->
  exists pkt, enc_step_here FUsb seq (emsg_of m src dst prio) = (Ok [pkt], seq) /\ length pkt = 20%nat /\
    forall ts_ok st win, (forall n, zlookup src (srcmap st) = Some n -> mfr_modelled n = true) ->
      dec_step_here ts_ok cfg0 st {| e_fmt := WUsb; e_data := pkt; e_win := win |}
      = (st, returned d m src (if is_pdu1 (Defn.d_pgn d) then dst else 255) prio (zlookup src (srcmap st))).
Proof.
  intros g d Hg Hd C p m S Sel src dst prio seq Hs Hd' Hq. unfold c_single, c_acti, c_fast in C.
  apply andb_true_iff in C. destruct C as [C Cf]. apply andb_true_iff in C. destruct C as [C Cc].
  apply andb_true_iff in C. destruct C as [Cm Cl].
  destruct (len_in_inv _ _ _ Cl) as [n [Ln Hn]]. pose proof (fast_is_inv _ _ Cf) as Hf.
  destruct (common_parts g d Cm) as [Sd Hp].
  destruct (enc_core g d Hg Hd Cm p m S Sel) as (ce & x & Fe & Np & Ep & Ei & Rx & El & X0 & Xn & Sx & Selx).
  assert (Hh : hdr_ok (Defn.d_pgn d) src dst prio) by (split; [exact Hq | split; [exact Hs | split; [exact Hd' | exact Cc]]]).
  destruct (enc_single_frame code_enc code_enc_lookups code_fast g d ce m x n src dst prio seq Fe Np Ep Ei Rx
              ltac:(rewrite El; exact Ln) Hn ltac:(split; [exact X0 | apply Xn; [exact Ln | lia]]) Hh (or_introl Hf))
    as [Li [_ [pkt [E1 [L1 P1]]]]].
  exists pkt. split; [exact E1|]. split; [exact L1|].
  intros ts_ok st win Hi.
  apply (dec_side g d Hg Hd Sd Hp x m Sx Selx ts_ok st {| e_fmt := WUsb; e_data := pkt; e_win := win |} prio src
           (if is_pdu1 (Defn.d_pgn d) then dst else 255) (le_bytes (Z.to_nat n) x) false);
    [cbn [parse_with e_fmt e_data]; exact P1 | exact Li | right; exact Hf | exact Hi].
Qed.
Print Assumptions ENC_E2E_usb.

(* ====================================================================== Actisense: every PGN, whole payload *)
Theorem ENC_E2E_actisense : forall g d, In g db_groups -> In d (bound_defs g) -> c_acti g d = true ->
  forall p m, spec_decode SL SLB p d = Ok m -> (is_dispatched g = true -> spec_select g p = Some d) ->
  forall src dst prio seq, 0 <= src < 256 -> 0 <= dst < 256 -> 0 <= prio < 8 ->
  exists line, enc_step_here FActi seq (emsg_of m src dst prio) = (Ok [line], seq) /\
    forall sec ms, acti_ts_ok sec ms ->
    forall ts_ok st win, (forall n, zlookup src (srcmap st) = Some n -> mfr_modelled n = true) ->
      dec_step_here ts_ok cfg0 st {| e_fmt := WActi; e_data := acti_ts sec ms ++ [32] ++ line; e_win := win |}
      = (st, returned d m src dst prio (zlookup src (srcmap st))).
Proof.
  intros g d Hg Hd C p m S Sel src dst prio seq Hs Hd' Hq. unfold c_single, c_acti, c_fast in C.
  apply andb_true_iff in C. destruct C as [C Ch]. apply andb_true_iff in C. destruct C as [C Cl0].
  apply andb_true_iff in C. destruct C as [Cm Cl]. apply Z.leb_le in Cl0. apply Z.ltb_lt in Ch.
  destruct (len_in_inv _ _ _ Cl) as [n [Ln Hn]].
  destruct (common_parts g d Cm) as [Sd Hp].
  destruct (enc_core g d Hg Hd Cm p m S Sel) as (ce & x & Fe & Np & Ep & Ei & Rx & El & X0 & Xn & Sx & Selx).
  (* one time stamp to obtain the line; the line does not depend on it *)
  assert (T : tbl_encode code_enc code_enc_lookups (Fields.m_pgn m, Fields.m_id m) (Fields.m_fields m)
              = Ok (le_bytes (Z.to_nat n) x)).
  { apply (tbl_encode_of_def code_enc code_enc_lookups g d ce m x n Fe Np Ep Ei Rx); [rewrite El; exact Ln | lia |].
    split; [exact X0 | apply Xn; [exact Ln | lia]]. }
  exists (enc_actisense (Defn.d_pgn d) src dst prio (le_bytes (Z.to_nat n) x)). split.
  - unfold enc_step_here, enc_e2e_step. rewrite enc_step_acti. cbn [emsg_of em_pgn em_id em_fields em_src em_dst em_prio].
    rewrite T. cbn [bind]. rewrite Ep. reflexivity.
  - intros sec ms Hts ts_ok st win Hi.
    destruct (enc_actisense_line code_enc code_enc_lookups code_fast g d ce m x n src dst prio seq sec ms Fe Np Ep Ei Rx
                ltac:(rewrite El; exact Ln) ltac:(lia) ltac:(split; [exact X0 | apply Xn; [exact Ln | lia]])
                ltac:(lia) Hs Hd' Hq Hts) as [Li [line [E1 P1]]].
    assert (line = enc_actisense (Defn.d_pgn d) src dst prio (le_bytes (Z.to_nat n) x)).
    { unfold enc_e2e_step in E1. rewrite enc_step_acti in E1. cbn [emsg_of em_pgn em_id em_fields em_src em_dst em_prio] in E1.
      rewrite T in E1. cbn [bind] in E1. rewrite Ep in E1. congruence. }
    subst line.
    apply (dec_side g d Hg Hd Sd Hp x m Sx Selx ts_ok st
             {| e_fmt := WActi; e_data := acti_ts sec ms ++ [32] ++ enc_actisense (Defn.d_pgn d) src dst prio (le_bytes (Z.to_nat n) x);
                e_win := win |} prio src dst (le_bytes (Z.to_nat n) x) true);
      [cbn [parse_with e_fmt e_data]; exact P1 | exact Li | left; reflexivity | exact Hi].
Qed.
Print Assumptions ENC_E2E_actisense.

(* ====================================================================== fast packet, frame formats *)
Theorem ENC_E2E_fast_frames : forall g d, In g db_groups -> In d (bound_defs g) -> c_fast g d = true ->
  forall p m, spec_decode SL SLB p d = Ok m -> (is_dispatched g = true -> spec_select g p = Some d) ->
  forall src dst prio seq, 0 <= src < 256 -> 0 <= dst < 256 -> 0 <= prio < 8 -> 0 <= seq < 8 ->
  exists payload,
    spec_decode SL SLB (le_int payload) d = Ok m /\ (is_dispatched g = true -> spec_select g (le_int payload) = Some d) /\
    let tgt := fun fr => Ok (Some (Defn.d_pgn d, prio, src, (if is_pdu1 (Defn.d_pgn d) then dst else 255), rev fr, false)) in
    (exists pkts, enc_step_here FEbyte seq (emsg_of m src dst prio) = (Ok pkts, next_seq seq) /\
                  map parse_tcp pkts = map tgt (segment seq payload)) /\
    (exists pkts, enc_step_here FUsb seq (emsg_of m src dst prio) = (Ok pkts, next_seq seq) /\
                  map parse_usb pkts = map tgt (segment seq payload)) /\
    (forall dok st, fresh seq st ->
       exists st', FastPacket.run dok st (segment seq payload)
                   = (st', repeat Nothing (length (segment seq payload) - 1) ++ [FastPacket.call dok payload]) /\
                   (dok payload = true -> st' = None)) /\
    next_seq seq <> seq.
Proof.
  intros g d Hg Hd C p m S Sel src dst prio seq Hs Hd' Hq Hseq. unfold c_single, c_acti, c_fast in C.
  apply andb_true_iff in C. destruct C as [C Cf]. apply andb_true_iff in C. destruct C as [C Cc].
  apply andb_true_iff in C. destruct C as [Cm Cl].
  destruct (len_in_inv _ _ _ Cl) as [n [Ln Hn]]. pose proof (fast_is_inv _ _ Cf) as Hf.
  destruct (enc_core g d Hg Hd Cm p m S Sel) as (ce & x & Fe & Np & Ep & Ei & Rx & El & X0 & Xn & Sx & Selx).
  assert (Hh : hdr_ok (Defn.d_pgn d) src dst prio) by (split; [exact Hq | split; [exact Hs | split; [exact Hd' | exact Cc]]]).
  destruct (enc_fast_frames code_enc code_enc_lookups code_fast g d ce m x n src dst prio seq Fe Np Ep Ei Rx
              ltac:(rewrite El; exact Ln) Hn ltac:(split; [exact X0 | apply Xn; [exact Ln | lia]]) Hh Hseq Hf)
    as [Li [A [B [R Ne]]]].
  exists (le_bytes (Z.to_nat n) x).
  split; [rewrite Li; exact Sx|]. split; [rewrite Li; exact Selx|].
  exact (conj A (conj B (conj R Ne))).
Qed.
Print Assumptions ENC_E2E_fast_frames.

(* ---- coverage: encodable definitions; covered by ENC_E2E_actisense; by ENC_E2E_ebyte/usb; by ENC_E2E_fast_frames ---- *)
Eval vm_compute in (99999%Z, length OblC02.enc_defs, length enc_acti, length enc_single, length enc_fast).
(* encodable definitions outside ENC_E2E_actisense: (pgn, not in C02_roundtrip, FLOAT field, address claim, dispatched and a match
   field not on a field / a plain encode_pgn_<PGN> exists, Length missing or outside 1..223) *)
Eval vm_compute in
  flat_map (fun g => map (fun d => (Defn.d_pgn d, negb (simple_def d && rt_def_ok d), negb (no_float d), Defn.d_pgn d =? 60928,
                                    is_dispatched g && negb (sel_kept g d && no_plain_name (Defn.d_pgn d)), negb (len_in 1 223 d)))
                         (filter (fun d => encodable d && negb (c_acti g d)) (bound_defs g)))
           db_groups.

(* ---- non-vacuity: PGN 127250 (Vessel Heading), the payload of OblE2E's example, source 35, priority 2, counter 5 ---- *)
Definition ex_data : list Z := [1; 16; 39; 0; 0; 255; 127; 253].
Definition ex_g : list dbdef := match find (fun g => group_pgn g =? 127250) db_groups with Some g => g | None => [] end.
Definition ex_d : dbdef := match rev (bound_defs ex_g) with d :: _ => d | [] => mkDb 0 0 0 0 false None None [] end.
Example ENC_E2E_nonvacuous :
  In ex_g db_groups /\ In ex_d (bound_defs ex_g) /\ c_single ex_g ex_d = true /\
  exists m, spec_decode SL SLB (le_int ex_data) ex_d = Ok m /\
    enc_step_here FEbyte 5 (emsg_of m 35 255 2) = (Ok [136 :: be4 (2 * 67108864 + 127250 * 256 + 35) ++ ex_data], 5) /\
    exists r, dec_step_here (fun _ _ => false) cfg0 init
                {| e_fmt := WTcp; e_data := 136 :: be4 (2 * 67108864 + 127250 * 256 + 35) ++ ex_data; e_win := false |}
              = (init, Ok (Some (r, 2))) /\ m_body r = ser_msg m /\ DecoderCtl.m_pgn r = 127250 /\ m_src r = 35 /\ m_dst r = 255.
Proof.
  assert (Hg : In ex_g db_groups).
  { unfold ex_g. destruct (find (fun g => group_pgn g =? 127250) db_groups) as [g|] eqn:F.
    - apply find_some in F. tauto.
    - exfalso. vm_compute in F. discriminate. }
  assert (Hd : In ex_d (bound_defs ex_g)).
  { unfold ex_d. destruct (rev (bound_defs ex_g)) as [|d0 r] eqn:E; [exfalso; vm_compute in E; discriminate|].
    apply in_rev. rewrite E. left. reflexivity. }
  assert (Hc : c_single ex_g ex_d = true) by (vm_compute; reflexivity).
  split; [exact Hg|]. split; [exact Hd|]. split; [exact Hc|].
  destruct (spec_decode SL SLB (le_int ex_data) ex_d) as [m| |] eqn:S; [|exfalso; vm_compute in S; discriminate ..].
  exists m. split; [reflexivity|].
  destruct (ENC_E2E_ebyte ex_g ex_d Hg Hd Hc (le_int ex_data) m S ltac:(intros D; exfalso; vm_compute in D; discriminate)
              35 255 2 5 ltac:(lia) ltac:(lia) ltac:(lia)) as [pkt [E [_ Dk]]].
  assert (Ek : pkt = 136 :: be4 (2 * 67108864 + 127250 * 256 + 35) ++ ex_data).
  { assert (X : fst (enc_step_here FEbyte 5 (emsg_of m 35 255 2)) = Ok [136 :: be4 (2 * 67108864 + 127250 * 256 + 35) ++ ex_data]).
    { clear E Dk. revert S. generalize m. intros m0 S0.
      assert (M : Ok m0 = spec_decode SL SLB (le_int ex_data) ex_d) by (symmetry; exact S0).
      assert (V : match spec_decode SL SLB (le_int ex_data) ex_d with
                  | Ok m1 => fst (enc_step_here FEbyte 5 (emsg_of m1 35 255 2)) | _ => Unmodelled end
                  = Ok [136 :: be4 (2 * 67108864 + 127250 * 256 + 35) ++ ex_data]) by (vm_compute; reflexivity).
      rewrite <- M in V. exact V. }
    rewrite E in X. cbn [fst] in X. congruence. }
  subst pkt. split; [exact E|].
  specialize (Dk (fun _ _ => false) init false ltac:(intros n Hn; discriminate)).
  eexists. split; [exact Dk|]. cbn [m_body DecoderCtl.m_pgn m_src m_dst].
  split; [reflexivity|]. split; [vm_compute; reflexivity|]. split; [reflexivity | vm_compute; reflexivity].
Qed.
