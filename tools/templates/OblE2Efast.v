(* OblE2Efast.v — the END-TO-END theorem for FAST-PACKET PGNs through the frame-level entry points, for the tables of this
   run (compiled after OblC01, OblC08, OblE2E; copied into build/gen and compiled as NVGen.OblE2Efast on every run).
   OblE2E.v covers single-frame PGNs and the already-combined entry points; this file closes the remaining path:
   `_decode` -> `_isFastPGN` = True -> `_decode_fast_message` (reassembly) -> `_call_decode_function`.

   E2E_fast_any_entry: NMEA2000Decoder() (no filter, no manufacturer list, no network map), ANY decoder state in which
     (a) the source has no claimed identity or one with an ASCII manufacturer name and (b) the reassembly record of the key
     (pgn, src, dst) is absent or carries another sequence counter; ANY payload of 0..223 bytes, ANY counter 0..7; inputs —
     one per frame of `FastPacket.segment seq payload` (what NMEA2000Encoder._encode_fast_message emits, C03), in order —
     that frame-level entry points (decode_tcp / decode_usb / decode_yacht_devices_string / decode_basic_string without
     already_combined) accepted and parsed to that frame with the addressing (pgn, prio, src, dst); the PGN is a fast-packet
     PGN of the code (`is_fast_pgn_<pgn>()` is True), not the address claim.  Then the calls return None for every frame
     but the last, and the last call returns exactly the message `spec_decode` (database semantics) assigns to the
     definition `spec_select` (the database's Match rule) picks for the little-endian integer of the WHOLE payload, with
     source, destination, priority of the frames and the identity the source claimed — or raises what `spec_decode` says;
     the source map is unchanged; when the call returned (did not raise) the key's record is gone; no other key's record
     is touched.
   E2E_fast_frames: the same for ANY frame list the C03 reassembler turns into the payload (E2EFast.reassembles) — the form
     the encoder corollary (OblE2EfastEnc.v) uses.
   E2E_fast_packet: the instance for decode_tcp on ANY EByte rendering of each frame:
     t :: identifier (4 bytes, big endian) ++ frame ++ pad, (t & 15) = len(frame).
   E2E_fast_packet_ebyte: the instance for the encoder's own rendering (Wire.enc_ebyte1: type byte 0x80 | len, zero padding).
   E2E_fast_undispatched / E2E_fast_frames_undispatched: a PGN without dispatcher — the bound definition, every payload (no Match rule is consulted).
   E2E_fast_*_var: the same statements for every definition of the class var_def (variable-length strings, fields without
     BitOffset, BitLengthField, INDIRECT_LOOKUP; SpecVar.v) with `spec_decode_var` in place of `spec_decode` (C01_var).
   Generic part: coq/theories/E2EFast.v (ctl_run_sim: a run of `_decode` on one key IS CtlFastBridge.c_run, hence
   FastPacket.run; FastPacketProofs.inverse_run = C03 transfers). *)
From NV Require Import Base Bits Defn PyNum Fields Dispatch DispatchProofs Template Spec SpecProofs SpecVar SpecVarProofs
                       Header HeaderProofs PyText Wire WireProofs DecoderCtl EndToEnd EndToEndProofs E2EFast.
From NV Require FastPacket FastPacketProofs.
From NVGen Require Import GenDb GenCode GenDisp GenLookups GenDbLookups.
From NVGen Require OblC01 OblC08.
From NVGen Require Import OblE2E.

(* a history of entry-point calls through the composed decoder of this run: the (state, outcome) pairs, and the state
   after the last call.  `run_here` is `OblE2E.step` iterated (run_here_cons). *)
Definition run_here := e2e_run code_dec code_disp code_fast code_lookups code_bitlookups code_indirect.
Definition final_here := e2e_final code_dec code_disp code_fast code_lookups code_bitlookups code_indirect.

Lemma run_here_cons ts_ok c st i t :
  run_here ts_ok c st (i :: t) = step ts_ok c st i :: run_here ts_ok c (fst (step ts_ok c st i)) t.
Proof. reflexivity. Qed.
Lemma final_here_cons ts_ok c st i t : final_here ts_ok c st (i :: t) = final_here ts_ok c (fst (step ts_ok c st i)) t.
Proof. reflexivity. Qed.
Lemma final_here_last ts_ok c st h : final_here ts_ok c st h = last (map fst (run_here ts_ok c st h)) st.
Proof. apply e2e_final_last. Qed.

(* the general form: ANY frame list `fs` that the C03 reassembler turns into `payload` from every record state fresh for
   `seq` (E2EFast.reassembles; `segment seq payload` is one: C03 = E2EFast.segment_reassembles) *)
Theorem E2E_fast_frames : forall g d, In g db_groups -> in_scope g = true -> In d (bound_defs g) -> simple_def d = true ->
  forall ts_ok st ins pgn prio src dst seq fs payload,
  Forall2 (parses_to ts_ok pgn prio src dst) ins fs -> reassembles seq fs payload ->
  pgn = group_pgn g -> pgn <> 60928 ->
  tbl_is_fast code_fast pgn = Ok (Some true) ->
  (forall n, zlookup src (srcmap st) = Some n -> mfr_modelled n = true) ->
  fresh_key seq (klookup (pgn, src, dst) (reasm st)) ->
  spec_select g (le_int payload) = Some d ->
  let res := e2e_expected SL SLB d (le_int payload) src dst prio (zlookup src (srcmap st)) in
  let st' := final_here ts_ok cfg0 st ins in
  map snd (run_here ts_ok cfg0 st ins) = repeat (Ok None) (length fs - 1) ++ [res] /\
  srcmap st' = srcmap st /\
  (is_ok res = true -> klookup (pgn, src, dst) (reasm st') = None) /\
  (forall k', k' <> (pgn, src, dst) -> klookup k' (reasm st') = klookup k' (reasm st)).
Proof.
  intros g d Hg Sc Hd S ts_ok st ins pgn prio src dst seq fs payload P Re Ep Hp Hf Hi Fr Sel.
  pose proof (G_ok g Hg) as G.
  pose proof E2E_side as Sd. rewrite forallb_forall in Sd. specialize (Sd g Hg).
  rewrite forallb_forall in Sd. specialize (Sd d (bound_defs_in g d Hd)).
  apply andb_true_iff in Sd. destruct Sd as [Pg A]. apply Z.eqb_eq in Pg.
  unfold run_here, final_here.
  apply (e2e_fast_tables code_dec code_disp code_ids code_fast code_lookups code_bitlookups code_indirect
           ts_ok SL SLB g d st ins pgn prio src dst seq fs payload); try assumption.
  exact (C01_here g d Hg Hd S).
Qed.
Print Assumptions E2E_fast_frames.

Theorem E2E_fast_any_entry : forall g d, In g db_groups -> in_scope g = true -> In d (bound_defs g) -> simple_def d = true ->
  forall ts_ok st ins pgn prio src dst seq payload,
  Forall2 (parses_to ts_ok pgn prio src dst) ins (FastPacket.segment seq payload) ->
  pgn = group_pgn g -> pgn <> 60928 ->
  tbl_is_fast code_fast pgn = Ok (Some true) ->
  (forall n, zlookup src (srcmap st) = Some n -> mfr_modelled n = true) ->
  0 <= seq < 8 -> zlen payload <= 223 ->
  fresh_key seq (klookup (pgn, src, dst) (reasm st)) ->
  spec_select g (le_int payload) = Some d ->
  let res := e2e_expected SL SLB d (le_int payload) src dst prio (zlookup src (srcmap st)) in
  let st' := final_here ts_ok cfg0 st ins in
  map snd (run_here ts_ok cfg0 st ins) = repeat (Ok None) (length (FastPacket.segment seq payload) - 1) ++ [res] /\
  srcmap st' = srcmap st /\
  (is_ok res = true -> klookup (pgn, src, dst) (reasm st') = None) /\
  (forall k', k' <> (pgn, src, dst) -> klookup k' (reasm st') = klookup k' (reasm st)).
Proof.
  intros g d Hg Sc Hd S ts_ok st ins pgn prio src dst seq payload P Ep Hp Hf Hi Hs Hl Fr Sel.
  exact (E2E_fast_frames g d Hg Sc Hd S ts_ok st ins pgn prio src dst seq (FastPacket.segment seq payload) payload
           P (segment_reassembles seq payload Hs Hl) Ep Hp Hf Hi Fr Sel).
Qed.
Print Assumptions E2E_fast_any_entry.

(* decode_tcp, any EByte rendering of each frame *)
Theorem E2E_fast_packet : forall g d, In g db_groups -> in_scope g = true -> In d (bound_defs g) -> simple_def d = true ->
  forall ts_ok st id ins seq payload,
  0 <= id < 536870912 ->
  Forall2 (ebyte_of id) ins (FastPacket.segment seq payload) ->
  let '(pgn, src, dst, prio) := extract_header id in
  pgn = group_pgn g -> pgn <> 60928 ->
  tbl_is_fast code_fast pgn = Ok (Some true) ->
  (forall n, zlookup src (srcmap st) = Some n -> mfr_modelled n = true) ->
  0 <= seq < 8 -> zlen payload <= 223 ->
  fresh_key seq (klookup (pgn, src, dst) (reasm st)) ->
  spec_select g (le_int payload) = Some d ->
  let res := e2e_expected SL SLB d (le_int payload) src dst prio (zlookup src (srcmap st)) in
  let st' := final_here ts_ok cfg0 st ins in
  map snd (run_here ts_ok cfg0 st ins) = repeat (Ok None) (length (FastPacket.segment seq payload) - 1) ++ [res] /\
  srcmap st' = srcmap st /\
  (is_ok res = true -> klookup (pgn, src, dst) (reasm st') = None) /\
  (forall k', k' <> (pgn, src, dst) -> klookup k' (reasm st') = klookup k' (reasm st)).
Proof.
  intros g d Hg Sc Hd S ts_ok st id ins seq payload Hid E.
  destruct (extract_header id) as [[[pgn src] dst] prio] eqn:Hh.
  intros Ep Hp Hf Hi Hs Hl Fr Sel.
  apply (E2E_fast_any_entry g d Hg Sc Hd S ts_ok st ins pgn prio src dst seq payload); try assumption.
  apply (ebyte_parses ts_ok id ins (FastPacket.segment seq payload) pgn src dst prio); [lia | exact Hh | exact E].
Qed.
Print Assumptions E2E_fast_packet.

(* decode_tcp on the packets  map (enc_ebyte1 (be4 id)) (segment seq payload)  — the encoder's rendering of the frames *)
Definition ebyte_inputs (id : Z) (win : bool) (fs : list (list Z)) : list einput :=
  map (fun f => {| e_fmt := WTcp; e_data := enc_ebyte1 (be4 id) f; e_win := win |}) fs.

Theorem E2E_fast_packet_ebyte : forall g d, In g db_groups -> in_scope g = true -> In d (bound_defs g) -> simple_def d = true ->
  forall ts_ok st id win seq payload,
  0 <= id < 536870912 ->
  let '(pgn, src, dst, prio) := extract_header id in
  pgn = group_pgn g -> pgn <> 60928 ->
  tbl_is_fast code_fast pgn = Ok (Some true) ->
  (forall n, zlookup src (srcmap st) = Some n -> mfr_modelled n = true) ->
  0 <= seq < 8 -> zlen payload <= 223 ->
  fresh_key seq (klookup (pgn, src, dst) (reasm st)) ->
  spec_select g (le_int payload) = Some d ->
  let ins := ebyte_inputs id win (FastPacket.segment seq payload) in
  let res := e2e_expected SL SLB d (le_int payload) src dst prio (zlookup src (srcmap st)) in
  let st' := final_here ts_ok cfg0 st ins in
  map snd (run_here ts_ok cfg0 st ins) = repeat (Ok None) (length (FastPacket.segment seq payload) - 1) ++ [res] /\
  srcmap st' = srcmap st /\
  (is_ok res = true -> klookup (pgn, src, dst) (reasm st') = None) /\
  (forall k', k' <> (pgn, src, dst) -> klookup k' (reasm st') = klookup k' (reasm st)).
Proof.
  intros g d Hg Sc Hd S ts_ok st id win seq payload Hid.
  pose proof (E2E_fast_packet g d Hg Sc Hd S ts_ok st id (ebyte_inputs id win (FastPacket.segment seq payload)) seq payload Hid
                (ebyte_canonical id win _ (segment_le8 seq payload))) as T.
  destruct (extract_header id) as [[[pgn src] dst] prio]. exact T.
Qed.
Print Assumptions E2E_fast_packet_ebyte.

(* a PGN without dispatcher: the bound definition decodes EVERY reassembled payload *)
Theorem E2E_fast_frames_undispatched : forall g d, In g db_groups -> is_dispatched g = false -> In d (bound_defs g) -> simple_def d = true ->
  forall ts_ok st ins pgn prio src dst seq fs payload,
  Forall2 (parses_to ts_ok pgn prio src dst) ins fs -> reassembles seq fs payload ->
  pgn = group_pgn g -> pgn <> 60928 ->
  tbl_is_fast code_fast pgn = Ok (Some true) ->
  (forall n, zlookup src (srcmap st) = Some n -> mfr_modelled n = true) ->
  fresh_key seq (klookup (pgn, src, dst) (reasm st)) ->
  let res := e2e_expected SL SLB d (le_int payload) src dst prio (zlookup src (srcmap st)) in
  let st' := final_here ts_ok cfg0 st ins in
  map snd (run_here ts_ok cfg0 st ins) = repeat (Ok None) (length fs - 1) ++ [res] /\
  srcmap st' = srcmap st /\
  (is_ok res = true -> klookup (pgn, src, dst) (reasm st') = None) /\
  (forall k', k' <> (pgn, src, dst) -> klookup k' (reasm st') = klookup k' (reasm st)).
Proof.
  intros g d Hg D Hd S ts_ok st ins pgn prio src dst seq fs payload P Re Ep Hp Hf Hi Fr.
  pose proof (G_ok g Hg) as G.
  pose proof E2E_side as Sd. rewrite forallb_forall in Sd. specialize (Sd g Hg).
  rewrite forallb_forall in Sd. specialize (Sd d (bound_defs_in g d Hd)).
  apply andb_true_iff in Sd. destruct Sd as [Pg A]. apply Z.eqb_eq in Pg.
  unfold run_here, final_here.
  apply (e2e_fast_tables_undispatched code_dec code_disp code_ids code_fast code_lookups code_bitlookups code_indirect
           ts_ok SL SLB g d st ins pgn prio src dst seq fs payload); try assumption.
  exact (C01_here g d Hg Hd S).
Qed.
Print Assumptions E2E_fast_frames_undispatched.

Theorem E2E_fast_undispatched : forall g d, In g db_groups -> is_dispatched g = false -> In d (bound_defs g) -> simple_def d = true ->
  forall ts_ok st ins pgn prio src dst seq payload,
  Forall2 (parses_to ts_ok pgn prio src dst) ins (FastPacket.segment seq payload) ->
  pgn = group_pgn g -> pgn <> 60928 ->
  tbl_is_fast code_fast pgn = Ok (Some true) ->
  (forall n, zlookup src (srcmap st) = Some n -> mfr_modelled n = true) ->
  0 <= seq < 8 -> zlen payload <= 223 ->
  fresh_key seq (klookup (pgn, src, dst) (reasm st)) ->
  let res := e2e_expected SL SLB d (le_int payload) src dst prio (zlookup src (srcmap st)) in
  let st' := final_here ts_ok cfg0 st ins in
  map snd (run_here ts_ok cfg0 st ins) = repeat (Ok None) (length (FastPacket.segment seq payload) - 1) ++ [res] /\
  srcmap st' = srcmap st /\
  (is_ok res = true -> klookup (pgn, src, dst) (reasm st') = None) /\
  (forall k', k' <> (pgn, src, dst) -> klookup k' (reasm st') = klookup k' (reasm st)).
Proof.
  intros g d Hg D Hd S ts_ok st ins pgn prio src dst seq payload P Ep Hp Hf Hi Hs Hl Fr.
  exact (E2E_fast_frames_undispatched g d Hg D Hd S ts_ok st ins pgn prio src dst seq (FastPacket.segment seq payload) payload
           P (segment_reassembles seq payload Hs Hl) Ep Hp Hf Hi Fr).
Qed.
Print Assumptions E2E_fast_undispatched.

(* ====================================================================================================== *)
(* the same for every definition of the class var_def, against the position-threading specification        *)
(* ====================================================================================================== *)
Theorem E2E_fast_frames_var : forall g d, In g db_groups -> in_scope g = true -> In d (bound_defs g) -> var_def d = true ->
  forall ts_ok st ins pgn prio src dst seq fs payload,
  Forall2 (parses_to ts_ok pgn prio src dst) ins fs -> reassembles seq fs payload ->
  pgn = group_pgn g -> pgn <> 60928 ->
  tbl_is_fast code_fast pgn = Ok (Some true) ->
  (forall n, zlookup src (srcmap st) = Some n -> mfr_modelled n = true) ->
  fresh_key seq (klookup (pgn, src, dst) (reasm st)) ->
  spec_select g (le_int payload) = Some d ->
  let res := e2e_expected_var SL SLB SLI d (le_int payload) src dst prio (zlookup src (srcmap st)) in
  let st' := final_here ts_ok cfg0 st ins in
  map snd (run_here ts_ok cfg0 st ins) = repeat (Ok None) (length fs - 1) ++ [res] /\
  srcmap st' = srcmap st /\
  (is_ok res = true -> klookup (pgn, src, dst) (reasm st') = None) /\
  (forall k', k' <> (pgn, src, dst) -> klookup k' (reasm st') = klookup k' (reasm st)).
Proof.
  intros g d Hg Sc Hd S ts_ok st ins pgn prio src dst seq fs payload P Re Ep Hp Hf Hi Fr Sel.
  pose proof (G_ok g Hg) as G.
  pose proof E2E_side as Sd. rewrite forallb_forall in Sd. specialize (Sd g Hg).
  rewrite forallb_forall in Sd. specialize (Sd d (bound_defs_in g d Hd)).
  apply andb_true_iff in Sd. destruct Sd as [Pg A]. apply Z.eqb_eq in Pg.
  unfold run_here, final_here, e2e_expected_var.
  apply (e2e_fast_tables_of code_dec code_disp code_ids code_fast code_lookups code_bitlookups code_indirect
           ts_ok (spec_decode_var SL SLB SLI) g d st ins pgn prio src dst seq fs payload (spec_head_var SL SLB SLI));
    try assumption.
  exact (C01_var_here g d Hg Hd S).
Qed.
Print Assumptions E2E_fast_frames_var.

Theorem E2E_fast_any_entry_var : forall g d, In g db_groups -> in_scope g = true -> In d (bound_defs g) -> var_def d = true ->
  forall ts_ok st ins pgn prio src dst seq payload,
  Forall2 (parses_to ts_ok pgn prio src dst) ins (FastPacket.segment seq payload) ->
  pgn = group_pgn g -> pgn <> 60928 ->
  tbl_is_fast code_fast pgn = Ok (Some true) ->
  (forall n, zlookup src (srcmap st) = Some n -> mfr_modelled n = true) ->
  0 <= seq < 8 -> zlen payload <= 223 ->
  fresh_key seq (klookup (pgn, src, dst) (reasm st)) ->
  spec_select g (le_int payload) = Some d ->
  let res := e2e_expected_var SL SLB SLI d (le_int payload) src dst prio (zlookup src (srcmap st)) in
  let st' := final_here ts_ok cfg0 st ins in
  map snd (run_here ts_ok cfg0 st ins) = repeat (Ok None) (length (FastPacket.segment seq payload) - 1) ++ [res] /\
  srcmap st' = srcmap st /\
  (is_ok res = true -> klookup (pgn, src, dst) (reasm st') = None) /\
  (forall k', k' <> (pgn, src, dst) -> klookup k' (reasm st') = klookup k' (reasm st)).
Proof.
  intros g d Hg Sc Hd S ts_ok st ins pgn prio src dst seq payload P Ep Hp Hf Hi Hs Hl Fr Sel.
  exact (E2E_fast_frames_var g d Hg Sc Hd S ts_ok st ins pgn prio src dst seq (FastPacket.segment seq payload) payload
           P (segment_reassembles seq payload Hs Hl) Ep Hp Hf Hi Fr Sel).
Qed.
Print Assumptions E2E_fast_any_entry_var.

Theorem E2E_fast_packet_var : forall g d, In g db_groups -> in_scope g = true -> In d (bound_defs g) -> var_def d = true ->
  forall ts_ok st id ins seq payload,
  0 <= id < 536870912 ->
  Forall2 (ebyte_of id) ins (FastPacket.segment seq payload) ->
  let '(pgn, src, dst, prio) := extract_header id in
  pgn = group_pgn g -> pgn <> 60928 ->
  tbl_is_fast code_fast pgn = Ok (Some true) ->
  (forall n, zlookup src (srcmap st) = Some n -> mfr_modelled n = true) ->
  0 <= seq < 8 -> zlen payload <= 223 ->
  fresh_key seq (klookup (pgn, src, dst) (reasm st)) ->
  spec_select g (le_int payload) = Some d ->
  let res := e2e_expected_var SL SLB SLI d (le_int payload) src dst prio (zlookup src (srcmap st)) in
  let st' := final_here ts_ok cfg0 st ins in
  map snd (run_here ts_ok cfg0 st ins) = repeat (Ok None) (length (FastPacket.segment seq payload) - 1) ++ [res] /\
  srcmap st' = srcmap st /\
  (is_ok res = true -> klookup (pgn, src, dst) (reasm st') = None) /\
  (forall k', k' <> (pgn, src, dst) -> klookup k' (reasm st') = klookup k' (reasm st)).
Proof.
  intros g d Hg Sc Hd S ts_ok st id ins seq payload Hid E.
  destruct (extract_header id) as [[[pgn src] dst] prio] eqn:Hh.
  intros Ep Hp Hf Hi Hs Hl Fr Sel.
  apply (E2E_fast_any_entry_var g d Hg Sc Hd S ts_ok st ins pgn prio src dst seq payload); try assumption.
  apply (ebyte_parses ts_ok id ins (FastPacket.segment seq payload) pgn src dst prio); [lia | exact Hh | exact E].
Qed.
Print Assumptions E2E_fast_packet_var.

Theorem E2E_fast_packet_ebyte_var : forall g d, In g db_groups -> in_scope g = true -> In d (bound_defs g) -> var_def d = true ->
  forall ts_ok st id win seq payload,
  0 <= id < 536870912 ->
  let '(pgn, src, dst, prio) := extract_header id in
  pgn = group_pgn g -> pgn <> 60928 ->
  tbl_is_fast code_fast pgn = Ok (Some true) ->
  (forall n, zlookup src (srcmap st) = Some n -> mfr_modelled n = true) ->
  0 <= seq < 8 -> zlen payload <= 223 ->
  fresh_key seq (klookup (pgn, src, dst) (reasm st)) ->
  spec_select g (le_int payload) = Some d ->
  let ins := ebyte_inputs id win (FastPacket.segment seq payload) in
  let res := e2e_expected_var SL SLB SLI d (le_int payload) src dst prio (zlookup src (srcmap st)) in
  let st' := final_here ts_ok cfg0 st ins in
  map snd (run_here ts_ok cfg0 st ins) = repeat (Ok None) (length (FastPacket.segment seq payload) - 1) ++ [res] /\
  srcmap st' = srcmap st /\
  (is_ok res = true -> klookup (pgn, src, dst) (reasm st') = None) /\
  (forall k', k' <> (pgn, src, dst) -> klookup k' (reasm st') = klookup k' (reasm st)).
Proof.
  intros g d Hg Sc Hd S ts_ok st id win seq payload Hid.
  pose proof (E2E_fast_packet_var g d Hg Sc Hd S ts_ok st id (ebyte_inputs id win (FastPacket.segment seq payload)) seq payload Hid
                (ebyte_canonical id win _ (segment_le8 seq payload))) as T.
  destruct (extract_header id) as [[[pgn src] dst] prio]. exact T.
Qed.
Print Assumptions E2E_fast_packet_ebyte_var.

Theorem E2E_fast_frames_undispatched_var : forall g d, In g db_groups -> is_dispatched g = false -> In d (bound_defs g) -> var_def d = true ->
  forall ts_ok st ins pgn prio src dst seq fs payload,
  Forall2 (parses_to ts_ok pgn prio src dst) ins fs -> reassembles seq fs payload ->
  pgn = group_pgn g -> pgn <> 60928 ->
  tbl_is_fast code_fast pgn = Ok (Some true) ->
  (forall n, zlookup src (srcmap st) = Some n -> mfr_modelled n = true) ->
  fresh_key seq (klookup (pgn, src, dst) (reasm st)) ->
  let res := e2e_expected_var SL SLB SLI d (le_int payload) src dst prio (zlookup src (srcmap st)) in
  let st' := final_here ts_ok cfg0 st ins in
  map snd (run_here ts_ok cfg0 st ins) = repeat (Ok None) (length fs - 1) ++ [res] /\
  srcmap st' = srcmap st /\
  (is_ok res = true -> klookup (pgn, src, dst) (reasm st') = None) /\
  (forall k', k' <> (pgn, src, dst) -> klookup k' (reasm st') = klookup k' (reasm st)).
Proof.
  intros g d Hg D Hd S ts_ok st ins pgn prio src dst seq fs payload P Re Ep Hp Hf Hi Fr.
  pose proof (G_ok g Hg) as G.
  pose proof E2E_side as Sd. rewrite forallb_forall in Sd. specialize (Sd g Hg).
  rewrite forallb_forall in Sd. specialize (Sd d (bound_defs_in g d Hd)).
  apply andb_true_iff in Sd. destruct Sd as [Pg A]. apply Z.eqb_eq in Pg.
  unfold run_here, final_here, e2e_expected_var.
  apply (e2e_fast_tables_undispatched_of code_dec code_disp code_ids code_fast code_lookups code_bitlookups code_indirect
           ts_ok (spec_decode_var SL SLB SLI) g d st ins pgn prio src dst seq fs payload (spec_head_var SL SLB SLI));
    try assumption.
  exact (C01_var_here g d Hg Hd S).
Qed.
Print Assumptions E2E_fast_frames_undispatched_var.

Theorem E2E_fast_undispatched_var : forall g d, In g db_groups -> is_dispatched g = false -> In d (bound_defs g) -> var_def d = true ->
  forall ts_ok st ins pgn prio src dst seq payload,
  Forall2 (parses_to ts_ok pgn prio src dst) ins (FastPacket.segment seq payload) ->
  pgn = group_pgn g -> pgn <> 60928 ->
  tbl_is_fast code_fast pgn = Ok (Some true) ->
  (forall n, zlookup src (srcmap st) = Some n -> mfr_modelled n = true) ->
  0 <= seq < 8 -> zlen payload <= 223 ->
  fresh_key seq (klookup (pgn, src, dst) (reasm st)) ->
  let res := e2e_expected_var SL SLB SLI d (le_int payload) src dst prio (zlookup src (srcmap st)) in
  let st' := final_here ts_ok cfg0 st ins in
  map snd (run_here ts_ok cfg0 st ins) = repeat (Ok None) (length (FastPacket.segment seq payload) - 1) ++ [res] /\
  srcmap st' = srcmap st /\
  (is_ok res = true -> klookup (pgn, src, dst) (reasm st') = None) /\
  (forall k', k' <> (pgn, src, dst) -> klookup k' (reasm st') = klookup k' (reasm st)).
Proof.
  intros g d Hg D Hd S ts_ok st ins pgn prio src dst seq payload P Ep Hp Hf Hi Hs Hl Fr.
  exact (E2E_fast_frames_undispatched_var g d Hg D Hd S ts_ok st ins pgn prio src dst seq (FastPacket.segment seq payload) payload
           P (segment_reassembles seq payload Hs Hl) Ep Hp Hf Hi Fr).
Qed.
Print Assumptions E2E_fast_undispatched_var.

(* ---- coverage: fixed-layout bound definitions covered by OblE2E (E2E_any_entry or E2E_undispatched); of which their PGN
        is a fast-packet PGN of the code = covered frame by frame by E2E_fast_any_entry or E2E_fast_undispatched; of which
        by E2E_fast_any_entry alone; single-frame ones (OblE2E); neither (is_fast raises / no is_fast function) ---- *)
Definition fast_kind (b : bool) (gd : list dbdef * dbdef) : bool :=
  match tbl_is_fast code_fast (group_pgn (fst gd)) with Ok (Some a) => Bool.eqb a b | _ => false end.
Definition not_claim (gd : list dbdef * dbdef) : bool := negb (group_pgn (fst gd) =? 60928).
Definition fast_covered_all : list (list dbdef * dbdef) := filter (fun gd => fast_kind true gd && not_claim gd) covered_all.
Definition fast_covered : list (list dbdef * dbdef) := filter (fun gd => fast_kind true gd && not_claim gd) covered.
Eval vm_compute in (77777%Z, length covered_all, length fast_covered_all, length fast_covered,
                    length (filter (fast_kind false) covered_all),
                    length (filter (fun gd => negb (fast_kind true gd) && negb (fast_kind false gd)) covered_all)).
(* the _var theorems: bound definitions of var_def covered by OblE2E's _var theorems; of which fast-packet PGNs (covered
   frame by frame by E2E_fast_any_entry_var / E2E_fast_undispatched_var); of which by E2E_fast_any_entry_var alone; of the
   fast ones, not fixed-layout; single-frame; neither *)
Definition fast_covered_all_var : list (list dbdef * dbdef) := filter (fun gd => fast_kind true gd && not_claim gd) covered_all_var.
Definition fast_covered_var : list (list dbdef * dbdef) := filter (fun gd => fast_kind true gd && not_claim gd) covered_var.
Eval vm_compute in (77779%Z, length covered_all_var, length fast_covered_all_var, length fast_covered_var,
                    length (filter (fun gd => negb (simple_def (snd gd))) fast_covered_all_var),
                    length (filter (fast_kind false) covered_all_var),
                    length (filter (fun gd => negb (fast_kind true gd) && negb (fast_kind false gd)) covered_all_var)).
(* the fast-packet PGNs covered, with the Length of the definition *)
Eval vm_compute in (77778%Z, map (fun gd => (Defn.d_pgn (snd gd), Defn.d_length (snd gd))) fast_covered_all).

(* ---- non-vacuity: PGN 128275 (Distance Log, 14 bytes = 3 frames), priority 6, source 35, counter 5, on a fresh decoder,
        the packets as the encoder renders them ---- *)
Definition ex_id : Z := 6 * 67108864 + 128275 * 256 + 35.
Definition ex_payload : list Z := [16; 78; 0; 27; 183; 0; 64; 66; 15; 0; 16; 39; 0; 0].
Definition ex_g : list dbdef := match find (fun g => group_pgn g =? 128275) db_groups with Some g => g | None => [] end.
Definition ex_ins : list einput := ebyte_inputs ex_id false (FastPacket.segment 5 ex_payload).
Example E2E_fast_nonvacuous :
  exists d, In ex_g db_groups /\ in_scope ex_g = true /\ In d (bound_defs ex_g) /\ simple_def d = true /\
    extract_header ex_id = (128275, 35, 255, 6) /\ 128275 = group_pgn ex_g /\
    tbl_is_fast code_fast 128275 = Ok (Some true) /\ spec_select ex_g (le_int ex_payload) = Some d /\
    map e_data ex_ins = [ [136; 25; 245; 19; 35;  160; 14; 16; 78; 0; 27; 183; 0];
                          [136; 25; 245; 19; 35;  161; 64; 66; 15; 0; 16; 39; 0];
                          [130; 25; 245; 19; 35;  162; 0;  0; 0; 0; 0; 0; 0] ] /\
    exists m, map snd (run_here (fun _ _ => false) cfg0 init ex_ins) = [Ok None; Ok None; Ok (Some (m, 6))] /\
              DecoderCtl.m_pgn m = 128275 /\ m_src m = 35 /\ m_dst m = 255 /\
              klookup (128275, 35, 255) (reasm (final_here (fun _ _ => false) cfg0 init ex_ins)) = None /\
              srcmap (final_here (fun _ _ => false) cfg0 init ex_ins) = [].
Proof.
  assert (Hg : In ex_g db_groups).
  { unfold ex_g. destruct (find (fun g => group_pgn g =? 128275) db_groups) as [g|] eqn:F.
    - apply find_some in F. tauto.
    - exfalso. vm_compute in F. discriminate. }
  destruct (spec_select ex_g (le_int ex_payload)) as [d|] eqn:S; [|exfalso; vm_compute in S; discriminate].
  exists d. split; [exact Hg|]. split; [vm_compute; reflexivity|].
  assert (Hd : In d (bound_defs ex_g)).
  { assert (B : bound_defs ex_g = ex_g) by (vm_compute; reflexivity). rewrite B. exact (spec_select_in _ _ _ S). }
  split; [exact Hd|].
  assert (Sd : simple_def d = true).
  { assert (A : forallb simple_def ex_g = true) by (vm_compute; reflexivity).
    rewrite forallb_forall in A. apply A. exact (spec_select_in _ _ _ S). }
  split; [exact Sd|]. split; [vm_compute; reflexivity|]. split; [vm_compute; reflexivity|].
  split; [vm_compute; reflexivity|]. split; [reflexivity|]. split; [vm_compute; reflexivity|].
  pose proof (E2E_fast_packet_ebyte ex_g d Hg eq_refl Hd Sd (fun _ _ => false) init ex_id false 5 ex_payload
                ltac:(unfold ex_id; lia)) as T.
  assert (X : extract_header ex_id = (128275, 35, 255, 6)) by (vm_compute; reflexivity).
  rewrite X in T. cbv beta iota zeta in T. fold ex_ins in T.
  assert (H1 : 128275 = group_pgn ex_g) by (vm_compute; reflexivity).
  assert (H2 : 128275 <> 60928) by discriminate.
  assert (H3 : tbl_is_fast code_fast 128275 = Ok (Some true)) by (vm_compute; reflexivity).
  assert (H4 : forall n, zlookup 35 (srcmap init) = Some n -> mfr_modelled n = true) by (intros n Hn; discriminate).
  assert (H5 : 0 <= 5 < 8) by lia.
  assert (H6 : zlen ex_payload <= 223) by (vm_compute; discriminate).
  assert (H7 : fresh_key 5 (klookup (128275, 35, 255) (reasm init))) by (left; reflexivity).
  destruct (T H1 H2 H3 H4 H5 H6 H7 S) as (T1 & T2 & T3 & _). clear T.
  assert (Ln : length (FastPacket.segment 5 ex_payload) = 3%nat) by (vm_compute; reflexivity).
  rewrite Ln in T1. cbn [Nat.sub repeat app] in T1. rewrite T1.
  assert (A : forallb (fun d => match spec_decode SL SLB (le_int ex_payload) d with Ok _ => true | _ => false end) ex_g = true)
    by (vm_compute; reflexivity).
  rewrite forallb_forall in A. specialize (A d (spec_select_in _ _ _ S)).
  unfold e2e_expected in T3 |- *.
  destruct (spec_decode SL SLB (le_int ex_payload) d) as [m| |] eqn:E; [|exfalso; cbv beta iota in A; discriminate A ..].
  eexists. split; [reflexivity|]. cbn [DecoderCtl.m_pgn m_src m_dst].
  split; [|split; [reflexivity | split; [reflexivity | split; [exact (T3 eq_refl) | exact T2]]]].
  assert (Pg : forallb (fun d => Defn.d_pgn d =? 128275) ex_g = true) by (vm_compute; reflexivity).
  rewrite forallb_forall in Pg. apply Z.eqb_eq. apply Pg. exact (spec_select_in _ _ _ S).
Qed.

(* an independent evaluation by the kernel of the same run (no theorem involved): outcomes' shapes and the final store *)
Example E2E_fast_evaluated :
  (map (fun r => match r with Ok None => 0 | Ok (Some (m, prio)) => DecoderCtl.m_pgn m * 8 + prio | _ => -1 end)
       (map snd (run_here (fun _ _ => false) cfg0 init ex_ins)),
   final_here (fun _ _ => false) cfg0 init ex_ins)
  = ([0; 0; 128275 * 8 + 6], init).
Proof. vm_compute. reflexivity. Qed.

(* ---- non-vacuity of the _var theorems: PGN 126998 (three STRING_LAU), the 19-byte payload of
        tests/test_decoder.py::test_STRING_LAU_parse (OblE2E.ex_vdata) sent as a fast packet: priority 6, source 1,
        counter 3, three EByte packets as the encoder renders them.  The first two calls return None, the third returns the
        message whose body is the serialisation of the fields 'hello', 'wórld', None — the same message
        decode_basic_string returns for the combined line (OblE2E.E2E_var_nonvacuous). ---- *)
Definition ex_vid : Z := 6 * 67108864 + 126998 * 256 + 1.
Definition ex_vins : list einput := ebyte_inputs ex_vid false (FastPacket.segment 3 ex_vdata).
Example E2E_fast_var_nonvacuous :
  exists d m', In ex_vg db_groups /\ In d (bound_defs ex_vg) /\ var_def d = true /\ simple_def d = false /\
    extract_header ex_vid = (126998, 1, 255, 6) /\ tbl_is_fast code_fast 126998 = Ok (Some true) /\
    map e_data ex_vins = [ [136; 25; 240; 22; 1;  96; 19; 7; 1; 104; 101; 108; 108];
                           [136; 25; 240; 22; 1;  97; 111; 12; 0; 119; 0; 243; 0];
                           [135; 25; 240; 22; 1;  98; 114; 0; 108; 0; 100; 0; 0] ] /\
    spec_decode_var SL SLB SLI (le_int ex_vdata) d = Ok m' /\ ex_vtexts m' = true /\
    map snd (run_here (fun _ _ => false) cfg0 init ex_vins)
    = [Ok None; Ok None;
       Ok (Some ({| DecoderCtl.m_pgn := 126998; DecoderCtl.m_id := bytes_of_str (Defn.d_id d);
                    m_src := 1; m_dst := 255; m_iso := None; m_body := ser_msg m' |}, 6))] /\
    klookup (126998, 1, 255) (reasm (final_here (fun _ _ => false) cfg0 init ex_vins)) = None.
Proof.
  assert (Hg : In ex_vg db_groups).
  { unfold ex_vg. destruct (find (fun g => group_pgn g =? 126998) db_groups) as [g|] eqn:F.
    - apply find_some in F. tauto.
    - exfalso. vm_compute in F. discriminate. }
  destruct (spec_select ex_vg (le_int ex_vdata)) as [d|] eqn:S; [|exfalso; vm_compute in S; discriminate].
  pose proof (spec_select_in _ _ _ S) as I.
  assert (A : forallb (fun d => var_def d && negb (simple_def d) && (Defn.d_pgn d =? 126998)
                                && match spec_decode_var SL SLB SLI (le_int ex_vdata) d with Ok m => ex_vtexts m | _ => false end)
                      ex_vg = true) by (vm_compute; reflexivity).
  rewrite forallb_forall in A. specialize (A d I).
  apply andb_true_iff in A. destruct A as [A At]. apply andb_true_iff in A. destruct A as [A Ap].
  apply andb_true_iff in A. destruct A as [Av As]. apply negb_true_iff in As. apply Z.eqb_eq in Ap.
  destruct (spec_decode_var SL SLB SLI (le_int ex_vdata) d) as [m'| |] eqn:E; try discriminate At.
  exists d, m'. split; [exact Hg|].
  assert (Hd : In d (bound_defs ex_vg)).
  { assert (B : bound_defs ex_vg = ex_vg) by (vm_compute; reflexivity). rewrite B. exact I. }
  split; [exact Hd|]. split; [exact Av|]. split; [exact As|].
  split; [vm_compute; reflexivity|]. split; [vm_compute; reflexivity|]. split; [vm_compute; reflexivity|].
  split; [exact E|]. split; [exact At|].
  pose proof (E2E_fast_packet_ebyte_var ex_vg d Hg eq_refl Hd Av (fun _ _ => false) init ex_vid false 3 ex_vdata
                ltac:(unfold ex_vid; lia)) as T.
  assert (X : extract_header ex_vid = (126998, 1, 255, 6)) by (vm_compute; reflexivity).
  rewrite X in T. cbv beta iota zeta in T. fold ex_vins in T.
  assert (H1 : 126998 = group_pgn ex_vg) by (vm_compute; reflexivity).
  assert (H2 : 126998 <> 60928) by discriminate.
  assert (H3 : tbl_is_fast code_fast 126998 = Ok (Some true)) by (vm_compute; reflexivity).
  assert (H4 : forall n, zlookup 1 (srcmap init) = Some n -> mfr_modelled n = true) by (intros n Hn; discriminate).
  assert (H5 : 0 <= 3 < 8) by lia.
  assert (H6 : zlen ex_vdata <= 223) by (vm_compute; discriminate).
  assert (H7 : fresh_key 3 (klookup (126998, 1, 255) (reasm init))) by (left; reflexivity).
  destruct (T H1 H2 H3 H4 H5 H6 H7 S) as (T1 & _ & T3 & _). clear T.
  assert (Ln : length (FastPacket.segment 3 ex_vdata) = 3%nat) by (vm_compute; reflexivity).
  rewrite Ln in T1. cbn [Nat.sub repeat app] in T1.
  unfold e2e_expected_var, e2e_expected_of in T1, T3. rewrite E in T1, T3. rewrite Ap in T1.
  split; [exact T1 | exact (T3 eq_refl)].
Qed.
