From NV Require Import Base Bits Defn PyNum Fields Dispatch Template TemplateEnc.
From NVGen Require Import GenDb GenCode.
Definition db_groups : list (list dbdef) := groups db_defs.
Eval vm_compute in flat_map (fun g => map (fun d => (d_pgn d, d_id d)) (filter (fun d => negb (edef_ok code_enc g d)) (bound_defs g))) db_groups.
