(* OblC01.v — generated-table obligations for C01 (copied into build/gen and compiled on every run;
   GenDb / GenCode / GenLookups / GenDbLookups are regenerated from /repo). *)
From NV Require Import Base Bits Defn PyNum Fields Dispatch Template Spec SpecProofs.
From NVGen Require Import GenDb GenCode GenLookups GenDbLookups.

Definition db_groups : list (list dbdef) := groups db_defs.

(* for every database definition that owns a function: the function Python binds to that name
   exists and its translated statements equal, step by step and attribute by attribute, the steps
   of the template for the database record (kernel computation; bound printed below) *)
Theorem C01_tables : forallb (group_defs_ok code_dec) db_groups = true.
Proof. vm_compute. reflexivity. Qed.

(* no decode function without a database definition *)
Theorem C01_no_stray : no_stray code_dec db_groups = true.
Proof. vm_compute. reflexivity. Qed.

(* the lookup dictionaries of the code are the database's tables (Python dict-literal semantics) *)
Theorem C01_lookups :
  norm_lookups db_lookups = code_lookups /\ norm_lookups db_bitlookups = code_bitlookups
  /\ norm_ilookups db_indirect = code_indirect.
Proof. vm_compute. repeat split; reflexivity. Qed.

(* C01 for the code of this run: every fixed-layout definition, every payload *)
Theorem C01 : forall g d, In g db_groups -> In d (bound_defs g) -> simple_def d = true ->
  exists cd, find_fname (fname_of g d) code_dec = Some cd /\
    forall p, run_ddef code_lookups code_bitlookups code_indirect p cd
              = spec_decode (norm_lookups db_lookups) (norm_lookups db_bitlookups) p d.
Proof.
  intros g d Hg Hd S.
  destruct C01_lookups as [E1 [E2 _]]. rewrite E1, E2.
  apply def_ok_sound; [|exact S].
  pose proof C01_tables as T. rewrite forallb_forall in T. specialize (T g Hg).
  unfold group_defs_ok in T. rewrite forallb_forall in T. apply T. exact Hd.
Qed.
Print Assumptions C01.

(* coverage: groups, bound definitions, of which fixed-layout (covered by C01), fields covered *)
Eval vm_compute in
  (length db_groups, length (flat_map bound_defs db_groups),
   length (filter simple_def (flat_map bound_defs db_groups)),
   length (flat_map d_fields (filter simple_def (flat_map bound_defs db_groups))),
   length (flat_map d_fields db_defs)).
