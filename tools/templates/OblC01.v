(* OblC01.v — generated-table obligations for C01 (copied into build/gen and compiled on every run;
   GenDb / GenCode / GenLookups / GenDbLookups are regenerated from /repo). *)
From NV Require Import Base Bits Defn PyNum Fields Dispatch Template Spec SpecProofs SpecVar SpecVarProofs.
From NVGen Require Import GenDb GenCode GenLookups GenDbLookups.

Definition db_groups : list (list dbdef) := groups db_defs.

(* for every database definition that owns a function: the function Python binds to that name
   exists and its translated statements equal, step by step and attribute by attribute, the steps
   of the template for the database record (kernel computation; bound printed below) *)
Theorem C01_tables : forallb (group_defs_ok code_dec) db_groups = true.
Proof. vm_compute. reflexivity. Qed.

(* no decode function without a database definition *)
Theorem C01_no_stray : no_stray code_dec db_groups = true.
Proof. vm_compute. reflexivity. Qed.

(* the lookup dictionaries of the code are the database's tables (Python dict-literal semantics) *)
Theorem C01_lookups :
  norm_lookups db_lookups = code_lookups /\ norm_lookups db_bitlookups = code_bitlookups
  /\ norm_ilookups db_indirect = code_indirect.
Proof. vm_compute. repeat split; reflexivity. Qed.

(* C01 for the code of this run: every fixed-layout definition, every payload *)
Theorem C01 : forall g d, In g db_groups -> In d (bound_defs g) -> simple_def d = true ->
  exists cd, find_fname (fname_of g d) code_dec = Some cd /\
    forall p, run_ddef code_lookups code_bitlookups code_indirect p cd
              = spec_decode (norm_lookups db_lookups) (norm_lookups db_bitlookups) p d.
Proof.
  intros g d Hg Hd S.
  destruct C01_lookups as [E1 [E2 _]]. rewrite E1, E2.
  apply def_ok_sound; [|exact S].
  pose proof C01_tables as T. rewrite forallb_forall in T. specialize (T g Hg).
  unfold group_defs_ok in T. rewrite forallb_forall in T. apply T. exact Hd.
Qed.
Print Assumptions C01.

(* coverage: groups, bound definitions, of which fixed-layout (covered by C01), fields covered *)
Eval vm_compute in
  (length db_groups, length (flat_map bound_defs db_groups),
   length (filter simple_def (flat_map bound_defs db_groups)),
   length (flat_map d_fields (filter simple_def (flat_map bound_defs db_groups))),
   length (flat_map d_fields db_defs)).

(* ---- variable layout: STRING_LAU / STRING_LZ, fields without BitOffset, BINARY with BitLengthField,
        INDIRECT_LOOKUP (SpecVar.v) ---- *)
(* every two-key table an INDIRECT_LOOKUP field names is among the dictionaries of the code *)
Theorem C01_indirect_tables :
  forallb (indirect_tables_ok code_indirect) (flat_map bound_defs db_groups) = true.
Proof. vm_compute. reflexivity. Qed.

(* C01 for the code of this run: every definition of the class var_def (it contains the fixed-layout
   ones), every payload: the translated decoder = the position-threading specification *)
Theorem C01_var : forall g d, In g db_groups -> In d (bound_defs g) -> var_def d = true ->
  exists cd, find_fname (fname_of g d) code_dec = Some cd /\
    forall p, run_ddef code_lookups code_bitlookups code_indirect p cd
              = spec_decode_var (norm_lookups db_lookups) (norm_lookups db_bitlookups)
                                (norm_ilookups db_indirect) p d.
Proof.
  intros g d Hg Hd S.
  destruct C01_lookups as [E1 [E2 E3]]. rewrite E1, E2, E3.
  apply def_ok_sound_var; [|exact S|].
  - pose proof C01_tables as T. rewrite forallb_forall in T. specialize (T g Hg).
    unfold group_defs_ok in T. rewrite forallb_forall in T. apply T. exact Hd.
  - pose proof C01_indirect_tables as T. rewrite forallb_forall in T. apply T.
    apply in_flat_map. exists g. split; assumption.
Qed.
Print Assumptions C01_var.

(* non-vacuity on the real table: definitions outside simple_def satisfy var_def — one with a
   STRING_LAU followed by position-less fields, one with an INDIRECT_LOOKUP, one with a BitLengthField *)
Example C01_var_nonvacuous :
  let bd := flat_map bound_defs db_groups in
  existsb (fun d => var_def d && negb (simple_def d)
                    && existsb (fun f => is_t f T_STRING_LAU) (d_fields d)) bd = true /\
  existsb (fun d => var_def d && negb (simple_def d)
                    && existsb (fun f => is_t f T_INDIRECT) (d_fields d)) bd = true /\
  existsb (fun d => var_def d && negb (simple_def d)
                    && existsb (fun f => match f_bitlen f, f_bitlenfield f with None, Some _ => true | _, _ => false end)
                               (d_fields d)) bd = true.
Proof. vm_compute. repeat split; reflexivity. Qed.

(* coverage of C01_var: bound definitions, of which in var_def, of which not fixed-layout; fields of the
   covered definitions, fields of all bound definitions; definitions whose BitOffsets equal the running
   position (the two readings of the specification coincide there: SpecVarProofs.spec_offsets_agree);
   PGNs of the bound definitions outside var_def *)
Eval vm_compute in
  (let bd := flat_map bound_defs db_groups in
   (length bd, length (filter var_def bd),
    length (filter (fun d => var_def d && negb (simple_def d)) bd),
    length (flat_map d_fields (filter var_def bd)), length (flat_map d_fields bd),
    length (filter (fun d => offsets_consistent 0 (d_fields d)) bd),
    map d_pgn (filter (fun d => negb (var_def d)) bd))).
