(* CorrEndToEnd.v — checker of the END-TO-END correspondence cases (tools/props/e2e.py).  Compiled per run as
   NVGen.CorrEndToEnd (it instantiates the composed model of EndToEnd.v with the tables regenerated from /repo).

   A case: the constructor arguments of ONE real NMEA2000Decoder, the history of calls of its entry points
   (format, packet bytes / code points of the line, clock input, what the real run asked datetime.strptime and
   whether it accepted), and per call what the real decoder did: returned None / raised (class) / returned a
   message (PGN, id, source, destination, identity of the source, serialisation of ALL fields, priority).
   The kernel decides `e2e_step ... = observed` call after call, threading the model's own state, and finally compares
   the model's state with the real decoder's source map and reassembly dictionary.
   A call on which the model stops (`Unmodelled`) ends the comparison of its history (counted by `x_unmodelled`). *)
From NV Require Import Base Bits Defn PyNum Fields Dispatch Header PyText Wire DecoderCtl CorrDecoderCtl EndToEnd.
From NVGen Require Import GenCode GenDisp GenLookups.

Inductive xobs := XNone | XErr (e : err) | XMsg (m : msg) (prio : Z).

Definition xcall := (wfmt * list Z * bool * option (Z * list Z * bool))%type.

Record ecase := E {
  x_ex : list pitem; x_inc : list pitem; x_exm : list DecoderCtl.str; x_incm : list DecoderCtl.str; x_nm : bool;
  x_ctor : option err;           (* None: the constructor returned; Some e: it raised *)
  x_hist : list xcall;
  x_obs : list xobs;
  x_map : list (Z * iso);        (* the real decoder's source_to_iso_name after the history *)
  x_reasm : list (key * rec)     (* the real decoder's reassembly dictionary after the history *)
}.

(* datetime.strptime answers from the record of the real call and refuses any other question *)
Definition ts_from (r : option (Z * list Z * bool)) (fmt : Z) (tok : list Z) : bool :=
  match r with
  | Some (f, t, ok) => (f =? fmt) && list_eqb Z.eqb t tok && ok
  | None => false
  end.

Definition the_step (c : cfg) (st : state) (x : xcall) : state * result (option (msg * Z)) :=
  let '(f, inp, win, ts) := x in
  e2e_step code_dec code_disp code_fast code_lookups code_bitlookups code_indirect (ts_from ts)
           c st {| e_fmt := f; e_data := inp; e_win := win |}.

Definition xres_eqb (r : result (option (msg * Z))) (o : xobs) : bool :=
  match r, o with
  | Ok None, XNone => true
  | Err e, XErr e' => err_eqb e e'
  | Ok (Some (m, q)), XMsg m' q' => msg_eqb m m' && (q =? q')
  | _, _ => false
  end.
Definition is_unm {A} (r : result A) : bool := match r with Unmodelled => true | _ => false end.

(* None: disagreement; Some None: the model stopped (the rest of the history is not compared); Some (Some st): agreement
   on every call, st = the model's final state *)
Fixpoint xreplay (c : cfg) (st : state) (h : list xcall) (os : list xobs) : option (option state) :=
  match h, os with
  | [], [] => Some (Some st)
  | x :: h', o :: os' =>
      let sr := the_step c st x in
      if is_unm (snd sr) then Some None
      else if xres_eqb (snd sr) o then xreplay c (fst sr) h' os' else None
  | _, _ => None
  end.

(* the model's final state against the real decoder's two dictionaries *)
Definition chk_final (k : ecase) (st : state) : bool :=
  forallb (fun se => option_eqb iso_eqb (zlookup (fst se) (srcmap st)) (Some (snd se))) (x_map k) &&
  (length (srcmap st) =? length (x_map k))%nat &&
  forallb (fun kr => option_eqb rec_eqb (klookup (fst kr) (reasm st)) (Some (snd kr))) (x_reasm k) &&
  (length (reasm st) =? length (x_reasm k))%nat.

Definition chk_e2e (k : ecase) : bool :=
  match mk_cfg (x_ex k) (x_inc k) (x_exm k) (x_incm k) (x_nm k), x_ctor k with
  | Err e, Some e' => err_eqb e e'
  | Ok c, None =>
      match xreplay c init (x_hist k) (x_obs k) with
      | Some (Some st) => chk_final k st
      | Some None => true
      | None => false
      end
  | Unmodelled, _ => true
  | _, _ => false
  end.

(* did the model stop somewhere in this case? (counted, reported) *)
Fixpoint xstops (c : cfg) (st : state) (h : list xcall) : bool :=
  match h with
  | [] => false
  | x :: h' => let sr := the_step c st x in if is_unm (snd sr) then true else xstops c (fst sr) h'
  end.
Definition x_unmodelled (k : ecase) : bool :=
  match mk_cfg (x_ex k) (x_inc k) (x_exm k) (x_incm k) (x_nm k) with
  | Ok c => xstops c init (x_hist k)
  | Unmodelled => true
  | Err _ => false
  end.

(* diagnostics: number of leading calls on which model and implementation agree *)
Fixpoint xagree (c : cfg) (st : state) (h : list xcall) (os : list xobs) (n : nat) : nat :=
  match h, os with
  | x :: h', o :: os' =>
      let sr := the_step c st x in
      if is_unm (snd sr) then n
      else if xres_eqb (snd sr) o then xagree c (fst sr) h' os' (S n) else n
  | _, _ => n
  end.
Definition first_disagreement (k : ecase) : option nat :=
  match mk_cfg (x_ex k) (x_inc k) (x_exm k) (x_incm k) (x_nm k) with
  | Ok c => Some (xagree c init (x_hist k) (x_obs k) 0%nat)
  | _ => None
  end.
(* the model's outcome of call number n of a case (diagnostics) *)
Fixpoint xnth (c : cfg) (st : state) (h : list xcall) (n : nat) : option (result (option (msg * Z))) :=
  match h, n with
  | [], _ => None
  | x :: _, O => Some (snd (the_step c st x))
  | x :: h', S n' => xnth c (fst (the_step c st x)) h' n'
  end.
Definition model_outcome (k : ecase) (n : nat) : option (result (option (msg * Z))) :=
  match mk_cfg (x_ex k) (x_inc k) (x_exm k) (x_incm k) (x_nm k) with
  | Ok c => xnth c init (x_hist k) n
  | _ => None
  end.
