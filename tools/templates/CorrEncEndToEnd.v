(* CorrEncEndToEnd.v — checker of the ENCODER END-TO-END correspondence cases (tools/props/ence2e.py).  Compiled per run as
   NVGen.CorrEncEndToEnd (it instantiates the composed model of EncEndToEnd.v with the tables regenerated from /repo).

   A case: ONE real NMEA2000Encoder, one gateway format, the sequence of messages given to encode_ebyte / encode_usb /
   encode_yacht_devices / encode_actisense (PGN, id, source, destination, priority, the (id, value, raw value) of every
   field), and per call what the real encoder did: returned the packets (bytes of every packet / code points of the
   Actisense line) or raised (kind of the exception, as the layer that raised it is modelled); finally the value of
   `sequence_counter`.  The kernel decides `enc_e2e_step ... fmt seq msg = observed` call after call, threading the MODEL's
   own counter, and compares the final counter.
   A call on which the model stops (`Unmodelled`: binary32 of a double that is not representable, int/int true division
   outside the modelled range) ends the comparison of its history (counted by `y_unmodelled`). *)
From NV Require Import Base Bits Defn PyNum Fields CorrFields Template Encode CorrEncode Header PyText Wire FastPacket
                       EndToEnd EncEndToEnd.
From NVGen Require Import GenCode GenDisp GenLookups.

Inductive yobs := YPk (pk : list (list Z)) | YErr (e : err).

(* PGN, id, source, destination, priority, fields *)
Definition ymsg := (Z * Defn.str * Z * Z * Z * list (Defn.str * oval * oval))%type.

Record ycase := Y { y_fmt : efmt; y_calls : list (ymsg * yobs); y_final : Z }.

Definition to_emsg (x : ymsg) : emsg :=
  let '(pgn, id, src, dst, prio, fs) := x in
  {| em_pgn := pgn; em_id := id; em_src := src; em_dst := dst; em_prio := prio; em_fields := map mk_field fs |}.

Definition the_enc_step (f : efmt) (seq : Z) (x : ymsg) : result (list (list Z)) * Z :=
  enc_e2e_step code_enc code_enc_lookups code_fast f seq (to_emsg x).

Definition pk_eqb (a b : list (list Z)) : bool := list_eqb (list_eqb Z.eqb) a b.
Definition yres_eqb (r : result (list (list Z))) (o : yobs) : bool :=
  match r, o with
  | Ok pk, YPk pk' => pk_eqb pk pk'
  | Err e, YErr e' => err_eqb e e'
  | _, _ => false
  end.
Definition is_unm {A} (r : result A) : bool := match r with Unmodelled => true | _ => false end.

(* None: disagreement; Some None: the model stopped; Some (Some s): agreement on every call, s = the model's final counter *)
Fixpoint yreplay (f : efmt) (seq : Z) (h : list (ymsg * yobs)) : option (option Z) :=
  match h with
  | [] => Some (Some seq)
  | (x, o) :: t =>
      let sr := the_enc_step f seq x in
      if is_unm (fst sr) then Some None
      else if yres_eqb (fst sr) o then yreplay f (snd sr) t else None
  end.

Definition chk_ence2e (k : ycase) : bool :=
  match yreplay (y_fmt k) 0 (y_calls k) with
  | Some (Some s) => s =? y_final k
  | Some None => true
  | None => false
  end.

Definition y_unmodelled (k : ycase) : bool :=
  match yreplay (y_fmt k) 0 (y_calls k) with Some None => true | _ => false end.

(* diagnostics: number of leading calls on which model and implementation agree; the model's outcome of call n *)
Fixpoint yagree (f : efmt) (seq : Z) (h : list (ymsg * yobs)) (n : nat) : nat :=
  match h with
  | [] => n
  | (x, o) :: t =>
      let sr := the_enc_step f seq x in
      if is_unm (fst sr) then n else if yres_eqb (fst sr) o then yagree f (snd sr) t (S n) else n
  end.
Definition first_disagreement (k : ycase) : nat := yagree (y_fmt k) 0 (y_calls k) 0%nat.
Fixpoint ynth (f : efmt) (seq : Z) (h : list (ymsg * yobs)) (n : nat) : option (result (list (list Z)) * Z) :=
  match h, n with
  | [], _ => None
  | (x, _) :: _, O => Some (the_enc_step f seq x)
  | (x, _) :: t, S n' => ynth f (snd (the_enc_step f seq x)) t n'
  end.
Definition model_outcome (k : ycase) (n : nat) := ynth (y_fmt k) 0 (y_calls k) n.
