(* CorrC01Var.v — the tables against which the specification spec_decode_var is evaluated on the observed
   cases of this run: the DATABASE's definitions and the database's lookup tables (normalised once). *)
From NV Require Import Base Bits Defn PyNum Fields Dispatch Template Spec SpecVar CorrFields CorrSpecVar.
From NVGen Require Import GenDb GenDbLookups.

Definition cv_defs : list (fname * dbdef) := Eval vm_compute in named_defs (groups db_defs).
Definition cv_L : lookups := Eval vm_compute in norm_lookups db_lookups.
Definition cv_LB : lookups := Eval vm_compute in norm_lookups db_bitlookups.
Definition cv_LI : ilookups := Eval vm_compute in norm_ilookups db_indirect.
Definition chk_spec := chk_spec_var cv_L cv_LB cv_LI cv_defs.
Definition unmodelled_spec := is_unmodelled_spec cv_L cv_LB cv_LI cv_defs.
