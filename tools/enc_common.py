"""enc_common.py — shared machinery of C02 (decode->re-encode) and C09 (encode never corrupts):
case generation for the encoder correspondence and the two property oracles on the real code."""
from __future__ import annotations
import copy
import datetime
import json
import math
import os
import re
import struct
from fractions import Fraction

import vlib
from vlib import cz, ctuple, clist, cstr_z, cbool, run_cases, distinct_count
import gen as G
import obs
import payloads as PL

ENC_TYPES = ("NUMBER", "PGN", "RESERVED", "FLOAT", "LOOKUP", "DATE", "TIME", "DURATION")
IMP = ("From NV Require Import Base Bits Defn PyNum Fields CorrFields Template Encode CorrEncode.\n"
       "From NVGen Require Import GenCode GenLookups.")
IMPU = "From NV Require Import Base Bits Defn PyNum Fields CorrFields Template Encode CorrEncode."


def encodable(d) -> bool:
    return all("BitOffset" in f and "BitLength" in f and f["FieldType"] in ENC_TYPES for f in d["Fields"])


def gen_tables(ctx, obl: str, diag: str | None):
    g = G.ensure_gen()
    ctx.gen = g
    if not g["ok"]:
        ctx.extra_obligations.append({"name": "translation of nmea2000/pgns.py + canboat.json", "ok": False,
                                      "detail": g.get("refused") or g.get("error")})
        ctx.hints.append({"kind": "translator", "detail": g.get("refused") or g.get("error")})
        return
    ctx.notes.append(f"tables regenerated from /repo (cached={g['cached']}): " +
                     json.dumps({k: v for k, v in g['stats']['pgns'].items() if k != 'refused'}))
    for cat, name, why in g["stats"]["pgns"].get("refused", []):
        if cat in ("enc", "dec", "other"):
            ctx.extra_obligations.append({"name": f"translation of {name}", "ok": False, "detail": why})
            ctx.hints.append({"kind": "translator", "function": name, "detail": why})
    ok, out = G.compile_template(obl)
    for nm in G.theorem_names(obl):
        ctx.extra_obligations.append({"name": f"{obl}.v:{nm}", "ok": ok, "detail": out[-800:] if not ok else ""})
    m = re.findall(r"=\s*\(([^:]*?)\)\s*:", " ".join(out.split()))
    if m:
        ctx.notes.append(f"{obl} coverage counts: ({m[-1]})")
    if not ok and diag:
        ok2, out2 = G.compile_template(diag)
        ctx.hints.append({"kind": "tables", "diag": " ".join(out2.split())[-1200:]})
        ctx.notes.append("table obligation fails: " + " ".join(out2.split())[-1200:])


# ------------------------------------------------------------------ helpers on the real library
def functions(prefix):
    import nmea2000.pgns as P
    return {n: getattr(P, n) for n in vars(P) if re.fullmatch(prefix + r"\d+(_.+)?", n) and callable(getattr(P, n))}


def fname_lit(name, prefix):
    m = re.fullmatch(prefix + r"(\d+)(?:_(.*))?", name, re.S)
    return f"({m.group(1)}, {'None' if m.group(2) is None else '(Some ' + cstr_z(m.group(2)) + ')'})"


def fields_lit(msg) -> str:
    return clist(ctuple(cstr_z(f.id), obs.oval(f.value), obs.oval(f.raw_value)) for f in msg.fields)


def obres(fn, msg):
    try:
        b = fn(msg)
        return f"(OB {vlib.cbytes(b)})", b
    except Exception as e:  # noqa: BLE001
        return f"(OBE {obs.err_of(e)})", e


def modellable(msg) -> bool:
    for f in msg.fields:
        for v in (f.value, f.raw_value):
            if not (v is None or isinstance(v, (int, float, str, bytes, datetime.date, datetime.time))):
                return False
    return True


def decode_fn_for(d, grp, dfns):
    return dfns.get("decode_pgn_" + PL.func_suffix(d, grp[d["PGN"]]))


def mutate_message(msg, d, rng, force=None):
    """C09 value classes applied to one field of a decoded message: returns [(label, message)]"""
    out = []
    idxs = [i for i, f in enumerate(d["Fields"]) if "Match" not in f]
    if not idxs:
        return out
    i = rng.choice(idxs) if force is None else force
    f = d["Fields"][i]
    t = f["FieldType"]
    n = f["BitLength"]
    res = float(f.get("Resolution", 1)) if not isinstance(f.get("Resolution", 1), int) else f.get("Resolution", 1)

    def with_field(**kw):
        m = copy.deepcopy(msg)
        for k, v in kw.items():
            setattr(m.fields[i], k, v)
        return m

    if t in ("NUMBER", "PGN", "DURATION", "TIME", "DATE"):
        signed = f.get("Signed", False)
        lo, hi = (-(1 << (n - 1)), (1 << (n - 1)) - 2) if signed else (0, (1 << n) - 2)
        raws = {"lo": lo, "hi": hi, "hi+1": hi + 1, "lo-1": lo - 1, "far": hi * 1000 + 7, "neg": -3,
                "mid": rng.randint(lo, hi)}
        for nm, r in raws.items():
            v = r * res
            if nm == "mid" and isinstance(res, float):
                v = (r + rng.choice([0.25, 0.5, 0.49, -0.5, 0.75])) * res
            if t in ("NUMBER", "PGN"):
                out.append((f"{t}:{nm}", with_field(value=v, raw_value=v)))
            else:
                out.append((f"{t}:raw:{nm}", with_field(raw_value=v)))
            if nm == "mid" and isinstance(res, int) and res > 1 and lo < r < hi:
                # whole-number resolution above 1: values BETWEEN two steps (just past / just short of the half step)
                for off in (res // 2 + 1, res - 1, res // 2 - 1, 1):
                    vv = r * res + off
                    if t in ("NUMBER", "PGN"):
                        out.append((f"{t}:between-steps", with_field(value=vv, raw_value=vv)))
                    else:
                        out.append((f"{t}:raw:between-steps", with_field(raw_value=vv)))
        out.append((f"{t}:absent", with_field(value=None, raw_value=None)))
        out.append((f"{t}:str", with_field(value="x", raw_value="x")))
        if t == "TIME":
            out.append(("TIME:value-path", with_field(value=datetime.time(1, 2, 3), raw_value=None)))
        if t == "DATE":
            out.append(("DATE:value-path", with_field(value=datetime.date(2020, 5, 17), raw_value=None)))
            out.append(("DATE:value-none", with_field(value=None, raw_value=None)))
    elif t == "LOOKUP":
        out.append(("LOOKUP:raw-wrap", with_field(raw_value=(1 << n) + 1)))
        out.append(("LOOKUP:raw-max", with_field(raw_value=(1 << n) - 1)))
        out.append(("LOOKUP:by-name", with_field(raw_value=None)))
        out.append(("LOOKUP:unknown-name", with_field(raw_value=None, value="No Such Name")))
        out.append(("LOOKUP:none", with_field(raw_value=None, value=None)))
    elif t == "RESERVED":
        out.append(("RESERVED:wrap", with_field(value=(1 << n) + 2)))
        out.append(("RESERVED:none", with_field(value=None)))
    elif t == "FLOAT":
        for nm, v in (("one", 1.0), ("neg", -2.5), ("int", 7), ("big", 1e39), ("none", None), ("nan", float("nan"))):
            out.append((f"FLOAT:{nm}", with_field(value=v, raw_value=v)))
    # one field removed
    m = copy.deepcopy(msg)
    del m.fields[i]
    out.append(("removed", m))
    return out


def encoder_cases(ctx, per_def_payloads, with_mutations):
    """[(coq case, raw description)] real encode_pgn_* on decoded (and mutated) messages"""
    rng = ctx.rng
    dfns, efns = functions("decode_pgn_"), functions("encode_pgn_")
    grp = PL.groups()
    cases, raw, dist = [], [], {}
    for d in PL.definitions():
        suffix = PL.func_suffix(d, grp[d["PGN"]])
        dfn, efn = dfns.get("decode_pgn_" + suffix), efns.get("encode_pgn_" + suffix)
        if dfn is None or efn is None or dfn.__code__.co_varnames[:1] != ("_data_raw_",):
            continue
        if not encodable(d):
            # not encodable: a single case showing how the generated encoder refuses
            try:
                m = dfn(PL.compose(d, rng))
            except Exception:  # noqa: BLE001
                continue
            lit, r = obres(efn, m)
            if modellable(m):
                cases.append(ctuple(fname_lit("encode_pgn_" + suffix, "encode_pgn_"), fields_lit(m), lit))
                raw.append((suffix, "not-encodable", None))
            continue
        pls = PL.payload_set(d, rng, per_field_classes=True, n_random=2)
        if len(pls) > per_def_payloads:
            pls = pls[:4] + rng.sample(pls[4:], per_def_payloads - 4)
        base = None
        for label, p in pls:
            try:
                m = dfn(p)
            except Exception:  # noqa: BLE001
                continue
            if not modellable(m):
                continue
            base = base or m
            lit, r = obres(efn, m)
            k = "bytes" if not isinstance(r, BaseException) else obs.err_of(r)
            dist[k] = dist.get(k, 0) + 1
            cases.append(ctuple(fname_lit("encode_pgn_" + suffix, "encode_pgn_"), fields_lit(m), lit))
            raw.append((suffix, label, p))
        if with_mutations and base is not None:
            for label, m in mutate_message(base, d, rng):
                lit, r = obres(efn, m)
                k = "bytes" if not isinstance(r, BaseException) else obs.err_of(r)
                dist[k] = dist.get(k, 0) + 1
                cases.append(ctuple(fname_lit("encode_pgn_" + suffix, "encode_pgn_"), fields_lit(m), lit))
                raw.append((suffix, "mut:" + label, None))
    return cases, raw, dist


def run_encoder_cases(ctx, prop, per_def_payloads, with_mutations):
    cases, raw, dist = encoder_cases(ctx, per_def_payloads, with_mutations)
    chk = "code_enc_lookups code_enc"
    r = run_cases(prop, "enc", IMP, "fname * list (str * oval * oval) * obres", f"chk_encode {chk}", cases,
                  shard=250, count=f"is_unmodelled_enc {chk}")
    r.update(name="generated encoders: real encode_pgn_* vs run_edef on the translated tables",
             distinct_nontrivial=distinct_count(raw) if raw else 0, unmodelled=r.get("counted", 0), distribution=dist,
             failing_cases=[{"fn": raw[k][0], "class": raw[k][1], "payload": raw[k][2]} for k in r["failing"][:30]],
             samples=[{"fn": raw[k][0], "class": raw[k][1]} for k in (0, len(raw) // 2, len(raw) - 1)] if raw else [])
    return r


def _num(x):
    if isinstance(x, int):
        return f"(NI {cz(x)})"
    return f"(NF {struct.unpack('>Q', struct.pack('>d', x))[0]})"


def _oz(fn, *a):
    try:
        return f"(OZ {cz(fn(*a))})"
    except Exception as e:  # noqa: BLE001
        return f"(OZE {obs.err_of(e)})"


def unit_cases(ctx, prop):
    from nmea2000 import utils as U
    rng = ctx.rng
    reps = []
    cs, rawc = [], []
    ress = [1, 0.1, 0.01, 0.001, 0.0001, 1e-7, 1e-16, 0.00390625, 1e-9, 5, 0.5, 3.125e-08, 86400, 0.05]
    for _ in range(ctx.n(1500, 15000)):
        ln = rng.choice([1, 2, 3, 4, 7, 8, 10, 12, 16, 21, 24, 29, 32, 48, 64])
        sg = rng.random() < 0.4 and ln > 1
        res = rng.choice(ress)
        lo, hi = (-(1 << (ln - 1)), (1 << (ln - 1)) - 2) if sg else (0, (1 << ln) - 2)
        k = rng.random()
        r0 = rng.choice([lo, hi, lo - 1, hi + 1, hi + 2, 0, -1, 1, rng.randint(lo, hi), rng.randint(lo, hi)])
        if k < 0.55:
            v = r0 * res                       # what decode_number produces for raw r0
        elif k < 0.75:
            v = (r0 + rng.choice([0.5, -0.5, 0.25, 0.49999, 0.75])) * res
        elif k < 0.85:
            v = None
        elif k < 0.9:
            v = rng.choice(["x", b"x", float("nan"), float("inf"), True])
        else:
            v = rng.choice([r0, float(r0), r0 * 1000, -r0])
        cs.append(ctuple(ctuple(obs.oval(v), cz(ln), cbool(sg), _num(res)), _oz(U.encode_number, v, ln, sg, res)))
        rawc.append((repr(v), ln, sg, res))
    r = run_cases(prop, "encnum", IMPU, "(oval * Z * bool * num) * ozres", "chk_encode_number", cs)
    r.update(name="utils.encode_number vs Encode.encode_number", distinct_nontrivial=distinct_count(rawc),
             failing_cases=[{"args": rawc[k]} for k in r["failing"][:20]], samples=[{"args": rawc[0]}])
    reps.append(r)
    cs, rawc = [], []
    vals = [None, 0.0, -0.0, 1.0, -2.5, 3.4028234663852886e38, 3.5e38, 1e-45, 1.401298464324817e-45, 1e-50, 7, -3, float("inf"),
            float("-inf"), float("nan"), 0.1, "x"]
    vals += [struct.unpack("<f", struct.pack("<f", rng.uniform(-1e5, 1e5)))[0] for _ in range(150)]
    vals += [struct.unpack("<f", struct.pack("<I", rng.getrandbits(32)))[0] for _ in range(150)]
    for v in vals:
        cs.append(ctuple(obs.oval(v), _oz(U.encode_float, v)))
        rawc.append(repr(v))
    r = run_cases(prop, "encfloat", IMPU, "oval * ozres", "chk_encode_float", cs)
    r.update(name="utils.encode_float vs Encode.encode_float", distinct_nontrivial=distinct_count(rawc),
             failing_cases=[{"arg": rawc[k]} for k in r["failing"][:20]], samples=[{"arg": rawc[3]}])
    reps.append(r)
    cs, rawc = [], []
    for _ in range(ctx.n(600, 6000)):
        k = rng.random()
        x = rng.choice([0.5, 1.5, 2.5, -0.5, -1.5, 3.5, 1e15 + 0.5, 2 ** 52 + 0.5, 4503599627370497.5]) if k < 0.2 else \
            (rng.randint(-10 ** 6, 10 ** 6) + rng.choice([0.5, 0.25, 0.75, 0.0])) if k < 0.6 else \
            rng.uniform(-1e19, 1e19) if k < 0.8 else struct.unpack(">d", struct.pack(">Q", rng.getrandbits(64)))[0]
        bits = struct.unpack(">Q", struct.pack(">d", x))[0]
        cs.append(ctuple(cz(bits), _oz(round, x)))
        rawc.append(bits)
    r = run_cases(prop, "round", IMPU, "Z * ozres", "chk_round", cs)
    r.update(name="Python round(float) vs Encode.py_round", distinct_nontrivial=distinct_count(rawc),
             failing_cases=[{"bits": rawc[k]} for k in r["failing"][:20]], samples=[{"bits": rawc[0]}])
    reps.append(r)
    return reps


# ------------------------------------------------------------------ property oracles (real code only)
def _payload_of_actisense(s: str) -> bytes:
    parts = s.split()
    return bytes.fromhex(parts[2]) if len(parts) > 2 else b""


def _payload_of_ebyte(frames, fast=False) -> bytes:
    """payload part of encode_ebyte's packets: byte 0 low nibble = number of data bytes, bytes 5.. = data; one packet =
    the payload itself, several = fast-packet frames (counter byte, first frame also the length byte)"""
    datas = [bytes(f[5:5 + (f[0] & 0x0F)]) for f in frames]
    if not fast:
        return datas[0] if len(datas) == 1 else b"".join(datas)
    total = datas[0][1]
    body = datas[0][2:] + b"".join(x[1:] for x in datas[1:])
    return body[:total]


def _decode(dec, d, p, nbytes=None):
    nbytes = nbytes or max(d.get("Length", 0) if isinstance(d.get("Length"), int) else 0, (p.bit_length() + 7) // 8, 1)
    data = p.to_bytes(nbytes, "little")
    line = f"2020-01-01-00:00:00.000,3,{d['PGN']},7,255,{nbytes}," + ",".join(f"{b:02x}" for b in data)
    return dec.decode_basic_string(line, True)


def c02_check(d, p, dec, enc):
    """decode p, re-encode, compare on all defined bits. None or witness."""
    base = {"kind": "reencode", "pgn": d["PGN"], "id": d["Id"], "payload": p}
    try:
        m = _decode(dec, d, p)
    except Exception:  # noqa: BLE001
        return None            # the property ranges over payloads the decoder accepts
    if m is None or m.id != d["Id"]:
        return None
    for f in m.fields:
        if isinstance(f.value, float) and (math.isnan(f.value) or math.isinf(f.value)):
            return None        # non-finite floats excepted
    try:
        out = _payload_of_actisense(enc.encode_actisense(m))
    except Exception as e:  # noqa: BLE001
        # which class: absent date / signed duration absent / wide edge ...
        cls = "other"
        for f, fl in zip(d["Fields"], m.fields):
            if f["FieldType"] == "DATE" and fl.value is None:
                cls = "absent-date"
        for f, fl in zip(d["Fields"], m.fields):
            n = f.get("BitLength", 0)
            if n > 48 and f["FieldType"] in ("NUMBER",) and isinstance(fl.value, (int, float)):
                # the wide field is the culprit when its scaled value no longer fits (double rounding at the range edge)
                sg = f.get("Signed", False)
                lo, hi = (-(1 << (n - 1)), (1 << (n - 1)) - 2) if sg else (0, (1 << n) - 2)
                try:
                    q = round(fl.value / float(f.get("Resolution", 1)))
                except Exception:  # noqa: BLE001
                    q = None
                if q is not None and not lo <= q <= hi:
                    cls = "wide-edge"
                elif cls == "other":
                    cls = "wide-edge"
        return dict(base, key=f"reencode:raises:{cls}", what=f"PGN {d['PGN']} {d['Id']} payload {p:#x}: decoded, but re-encoding raised {e!r}")
    if "Length" in d and isinstance(d["Length"], int) and len(out) != d["Length"]:
        return dict(base, key="reencode:length", what=f"PGN {d['PGN']} {d['Id']}: re-encoded length {len(out)}, definition {d['Length']}")
    # the other place the property names: the payload part of encode_ebyte's packets is that same payload
    try:
        out_e = _payload_of_ebyte(enc.encode_ebyte(m), fast=(d.get("Type") == "Fast"))
    except Exception as e:  # noqa: BLE001
        return dict(base, key="reencode:ebyte-raises",
                    what=f"PGN {d['PGN']} {d['Id']} payload {p:#x}: encode_actisense gives {out.hex()} but encode_ebyte raised {e!r}")
    if out_e != out:
        return dict(base, key="reencode:ebyte-payload-differs",
                    what=f"PGN {d['PGN']} {d['Id']} payload {p:#x}: payload part of encode_ebyte's packets is {out_e.hex()} "
                         f"({len(out_e)} bytes), of encode_actisense {out.hex()} ({len(out)} bytes), definition length {d.get('Length')}")
    q = int.from_bytes(out, "little")
    for i, f in enumerate(d["Fields"]):
        off, n = f["BitOffset"], f["BitLength"]
        a, b = (p >> off) & ((1 << n) - 1), (q >> off) & ((1 << n) - 1)
        if a == b:
            continue
        if n > 48 and f["FieldType"] in ("NUMBER", "DURATION", "TIME"):
            # to within double-precision rounding of the scaled value
            sg = f.get("Signed", False)
            sa = a - (1 << n) if sg and a >> (n - 1) else a
            sb = b - (1 << n) if sg and b >> (n - 1) else b
            if abs(sa - sb) <= max(abs(sa), abs(sb)) * 2.0 ** -50:
                continue
        cls = f["FieldType"]
        if f["FieldType"] in ("TIME", "DURATION", "DATE"):
            sent = PL.sentinel(f)
            cls += ":absent" if a == sent else ":ticks"
        return dict(base, key=f"reencode:bits:{cls}", field=i,
                    what=f"PGN {d['PGN']} {d['Id']} payload {p:#x}: field {i} ({f['Id']}, {f['FieldType']}, {n} bits) was {a:#x}, re-encodes as {b:#x}")
    return None


def c02_search(ctx):
    from nmea2000.decoder import NMEA2000Decoder
    from nmea2000.encoder import NMEA2000Encoder
    dec, enc = NMEA2000Decoder(), NMEA2000Encoder()
    rng = ctx.rng
    out, seen = [], set()
    nchk = 0
    for d in PL.definitions():
        if not encodable(d):
            continue
        g = PL.groups()[d["PGN"]]
        multi = len(g) > 1 and any("Match" in f for x in g for f in x["Fields"])
        if not multi and d is not g[-1]:
            continue
        pls = PL.payload_set(d, rng, per_field_classes=True, n_random=ctx.n(2, 8))
        if not ctx.thorough and len(pls) > 40:
            pls = pls[:6] + rng.sample(pls[6:], 34)
        # every raw value of one field of <= 16 bits (thorough: of every such field)
        small = [i for i, f in enumerate(d["Fields"]) if f["BitLength"] <= (16 if ctx.thorough else 8) and "Match" not in f
                 and f["FieldType"] not in ("RESERVED",)]
        if small:
            # thorough: every raw value of every field of <= 6 bits and of ONE wider (<= 12 bit) field per definition;
            # ~300 raw values (both ends, the sign boundary, random) of each remaining field of <= 16 bits.
            # (The unbounded statement is the theorem C02_roundtrip; this sweep exercises the REAL code; ~4 min.)
            wide = [i for i in small if 6 < d["Fields"][i]["BitLength"] <= 12]
            full_wide = set(rng.sample(wide, min(1, len(wide))))
            for i in (small if ctx.thorough else [rng.choice(small)]):
                bg = PL.compose(d, rng)
                f = d["Fields"][i]
                n = f["BitLength"]
                mask = ((1 << n) - 1) << f["BitOffset"]
                if n <= 6 or i in full_wide or not ctx.thorough:
                    raws = range(1 << n)
                else:
                    top = 1 << n
                    raws = sorted(set([x for x in list(range(48)) + list(range(top - 48, top)) +
                                       list(range(top // 2 - 24, top // 2 + 24)) if 0 <= x < top]
                                      + [rng.randrange(top) for _ in range(160)]))
                for rawv in raws:
                    pls.append((f"f{i}:all", (bg & ~mask) | (rawv << f["BitOffset"])))
        nchk += len(pls)
        for label, p in pls:
            w = c02_check(d, p, dec, enc)
            if w and w["key"] not in seen:
                seen.add(w["key"])
                w["class"] = label
                out.append(w)
    ctx.notes.append(f"witness search: {nchk} payloads decoded, re-encoded and compared bit by bit on the real code")
    return out


def c02_replay(ctx, data):
    from nmea2000.decoder import NMEA2000Decoder
    from nmea2000.encoder import NMEA2000Encoder
    w = data.get("witness", data)
    d = next((x for x in PL.definitions() if x["PGN"] == w["pgn"] and x["Id"] == w["id"]), None)
    if d is None:
        return True
    r = c02_check(d, int(w["payload"]), NMEA2000Decoder(), NMEA2000Encoder())
    print("observed:", r["what"] if r else "property holds on this input")
    return r is not None


# ---- C09
def _same(f, t, a, b):
    """decoded-back value b agrees with the assigned value a for field type t"""
    if a is None or b is None:
        return a is None and b is None
    if t in ("NUMBER", "PGN", "DURATION"):
        res = Fraction(PL.frac(f.get("Resolution", 1)))
        return abs(Fraction(a) - Fraction(b)) <= res / 2 + abs(Fraction(a)) * Fraction(1, 2 ** 49)
    return a == b


def c09_check(d, msg, label, dec, enc):
    """encode msg: error, or a payload that decodes back to the same values. None or witness."""
    base = {"kind": "encode", "pgn": d["PGN"], "id": d["Id"], "class": label,
            "fields": [[f.id, _j(f.value), _j(f.raw_value)] for f in msg.fields]}
    try:
        out = _payload_of_actisense(enc.encode_actisense(msg))
    except ValueError:
        return None
    except Exception as e:  # noqa: BLE001
        return dict(base, key="encode:non-valueerror", what=f"PGN {d['PGN']} {d['Id']} [{label}]: encoder raised {e!r}, not ValueError")
    q = int.from_bytes(out, "little")
    try:
        back = _decode(dec, d, q, len(out))
    except Exception as e:  # noqa: BLE001
        if isinstance(e, ValueError) and "allowed" in str(e):
            # Reading choice: the decoder enforces the DATABASE range, the encoder the REPRESENTABLE range (as the
            # property states). A value inside the representable but outside the database range is encoded and then
            # loudly rejected by the decoder — not a silent corruption. Only in-database-range values must decode back.
            for f, a in zip(d["Fields"], msg.fields):
                v = a.raw_value if f["FieldType"] in ("TIME", "DURATION", "DATE") and a.raw_value is not None else a.value
                if isinstance(v, (int, float)) and not isinstance(v, bool) and f["FieldType"] in PL.NUMERIC:
                    x = Fraction(v)
                    res = Fraction(PL.frac(f.get("Resolution", 1)))
                    if ("RangeMax" in f and x > Fraction(PL.frac(f["RangeMax"])) - res / 2) or \
                       ("RangeMin" in f and x < Fraction(PL.frac(f["RangeMin"])) + res / 2):
                        return None
        return dict(base, key=f"encode:undecodable:{label.split(':')[0]}",
                    what=f"PGN {d['PGN']} {d['Id']} [{label}]: encoded payload {q:#x} does not decode back ({e!r})")
    if back is None or back.id != msg.id:
        return None
    if len(msg.fields) != len(d["Fields"]):
        return dict(base, key="encode:missing-field-accepted", what=f"PGN {d['PGN']} {d['Id']} [{label}]: a message with a field removed was encoded")
    for f, a, b in zip(d["Fields"], msg.fields, back.fields):
        t = f["FieldType"]
        # what the caller assigned: encoders prefer raw values for LOOKUP/DATE/TIME/DURATION
        if t in ("LOOKUP",):
            ok = (a.raw_value == b.raw_value) if a.raw_value is not None else (a.value == b.value)
        elif t in ("TIME", "DURATION", "DATE"):
            if a.raw_value is not None:
                ok = _same(f, "NUMBER", a.raw_value, b.raw_value) if isinstance(a.raw_value, (int, float)) else False
            else:
                ok = (a.value == b.value) or (a.value is None and b.value is None)
        elif t == "RESERVED":
            ok = a.value == b.value
        elif t == "FLOAT":
            ok = (a.value == b.value) or (isinstance(a.value, float) and a.value != a.value and b.value != b.value) or \
                 (a.value is not None and b.value is not None and abs(a.value - b.value) <= abs(a.value) * 2.0 ** -23)
        else:
            ok = _same(f, t, a.value, b.value) if (a.value is None or isinstance(a.value, (int, float))) and not isinstance(a.value, bool) else True
        if not ok:
            return dict(base, key=f"encode:silent-corruption:{t}:{label.split(':')[-1] if ':' in label else label}", field=f["Id"],
                        what=f"PGN {d['PGN']} {d['Id']} [{label}]: field {f['Id']} ({t}) assigned value={a.value!r} raw={a.raw_value!r}, "
                             f"encoded without error, decodes back as value={b.value!r} raw={b.raw_value!r}")
    return None


def _j(v):
    if isinstance(v, (bytes, bytearray)):
        return {"bytes": v.hex()}
    if isinstance(v, datetime.date):
        return {"date": v.isoformat()}
    if isinstance(v, datetime.time):
        return {"time": v.isoformat()}
    if isinstance(v, float) and (v != v or v in (float("inf"), float("-inf"))):
        return {"float": repr(v)}
    return v


def _unj(v):
    if isinstance(v, dict):
        if "bytes" in v:
            return bytes.fromhex(v["bytes"])
        if "date" in v:
            return datetime.date.fromisoformat(v["date"])
        if "time" in v:
            return datetime.time.fromisoformat(v["time"])
        if "float" in v:
            return float(v["float"])
    return v


def c09_locality(d, msg, rng, enc):
    """changing one field's value changes only that field's bits"""
    idxs = [i for i, f in enumerate(d["Fields"]) if f["FieldType"] in ("NUMBER", "LOOKUP", "RESERVED") and "Match" not in f]
    if not idxs:
        return None
    i = rng.choice(idxs)
    f = d["Fields"][i]
    m2 = copy.deepcopy(msg)
    n = f["BitLength"]
    if f["FieldType"] == "NUMBER":
        lo, hi = PL.raw_range(f)
        if lo > hi:
            return None
        v = rng.randint(lo, hi) * (float(f["Resolution"]) if not isinstance(f["Resolution"], int) else f["Resolution"])
        m2.fields[i].value = m2.fields[i].raw_value = v
    elif f["FieldType"] == "LOOKUP":
        m2.fields[i].raw_value = rng.getrandbits(n)
    else:
        m2.fields[i].value = rng.getrandbits(n)
    try:
        a = int.from_bytes(_payload_of_actisense(enc.encode_actisense(msg)), "little")
        b = int.from_bytes(_payload_of_actisense(enc.encode_actisense(m2)), "little")
    except Exception:  # noqa: BLE001
        return None
    mask = ((1 << n) - 1) << f["BitOffset"]
    if (a ^ b) & ~mask:
        return {"kind": "locality", "pgn": d["PGN"], "id": d["Id"], "key": "encode:locality",
                "what": f"PGN {d['PGN']} {d['Id']}: changing field {f['Id']} changed payload bits outside its range ({a:#x} vs {b:#x})"}
    return None


def c09_reuse(d, msg, rng, enc):
    """ONE message object edited between two encodings (a field object replaced / a field removed, the number of
    fields kept or not): the second encoding must be what a freshly built message with those fields encodes to —
    a replaced value is written, a field that is gone makes the encoder refuse"""
    from nmea2000.message import NMEA2000Field
    idxs = [i for i, f in enumerate(d["Fields"]) if f["FieldType"] in ("NUMBER", "LOOKUP", "RESERVED") and "Match" not in f]
    if not idxs:
        return None
    i = rng.choice(idxs)
    f = d["Fields"][i]
    n = f["BitLength"]

    def pay(m):
        try:
            return ("ok", _payload_of_actisense(enc.encode_actisense(m)))
        except Exception as e:  # noqa: BLE001
            return ("err", type(e).__name__)
    from nmea2000.message import NMEA2000Message

    def rebuilt(x):
        """a NEW message object carrying the same header and the same field objects (no hidden per-object state)"""
        y = NMEA2000Message(PGN=x.PGN, id=x.id, description=getattr(x, "description", None), source=x.source,
                            destination=x.destination, priority=x.priority)
        y.fields = list(x.fields)
        return y
    # value edited IN PLACE between two encodings, fields given by value (raw value None): LOOKUP by name, DATE, TIME
    byval = [k for k, g in enumerate(d["Fields"]) if "Match" not in g and (
        (g["FieldType"] == "LOOKUP" and "LookupEnumeration" in g) or g["FieldType"] in ("DATE", "TIME"))]
    if byval:
        k = rng.choice(byval)
        g = d["Fields"][k]
        a = copy.deepcopy(msg)
        if g["FieldType"] == "LOOKUP":
            table = next((t for t in PL.db().get("LookupEnumerations", []) if t.get("Name") == g["LookupEnumeration"]), None)
            seen_v, names = set(), []
            for e in (table or {}).get("EnumValues", []):
                if e["Value"] < (1 << g["BitLength"]) and e["Value"] not in seen_v and [x["Name"] for x in table["EnumValues"]].count(e["Name"]) == 1:
                    seen_v.add(e["Value"])
                    names.append(e["Name"])
            vals = rng.sample(names, 2) if len(names) >= 2 else None
        elif g["FieldType"] == "DATE":
            vals = [datetime.date(2024, 2, 29), datetime.date(2025, 1, 1)]
        else:
            vals = [datetime.time(1, 2, 3), datetime.time(23, 59, 58)]
        if vals:
            a.fields[k].value, a.fields[k].raw_value = vals[0], None
            p1 = pay(a)
            if p1[0] == "ok":
                a.fields[k].value = vals[1]
                b = copy.deepcopy(msg)
                b.fields[k].value, b.fields[k].raw_value = vals[1], None
                p2, pf = pay(a), pay(b)
                if p2 != pf:
                    return {"kind": "reuse", "pgn": d["PGN"], "id": d["Id"], "key": "encode:stale-after-value-edit",
                            "what": f"PGN {d['PGN']} {d['Id']}: field {g['Id']} given by value {vals[0]!r}, encoded, then set to "
                                    f"{vals[1]!r} on the same object: encodes to {p2[1].hex() if p2[0] == 'ok' else p2}, a message "
                                    f"built with {vals[1]!r} encodes to {pf[1].hex() if pf[0] == 'ok' else pf}"}
    m = copy.deepcopy(msg)
    first = pay(m)
    if first[0] != "ok":
        return None
    old = m.fields[i]
    kw = {k: getattr(old, k) for k in ("id", "name", "description", "unit_of_measurement", "value", "raw_value",
                                        "physical_quantities", "type", "part_of_primary_key") if hasattr(old, k)}
    if f["FieldType"] == "NUMBER":
        lo, hi = PL.raw_range(f)
        if lo > hi:
            return None
        v = rng.randint(lo, hi) * (float(f["Resolution"]) if not isinstance(f["Resolution"], int) else f["Resolution"])
        kw["value"] = kw["raw_value"] = v
    elif f["FieldType"] == "LOOKUP":
        kw["raw_value"] = rng.getrandbits(n)
    else:
        kw["value"] = kw["raw_value"] = rng.getrandbits(n)
    try:
        m.fields[i] = NMEA2000Field(**kw)              # same number of fields, another object
    except Exception:  # noqa: BLE001
        return None
    second, fresh = pay(m), pay(rebuilt(m))
    if second != fresh:
        return {"kind": "reuse", "pgn": d["PGN"], "id": d["Id"], "key": "encode:stale-after-edit",
                "what": f"PGN {d['PGN']} {d['Id']}: after field {f['Id']} of an already encoded message was replaced, the same object "
                        f"encodes to {second[1].hex() if second[0] == 'ok' else second}, a fresh copy of it to "
                        f"{fresh[1].hex() if fresh[0] == 'ok' else fresh}"}
    m.fields = [x for k, x in enumerate(m.fields) if k != i] + []
    gone, fresh2 = pay(m), pay(rebuilt(m))
    if gone[0] == "ok":
        return {"kind": "reuse", "pgn": d["PGN"], "id": d["Id"], "key": "encode:missing-field-accepted-after-edit",
                "what": f"PGN {d['PGN']} {d['Id']}: field {f['Id']} removed from an already encoded message, yet it is encoded "
                        f"({gone[1].hex()}); a fresh copy gives {fresh2}"}
    return None


def c09_search(ctx):
    from nmea2000.decoder import NMEA2000Decoder
    from nmea2000.encoder import NMEA2000Encoder
    dec, enc = NMEA2000Decoder(), NMEA2000Encoder()
    rng = ctx.rng
    out, seen = [], set()
    for d in PL.definitions():
        if not encodable(d):
            continue
        g = PL.groups()[d["PGN"]]
        multi = len(g) > 1 and any("Match" in f for x in g for f in x["Fields"])
        if not multi and d is not g[-1]:
            continue
        base = None
        for _ in range(4):
            try:
                base = _decode(dec, d, PL.compose(d, rng))
                if base is not None and base.id == d["Id"]:
                    break
            except Exception:  # noqa: BLE001
                base = None
        if base is None or base.id != d["Id"]:
            continue
        msgs = [("decoded", base)]
        for _ in range(ctx.n(2, 8)):
            msgs += mutate_message(base, d, rng)
        # fields wider than 53 bits (the double cannot hold every raw value): always exercised, at every boundary class
        for wi, wf in enumerate(d["Fields"]):
            if wf.get("BitLength", 0) > 53 and "Match" not in wf and wf["FieldType"] in ("NUMBER", "TIME", "DURATION"):
                msgs += mutate_message(base, d, rng, force=wi)
        # narrow number fields (1..4 bits): EVERY value from 0 to one past the field's capacity
        for ni, nf in enumerate(d["Fields"]):
            if nf["FieldType"] == "NUMBER" and nf.get("BitLength", 99) <= 4 and "Match" not in nf and not nf.get("Signed"):
                res_ = nf.get("Resolution", 1)
                res_ = float(res_) if not isinstance(res_, int) else res_
                for v in range(0, (1 << nf["BitLength"]) + 1):
                    m2 = copy.deepcopy(base)
                    m2.fields[ni].value = m2.fields[ni].raw_value = v * res_
                    msgs.append((f"NUMBER:narrow:{nf['BitLength']}bit:{v}", m2))
        for label, m in msgs:
            w = c09_check(d, m, label, dec, enc)
            if w and w["key"] not in seen:
                seen.add(w["key"])
                out.append(w)
        # LOOKUP fields given BY NAME (raw value None): every name of the table (up to 48 of a large one) must decode
        # back to the same name — the name -> value dictionary must be the inverse of the value -> name one
        try:
            import nmea2000.pgns as _P
            for li, lf in enumerate(d["Fields"]):
                if lf["FieldType"] != "LOOKUP" or "Match" in lf or "LookupEnumeration" not in lf:
                    continue
                table = getattr(_P, "lookup_dict_" + lf["LookupEnumeration"], None) or getattr(_P, "master_dict", {}).get(lf["LookupEnumeration"], {})
                names = [nm for v_, nm in sorted(table.items()) if isinstance(v_, int) and 0 <= v_ < (1 << lf["BitLength"]) - 1]
                if len(names) > 48:
                    names = names[:8] + names[-8:] + rng.sample(names[8:-8], 32)
                for nm in names:
                    m2 = copy.deepcopy(base)
                    m2.fields[li].raw_value = None
                    m2.fields[li].value = nm
                    w = c09_check(d, m2, "LOOKUP:every-name", dec, enc)
                    if w and w["key"] not in seen:
                        seen.add(w["key"])
                        out.append(w)
                        break
        except Exception:  # noqa: BLE001
            pass
        # DATE / TIME fields given by value under other process time zones: the encoding must not depend on the host
        if any(f_["FieldType"] in ("DATE", "TIME") and "Match" not in f_ for f_ in d["Fields"]):
            import os as _os
            import time as _time
            old_tz = _os.environ.get("TZ")
            try:
                for tz in ("CET-1CEST", "JST-9", "NZST-12", "EST5EDT"):
                    _os.environ["TZ"] = tz
                    _time.tzset()
                    for ti, tf in enumerate(d["Fields"]):
                        if tf["FieldType"] not in ("DATE", "TIME") or "Match" in tf:
                            continue
                        for label, m2 in mutate_message(base, d, rng, force=ti):
                            if "value-path" not in label:
                                continue
                            w = c09_check(d, m2, label + ":tz", dec, enc)
                            if w and w["key"] + ":tz" not in seen:
                                w["key"] += ":tz"
                                w["tz"] = tz
                                w["what"] += f" (process time zone {tz})"
                                seen.add(w["key"])
                                out.append(w)
            finally:
                if old_tz is None:
                    _os.environ.pop("TZ", None)
                else:
                    _os.environ["TZ"] = old_tz
                _time.tzset()
        w = c09_locality(d, base, rng, enc)
        if w and w["key"] not in seen:
            seen.add(w["key"])
            out.append(w)
        w = c09_reuse(d, base, rng, enc)
        if w and w["key"] not in seen:
            seen.add(w["key"])
            out.append(w)
    # the same value classes in an interpreter started with -O: the rejections of the property are not `assert`s
    for w in c09_optimized(ctx.seed, ctx.n(25, 200)):
        if w["key"] not in seen:
            seen.add(w["key"])
            out.append(w)
    return out


def c09_optimized(seed, ndefs):
    """the same oracle in an interpreter started with -O (assert statements do not run): witnesses found there"""
    import subprocess
    import sys as _sys
    here = os.path.dirname(os.path.abspath(__file__))
    env = dict(os.environ, NMEA2000_REPO=vlib.REPO, PYTHONPATH=vlib.REPO, PYTHONDONTWRITEBYTECODE="1", PYTHONHASHSEED="0")
    try:
        p = subprocess.run([_sys.executable, "-O", os.path.join(here, "c09_opt_worker.py"), str(seed), str(ndefs)],
                           capture_output=True, text=True, timeout=600, env=env)
    except Exception:  # noqa: BLE001
        return []
    out = []
    for ln in p.stdout.splitlines():
        try:
            w = json.loads(ln)
        except ValueError:
            continue
        if isinstance(w, dict) and "key" in w:
            w["interp"] = "-O"
            w["what"] = str(w.get("what", "")) + " [interpreter started with -O]"
            out.append(w)
    return out


def c09_replay(ctx, data):
    from nmea2000.decoder import NMEA2000Decoder
    from nmea2000.encoder import NMEA2000Encoder
    from nmea2000.message import NMEA2000Message, NMEA2000Field
    w = data.get("witness", data)
    if w.get("interp") == "-O":
        import subprocess
        import sys as _sys
        here = os.path.dirname(os.path.abspath(__file__))
        env = dict(os.environ, NMEA2000_REPO=vlib.REPO, PYTHONPATH=vlib.REPO, PYTHONDONTWRITEBYTECODE="1", PYTHONHASHSEED="0")
        p = subprocess.run([_sys.executable, "-O", os.path.join(here, "c09_opt_worker.py"), "--replay", json.dumps(w)],
                           capture_output=True, text=True, timeout=300, env=env)
        try:
            r = json.loads(p.stdout.strip().splitlines()[-1])
        except Exception:  # noqa: BLE001
            r = {"still_fails": False, "text": p.stderr[-300:]}
        print("observed (python -O):", r.get("text", "").strip() or ("still fails" if r.get("still_fails") else "property holds"))
        return bool(r.get("still_fails"))
    d = next((x for x in PL.definitions() if x["PGN"] == w["pgn"] and x["Id"] == w["id"]), None)
    if d is not None and w.get("kind") in ("reuse", "locality"):
        import random
        dec, enc = NMEA2000Decoder(), NMEA2000Encoder()
        fn = c09_reuse if w["kind"] == "reuse" else c09_locality
        for sd in range(40):
            rng = random.Random(sd)
            try:
                base = _decode(dec, d, PL.compose(d, rng))
            except Exception:  # noqa: BLE001
                base = None
            if base is None or base.id != d["Id"]:
                continue
            r = fn(d, base, rng, enc)
            if r:
                print("observed:", r["what"])
                return True
        print("observed: property holds on this definition (40 re-runs of the scenario)")
        return False
    if d is None or w.get("kind") != "encode":
        return True
    m = NMEA2000Message(PGN=d["PGN"], id=d["Id"], priority=3, source=7, destination=255)
    m.fields = [NMEA2000Field(id=i, value=_unj(v), raw_value=_unj(r)) for i, v, r in w["fields"]]
    if w.get("tz"):
        import os as _os
        import time as _time
        old = _os.environ.get("TZ")
        _os.environ["TZ"] = w["tz"]
        _time.tzset()
        try:
            r = c09_check(d, m, w.get("class", "replay"), NMEA2000Decoder(), NMEA2000Encoder())
        finally:
            if old is None:
                _os.environ.pop("TZ", None)
            else:
                _os.environ["TZ"] = old
            _time.tzset()
        print("observed:", r["what"] if r else "property holds on this input")
        return r is not None
    r = c09_check(d, m, w.get("class", "replay"), NMEA2000Decoder(), NMEA2000Encoder())
    print("observed:", r["what"] if r else "property holds on this input")
    return r is not None
