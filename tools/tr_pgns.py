"""tr_pgns.py — nmea2000/pgns.py (Python `ast`) -> Coq tables of what the generated code DOES.

Fail closed: any statement, call, keyword or literal outside the enumerated shapes raises
Refuse(node) — the caller reports a broken tie, it never guesses. Comments are invisible to `ast`,
so the database values repeated in them cannot influence the tables.

Name binding is Python's: a later `def` of the same name replaces an earlier one."""
from __future__ import annotations
import ast
import os
import re
import struct
import sys

sys.path.insert(0, os.path.dirname(os.path.abspath(__file__)))
from vlib import cstr_z, cz  # noqa: E402

NSHARD = 16


class Refuse(Exception):
    def __init__(self, node, why):
        self.lineno = getattr(node, "lineno", None)
        self.why = why
        try:
            self.src = ast.unparse(node)[:200]
        except Exception:  # noqa: BLE001
            self.src = repr(node)
        super().__init__(f"line {self.lineno}: {why}: {self.src}")


# ------------------------------------------------------------------ literal helpers
def lit_num(n):
    """int/float literal (optionally negated), keeping the Python type."""
    neg = False
    if isinstance(n, ast.UnaryOp) and isinstance(n.op, ast.USub):
        neg, n = True, n.operand
    if not isinstance(n, ast.Constant) or isinstance(n.value, bool) or not isinstance(n.value, (int, float)):
        raise Refuse(n, "numeric literal expected")
    v = -n.value if neg else n.value
    return v


def cnum(v) -> str:
    if isinstance(v, int):
        return f"(NI {cz(v)})"
    return f"(NF {struct.unpack('>Q', struct.pack('>d', v))[0]})"


def lit_int(n) -> int:
    v = lit_num(n)
    if not isinstance(v, int):
        raise Refuse(n, "int literal expected")
    return v


def lit_str(n) -> str:
    if not isinstance(n, ast.Constant) or not isinstance(n.value, str):
        raise Refuse(n, "string literal expected")
    return n.value


def lit_bool(n) -> bool:
    if not isinstance(n, ast.Constant) or not isinstance(n.value, bool):
        raise Refuse(n, "bool literal expected")
    return n.value


def lit_ostr(n):
    if isinstance(n, ast.Constant) and n.value is None:
        return None
    return lit_str(n)


def is_name(n, name=None):
    return isinstance(n, ast.Name) and (name is None or n.id == name)


def call_of(n, fname, nargs=None, kw=()):
    if not (isinstance(n, ast.Call) and is_name(n.func, fname)):
        return None
    if nargs is not None and len(n.args) != nargs:
        raise Refuse(n, f"{fname}: {nargs} positional arguments expected")
    if sorted(k.arg for k in n.keywords) != sorted(kw):
        raise Refuse(n, f"{fname}: unexpected keywords")
    return n


def o(x, f) -> str:
    return "None" if x is None else f"(Some {f(x)})"


def cb(b: bool) -> str:
    return "true" if b else "false"


def fname_of(name: str, prefix: str):
    m = re.fullmatch(prefix + r"(\d+)(?:_(.*))?", name, re.S)
    if not m:
        return None
    return int(m.group(1)), m.group(2)


def cfname(fn) -> str:
    return f"({cz(fn[0])}, {o(fn[1], cstr_z)})"


# ------------------------------------------------------------------ decoders
def tr_decoder(fn: ast.FunctionDef) -> dict:
    if [a.arg for a in fn.args.args] != ["_data_raw_"]:
        raise Refuse(fn, "decoder signature")
    body = list(fn.body)
    if body and isinstance(body[0], ast.Expr) and isinstance(body[0].value, ast.Constant) and isinstance(body[0].value.value, str):
        body = body[1:]
    # nmea2000Message = NMEA2000Message(PGN=.., id=.., description=.. [, ttl=timedelta(milliseconds=..)])
    st = body.pop(0)
    if not (isinstance(st, ast.Assign) and len(st.targets) == 1 and is_name(st.targets[0], "nmea2000Message")
            and isinstance(st.value, ast.Call) and is_name(st.value.func, "NMEA2000Message") and not st.value.args):
        raise Refuse(st, "message constructor expected")
    kws = {k.arg: k.value for k in st.value.keywords}
    if not set(kws) <= {"PGN", "id", "description", "ttl"} or not {"PGN", "id", "description"} <= set(kws):
        raise Refuse(st, "message constructor keywords")
    ttl = None
    if "ttl" in kws:
        c = call_of(kws["ttl"], "timedelta", 0, ("milliseconds",))
        if c is None:
            raise Refuse(st, "ttl=timedelta(milliseconds=N) expected")
        ttl = lit_int(c.keywords[0].value)
    hdr = (lit_int(kws["PGN"]), lit_str(kws["id"]), lit_str(kws["description"]), ttl)

    steps: list[str] = []
    cur_val = cur_raw = None          # names currently held by the two registers
    block_assigned: set[str] = set()
    val_owner: dict[str, int] = {}    # variable name -> ordinal of the field whose value it is
    raw_owner: dict[str, int] = {}
    nfields = 0
    returned = False

    def off_arg(n):
        if not is_name(n, "running_bit_offset"):
            raise Refuse(n, "running_bit_offset expected")

    def data_arg(n):
        if not is_name(n, "_data_raw_"):
            raise Refuse(n, "_data_raw_ expected")

    def targets_both(st):
        """`x = x_raw = rhs` -> (x, x_raw);  `x_raw = rhs` / `x = rhs` -> (name,)"""
        names = []
        for t in st.targets:
            if not isinstance(t, ast.Name):
                raise Refuse(st, "simple name targets expected")
            names.append(t.id)
        return names

    i = 0
    while i < len(body):
        st = body[i]
        i += 1
        if returned:
            raise Refuse(st, "statement after return")
        # return nmea2000Message
        if isinstance(st, ast.Return):
            if not is_name(st.value, "nmea2000Message"):
                raise Refuse(st, "return nmea2000Message expected")
            returned = True
            continue
        if isinstance(st, ast.Raise):
            c = st.exc
            if not (isinstance(c, ast.Call) and is_name(c.func, "Exception") and len(c.args) == 1 and st.cause is None):
                raise Refuse(st, "raise Exception('...') expected")
            lit_str(c.args[0])
            steps.append("SRaise")
            # straight-line code: everything after an unconditional raise is unreachable
            returned = True
            rest = body[i:]
            if not rest or not isinstance(rest[-1], ast.Return):
                raise Refuse(st, "function must still end in return")
            i = len(body)
            continue
        if isinstance(st, ast.AugAssign):
            if not (is_name(st.target, "running_bit_offset") and isinstance(st.op, ast.Add)):
                raise Refuse(st, "running_bit_offset += ... expected")
            if is_name(st.value, "bits_to_skip"):
                steps.append("SAddSkip")
            else:
                steps.append(f"(SAddOff {cz(lit_int(st.value))})")
            continue
        if isinstance(st, ast.Assert):
            # assert isinstance(<var>, int)
            t = st.test
            c = call_of(t, "isinstance", 2)
            if isinstance(t, ast.Compare) and len(t.ops) == 1 and isinstance(t.ops[0], ast.Is) \
                    and is_name(t.comparators[0], "int"):
                raise Refuse(st, "`assert <var> is int` compares the value with the type object and always fails")
            if not (c is not None and is_name(c.args[0]) and is_name(c.args[1], "int") and st.msg is None):
                raise Refuse(st, "assert isinstance(<var>, int) expected")
            if c.args[0].id not in val_owner:
                raise Refuse(st, "assert on a variable that is not an earlier field's value")
            steps.append(f"(SAssertIsInt {val_owner[c.args[0].id]})")
            continue
        if isinstance(st, ast.Expr):
            # nmea2000Message.fields.append(NMEA2000Field(...9 args...))
            c = st.value
            if not (isinstance(c, ast.Call) and isinstance(c.func, ast.Attribute) and c.func.attr == "append"
                    and isinstance(c.func.value, ast.Attribute) and c.func.value.attr == "fields"
                    and is_name(c.func.value.value, "nmea2000Message") and len(c.args) == 1 and not c.keywords):
                raise Refuse(st, "fields.append(...) expected")
            f = call_of(c.args[0], "NMEA2000Field", 9)
            if f is None:
                raise Refuse(st, "NMEA2000Field(...) expected")
            a = f.args
            if not (is_name(a[4]) and is_name(a[5])):
                raise Refuse(st, "value/raw_value must be variables")
            if a[4].id != cur_val or a[5].id != cur_raw:
                raise Refuse(st, f"append uses {a[4].id}/{a[5].id} but the block computed {cur_val}/{cur_raw}")
            if isinstance(a[6], ast.Constant) and a[6].value is None:
                pq = None
            elif isinstance(a[6], ast.Attribute) and is_name(a[6].value, "PhysicalQuantities"):
                pq = a[6].attr
            else:
                raise Refuse(st, "PhysicalQuantities.X or None expected")
            if not (isinstance(a[7], ast.Attribute) and is_name(a[7].value, "FieldTypes")):
                raise Refuse(st, "FieldTypes.X expected")
            steps.append(f"(SAppend {cstr_z(lit_str(a[0]))} {cstr_z(lit_str(a[1]))} {o(lit_ostr(a[2]), cstr_z)} "
                         f"{o(lit_ostr(a[3]), cstr_z)} {o(pq, cstr_z)} {cstr_z(a[7].attr)} {cb(lit_bool(a[8]))})")
            val_owner[a[4].id] = nfields
            raw_owner[a[5].id] = nfields
            nfields += 1
            continue
        if not isinstance(st, ast.Assign):
            raise Refuse(st, "unexpected statement")
        # x_raw, bits_to_skip = decode_string_lau(_data_raw_, running_bit_offset)
        if len(st.targets) == 1 and isinstance(st.targets[0], ast.Tuple):
            t = st.targets[0].elts
            c = call_of(st.value, "decode_string_lau", 2)
            if not (len(t) == 2 and is_name(t[0]) and is_name(t[1], "bits_to_skip") and c is not None):
                raise Refuse(st, "x_raw, bits_to_skip = decode_string_lau(...) expected")
            data_arg(c.args[0]); off_arg(c.args[1])
            cur_raw = t[0].id
            steps.append("SStrLau")
            continue
        # nmea2000Message.fields[k].value = v  is consumed by the indirect pattern below
        names = targets_both(st)
        v = st.value
        if names == ["running_bit_offset"]:
            steps.append(f"(SSetOff {cz(lit_int(v))})")
            continue
        # combined_key = str(a_raw) + "_" + str(b_raw)   (+ two following statements)
        if names == ["combined_key"]:
            if not (isinstance(v, ast.BinOp) and isinstance(v.op, ast.Add) and isinstance(v.left, ast.BinOp)
                    and isinstance(v.left.op, ast.Add)):
                raise Refuse(st, "indirect key shape")
            a_, sep, b_ = v.left.left, v.left.right, v.right
            ca, cb_ = call_of(a_, "str", 1), call_of(b_, "str", 1)
            if ca is None or cb_ is None or lit_str(sep) != "_" or not is_name(ca.args[0]) or not is_name(cb_.args[0]):
                raise Refuse(st, "indirect key shape")
            if ca.args[0].id != cur_raw:
                raise Refuse(st, "indirect key: first component must be the current raw value")
            if cb_.args[0].id not in raw_owner:
                raise Refuse(st, "indirect key: second component must be an earlier field's raw value")
            if i + 1 >= len(body):
                raise Refuse(st, "indirect pattern truncated")
            s2, s3 = body[i], body[i + 1]
            i += 2
            # X = master_indirect_lookup_dict['T'].get(combined_key, None)
            ok2 = (isinstance(s2, ast.Assign) and len(s2.targets) == 1 and is_name(s2.targets[0])
                   and isinstance(s2.value, ast.Call) and isinstance(s2.value.func, ast.Attribute)
                   and s2.value.func.attr == "get" and isinstance(s2.value.func.value, ast.Subscript)
                   and is_name(s2.value.func.value.value, "master_indirect_lookup_dict")
                   and len(s2.value.args) == 2 and is_name(s2.value.args[0], "combined_key")
                   and isinstance(s2.value.args[1], ast.Constant) and s2.value.args[1].value is None
                   and not s2.value.keywords)
            if not ok2:
                raise Refuse(s2, "indirect lookup shape")
            tbl = lit_str(s2.value.func.value.slice)
            xname = s2.targets[0].id
            # nmea2000Message.fields[k].value = X
            ok3 = (isinstance(s3, ast.Assign) and len(s3.targets) == 1 and isinstance(s3.targets[0], ast.Attribute)
                   and s3.targets[0].attr == "value" and isinstance(s3.targets[0].value, ast.Subscript)
                   and isinstance(s3.targets[0].value.value, ast.Attribute) and s3.targets[0].value.value.attr == "fields"
                   and is_name(s3.targets[0].value.value.value, "nmea2000Message") and is_name(s3.value, xname))
            if not ok3:
                raise Refuse(s3, "indirect patch shape")
            k = lit_int(s3.targets[0].value.slice)
            if not 0 <= k < nfields:
                raise Refuse(s3, "indirect patch index out of range")
            steps.append(f"(SIndirect {cstr_z(tbl)} {raw_owner[cb_.args[0].id]} {k})")
            continue
        # x = 'TEMP_VAL'
        if isinstance(v, ast.Constant) and v.value == "TEMP_VAL" and len(names) == 1:
            cur_val = names[0]
            steps.append("STempVal")
            continue
        # x = x_raw
        if isinstance(v, ast.Name) and len(names) == 1:
            if v.id != cur_raw:
                raise Refuse(st, "copy from something other than the current raw value")
            cur_val = names[0]
            steps.append("SCopyRaw")
            continue
        if not isinstance(v, ast.Call):
            raise Refuse(st, "call expected")
        # x = master_dict['T'].get(x_raw, None)
        if isinstance(v.func, ast.Attribute):
            ok = (v.func.attr == "get" and isinstance(v.func.value, ast.Subscript)
                  and is_name(v.func.value.value, "master_dict") and len(v.args) == 2 and not v.keywords
                  and is_name(v.args[0]) and isinstance(v.args[1], ast.Constant) and v.args[1].value is None
                  and len(names) == 1)
            if not ok:
                raise Refuse(st, "master_dict[...].get(x_raw, None) expected")
            if v.args[0].id != cur_raw:
                raise Refuse(st, "lookup of something other than the current raw value")
            cur_val = names[0]
            steps.append(f"(SLookup {cstr_z(lit_str(v.func.value.slice))})")
            continue
        if not is_name(v.func) or v.keywords:
            raise Refuse(st, "plain call expected")
        f = v.func.id
        a = v.args

        def set_regs(both_allowed=True, raw_only_allowed=True):
            nonlocal cur_val, cur_raw
            if len(names) == 2:
                if not both_allowed:
                    raise Refuse(st, "single target expected")
                cur_val, cur_raw = names
                return True
            if len(names) == 1:
                if not raw_only_allowed:
                    raise Refuse(st, "x = x_raw = ... expected")
                cur_raw = names[0]
                return False
            raise Refuse(st, "too many targets")

        if f == "decode_number":
            if len(a) != 7:
                raise Refuse(st, "decode_number arity")
            data_arg(a[0]); off_arg(a[1])
            both = set_regs()
            steps.append(f"(SNumber {cb(both)} {cz(lit_int(a[2]))} {cb(lit_bool(a[3]))} {cnum(lit_num(a[4]))} "
                         f"{cnum(lit_num(a[5]))} {cnum(lit_num(a[6]))})")
        elif f == "decode_int":
            if len(a) != 3:
                raise Refuse(st, "decode_int arity")
            data_arg(a[0]); off_arg(a[1])
            both = set_regs()
            steps.append(f"(SInt {cb(both)} {cz(lit_int(a[2]))})")
        elif f == "decode_bit_lookup":
            ok = (len(a) == 2 and is_name(a[0]) and isinstance(a[1], ast.Subscript)
                  and is_name(a[1].value, "master_flags_dict") and len(names) == 1)
            if not ok or a[0].id != cur_raw:
                raise Refuse(st, "decode_bit_lookup(x_raw, master_flags_dict['T']) expected")
            cur_val = names[0]
            steps.append(f"(SBitLookup {cstr_z(lit_str(a[1].slice))})")
        elif f in ("decode_time", "decode_date"):
            if not (len(a) == 1 and is_name(a[0]) and len(names) == 1) or a[0].id != cur_raw:
                raise Refuse(st, f"{f}(x_raw) expected")
            cur_val = names[0]
            steps.append("STime" if f == "decode_time" else "SDate")
        elif f == "decode_float":
            if len(a) != 5:
                raise Refuse(st, "decode_float arity")
            data_arg(a[0]); off_arg(a[1])
            set_regs(raw_only_allowed=False)
            steps.append(f"(SFloat {cz(lit_int(a[2]))} {cnum(lit_num(a[3]))} {cnum(lit_num(a[4]))})")
        elif f == "decode_string_fix":
            if len(a) != 3:
                raise Refuse(st, "decode_string_fix arity")
            data_arg(a[0]); off_arg(a[1])
            set_regs(raw_only_allowed=False)
            steps.append(f"(SStrFix {cz(lit_int(a[2]))})")
        elif f == "decode_string_lz":
            if len(a) != 2:
                raise Refuse(st, "decode_string_lz arity")
            data_arg(a[0]); off_arg(a[1])
            set_regs(raw_only_allowed=False)
            steps.append("SStrLz")
        elif f == "int_to_bytes":
            c = call_of(a[0], "decode_int", 3) if len(a) == 1 else None
            if c is None:
                raise Refuse(st, "int_to_bytes(decode_int(...)) expected")
            data_arg(c.args[0]); off_arg(c.args[1])
            set_regs(raw_only_allowed=False)
            if is_name(c.args[2]):
                if c.args[2].id not in val_owner:
                    raise Refuse(st, "length variable is not an earlier field's value")
                steps.append(f"(SBinaryVar {val_owner[c.args[2].id]})")
            else:
                steps.append(f"(SBinary {cz(lit_int(c.args[2]))})")
        else:
            raise Refuse(st, f"unexpected call {f}")
    if not returned:
        raise Refuse(fn, "missing return")
    return {"hdr": hdr, "steps": steps}


# ------------------------------------------------------------------ dispatchers
def tr_cond(n):
    # ((data_raw >> K) & MASK) == V
    if not (isinstance(n, ast.Compare) and len(n.ops) == 1 and isinstance(n.ops[0], ast.Eq)):
        raise Refuse(n, "== comparison expected")
    l = n.left
    if not (isinstance(l, ast.BinOp) and isinstance(l.op, ast.BitAnd) and isinstance(l.left, ast.BinOp)
            and isinstance(l.left.op, ast.RShift) and is_name(l.left.left, "data_raw")):
        raise Refuse(n, "((data_raw >> K) & MASK) expected")
    return lit_int(l.left.right), lit_int(l.right), lit_int(n.comparators[0])


def tr_target(n, bound):
    c = n.value if isinstance(n, ast.Return) else None
    if not (isinstance(c, ast.Call) and is_name(c.func) and len(c.args) == 1 and is_name(c.args[0], "data_raw")
            and not c.keywords):
        raise Refuse(n, "return decode_pgn_X(data_raw) expected")
    fn = fname_of(c.func.id, "decode_pgn_")
    if fn is None or c.func.id not in bound:
        raise Refuse(n, "dispatch target is not a bound decode function")
    return fn


def tr_dispatcher(fn: ast.FunctionDef, bound) -> dict:
    arms, fallback, done = [], None, False
    for st in fn.body:
        if done:
            raise Refuse(st, "statement after final return")
        if isinstance(st, ast.If):
            if st.orelse or len(st.body) != 1:
                raise Refuse(st, "if without else and with a single return expected")
            t = st.test
            never = False
            if isinstance(t, ast.Tuple) and not t.elts:
                never, conds = True, []          # `if ():` — the empty tuple is falsy
            elif isinstance(t, ast.Constant) and t.value is True:
                conds = []                       # `if (True):` — a definition without match fields
            elif isinstance(t, ast.BoolOp) and isinstance(t.op, ast.And):
                conds = [tr_cond(c) for c in t.values]
            else:
                conds = [tr_cond(t)]
            arms.append((never, conds, tr_target(st.body[0], bound)))
        elif isinstance(st, ast.Return):
            done = True
            if isinstance(st.value, ast.Constant) and st.value.value is None:
                fallback = None
            else:
                fallback = tr_target(st, bound)
        else:
            raise Refuse(st, "unexpected statement in dispatcher")
    if not done:
        raise Refuse(fn, "dispatcher without final return")
    return {"arms": arms, "fallback": fallback}


# ------------------------------------------------------------------ is_fast
def tr_fast(fn: ast.FunctionDef) -> str:
    body = list(fn.body)
    if fn.args.args:
        raise Refuse(fn, "is_fast takes no argument")
    if body and isinstance(body[0], ast.Expr) and isinstance(body[0].value, ast.Constant):
        body = body[1:]
    if len(body) != 1:
        raise Refuse(fn, "single statement expected")
    st = body[0]
    if isinstance(st, ast.Return) and isinstance(st.value, ast.Constant) and isinstance(st.value.value, bool):
        return "FastTrue" if st.value.value else "FastFalse"
    if isinstance(st, ast.Raise):
        return "FastRaises"
    raise Refuse(st, "return True/False or raise expected")


# ------------------------------------------------------------------ encoders
def _is_field_attr(n, attr):
    return isinstance(n, ast.Attribute) and n.attr == attr and is_name(n.value, "field")


def _is_none(n):
    return isinstance(n, ast.Constant) and n.value is None


def _assert_value_numeric(st):
    # assert field.value is None or isinstance(field.value, (int, float))
    t = st.test if isinstance(st, ast.Assert) else None
    ok = (isinstance(t, ast.BoolOp) and isinstance(t.op, ast.Or) and len(t.values) == 2
          and isinstance(t.values[0], ast.Compare) and _is_field_attr(t.values[0].left, "value")
          and isinstance(t.values[0].ops[0], ast.Is) and _is_none(t.values[0].comparators[0])
          and ast.unparse(t.values[1]) == "isinstance(field.value, (int, float))")
    if not ok:
        raise Refuse(st, "assert field.value is None or isinstance(field.value, (int, float)) expected")


def tr_encoder(fn: ast.FunctionDef) -> dict:
    if [a.arg for a in fn.args.args] != ["nmea2000Message"]:
        raise Refuse(fn, "encoder signature")
    body = list(fn.body)
    if body and isinstance(body[0], ast.Expr) and isinstance(body[0].value, ast.Constant):
        body = body[1:]
    st = body.pop(0)
    if not (isinstance(st, ast.Assign) and len(st.targets) == 1 and is_name(st.targets[0], "data_raw")
            and isinstance(st.value, ast.Constant) and st.value.value == 0 and not isinstance(st.value.value, bool)):
        raise Refuse(st, "data_raw = 0 expected")
    steps, length, i, done = [], None, 0, False
    while i < len(body):
        st = body[i]
        if done:
            raise Refuse(st, "statement after return")
        if isinstance(st, ast.Raise):
            steps.append("ERaise")
            # unreachable tail; must still end in the return statement
            if not isinstance(body[-1], ast.Return):
                raise Refuse(st, "function must end in return")
            done = True
            length_stmt = body[-1]
            length = _enc_return(length_stmt)
            break
        if isinstance(st, ast.Return):
            length = _enc_return(st)
            done = True
            i += 1
            continue
        # field = nmea2000Message.get_field_by_id('S')
        ok = (isinstance(st, ast.Assign) and len(st.targets) == 1 and is_name(st.targets[0], "field")
              and isinstance(st.value, ast.Call) and isinstance(st.value.func, ast.Attribute)
              and st.value.func.attr == "get_field_by_id" and is_name(st.value.func.value, "nmea2000Message")
              and len(st.value.args) == 1 and not st.value.keywords)
        if not ok:
            raise Refuse(st, "field = nmea2000Message.get_field_by_id('..') expected")
        fid = lit_str(st.value.args[0])
        s2 = body[i + 1]
        if not (isinstance(s2, ast.If) and ast.unparse(s2.test) == "field is None" and len(s2.body) == 1
                and isinstance(s2.body[0], ast.Raise) and not s2.orelse):
            raise Refuse(s2, "if field is None: raise expected")
        j = i + 2
        s = body[j]
        kind = None
        if isinstance(s, ast.Assert):
            _assert_value_numeric(s)
            j += 1
            s = body[j]
            c = s.value if isinstance(s, ast.Assign) and len(s.targets) == 1 and is_name(s.targets[0], "field_value") else None
            if c is not None and call_of(c, "encode_number", 4):
                if not _is_field_attr(c.args[0], "value"):
                    raise Refuse(s, "encode_number(field.value, ...) expected")
                kind = f"(ENumber {cz(lit_int(c.args[1]))} {cb(lit_bool(c.args[2]))} {cnum(lit_num(c.args[3]))})"
            elif c is not None and call_of(c, "encode_float", 1):
                if not _is_field_attr(c.args[0], "value"):
                    raise Refuse(s, "encode_float(field.value) expected")
                kind = "EFloat"
            else:
                raise Refuse(s, "encode_number/encode_float expected after the numeric assert")
            j += 1
        elif isinstance(s, ast.Assign):
            if not (len(s.targets) == 1 and is_name(s.targets[0], "field_value")):
                raise Refuse(s, "field_value = ... expected")
            v = s.value
            if _is_field_attr(v, "value"):
                kind = "EReserved"
            elif isinstance(v, ast.IfExp):
                m = re.fullmatch(r"field\.raw_value if field\.raw_value is not None else lookup_encode_([A-Za-z0-9_]+)\(field\.value\)",
                                 ast.unparse(v))
                if not m:
                    raise Refuse(s, "lookup encode expression expected")
                kind = f"(ELookup {cstr_z(m.group(1))})"
            else:
                raise Refuse(s, "unexpected field_value expression")
            j += 1
        elif isinstance(s, ast.If):
            src = ast.unparse(s)
            m_date = ("if field.raw_value is not None:\n    days = field.raw_value\nelse:\n"
                      "    assert field.value is None or isinstance(field.value, date)\n"
                      "    days = None if field.value is None else encode_date(field.value)")
            m_time = re.compile(r"if field\.raw_value is not None:\n    assert isinstance\(field\.raw_value, \(int, float\)\)\n"
                                r"    seconds = field\.raw_value\nelse:\n"
                                r"    assert field\.value is None or isinstance\(field\.value, time\)\n"
                                r"    seconds = None if field\.value is None else encode_time\(field\.value, (\d+)\)")
            nxt = body[j + 1]
            c = nxt.value if isinstance(nxt, ast.Assign) and len(nxt.targets) == 1 and is_name(nxt.targets[0], "field_value") else None
            cn = call_of(c, "encode_number", 4) if c is not None else None
            if cn is None:
                raise Refuse(nxt, "field_value = encode_number(days|seconds, L, S, R) expected")
            ln, sg, rs = lit_int(cn.args[1]), lit_bool(cn.args[2]), lit_num(cn.args[3])
            mt = m_time.fullmatch(src)
            if src == m_date and is_name(cn.args[0], "days"):
                kind = f"(EDate {cz(ln)} {cb(sg)} {cnum(rs)})"
            elif mt and is_name(cn.args[0], "seconds"):
                if int(mt.group(1)) != ln:
                    raise Refuse(s, "encode_time bit length differs from encode_number bit length")
                kind = f"(ETime {cz(ln)} {cb(sg)} {cnum(rs)})"
            else:
                raise Refuse(s, "date / time / duration encode block expected")
            j += 2
        elif isinstance(s, ast.Raise):
            steps.append(f"(ERaiseAfter {cstr_z(fid)})")
            if not isinstance(body[-1], ast.Return):
                raise Refuse(s, "function must end in return")
            length = _enc_return(body[-1])
            done = True
            break
        else:
            raise Refuse(s, "unexpected statement in encoder field block")
        s = body[j]
        if not (isinstance(s, ast.Assert) and ast.unparse(s.test) == "isinstance(field_value, int)"):
            raise Refuse(s, "assert isinstance(field_value, int) expected")
        s = body[j + 1]
        # data_raw |= (field_value & MASK) << SHIFT
        ok = (isinstance(s, ast.AugAssign) and is_name(s.target, "data_raw") and isinstance(s.op, ast.BitOr)
              and isinstance(s.value, ast.BinOp) and isinstance(s.value.op, ast.LShift)
              and isinstance(s.value.left, ast.BinOp) and isinstance(s.value.left.op, ast.BitAnd)
              and is_name(s.value.left.left, "field_value"))
        if not ok:
            raise Refuse(s, "data_raw |= (field_value & MASK) << SHIFT expected")
        steps.append(f"(EField {cstr_z(fid)} {kind} {cz(lit_int(s.value.left.right))} {cz(lit_int(s.value.right))})")
        i = j + 2
    if not done:
        raise Refuse(fn, "encoder without return")
    return {"steps": steps, "length": length}


def _enc_return(st):
    src = ast.unparse(st)
    m = re.fullmatch(r"return data_raw\.to_bytes\((\d+), byteorder='little'\)", src)
    if m:
        return int(m.group(1))
    if src == "return data_raw.to_bytes((data_raw.bit_length() + 7) // 8, byteorder='little')":
        return None
    raise Refuse(st, "return data_raw.to_bytes(...) expected")


# ------------------------------------------------------------------ dictionaries
def tr_dict(node, key_f, val_f):
    """Python dict-literal semantics: a later duplicate key replaces the value, keeps the first position."""
    if not isinstance(node, ast.Dict):
        raise Refuse(node, "dict literal expected")
    out: dict = {}
    for k, v in zip(node.keys, node.values):
        if k is None:
            raise Refuse(node, "dict unpacking not expected")
        out[key_f(k)] = val_f(v)
    return out


def lit_key_indirect(n):
    m = re.fullmatch(r"(-?\d+)_(-?\d+)", lit_str(n))
    if not m:
        raise Refuse(n, "indirect key 'a_b' expected")
    return int(m.group(1)), int(m.group(2))


def check_lookup_encode_fn(fn: ast.FunctionDef, name: str):
    want = (f"def lookup_encode_{name}(value):\n    result = lookup_dict_encode_{name}.get(value, None)\n"
            f"    if result is None:\n        raise Exception(f'Cant encode this message, {{value}} is missing from {name}')\n"
            f"    return result")
    if ast.unparse(fn) != want:
        raise Refuse(fn, "lookup_encode_X shape")


# ------------------------------------------------------------------ whole module
def translate(path: str) -> dict:
    tree = ast.parse(open(path).read())
    bound: dict[str, ast.FunctionDef] = {}
    order: list[str] = []
    assigns: dict[str, ast.AST] = {}
    for n in tree.body:
        if isinstance(n, ast.ImportFrom):
            continue
        if isinstance(n, ast.FunctionDef):
            if n.decorator_list or n.args.defaults or n.args.kwonlyargs or n.args.vararg or n.args.kwarg:
                raise Refuse(n, "plain function expected")
            if n.name in bound:
                order.remove(n.name)
            bound[n.name] = n
            order.append(n.name)
            continue
        if isinstance(n, ast.Assign) and len(n.targets) == 1 and isinstance(n.targets[0], ast.Name):
            assigns[n.targets[0].id] = n.value
            continue
        raise Refuse(n, "unexpected top-level statement")

    res = {"dec": [], "disp": [], "fast": [], "enc": [], "lookups": {}, "bitlookups": {}, "indirect": {},
           "enc_lookups": {}, "shadowed": []}
    res["refused"] = []
    for name in order:
        fn = bound[name]
        cat = ("fast" if name.startswith("is_fast_pgn_") else
               "enc" if name.startswith("encode_pgn_") else
               "disp" if name.startswith("decode_pgn_") and [a.arg for a in fn.args.args] == ["data_raw"] else
               "dec" if name.startswith("decode_pgn_") else "other")
        try:
            if cat == "fast":
                res["fast"].append((int(name[len("is_fast_pgn_"):]), tr_fast(fn)))
            elif cat == "disp":
                res["disp"].append((fname_of(name, "decode_pgn_"), tr_dispatcher(fn, bound)))
            elif cat == "dec":
                res["dec"].append((fname_of(name, "decode_pgn_"), tr_decoder(fn)))
            elif cat == "enc":
                res["enc"].append((fname_of(name, "encode_pgn_"), tr_encoder(fn)))
            elif name.startswith("lookup_encode_"):
                check_lookup_encode_fn(fn, name[len("lookup_encode_"):])
            elif name.startswith("lookup_field_type_"):
                pass   # only reachable from KEY_VALUE fields, which the database does not contain
            else:
                raise Refuse(fn, "unexpected function")
        except Refuse as e:
            # fail closed per function: a refused function is absent from its table, so the obligation
            # of its database definition cannot be discharged
            res["refused"].append((cat, name, str(e)))
    for name, v in assigns.items():
        if name == "master_dict":
            res["lookups"] = tr_dict(v, lit_str, lambda d: tr_dict(d, lit_int, lit_str))
        elif name == "master_flags_dict":
            res["bitlookups"] = tr_dict(v, lit_str, lambda d: tr_dict(d, lit_int, lit_str))
        elif name == "master_indirect_lookup_dict":
            res["indirect"] = tr_dict(v, lit_str, lambda d: tr_dict(d, lit_key_indirect, lit_str))
        elif name.startswith("lookup_dict_encode_"):
            res["enc_lookups"][name[len("lookup_dict_encode_"):]] = tr_dict(v, lit_str, lit_int)
        elif name.startswith("lookup_field_type_dict_"):
            pass
        else:
            raise Refuse(v, f"unexpected module-level assignment {name}")
    return res


def emit(path: str, outdir: str) -> dict:
    r = translate(path)
    os.makedirs(outdir, exist_ok=True)
    hdr = "From NV Require Import Base Defn.\n"

    def shard(items, base, ty, render):
        per = (len(items) + NSHARD - 1) // NSHARD or 1
        mods = []
        for k in range(NSHARD):
            chunk = items[k * per:(k + 1) * per]
            with open(os.path.join(outdir, f"{base}_{k}.v"), "w") as fh:
                fh.write(hdr + f"Definition {base.lower()}_{k} : list ({ty}) :=\n [")
                fh.write(";\n  ".join(render(x) for x in chunk))
                fh.write("].\n")
            mods.append(f"{base}_{k}")
        return mods

    def r_dec(x):
        key, d = x
        pgn, id_, descr, ttl = d["hdr"]
        return (f"({cfname(key)}, mkD {cz(pgn)} {cstr_z(id_)} {cstr_z(descr)} {o(ttl, cz)}\n   ["
                + ";\n    ".join(d["steps"]) + "])")

    def r_enc(x):
        key, e = x
        return f"({cfname(key)}, mkE [" + ";\n    ".join(e["steps"]) + f"] {o(e['length'], cz)})"

    mods_dec = shard(r["dec"], "GenDec", "fname * ddef", r_dec)
    mods_enc = shard(r["enc"], "GenEnc", "fname * edef", r_enc)
    with open(os.path.join(outdir, "GenCode.v"), "w") as fh:
        fh.write(hdr + "From NVGen Require Import " + " ".join(mods_dec + mods_enc) + ".\n")
        fh.write("Definition code_dec : list (fname * ddef) := "
                 + " ++ ".join(m.lower() for m in mods_dec) + ".\n")
        fh.write("Definition code_enc : list (fname * edef) := "
                 + " ++ ".join(m.lower() for m in mods_enc) + ".\n")
    with open(os.path.join(outdir, "GenDisp.v"), "w") as fh:
        fh.write(hdr)
        # every bound decode function with the (PGN, id) its message constructor names
        fh.write("Definition code_ids : list (fname * (Z * str)) :=\n [")
        fh.write(";\n  ".join(f"({cfname(k)}, ({cz(d['hdr'][0])}, {cstr_z(d['hdr'][1])}))" for k, d in r["dec"]))
        fh.write("].\n")
        fh.write("Definition code_disp : list disp :=\n [")
        items = []
        for key, d in r["disp"]:
            arms = ";\n     ".join(
                f"mkArm {cb(nv)} [" + "; ".join(f"({cz(s)}, {cz(m)}, {cz(v)})" for s, m, v in conds) + f"] {cfname(t)}"
                for nv, conds, t in d["arms"])
            items.append(f"mkDisp {cz(key[0])}\n    [{arms}]\n    {o(d['fallback'], cfname)}")
        fh.write(";\n  ".join(items))
        fh.write("].\n")
        fh.write("Definition code_fast : list (Z * fastkind) :=\n [")
        fh.write("; ".join(f"({cz(p)}, {k})" for p, k in r["fast"]))
        fh.write("].\n")
    with open(os.path.join(outdir, "GenLookups.v"), "w") as fh:
        fh.write(hdr)

        def dump(name, d, kf):
            fh.write(f"Definition {name} :=\n [")
            fh.write(";\n  ".join(
                f"({cstr_z(t)}, [" + "; ".join(f"({kf(k)}, {cstr_z(v)})" for k, v in tab.items()) + "])"
                for t, tab in d.items()))
            fh.write("].\n")
        fh.write("(* effective dictionaries after Python's dict-literal semantics *)\n")
        dump("code_lookups : list (str * list (Z * str))", r["lookups"], cz)
        dump("code_bitlookups : list (str * list (Z * str))", r["bitlookups"], cz)
        dump("code_indirect : list (str * list ((Z * Z) * str))", r["indirect"], lambda k: f"({cz(k[0])}, {cz(k[1])})")
        fh.write("Definition code_enc_lookups : list (str * list (str * Z)) :=\n [")
        fh.write(";\n  ".join(
            f"({cstr_z(t)}, [" + "; ".join(f"({cstr_z(k)}, {cz(v)})" for k, v in tab.items()) + "])"
            for t, tab in r["enc_lookups"].items()))
        fh.write("].\n")
    return {"refused": r["refused"][:40], "n_refused": len(r["refused"]),
            "decoders": len(r["dec"]), "encoders": len(r["enc"]), "dispatchers": len(r["disp"]),
            "fast": len(r["fast"]), "lookups": len(r["lookups"]),
            "modules": mods_dec + mods_enc + ["GenCode", "GenDisp", "GenLookups"]}


if __name__ == "__main__":
    try:
        print(emit(sys.argv[1], sys.argv[2]))
    except Refuse as e:
        print("REFUSED:", e)
        sys.exit(3)
