#!/venv/bin/python
"""seed_confirm.py [--tier quick] <seeded/Cxx-k> ...

Final confirmation of a seeded change ON /repo ITSELF (as the brief asks): with /repo clean,
  1. demo.py passes on the clean tree;
  2. `git -C /repo apply patch.diff`; the repository's own suite still passes (71); demo.py fails;
  3. the property's registered check (`./check Cxx --tier <tier>`, evidence/replays redirected to a scratch
     directory so the committed evidence is not overwritten) is run against the changed /repo;
  4. `git -C /repo checkout -- .` (always, also on error) and the tree is verified clean.
Writes <dir>/meta.json. Never commits anything in /repo."""
import json
import os
import re
import subprocess
import sys
import tempfile

VERIF = os.path.dirname(os.path.dirname(os.path.abspath(__file__)))
PY = "/venv/bin/python"


def sh(cmd, cwd=None, env=None, timeout=3600):
    e = dict(os.environ)
    e.update(env or {})
    p = subprocess.run(cmd, shell=True, cwd=cwd, env=e, capture_output=True, text=True, timeout=timeout)
    return p.returncode, (p.stdout + p.stderr)


def pytest_repo():
    for _ in range(3):      # tests/test_tcp_client.py binds a fixed port
        rc, out = sh(f"{PY} -m pytest -q -p no:cacheprovider", cwd="/repo", env={"PYTHONPATH": "/repo"})
        if rc == 0:
            break
    return rc, out.strip().splitlines()[-1] if out.strip() else ""


def confirm(d, tier):
    d = os.path.abspath(d)
    name = os.path.basename(d)
    prop = name.split("-")[0]
    rc, st = sh("git -C /repo status --porcelain")
    if st.strip():
        raise SystemExit("/repo is not clean: " + st)
    meta = {"seed": name, "property": prop, "repo_commit": sh("git -C /repo rev-parse --short HEAD")[1].strip()}
    note = open(os.path.join(d, "note.txt")).read() if os.path.exists(os.path.join(d, "note.txt")) else ""
    meta["what_and_what_it_needs_to_manifest"] = note.strip()
    demo = os.path.join(d, "demo.py")
    rc0, o0 = sh(f"{PY} {demo}", cwd="/repo", env={"PYTHONPATH": "/repo"}, timeout=300)
    meta["demo_on_clean_repo"] = {"exit": rc0, "last_line": (o0.strip().splitlines() or [""])[-1][:300]}
    out_dir = tempfile.mkdtemp(prefix="seedconf_")
    try:
        rc, o = sh(f"git -C /repo apply {os.path.join(d, 'patch.diff')}")
        if rc != 0:
            meta["error"] = "patch does not apply: " + o[-300:]
            return meta
        rc1, last = pytest_repo()
        meta["repo_tests_with_change"] = {"exit": rc1, "summary": last}
        rc2, o2 = sh(f"{PY} {demo}", cwd="/repo", env={"PYTHONPATH": "/repo"}, timeout=300)
        meta["demo_with_change"] = {"exit": rc2, "last_line": (o2.strip().splitlines() or [""])[-1][:300]}
        rc3, o3 = sh(f"./check {prop} --tier {tier}", cwd=VERIF,
                     env={"VERIF_OUT": out_dir, "VERIF_BUILD": os.path.join(out_dir, "build")}, timeout=5000)
        viol = [ln for ln in o3.splitlines() if ln.startswith("VIOLATION")]
        what = []
        lines = o3.splitlines()
        for i, ln in enumerate(lines):
            if ln.startswith("VIOLATION") and i + 1 < len(lines):
                what.append(lines[i + 1].strip()[:400])
        meta["check"] = {"cmd": f"./check {prop} --tier {tier}", "exit": rc3, "violation_lines": len(viol),
                         "no_failing_input_found": sum(1 for v in viol if v.rstrip().endswith("no-failing-input-found")),
                         "reported": what[:4], "summary": (lines or [""])[-1][:200]}
        meta["detected"] = rc3 == 1 and bool(viol)
        meta["detected_with_concrete_input"] = any(not v.rstrip().endswith("no-failing-input-found") for v in viol)
    finally:
        sh("git -C /repo checkout -- .")
        rc, st = sh("git -C /repo status --porcelain")
        meta["repo_restored"] = not st.strip()
        sh(f"rm -rf {out_dir}")
    meta["kept_because"] = ("tests pass with the change, the demonstration fails with it and passes without it"
                            if meta.get("repo_tests_with_change", {}).get("exit") == 0 and rc0 == 0 and meta.get("demo_with_change", {}).get("exit") != 0
                            else "NOT CONFIRMED")
    return meta


def main():
    args = sys.argv[1:]
    tier = "quick"
    if args and args[0] == "--tier":
        tier, args = args[1], args[2:]
    for d in args:
        m = confirm(d, tier)
        with open(os.path.join(d, "meta.json"), "w") as fh:
            json.dump(m, fh, indent=1)
        print(m["seed"], "confirmed" if m.get("kept_because", "").startswith("tests") else "NOT-CONFIRMED",
              "detected" if m.get("detected") else "MISSED",
              "concrete" if m.get("detected_with_concrete_input") else "no-input", m.get("check", {}).get("summary", ""))


if __name__ == "__main__":
    main()
