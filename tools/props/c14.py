"""C14 — close() is final and status notifications are faithful.

Tie: the four REAL client classes run on the virtual-time loop (tools/vloop.py; every run in a subprocess with a
wall-clock watchdog); `close()` is injected at EVERY event-loop step position of the base session shapes, with status
callbacks that return / raise / are slow (/ are slow and raise); the labelled trace of every run must be accepted by the
Coq acceptor `lts_accepts` of ClientLTS.v (repaired code), decided by the kernel.  Search: the same runs judged by the
property text alone (no Coq model): state stays CLOSED, no connection attempt after close(), no receive callback after
close() returned, link shut, tasks finished, status trace = the state changes without repetition, and a raising status
callback changes nothing (differential against the same session with a callback that returns)."""
import os
import vlib
import vloop
from vlib import run_cases, distinct_count

PROPS_FILES = ["props/C14.v"]
RULE = ("one case = one scripted session of a real client class on the virtual loop: a session shape (A: connect refused "
        "once, pending 0.3 s, frames, second connect(), half a frame, send with suspending drain, EOF, reconnect, write "
        "error, reconnect; B: three refusals with 0.5/1/2 s back-off, frames, connection reset, write error after a "
        "suspended drain, write error and EOF in the same instant, reconnect; S, serial client only: the port opens but the "
        "configuration drain fails after a suspension / at once / succeeds late) with close() called at EVERY event-loop step position of the shape (before connect, while "
        "the transport is pending, during a back-off, idle, mid-packet, inside a status / receive callback, during a send, "
        "right after a fault), x 4 clients x status callback that returns | raises | is slow | is slow and raises; the rest "
        "of the script (connect(), send(), frames, EOF) keeps running after close(); non-trivial = the trace contains "
        "AClose; distinct by label sequence")
TRUSTED = ["ClientLTS.v is a hand model of AsyncIOClient.connect/_receive_loop/send/close/_process_queue/_update_state; tied to "
           "the code by the traces of this run (real traces are accepted by the model; the theorems quantify over all model traces)",
           "which awaits really suspend, FIFO order of the ready queue, task cancellation: CPython 3.12 asyncio, modelled not verified",
           "tools/vloop.py: virtual-time selector, fake transports, method wrappers, block -> label translation"]
ASSUMPTIONS = ["the application does not cancel connect/send/close tasks (close() may be called any number of times)",
               "asyncio schedules every runnable task eventually (fairness)",
               "a status / receive callback does not swallow CancelledError"]
IMPORTS = "From NV Require Import Base ClientLTS CorrClientLTS."
MAX_POS = 160        # injection positions per base session (an unchanged client has 30-60 event-loop steps per session;
                     # a changed one that never settles must not multiply the work by thousands)
_CACHE = {}

SHAPE_B_CONNS = [{"refuse": True}, {"refuse": True}, {"refuse": True}, {"delay": 0.2}, {"delay": 0.0, "drain": "susp"}]
SHAPE_B_SCRIPT = [["connect"], ["run", 4.2], ["frames", 1], ["run", 0.2], ["partial"], ["reset"], ["run", 1.0],
                  ["frames", 2], ["run", 0.2], ["wmode", "suspfail"], ["send"], ["run", 1.0], ["connect"], ["frames", 1],
                  ["run", 0.3], ["wmode", "fail"], ["send"], ["eof"], ["run", 1.5], ["frames", 1], ["run", 0.3], ["send"],
                  ["run", 0.3]]
# S (serial client only): the port opens but the configuration drain() fails after a suspension / at once / succeeds late
SHAPE_S_CONNS = [{"delay": 0.3, "drain": "suspfail"}, {"delay": 0.1, "drain": "drainfail"}, {"delay": 0.1, "drain": "susp"}]
SHAPE_S_SCRIPT = [["connect"], ["run", 3.0], ["frames", 1], ["run", 0.5], ["eof"], ["run", 1.0]]
SHAPES = {"A": (None, None), "B": (SHAPE_B_SCRIPT, SHAPE_B_CONNS), "S": (SHAPE_S_SCRIPT, SHAPE_S_CONNS)}
# W: the first fault is a write error in send() (the status callback is told DISCONNECTED on the send() task)
SHAPE_W_CONNS = [{}]
SHAPE_W_SCRIPT = [["connect"], ["run", 2.0], ["frames", 2], ["run", 0.2], ["wmode", "fail"], ["send"], ["run", 1.0], ["frames", 1],
                  ["run", 0.5]]
SHAPES["W"] = (SHAPE_W_SCRIPT, SHAPE_W_CONNS)
# Y (EByte client only): the gateway answers with its 13-byte busy banner (the client waits 30 s, then treats it as a fault)
SHAPE_Y_CONNS = [{}, {"delay": 0.1}]
SHAPE_Y_SCRIPT = [["connect"], ["run", 1.0], ["frames", 1], ["run", 0.2], ["feed", b"Sorry,Limited".hex()], ["run", 31.0],
                  ["frames", 1], ["run", 0.5]]
SHAPES["Y"] = (SHAPE_Y_SCRIPT, SHAPE_Y_CONNS)
# N (clients that build the network map): what the seeding task's own sends run into
SHAPE_N_CONNS = [{"drain": "susp"}, {"delay": 0.1, "drain": "susp"}, {"delay": 0.1}]
SHAPE_N_SCRIPT = [["connect"], ["run", 2.5], ["frames", 1], ["send"], ["run", 1.0], ["wmode", "fail"], ["run", 1.5], ["frames", 1],
                  ["run", 2.2], ["wmode", "suspfail"], ["run", 2.0], ["eof"], ["run", 5.0]]
PAIR = {"raise": "ret", "slowraise": "slow"}
ALWAYS_SEARCH = True      # the oracle is cheap (the sessions are shared with correspond) and some sessions exist only for it
# oracle-only sessions: close() called from INSIDE a callback, i.e. on one of the client's own tasks (not a schedule of the LTS)
INNER = [{"rcb_close_at": 1}, {"rcb_close_at": 2}, {"rcb_close_at": 3}, {"scb_close_on": 0}, {"scb_close_on": 1}]


def _repo():
    return os.environ.get("NMEA2000_REPO", "/repo")


def _spec(client, cb, shape):
    script, conns = SHAPES[shape]
    return vloop.spec(client, cb=cb, rcb="slow" if cb.startswith("slow") else ("raise" if cb == "raise" else "ret"),
                      script=script, conns=conns, settle=25.0)


# ------------------------------------------------------------------ the runs
def close_specs(ctx):
    thorough = ctx.thorough
    clients = list(vloop.CLIENTS)
    cbs = ("ret", "raise", "slow", "slowraise")
    shapes = ("A", "B")
    base, bmeta = [], []
    for c in clients:
        for sh in shapes + (("S",) if c == "waveshare" else ()) + (("Y",) if c == "ebyte" else ()):
            for cb in cbs:
                base.append(_spec(c, cb, sh))
                bmeta.append({"client": c, "cb": cb, "shape": sh, "at": None})
            if thorough:        # a status / receive callback that stays suspended across many other steps
                for cb in ("slow", "slowraise"):
                    s = _spec(c, cb, sh)
                    s["cb_delay"] = 0.35
                    base.append(s)
                    bmeta.append({"client": c, "cb": cb, "shape": sh + "/cb0.35", "at": None})
    bobs = vloop.run_batch([dict(s) for s in base], _repo(), wall=6, procs=3)
    specs, meta = [], []
    for s, m, o in zip(base, bmeta, bobs):
        m["obs"] = o
        specs.append(s)
        meta.append(m)
    inj = []
    for s, m, o in zip(base, bmeta, bobs):
        if o.get("spin") or not o.get("npos"):
            continue
        # the raising variants are paired with the returning ones: same positions (the number of positions of a pair is equal
        # when the exception is harmless; it is taken from the returning member)
        npos = o["npos"]
        if m["cb"] in PAIR:
            for s2, m2, o2 in zip(base, bmeta, bobs):
                if (m2["client"], m2["shape"], m2["cb"]) == (m["client"], m["shape"], PAIR[m["cb"]]) and o2.get("npos"):
                    npos = o2["npos"]
        for at in range(0, min(npos, MAX_POS) + 1):
            sp = dict(s)
            sp["inject"] = {"at": at, "ops": [["close"]]}
            sp["exc_rot"] = ctx.seed + at       # exception class of failing connection attempts (see vloop.Gateway._failure)
            inj.append((sp, {"client": m["client"], "cb": m["cb"], "shape": m["shape"], "at": at}))
    for c in clients:
        for sh in ("A", "B", "W"):
            for cb in ("ret", "slow"):
                for kw in INNER:
                    sp = _spec(c, cb, sh)
                    sp.update(kw)
                    sp["exc_rot"] = ctx.seed
                    tag = "rcb-close#%d" % kw["rcb_close_at"] if "rcb_close_at" in kw else "scb-close@%d" % kw["scb_close_on"]
                    inj.append((sp, {"client": c, "cb": cb, "shape": sh + "/" + tag, "at": None, "oracle_only": True}))
    # clients that build the network map run a seeding task after every (re)connect (three requests, 2 s
    # apart); close() at any moment of that window must still leave nothing running
    def npos_of(c, cb):
        return min([o.get("npos") or 0 for m, o in zip(bmeta, bobs) if (m["client"], m["shape"], m["cb"]) == (c, "A", cb)] or [0])
    for c in ("ebyte", "yd", "waveshare"):
        for cb in ("ret", "slow"):
            sp0 = _spec(c, cb, "A")
            sp0["netmap"] = True
            for at in list(range(0, max(0, min(40, npos_of(c, cb) - 3)), 3 if not thorough else 1)):
                sp = dict(sp0)
                sp["inject"] = {"at": at, "ops": [["close"]]}
                sp["exc_rot"] = ctx.seed + at
                inj.append((sp, {"client": c, "cb": cb, "shape": "A/netmap", "at": at}))      # modelled (ASeed*) AND judged
            # shape N: the seeding sends themselves suspend in drain, fail (DISCONNECTED from inside the seeding task, with a
            # status callback that returns or is slow), every reconnect starts another seeding task
            spn = vloop.spec(c, cb=cb, rcb="slow" if cb == "slow" else "ret", script=SHAPE_N_SCRIPT, conns=SHAPE_N_CONNS, settle=25.0)
            spn["netmap"] = True
            inj.append((dict(spn), {"client": c, "cb": cb, "shape": "N/netmap", "at": None}))
            for at in range(0, 40, 3 if not thorough else 1):     # (a base N session has 46 or more steps)
                sp = dict(spn)
                sp["inject"] = {"at": at, "ops": [["close"]]}
                sp["exc_rot"] = ctx.seed + at
                inj.append((sp, {"client": c, "cb": cb, "shape": "N/netmap", "at": at}))
    # close() called a second time while the first is still delivering its CLOSED notification (slow callback)
    for c in clients:
        for cb in ("slow", "slowraise"):
            sp0 = _spec(c, cb, "A")
            sp0["cb_delay"] = 0.3
            for at in list(range(4, max(4, min(40, npos_of(c, cb) - 6)), 4 if not thorough else 1)):
                sp = dict(sp0)
                sp["inject"] = {"at": at, "ops": [["close"], ["close2", 0.05]]}
                sp["exc_rot"] = ctx.seed + at
                inj.append((sp, {"client": c, "cb": cb, "shape": "A/close-twice", "at": at}))   # modelled (AClose2*) AND judged
        # ... and with a callback that returns at once: the second call in the same instant / while the first one sleeps
        for delay in (0.0, 0.015):
            sp0 = _spec(c, "ret", "A")
            for at in list(range(2, max(2, min(40, npos_of(c, "ret") - 4)), 4 if not thorough else 1)):
                sp = dict(sp0)
                sp["inject"] = {"at": at, "ops": [["close"], ["close2", delay]]}
                sp["exc_rot"] = ctx.seed + at
                inj.append((sp, {"client": c, "cb": "ret", "shape": "A/close-twice+%g" % delay, "at": at}))
    # oracle-only: a status callback that is a PLAIN function and raises (an exception it raises does not affect the client,
    # whatever kind of callable it is); and callbacks given as objects / lambdas
    for c in clients:
        for kind in ("syncraise", "obj", "lambda"):
            sp0 = _spec(c, "ret", "A")
            sp0["cbkind"] = kind
            for at in list(range(0, max(0, min(40, npos_of(c, "ret") - 3)), 4 if not thorough else 1)):
                sp = dict(sp0)
                sp["inject"] = {"at": at, "ops": [["close"]]}
                sp["exc_rot"] = ctx.seed + at
                inj.append((sp, {"client": c, "cb": "ret", "shape": "A/cb-" + kind, "at": at, "oracle_only": True}))
    iobs = vloop.run_batch([dict(sp) for sp, _ in inj], _repo(), wall=6, procs=3)
    for (sp, m), o in zip(inj, iobs):
        m["obs"] = o
        specs.append(sp)
        meta.append(m)
    return specs, meta


def _runs(ctx):
    key = (ctx.tier, ctx.seed, _repo())
    if key not in _CACHE:
        _CACHE[key] = close_specs(ctx)
    return _CACHE[key]


def _short(m):
    return {"client": m["client"], "cb": m["cb"], "shape": m["shape"], "close_at": m["at"]}


def correspond(ctx):
    specs, meta = _runs(ctx)
    obs = [m["obs"] for m in meta]
    # clients constructed with build_network_map=True (seeding tasks) are accepted by the model with seeding = true
    seeding = [bool(sp.get("netmap")) for sp in specs]
    cases, idx = vloop.trace_cases([o if not sd else {"labels": None} for o, sd in zip(obs, seeding)])
    r = run_cases("C14", "lts", IMPORTS, "kind * list label", "chk_trace", cases, shard=60)
    failing_cases = [dict(_short(meta[idx[i]]), why="trace rejected by lts_accepts") for i in r["failing"]]
    cases2, idx2 = vloop.trace_cases([o if sd else {"labels": None} for o, sd in zip(obs, seeding)])
    r2 = run_cases("C14", "ltsseed", IMPORTS, "kind * list label", "chk_trace_seeding", cases2, shard=60)
    failing_cases += [dict(_short(meta[idx2[i]]), why="trace rejected by lts_accepts (seeding = true)") for i in r2["failing"]]
    r["failing"] = list(r["failing"]) + [len(cases) + i for i in r2["failing"]]
    r["errors"] = list(r.get("errors", [])) + list(r2.get("errors", []))
    r["wall_s"] = round(r.get("wall_s", 0) + r2.get("wall_s", 0), 2)
    bad_runs = 0
    for i, o in enumerate(obs):
        if meta[i].get("oracle_only") and not o.get("spin") and not o.get("crash"):
            continue        # judged by the property text only (search)
        if o.get("labels") is None:
            bad_runs += 1
            why = ("no progress: the client span without yielding (watchdog)" if o.get("spin") else
                   "crash: " + str(o.get("crash")) if o.get("crash") else "unlabelled block: " + str(o.get("unlabelled")))
            failing_cases.append(dict(_short(meta[i]), why=why))
    r["failing"] = list(r["failing"]) + [-1] * bad_runs
    r["n"] = sum(1 for m in meta if not m.get("oracle_only"))
    nontrivial = [tuple(l[0] for l in o["labels"]) for o in obs if o.get("labels") and
                  any(l[0].startswith("AClose ") for l in o["labels"])]
    by_client, by_cb, by_shape, kinds = {}, {}, {}, {}
    nlabels = 0
    phase = {}
    for m in meta:
        by_client[m["client"]] = by_client.get(m["client"], 0) + 1
        by_cb[m["cb"]] = by_cb.get(m["cb"], 0) + 1
        by_shape[m["shape"]] = by_shape.get(m["shape"], 0) + 1
        labs = m["obs"].get("labels") or []
        nlabels += len(labs)
        # what the client was doing when close() ran: the label just before AClose
        for j, l in enumerate(labs):
            if l[0].startswith("AClose "):
                prev = labs[j - 1][0].split()[0] if j else "<start>"
                phase[prev] = phase.get(prev, 0) + 1
        for l in labs:
            h = l[0].split(" (")[0].split()[0] + ("/" + l[0].split("(")[1].split()[0] if "(" in l[0] else "")
            kinds[h] = kinds.get(h, 0) + 1
    r.update(name="corr_client_lts: traces of real clients with close() injected at every step accepted by lts_accepts",
             distinct_nontrivial=distinct_count(nontrivial), failing_cases=failing_cases[:20],
             samples=[{"run": _short(meta[i]), "labels": [l[0] for l in (obs[i].get("labels") or [])][:16]}
                      for i in (0, len(obs) // 2, len(obs) - 1)],
             distribution={"runs": len(obs), "labels": nlabels, "by_client": by_client, "by_status_callback": by_cb,
                           "by_shape": by_shape, "label_before_close": phase, "label_kinds": kinds})
    return [r]


# ------------------------------------------------------------------ the property's own oracle
def _norm(labels):
    return [l[0].replace("CbRaise", "CbRet").replace("RcRaise", "RcRet") for l in labels]


def judge(o, spec, twin=None):
    """None, or a witness dict: the property TEXT checked on the raw observations of one run (no Coq model).
    `twin`: observation of the same session with a status callback that returns instead of raising."""
    c = o["client"]
    if o.get("spin"):
        return {"key": "stall", "what": f"{c}: the client stopped yielding to the event loop (heartbeat stuck at "
                                        f"{o.get('beats')} beats, virtual time {o.get('vt')})"}
    if o.get("crash"):
        return {"key": "harness:crash", "what": f"{c}: run crashed: {o['crash']}"}
    inner = spec.get("rcb_close_at") is not None or spec.get("scb_close_on") is not None
    if inner:
        w = _judge(o, spec, None, True)
        if w:
            w["key"] = "in-callback:" + w["key"]
            w["what"] = w["what"] + f" [close() called from the {(o.get('close') or {}).get('from')}]"
        return w
    return _judge(o, spec, twin, False)


def _judge(o, spec, twin, inner):
    c = o["client"]
    st = [s[1] for s in o["status"]]
    if any(a == b for a, b in zip(st, st[1:])):
        return {"key": "status:repeated", "what": f"{c}: status callback got the same state twice in a row: {st}"}
    # once per state change, in order: the states the client went through (snapshot after every step), initial state dropped
    states = list(o["states"])
    changes = states[1:] if states and states[0] == 0 else states
    if inner:
        # two changes inside one event-loop step (DISCONNECTED then CLOSED from the same callback) are one snapshot: the status
        # trace itself is the record of the changes here; it must end with CLOSED and contain it once
        states = [0] + st
        changes = st
    if st != changes:
        return {"key": "status:not-the-changes", "what": f"{c}: status callback trace {st} differs from the sequence of state "
                                                       f"changes {changes}"}
    cl = o.get("close") or {}
    if cl.get("called") is not None:
        if 2 not in states:
            return {"key": "close:not-closed", "what": f"{c}: close() was called but the state never became CLOSED: {states}"}
        after = states[states.index(2):]
        if after != [2] or o["state"] != 2:
            return {"key": "close:left-closed", "what": f"{c}: state left CLOSED after close(): states {states}, final "
                                                        f"{o['state']}, status trace {st}"}
        ac = o.get("at_closed")
        if ac is not None and len(o["attempts"]) > ac["attempts"]:
            return {"key": "close:new-attempt", "what": f"{c}: {len(o['attempts']) - ac['attempts']} connection attempt(s) started "
                                                        f"after CLOSED (close() at t={cl['called']:.2f}, attempts at "
                                                        f"{[round(t, 2) for t in o['attempts']]})"}
        if cl.get("returned") is None and not (inner and cl.get("cancelled") is not None):
            # (close() called from a callback cancels the task it runs on and unwinds with CancelledError: tolerated)
            return {"key": "close:never-returned", "what": f"{c}: close() called at t={cl['called']:.2f} never returned"}
        if len(o["rcb"]) > cl.get("rcb_at_return", 0):
            return {"key": "close:callback-after", "what": f"{c}: receive callback ran after close() had returned (t="
                                                           f"{(cl.get('returned') or cl.get('cancelled')):.2f}): at {[round(t, 2) for t, _ in o['rcb'][cl['rcb_at_return']:]]}"}
        if cl.get("link_open_at_return2"):
            return {"key": "close:second-call-returns-with-link-open",
                    "what": f"{c}: a second close() call (made while the first was still delivering its CLOSED notification) returned at "
                            f"t={cl['returned2']:.2f} with the connection still open"}
        ws = o["writers"]
        cur = o["cur_wid"]
        if cur >= 0 and not ws[cur]["closed"]:
            return {"key": "close:link-open", "what": f"{c}: the current connection (writer {cur}) is still open after close()"}
        if ac is not None:
            late = [w["wid"] for w in ws if w["wid"] >= ac["writers"] and not w["closed"]]
            if late:
                return {"key": "close:late-link-open", "what": f"{c}: connection(s) {late} came up after close() and were never closed"}
        pending = list(o["pending"])
        if pending:
            return {"key": "close:tasks-pending", "what": f"{c}: tasks still pending {o['vt_end'] - cl['called']:.0f} virtual seconds "
                                                          f"after close(): {pending}"}
    if twin is not None and not twin.get("spin") and not twin.get("crash") and o.get("labels") and twin.get("labels"):
        a, b = _norm(o["labels"]), _norm(twin["labels"])
        if a != b or st != [s[1] for s in twin["status"]] or o["state"] != twin["state"] or \
                len(o["attempts"]) != len(twin["attempts"]) or len(o["rcb"]) != len(twin["rcb"]):
            k = next((i for i, (x, y) in enumerate(zip(a, b)) if x != y), min(len(a), len(b)))
            return {"key": "callback-exception:affects-client",
                    "what": f"{c}: with a status callback that raises the session differs from the one with a callback that "
                            f"returns: step {k}: {a[k:k + 3]} vs {b[k:k + 3]}; status {st} vs {[s[1] for s in twin['status']]}; "
                            f"final state {o['state']} vs {twin['state']}"}
    return None


def _twins(meta):
    """index: (client, shape, cb, at) -> obs"""
    return {(m["client"], m["shape"], m["cb"], m["at"]): m["obs"] for m in meta}


def search(ctx):
    specs, meta = _runs(ctx)
    tw = _twins(meta)
    out, seen = [], set()
    for sp, m in zip(specs, meta):
        twin = tw.get((m["client"], m["shape"], PAIR[m["cb"]], m["at"])) if m["cb"] in PAIR else None
        w = judge(m["obs"], sp, twin)
        if w and w["key"] not in seen:
            seen.add(w["key"])
            w.update(kind="session", spec={k: v for k, v in sp.items() if k != "id"}, cb=m["cb"],
                     schedule=[l[0] for l in (m["obs"].get("labels") or [])][:80])
            out.append(w)
    return out


def replay(ctx, data):
    w = data.get("witness", data)
    sp = dict(w["spec"])
    todo = [sp]
    if sp.get("cb") in PAIR:
        t = dict(sp)
        t["cb"] = PAIR[sp["cb"]]
        t["rcb"] = "slow" if t["cb"] == "slow" else "ret"
        todo.append(t)
    obs = vloop.run_batch([dict(s) for s in todo], _repo(), wall=6, procs=1)
    r = judge(obs[0], sp, obs[1] if len(obs) > 1 else None)
    print("observed:", r["what"] if r else "property holds on this session")
    return r is not None
