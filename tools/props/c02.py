"""C02 — decoding then re-encoding a payload reproduces it on all defined bits."""
import enc_common as E

PROPS_FILES = ["props/C02.v"]
ALWAYS_SEARCH = True
RULE = ("encoder correspondence: per encodable definition, decoded messages for the payload classes of C01 (all-zero, "
        "all-ones, in-range, random, one field at each boundary class) are re-encoded by the real encode_pgn_* and by "
        "run_edef on the translated tables; unit cases for encode_number / encode_float / round; search: decode -> "
        "encode_actisense -> bit comparison per field incl. EVERY raw value of one field of <= 8 bits per definition "
        "(quick) / of every field of <= 16 bits (thorough); non-trivial = the decoder accepted the payload; distinct by "
        "(definition, payload)")
TRUSTED = ["tools/tr_pgns.py, tools/tr_db.py; Encode.v hand model of utils.encode_number/encode_float/encode_date/"
           "encode_time and of Python's round()/true division on doubles, tied by the correspondence cases of this run"]
ASSUMPTIONS = ["struct.pack('<f') of a double that is not exactly representable in binary32 is Unmodelled (counted)",
               "int / int true division is modelled for |operands| < 2^53 or divisor 1, otherwise Unmodelled"]


def gen(ctx):
    E.gen_tables(ctx, "OblC02", "DiagC02")


def correspond(ctx):
    if not getattr(ctx, "gen", {}).get("ok"):
        return []
    return [E.run_encoder_cases(ctx, "C02", ctx.n(10, 40), with_mutations=False)] + E.unit_cases(ctx, "C02")


search = E.c02_search
replay = E.c02_replay
