"""C02 — decoding then re-encoding a payload reproduces it on all defined bits."""
import enc_common as E

PROPS_FILES = ["props/C02.v"]
ALWAYS_SEARCH = True
RULE = ("encoder correspondence: per encodable definition, decoded messages for the payload classes of C01 (all-zero, "
        "all-ones, in-range, random, one field at each boundary class) are re-encoded by the real encode_pgn_* and by "
        "run_edef on the translated tables; unit cases for encode_number / encode_float / round; search: decode -> "
        "encode_actisense -> bit comparison per field incl. EVERY raw value of one field of <= 8 bits per definition "
        "(quick) / of every field of <= 16 bits (thorough); non-trivial = the decoder accepted the payload; distinct by "
        "(definition, payload)")
TRUSTED = ["tools/tr_pgns.py, tools/tr_db.py; Encode.v hand model of utils.encode_number/encode_float/encode_date/"
           "encode_time and of Python's round()/true division on doubles, tied by the correspondence cases of this run"]
ASSUMPTIONS = ["struct.pack('<f') of a double that is not exactly representable in binary32 is Unmodelled (counted)",
               "int / int true division is modelled for |operands| < 2^53 or divisor 1, otherwise Unmodelled"]


def gen(ctx):
    E.gen_tables(ctx, "OblC02", "DiagC02")
    if not getattr(ctx, "gen", {}).get("ok"):
        return
    # C02 end to end (decode -> encode reproduces every defined bit, every payload) for the tables of this run;
    # uses the table theorems of OblC01.v (decoders = specification) and OblC02.v (encoders = template)
    import re
    import gen as G
    ok, out = G.compile_template("OblC02rt", deps=("OblC01", "OblC02"))
    for nm in G.theorem_names("OblC02rt"):
        ctx.extra_obligations.append({"name": f"OblC02rt.v:{nm}", "ok": ok, "detail": out[-800:] if not ok else ""})
    flat = " ".join(out.split())
    m = re.search(r"=\s*\((\d+)%nat,\s*(\d+)%nat,\s*(\d+)%nat,\s*(\d+)%nat,\s*(\d+)%nat\)", flat)
    if m:
        ctx.notes.append(f"C02_roundtrip (decode then encode reproduces every defined bit, EVERY payload) covers {m.group(2)} of "
                         f"{m.group(1)} encodable definitions ({m.group(3)} without FLOAT fields: encoder proved to return), "
                         f"{m.group(5)} exact fields of {m.group(4)}")
    m2 = re.search(r"=\s*(\[[^\]]*\])\s*:\s*list \(Z \* bool \* bool \* bool\)", flat)
    if m2:
        ctx.notes.append("encodable definitions outside C02_roundtrip (pgn, not fixed-layout, field side condition fails "
                         "[wider than 48 bits / resolution], duplicate field ids): " + m2.group(1))
    if not ok:
        ctx.hints.append({"kind": "tables", "diag": flat[-1200:]})


def correspond(ctx):
    if not getattr(ctx, "gen", {}).get("ok"):
        return []
    return [E.run_encoder_cases(ctx, "C02", ctx.n(10, 40), with_mutations=False)] + E.unit_cases(ctx, "C02")


search = E.c02_search
replay = E.c02_replay
