"""C05 — CAN identifier packing/parsing. Tie: correspondence of Header.v with
decoder._extract_header / encoder._build_header and the Actisense header word."""
from vlib import cz, ctuple, run_cases, distinct_count

PROPS_FILES = ["props/C05.v"]
ALWAYS_SEARCH = True      # the identifier oracle incl. the public encode/decode path is cheap (a few seconds)
RULE = ("literal cases: boundary identifiers (PDU1/PDU2 edge PF 0xEE..0xF1,0xFF x all priorities x DP 0..3), seeded "
        "random 29-bit and wider identifiers, random/non-canonical build arguments; sweep cases: a digest over a "
        "whole arithmetic progression of identifiers computed by the implementation and by the model; a case is "
        "non-trivial when its PGN field is non-zero; distinct by input")
TRUSTED = ["Header.v is a hand model of decoder._extract_header, encoder._build_header and the Actisense "
           "header arithmetic; tied to the code only by the correspondence cases of this run"]
ASSUMPTIONS = ["Python int arithmetic (>>, <<, &, |) is Z.shiftr/Z.shiftl/Z.land/Z.lor"]

IMPORTS = "From NV Require Import Base Header CorrHeader."
M63 = (1 << 63) - 1


def _impl():
    from nmea2000.decoder import NMEA2000Decoder
    from nmea2000.encoder import NMEA2000Encoder
    return NMEA2000Decoder._extract_header, NMEA2000Encoder._build_header


def _hdr(t):
    return ctuple(*(cz(int(x)) for x in t))


def _boundary_ids():
    out = []
    for pf in (0x00, 0xEE, 0xEF, 0xF0, 0xF1, 0xFF):
        for prio in range(8):
            for dp in range(4):
                for ps in (0, 1, 0x7F, 0xFF):
                    for src in (0, 1, 254, 255):
                        out.append((prio << 26) | (dp << 24) | (pf << 16) | (ps << 8) | src)
    return out


def correspond(ctx):
    extract, build = _impl()
    rng = ctx.rng
    reports = []
    # --- extract: literal cases
    ids = _boundary_ids() + [0, 1, (1 << 29) - 1, 1 << 29, (1 << 32) - 1, 1 << 40]
    ids += [rng.getrandbits(29) for _ in range(ctx.n(2000, 20000))]
    ids += [rng.getrandbits(rng.choice([30, 32, 48, 64])) for _ in range(200)]
    cases = [ctuple(cz(i), _hdr(extract(i))) for i in ids]
    r = run_cases("C05", "extract", IMPORTS, "Z * hdr", "chk_extract", cases)
    r.update(name="extract_header", distinct_nontrivial=distinct_count([i for i in ids if (i >> 8) & 0x3FFFF]),
             failing_cases=[{"id": ids[k]} for k in r["failing"][:20]],
             samples=[{"id": ids[k], "impl": list(extract(ids[k]))} for k in (0, 700, len(ids) - 1)],
             distribution={"boundary": len(_boundary_ids()), "random29": ctx.n(2000, 20000), "wider": 206})
    reports.append(r)
    # --- build: literal cases
    args = []
    for _ in range(ctx.n(2000, 20000)):
        kind = rng.random()
        pgn = rng.getrandbits(18)
        if kind < 0.4:   # canonical
            if (pgn >> 8) & 0xFF < 240:
                pgn &= ~0xFF
        elif kind > 0.95:  # out-of-range arguments the static method still accepts
            pgn = rng.getrandbits(24)
        src = rng.getrandbits(8) if kind < 0.95 else rng.getrandbits(12)
        dst = rng.getrandbits(8) if kind < 0.95 else rng.getrandbits(12)
        prio = rng.getrandbits(3) if kind < 0.95 else rng.getrandbits(5)
        args.append((pgn, src, dst, prio))
    for pf in (0xEF, 0xF0):
        for ps in (0, 5, 255):
            for dst in (0, 17, 255):
                args.append(((1 << 16) | (pf << 8) | ps, 3, dst, 7))
    cases = [ctuple(_hdr(a), cz(build(*a))) for a in args]
    r = run_cases("C05", "build", IMPORTS, "hdr * Z", "chk_build", cases)
    r.update(name="build_header", distinct_nontrivial=distinct_count([a for a in args if a[0]]),
             failing_cases=[{"args": args[k]} for k in r["failing"][:20]],
             samples=[{"args": args[k], "impl": build(*args[k])} for k in (0, 1, len(args) - 1)])
    reports.append(r)
    # --- sweeps: every 18-bit PGN field under fixed priority/source (finite sweep, digest compared)
    combos = [(3, 1)] if not ctx.thorough else [(p, s) for p in (0, 3, 7) for s in (0, 1, 254, 255)]
    sw, cases = [], []
    for prio, src in combos:
        start = (prio << 26) | src
        step, count = 256, 1 << 18
        acc = 0
        for k in range(count):
            p, s, d, q = extract(start + k * step)
            acc = (acc * 1000003 + p) & M63
            acc = (acc * 1000003 + s) & M63
            acc = (acc * 1000003 + d) & M63
            acc = (acc * 1000003 + q) & M63
        sw.append((start, step, count, acc))
        cases.append(ctuple(ctuple(cz(start), cz(step), cz(count)), cz(acc)))
    r = run_cases("C05", "sweep", IMPORTS, "(Z * Z * Z) * Z", "chk_sweep", cases, shard=1)
    r.update(name="extract_header sweep of all 2^18 PGN fields (digest)", n=len(combos) * (1 << 18),
             distinct_nontrivial=len(combos) * ((1 << 18) - 1), exhaustive_over="18-bit PGN field per (prio,src)",
             failing_cases=[{"sweep": sw[k][:3]} for k in r["failing"]],
             samples=[{"start": sw[0][0], "step": 256, "count": 1 << 18, "digest": sw[0][3]}])
    reports.append(r)
    # --- Actisense header word through the public entry points
    from nmea2000.decoder import NMEA2000Decoder
    from nmea2000.encoder import NMEA2000Encoder
    dec, enc = NMEA2000Decoder(), NMEA2000Encoder()
    base = dec.decode_actisense_string("A000000.000 00FF6 0EA00 00EE01")
    pc, bc, praw, braw = [], [], [], []
    for _ in range(ctx.n(300, 3000)):
        n = rng.getrandbits(rng.choice([16, 20, 24]))
        m = dec.decode_actisense_string(f"A000000.000 {n:05X} 0EA00 00EE01")
        pc.append(ctuple(cz(n), ctuple(cz(m.source), cz(m.destination), cz(m.priority))))
        praw.append(n)
        s, d, q = rng.getrandbits(8), rng.getrandbits(8), rng.getrandbits(3)
        base.source, base.destination, base.priority = s, d, q
        tok = enc.encode_actisense(base).split()[0]
        bc.append(ctuple(ctuple(cz(s), cz(d), cz(q)), cz(int(tok, 16))))
        braw.append((s, d, q))
    r = run_cases("C05", "actiparse", IMPORTS, "Z * (Z*Z*Z)", "chk_acti_parse", pc)
    r.update(name="actisense header parse (decode_actisense_string)", distinct_nontrivial=distinct_count(praw),
             failing_cases=[{"n": praw[k]} for k in r["failing"][:20]], samples=[{"n": praw[0]}])
    reports.append(r)
    r = run_cases("C05", "actibuild", IMPORTS, "(Z*Z*Z) * Z", "chk_acti_build", bc)
    r.update(name="actisense header build (encode_actisense)", distinct_nontrivial=distinct_count(braw),
             failing_cases=[{"sdq": braw[k]} for k in r["failing"][:20]], samples=[{"sdq": braw[0]}])
    reports.append(r)
    return reports


# ------------------------------------------------------------------ property oracle on the real code
def _check_id(extract, build, i):
    p, s, d, q = extract(i)
    canon = 0 <= p < (1 << 18) and (((p >> 8) & 0xFF) >= 240 or (p & 0xFF) == 0)
    if not (0 <= q < 8 and 0 <= s < 256 and 0 <= d < 256 and canon):
        return {"key": "extract:out-of-range-or-noncanonical", "what": f"identifier {i:#x} parses to {(p, s, d, q)}",
                "kind": "id", "id": i}
    if ((p >> 8) & 0xFF) >= 240 and d != 255:
        return {"key": "extract:pdu2-dest", "what": f"identifier {i:#x}: broadcast PGN {p} parsed with destination {d}",
                "kind": "id", "id": i}
    b = build(p, s, d, q)
    if b != i:
        return {"key": "extract-build:not-inverse", "what": f"identifier {i:#x} parses to {(p, s, d, q)} which rebuilds {b:#x}",
                "kind": "id", "id": i}
    return None


def _check_args(extract, build, a):
    pgn, src, dst, prio = a
    exp = (pgn, src, dst if ((pgn >> 8) & 0xFF) < 240 else 255, prio)
    got = tuple(extract(build(*a)))
    if got != exp:
        return {"key": "build-extract:not-inverse", "what": f"build{a} parses back to {got}, expected {exp}",
                "kind": "args", "args": list(a)}
    return None


def search(ctx):
    extract, build = _impl()
    rng = ctx.rng
    out = []
    ids = _boundary_ids() + [rng.getrandbits(29) for _ in range(ctx.n(20000, 200000))]
    for h in ctx.hints:
        for c in h.get("cases", []):
            if "id" in c:
                ids.insert(0, c["id"] & ((1 << 29) - 1))
    for i in ids:
        w = _check_id(extract, build, i)
        if w:
            out.append(w)
            break
    # every PGN field once (finite sweep of the 18-bit field)
    if not out:
        for pf in range(1 << 18):
            w = _check_id(extract, build, (6 << 26) | (pf << 8) | 0x23)
            if w:
                out.append(w)
                break
    for _ in range(ctx.n(20000, 200000)):
        pgn = rng.getrandbits(18)
        if (pgn >> 8) & 0xFF < 240:
            pgn &= ~0xFF
        w = _check_args(extract, build, (pgn, rng.getrandbits(8), rng.getrandbits(8), rng.getrandbits(3)))
        if w:
            out.append(w)
            break
    # non-canonical: broadcast PGN with a destination other than 255
    for _ in range(2000):
        pgn = rng.getrandbits(18) | 0xF000
        s, q = rng.getrandbits(8), rng.getrandbits(3)
        if build(pgn, s, rng.getrandbits(8), q) != build(pgn, s, 255, q):
            out.append({"key": "build:pdu2-dest-leaks", "what": f"broadcast PGN {pgn}: destination changes the identifier",
                        "kind": "args", "args": [pgn, s, 7, q]})
            break
    out += _public_path(ctx)
    w = _fast_history(ctx)
    if w:
        out.append(w)
    w = _claim_moves(ctx)
    if w:
        out.append(w)
    return out


def _public_path(ctx, first=None):
    """identifier bytes inside encode_ebyte/encode_usb/encode_yacht_devices versus decode_* of the same packets.
    first = [pgn, src, dst, prio]: that header is tried first (replay of a stored input), through every format"""
    from nmea2000.decoder import NMEA2000Decoder
    from nmea2000.encoder import NMEA2000Encoder
    dec, enc = NMEA2000Decoder(), NMEA2000Encoder()
    out = []
    rng = ctx.rng
    msgs = [dec.decode_basic_string("2020-01-01-00:00:00.000,6,59904,1,255,3,00,ee,00", True),
            dec.decode_basic_string("2020-01-01-00:00:00.000,2,127250,1,255,8,01,10,27,ff,7f,ff,7f,fd", True),
            # an ADDRESSED PGN of data page 1 (PF 0xEE, DP 1): fast-packet, the 4-byte payload fits its first frame
            dec.decode_basic_string("2020-01-01-00:00:00.000,6,126464,1,255,4,1b,4b,f3,03", True)]
    msgs = [m for m in msgs if m is not None]
    for it in range(ctx.n(200, 2000)):
        m = rng.choice(msgs)
        # half of the messages repeat (source, priority) of an earlier one with another destination: the encoder object
        # is long-lived (a gateway client keeps one), nothing it remembers may leak into the next identifier
        if rng.random() < 0.5:
            m.source, m.destination, m.priority = rng.choice([1, 2]), rng.choice([255, 0, 36, 40, 7]), rng.choice([3, 6])
        else:
            m.source, m.destination, m.priority = rng.getrandbits(8), rng.getrandbits(8), rng.getrandbits(3)
        if first is not None and it < 4:
            # the stored header (after 0..3 other messages through the same long-lived encoder)
            if it == 3 or rng.random() < 0.5:
                m = next((x for x in msgs if x.PGN == first[0]), msgs[0])
                m.source, m.destination, m.priority = first[1], first[2], first[3]
        exp = (m.PGN, m.source, m.destination if ((m.PGN >> 8) & 0xFF) < 240 else 255, m.priority)
        for fmt, e, d in (("ebyte", enc.encode_ebyte, dec.decode_tcp), ("usb", enc.encode_usb, dec.decode_usb),
                          ("yd", enc.encode_yacht_devices, lambda b: dec.decode_yacht_devices_string("00:00:00.000 R " + b.decode())),
                          ("actisense", lambda m_: ["A000001.000 " + enc.encode_actisense(m_)], dec.decode_actisense_string)):
            try:
                pk = e(m)[0]
                if fmt == "ebyte" and len(pk) < 13:
                    pk = pk + bytes(13 - len(pk))
                r = d(pk)
                got = (r.PGN, r.source, r.destination, r.priority)
            except Exception as ex:  # noqa: BLE001
                got = repr(ex)
            want = exp if fmt != "actisense" else (m.PGN, m.source, m.destination, m.priority)   # its header word carries the destination verbatim
            if got != want:
                exp = want
                out.append({"key": f"public:{fmt}", "what": f"{fmt}: header {exp} came back as {got}",
                            "kind": "public", "fmt": fmt, "hdr": list(exp)})
                return out
    return out


def _fast_history(ctx, only=None):
    """multi-frame messages on a long-lived decoder: the header reported for a reassembled message is what the
    identifiers of ITS frames parse to, whatever was seen for the same PGN / source / destination before (an
    abandoned transfer with another priority, a stray continuation frame)"""
    from nmea2000.decoder import NMEA2000Decoder
    from props import c10 as H
    extract, _ = _impl()
    rng = ctx.rng
    P = H.pools(ctx)

    def run(fmt, prefix, frames):
        dec = NMEA2000Decoder()

        def feed(pkt):
            if fmt == "ebyte":
                return dec.decode_tcp(pkt)
            return dec.decode_yacht_devices_string("00:00:00.000 R %08X %s" % (int.from_bytes(pkt[1:5], "big"),
                                                                              " ".join("%02X" % b for b in pkt[5:5 + (pkt[0] & 15)])))
        for pkt in prefix:
            try:
                feed(pkt)
            except Exception:  # noqa: BLE001
                pass
        r = None
        for pkt in frames:
            try:
                r = feed(pkt)
            except Exception:  # noqa: BLE001
                return None
        if r is None:
            return None
        hdrs = {tuple(extract(int.from_bytes(pkt[1:5], "big"))) for pkt in frames}
        if len(hdrs) != 1:
            return None
        exp = hdrs.pop()
        got = (r.PGN, r.source, r.destination, r.priority)
        if got != exp:
            return {"key": f"public:fast-history:{fmt}", "kind": "fast-history", "fmt": fmt,
                    "prefix": [x.hex() for x in prefix], "frames": [x.hex() for x in frames],
                    "what": f"{fmt}: after {len(prefix)} earlier frame(s) of the same PGN/source/destination, a message whose "
                            f"identifiers all parse to (pgn, src, dst, prio) = {exp} is reported as {got}"}
        return None
    if only is not None:
        return run(only["fmt"], [bytes.fromhex(x) for x in only["prefix"]], [bytes.fromhex(x) for x in only["frames"]])
    for _ in range(ctx.n(80, 800)):
        pgn = rng.choice(H.FAST)
        src = rng.choice([1, 2, 9, 254])
        dst = 255 if not H.is_pdu1(pgn) else rng.choice([255, 17, 0])
        pa, pb = rng.sample(range(8), 2)
        sa, sb = rng.sample(range(8), 2)
        old = [H.mk_pkt(pgn, src, dst, pa, (f + bytes([0xFF] * 8))[:8], 8) for f in H.fast_frames(P.payload(pgn, 0.0), sa)]
        new = [H.mk_pkt(pgn, src, dst, pb, (f + bytes([0xFF] * 8))[:8], 8) for f in H.fast_frames(P.payload(pgn, 0.0), sb)]
        prefix = rng.choice([old[:1], old[1:2], old[:2], old[:-1], old[2:3], []])
        for fmt in ("ebyte", "yd"):
            w = run(fmt, prefix, new)
            if w:
                return w
    return None


def _claim_moves(ctx, only=None):
    """address claims on a long-lived decoder (it keeps a source map): the header reported for a claim frame is what
    ITS identifier parses to, also when the same NAME was claimed from another address before"""
    from nmea2000.decoder import NMEA2000Decoder
    from props import c10 as H
    extract, _ = _impl()
    rng = ctx.rng

    def run(pkts):
        dec = NMEA2000Decoder()
        for k, pkt in enumerate(pkts):
            try:
                r = dec.decode_tcp(pkt)
            except Exception:  # noqa: BLE001
                continue
            if r is None:
                continue
            exp = tuple(extract(int.from_bytes(pkt[1:5], "big")))
            got = (r.PGN, r.source, r.destination, r.priority)
            if got != exp:
                return {"key": "public:claim-history", "kind": "claim-moves", "pkts": [x.hex() for x in pkts[:k + 1]],
                        "what": f"frame {k} of an address-claim history: identifier parses to (pgn, src, dst, prio) = {exp}, the returned "
                                f"message says {got}"}
        return None
    if only is not None:
        return run([bytes.fromhex(x) for x in only["pkts"]])
    for _ in range(ctx.n(40, 400)):
        names = [H.make_name(rng, "known") for _ in range(rng.choice([1, 2, 3]))]
        pkts = []
        for _ in range(rng.randint(2, 8)):
            n = rng.choice(names)
            src = rng.choice([1, 5, 34, 35, 64, 200, 0, 253])
            pkts.append(H.mk_pkt(H.CLAIM, src, rng.choice([255, 255, 64, 0]), rng.getrandbits(3), n.to_bytes(8, "little")))
            if rng.random() < 0.4:
                pkts.append(H.mk_pkt(127250, src, 255, 2, bytes.fromhex("01102700007fff7f")))
        w = run(pkts)
        if w:
            return w
    return None


def replay(ctx, data):
    w = data.get("witness", data)
    extract, build = _impl()
    if w.get("kind") == "claim-moves":
        r = _claim_moves(ctx, only=w)
        print("observed:", r["what"] if r else "property holds on this input")
        return r is not None
    if w.get("kind") == "fast-history":
        r = _fast_history(ctx, only=w)
        print("observed:", r["what"] if r else "property holds on this input")
        return r is not None
    if w.get("kind") == "id":
        r = _check_id(extract, build, w["id"])
    elif w.get("kind") == "args":
        r = _check_args(extract, build, tuple(w["args"]))
    else:
        r = (_public_path(ctx, first=w.get("hdr")) or [None])[0]
    print("observed:", r["what"] if r else "property holds on this input")
    return r is not None
