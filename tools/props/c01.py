"""C01 — decoded fields match the canboat definition for every PGN and payload.
Tie: translators + kernel-checked table obligations (tools/templates/OblC01.v) + correspondence of the
interpreter (run_ddef on the translated tables) and of the utils decoders with the real code."""
import json
import re
import struct
import vlib
from vlib import cz, ctuple, run_cases, distinct_count, cstr_z, cbool
import gen as G
import obs
import payloads as PL

from props import e2e as E2E

PROPS_FILES = ["props/C01.v"]
ALWAYS_SEARCH = True      # the database-semantics oracle is cheap (seconds)
RULE = ("per generated decode function: all-zero, all-ones, in-range backgrounds, random, and one field at a time at "
        "each class of the quantifier text (min, max, max-1, just above, just below, zero, sign boundary, not-available "
        "and its neighbours, all-ones, random; float specials; padded text) over an in-range background; unit cases for "
        "every utils decoder; non-trivial = the function returned a message with at least one non-None value or raised "
        "a range error; distinct by (function, payload)")
TRUSTED = ["tools/tr_pgns.py, tools/tr_db.py (translators); Fields.v/PyNum.v hand models of utils.py decoders and of "
           "CPython int/float arithmetic (bit-exact PrimFloat), tied by the correspondence cases of this run"]
ASSUMPTIONS = ["text fields: ASCII bytes plus single invalid bytes (0x80-0xC1, 0xF5-0xFF) are modelled, UTF-16 text of the basic "
               "plane (with or without byte-order mark) is modelled; multi-byte UTF-8 and UTF-16 surrogates are Unmodelled "
               "(counted, not compared)",
               "struct.unpack('<f') widening and int->float conversion are modelled exactly (IEEE-754)"]

IMP = ("From NV Require Import Base Bits Defn PyNum Fields CorrFields.\n"
       "From NVGen Require Import GenCode GenLookups.")
CHK = "code_lookups code_bitlookups code_indirect code_dec"


TRUSTED = list(TRUSTED) + list(E2E.TRUSTED)
ASSUMPTIONS = list(ASSUMPTIONS) + list(E2E.ASSUMPTIONS)


def gen(ctx):
    g = G.ensure_gen()
    ctx.gen = g
    if not g["ok"]:
        ctx.extra_obligations.append({"name": "translation of nmea2000/pgns.py + canboat.json", "ok": False,
                                      "detail": g.get("refused") or g.get("error")})
        ctx.hints.append({"kind": "translator", "detail": g.get("refused") or g.get("error"),
                          "line": g.get("refused_line")})
        return
    ctx.notes.append(f"tables regenerated from /repo (cached={g['cached']}): " +
                     json.dumps({k: v for k, v in g['stats']['pgns'].items() if k != 'refused'}) + json.dumps(g['stats']['db']))
    for cat, name, why in g["stats"]["pgns"].get("refused", []):
        if cat in ('dec', 'other'):
            ctx.extra_obligations.append({"name": f"translation of {name}", "ok": False, "detail": why})
            ctx.hints.append({"kind": "translator", "function": name, "detail": why})
    import os
    if not os.path.exists(os.path.join(G.TPL, "OblC01.v")):
        return
    ok, out = G.compile_template("OblC01")
    for nm in G.theorem_names("OblC01"):
        ctx.extra_obligations.append({"name": f"OblC01.v:{nm}", "ok": ok, "detail": out[-800:] if not ok else ""})
    m = re.search(r"=\s*\((\d+)%nat,\s*(\d+)%nat,\s*(\d+)%nat,\s*(\d+)%nat,\s*(\d+)%nat\)", " ".join(out.split()))
    if m:
        ctx.notes.append(f"database PGN groups {m.group(1)}; definitions owning a function {m.group(2)} (all compared step by "
                         f"step with the template); fixed-layout definitions covered by the semantic theorem C01: {m.group(3)} "
                         f"with {m.group(4)} of {m.group(5)} database fields (field-by-field specification spec_decode); the remaining "
                         f"definitions (variable-length strings, fields without BitOffset, indirect lookup) are covered by "
                         f"C01_var below")
    mv = re.search(r"=\s*\((\d+)%nat,\s*(\d+)%nat,\s*(\d+)%nat,\s*(\d+)%nat,\s*(\d+)%nat,\s*(\d+)%nat,\s*(\[[^\]]*\])\)",
                   " ".join(out.split()))
    if mv:
        ctx.notes.append(f"C01_var (position-threading specification spec_decode_var, SpecVar.v): covers {mv.group(2)} of "
                         f"{mv.group(1)} definitions owning a function, {mv.group(3)} of them not fixed-layout (STRING_LAU / "
                         f"STRING_LZ, fields without BitOffset, BitLengthField, INDIRECT_LOOKUP), {mv.group(4)} of {mv.group(5)} "
                         f"fields; BitOffsets equal to the running position in {mv.group(6)} definitions; PGNs outside: {mv.group(7)}")
    okv, outv = G.compile_template("CorrC01Var")
    ctx.corr_var_ok = okv
    if not okv:
        ctx.extra_obligations.append({"name": "CorrC01Var.v (tables for the specification checker)", "ok": False,
                                      "detail": outv[-800:]})
    if not ok:
        ok2, out2 = G.compile_template("DiagC01")
        ctx.hints.append({"kind": "tables", "diag": " ".join(out2.split())[-1500:]})
        ctx.notes.append("table obligation fails: " + " ".join(out2.split())[-1500:])

    E2E.gen(ctx)     # end-to-end theorems (packet bytes -> returned message) for the tables of this run


def _fname_lit(name, prefix="decode_pgn_"):
    m = re.fullmatch(prefix + r"(\d+)(?:_(.*))?", name, re.S)
    return f"({m.group(1)}, {'None' if m.group(2) is None else '(Some ' + cstr_z(m.group(2)) + ')'})"


def _functions():
    import nmea2000.pgns as P
    out = {}
    for name in vars(P):
        if re.fullmatch(r"decode_pgn_\d+(_.+)?", name):
            fn = getattr(P, name)
            if callable(fn) and fn.__code__.co_varnames[:1] == ("_data_raw_",):
                out[name] = fn
    return out


def correspond(ctx):
    if not getattr(ctx, "gen", {}).get("ok"):
        return []
    rng = ctx.rng
    fns = _functions()
    grp = PL.groups()
    cases, raw, vcases, vraw = [], [], [], []
    dist = {"msg": 0, "ERange": 0, "EUnsupported": 0, "EAssert": 0, "EIndex": 0, "EOther": 0}
    for d in PL.definitions():
        name = "decode_pgn_" + PL.func_suffix(d, grp[d["PGN"]])
        fn = fns.get(name)
        if fn is None:
            continue
        # a function shadowed by a later definition of the same name decodes the LATER definition
        pls = PL.payload_set(d, rng, per_field_classes=True, n_random=ctx.n(2, 6))
        if not ctx.thorough and len(pls) > 22:
            head, tail = pls[:6], pls[6:]
            pls = head + rng.sample(tail, 16)
        for k, (label, p) in enumerate(pls):
            lit, r = obs.ores(fn, p)
            kd = "msg" if not isinstance(r, BaseException) else obs.err_of(r)
            dist[kd] = dist.get(kd, 0) + 1
            if k < 2 or isinstance(r, BaseException) and k < 4:
                cases.append(ctuple(_fname_lit(name), cz(p), lit))
                raw.append((name, p, label))
            else:
                vl = (f"(OValsErr {obs.err_of(r)})" if isinstance(r, BaseException) else
                      "(OVals " + vlib.clist(f"({obs.oval(f.value)}, {obs.oval(f.raw_value)})" for f in r.fields) + ")")
                vcases.append(ctuple(_fname_lit(name), cz(p), vl))
                vraw.append((name, p, label))
    r = run_cases("C01", "pgn", IMP, "fname * Z * ores", f"chk_decode {CHK}", cases, shard=100,
                  count=f"is_unmodelled {CHK}")
    r.update(name="generated decoders (metadata + values): real decode_pgn_* vs run_ddef on the translated tables",
             distinct_nontrivial=distinct_count([(a, b) for a, b, _ in raw]),
             unmodelled=r.get("counted", 0), distribution=dist,
             failing_cases=[{"fn": raw[k][0], "payload": raw[k][1], "class": raw[k][2]} for k in r["failing"][:30]],
             samples=[{"fn": raw[k][0], "payload": hex(raw[k][1]), "class": raw[k][2]} for k in (0, len(raw) // 2, len(raw) - 1)])
    r2 = run_cases("C01", "pgnv", IMP, "fname * Z * ovals", f"chk_decode_vals {CHK}", vcases, shard=250,
                   count=f"is_unmodelled_vals {CHK}")
    r2.update(name="generated decoders (values and raw values per field): real decode_pgn_* vs run_ddef",
              distinct_nontrivial=distinct_count([(a, b) for a, b, _ in vraw]), unmodelled=r2.get("counted", 0),
              failing_cases=[{"fn": vraw[k][0], "payload": vraw[k][1], "class": vraw[k][2]} for k in r2["failing"][:30]],
              samples=[{"fn": vraw[k][0], "payload": hex(vraw[k][1]), "class": vraw[k][2]} for k in (0, len(vraw) - 1)] if vraw else [])
    return [r, r2] + _var_layout_cases(ctx, fns, grp) + _unit_cases(ctx) + E2E.correspond(ctx, prop="C01", n_tcp=ctx.n(40, 300), n_other=ctx.n(10, 60), n_wide=ctx.n(50, 400))


# ------------------------------------------------------------------ variable-layout definitions: the SPECIFICATION
# spec_decode_var (SpecVar.v, evaluated on the DATABASE definition) against the real generated decoder, on payloads
# built for what the fixed-layout classes never reach: both STRING_LAU encodings, byte-order marks, zero-length
# strings, length bytes below 2, length bytes pointing past the end of the payload, payloads that end before a field,
# BitLengthField values 0 / not a multiple of 8 / not available, INDIRECT_LOOKUP pairs inside and outside the table.
def _var_layout_cases(ctx, fns, grp):
    if not getattr(ctx, "corr_var_ok", False):
        return []
    rng = ctx.rng
    cases, rawc = [], []
    dist = {}
    for d in PL.definitions():
        if not PL.is_var_layout(d):
            continue
        g = grp[d["PGN"]]
        multi = len(g) > 1 and any("Match" in f for x in g for f in x["Fields"])
        if not multi and d is not g[-1]:
            continue        # shadowed: the bound function decodes the later definition
        name = "decode_pgn_" + PL.func_suffix(d, g)
        fn = fns.get(name)
        if fn is None:
            continue
        for label, p in PL.var_layout_payloads(d, rng, ctx.n(10, 40), ctx.n(2, 8)):
            lit, r = obs.ores(fn, p)
            head = label.split("@")[0]
            kd = head if head.startswith(("lau", "lz")) else head.split(":")[0]
            dist[kd] = dist.get(kd, 0) + 1
            cases.append(ctuple(_fname_lit(name), cz(p), lit))
            rawc.append((name, p, label, None if isinstance(r, BaseException) else [repr(f.value) for f in r.fields]))
    IMPV = ("From NV Require Import Base Bits Defn PyNum Fields CorrFields CorrSpecVar.\n"
            "From NVGen Require Import CorrC01Var.")
    r = run_cases("C01", "specvar", IMPV, "fname * Z * ores", "chk_spec", cases, shard=100, count="unmodelled_spec")
    r.update(name="variable-layout definitions: real decode_pgn_* vs the SPECIFICATION spec_decode_var on the database "
                  "definition (string encodings, zero / short / overlong length bytes, truncated payloads, BitLengthField, "
                  "INDIRECT_LOOKUP)",
             distinct_nontrivial=distinct_count([(a, b) for a, b, _, _ in rawc]), unmodelled=r.get("counted", 0),
             distribution=dist,
             failing_cases=[{"fn": rawc[k][0], "payload": rawc[k][1], "payload_hex": hex(rawc[k][1]), "class": rawc[k][2],
                             "observed": rawc[k][3]} for k in r["failing"][:30]],
             samples=[{"fn": rawc[k][0], "payload": hex(rawc[k][1]), "class": rawc[k][2]} for k in (0, len(rawc) // 2, len(rawc) - 1)] if rawc else [])
    if not (ctx.thorough or r["failing"] or r["errors"]):
        return [r]      # by C01_var the specification IS run_ddef on these definitions; the model run is the diagnosis
    r2 = run_cases("C01", "specvar_model", IMP, "fname * Z * ores", f"chk_decode {CHK}", cases, shard=100,
                   count=f"is_unmodelled {CHK}")
    r2.update(name="variable-layout definitions, the same payloads: real decode_pgn_* vs run_ddef on the translated tables",
              distinct_nontrivial=0, unmodelled=r2.get("counted", 0),
              failing_cases=[{"fn": rawc[k][0], "payload": rawc[k][1], "payload_hex": hex(rawc[k][1]), "class": rawc[k][2],
                              "observed": rawc[k][3]} for k in r2["failing"][:30]], samples=[])
    return [r, r2]


def _num(x):
    if isinstance(x, int):
        return f"(NI {cz(x)})"
    return f"(NF {struct.unpack('>Q', struct.pack('>d', x))[0]})"


def _ov(fn, *a):
    try:
        return f"(OV {obs.oval(fn(*a))})"
    except Exception as e:  # noqa: BLE001
        return f"(OVE {obs.err_of(e)})"


def _unit_cases(ctx):
    from nmea2000 import utils as U
    from nmea2000.message import int_to_bytes
    rng = ctx.rng
    reps = []
    IMPU = "From NV Require Import Base Bits Defn PyNum Fields CorrFields."
    # decode_number
    cs, rawc = [], []
    ress = [1, 0.1, 0.01, 0.001, 0.0001, 1e-7, 1e-16, 0.00390625, 1e-9, 5, 0.5, 3.125e-08, 86400]
    for _ in range(ctx.n(1000, 15000)):
        ln = rng.choice([1, 2, 3, 4, 7, 8, 10, 12, 16, 21, 24, 29, 32, 48, 64])
        sg = rng.random() < 0.4 and ln > 1
        res = rng.choice(ress)
        off = rng.choice([0, 0, 3, 8, 13, 64, 200])
        kind = rng.random()
        top = (1 << ln) - 1
        rawv = rng.choice([0, 1, top, top - 1, top - 2, top >> 1, (top >> 1) + 1, (top >> 1) - 1, rng.getrandbits(ln)])
        p = (rng.getrandbits(off + ln + 9) & ~(top << off)) | (rawv << off)
        lo_rep, hi_rep = (-(1 << (ln - 1)), (1 << (ln - 1)) - 2) if sg else (0, top - 1)
        if kind < 0.5:     # range limits exactly on representable steps (the rounding-sensitive class)
            a, b = sorted((rng.randint(lo_rep, hi_rep), rng.randint(lo_rep, hi_rep)))
            if rng.random() < 0.5:
                rawv = rng.choice([a, b, a - 1, b + 1, a + 1]) & top
                p = (p & ~(top << off)) | (rawv << off)
            mn, mx = a * res, b * res
            if isinstance(res, float) and rng.random() < 0.5:
                mn, mx = float(repr(round(mn, 9))), float(repr(round(mx, 9)))
        else:
            mn, mx = rng.choice([(0, top * res), (-1e9, 1e9), (0, 252), (-3.1415926, 3.1415926), (0, 6.2831852)])
        args = (p, off, ln, sg, res, mn, mx)
        cs.append(ctuple(ctuple(cz(p), cz(off), cz(ln), cbool(sg), _num(res), _num(mn), _num(mx)),
                         _ov(U.decode_number, *args)))
        rawc.append(args)
    r = run_cases("C01", "number", IMPU, "(Z * Z * Z * bool * num * num * num) * ovres", "chk_number", cs)
    r.update(name="utils.decode_number vs Fields.decode_number", distinct_nontrivial=distinct_count(rawc),
             failing_cases=[{"args": rawc[k]} for k in r["failing"][:20]], samples=[{"args": rawc[0]}])
    reps.append(r)
    # decode_float
    cs, rawc = [], []
    for _ in range(ctx.n(300, 3000)):
        ln = rng.choice([32, 32, 32, 16, 40])
        off = rng.choice([0, 8, 13])
        bits = rng.choice([0, 0x7FC00000, 0x7F800000, 0xFF800000, 0x80000000, 1, 0x00800000, rng.getrandbits(32),
                           struct.unpack("<I", struct.pack("<f", rng.uniform(-100, 100)))[0]])
        p = (rng.getrandbits(off + ln + 5) & ~(((1 << ln) - 1) << off)) | ((bits & ((1 << ln) - 1)) << off)
        mn, mx = rng.choice([(-1e9, 1e9), (0, 100), (-3.4e38, 3.4e38), (0.5, 50.25)])
        cs.append(ctuple(ctuple(cz(p), cz(off), cz(ln), _num(mn), _num(mx)), _ov(U.decode_float, p, off, ln, mn, mx)))
        rawc.append((p, off, ln, mn, mx))
    r = run_cases("C01", "float", IMPU, "(Z * Z * Z * num * num) * ovres", "chk_float", cs)
    r.update(name="utils.decode_float vs Fields.decode_float", distinct_nontrivial=distinct_count(rawc),
             failing_cases=[{"args": rawc[k]} for k in r["failing"][:20]], samples=[{"args": rawc[0]}])
    reps.append(r)
    # decode_time / decode_date
    for nm, fn, chk in (("time", U.decode_time, "chk_time"), ("date", U.decode_date, "chk_date")):
        cs, rawc = [], []
        vals = [None, 0, 1, 86399, 86400, -1, 65532, 2932896, 2932897, -719162, -719163, 0.0, 0.9999, 86399.9999, 86400.0,
                1234.5678, -0.5, 4294.9672, 1e9]
        vals += [rng.randint(-10, 100000) for _ in range(100)] + [rng.uniform(-5, 90000) for _ in range(100)]
        for v in vals:
            cs.append(ctuple(obs.oval(v), _ov(fn, v)))
            rawc.append(v)
        r = run_cases("C01", nm, IMPU, "oval * ovres", chk, cs)
        r.update(name=f"utils.decode_{nm} vs Fields.decode_{nm}", distinct_nontrivial=distinct_count(rawc),
                 failing_cases=[{"arg": rawc[k]} for k in r["failing"][:20]], samples=[{"arg": rawc[3]}])
        reps.append(r)
    # strings
    def rbytes(n, alphabet):
        return bytes(rng.choice(alphabet) for _ in range(n))
    alpha = b"ABCxyz 0189@\x00\xff\t\r\n\x1c\x1f\x80\xbf\xc0\xc1\xf5\xfe~"
    cs, rawc = [], []
    for _ in range(ctx.n(400, 4000)):
        nb = rng.choice([1, 2, 5, 8, 16, 32])
        b = rbytes(nb, alpha if rng.random() < 0.8 else bytes(range(256)))
        off = rng.choice([0, 8, 16, 3])
        p = (int.from_bytes(b, "little") << off) | rng.getrandbits(off)
        if rng.random() < 0.3:
            p |= rng.getrandbits(16) << (off + 8 * nb)
        cs.append(ctuple(ctuple(cz(p), cz(off), cz(nb * 8)), _ov(U.decode_string_fix, p, off, nb * 8)))
        rawc.append((p, off, nb * 8))
    r = run_cases("C01", "strfix", IMPU, "(Z * Z * Z) * ovres", "chk_strfix", cs)
    r.update(name="utils.decode_string_fix vs model", distinct_nontrivial=distinct_count(rawc),
             failing_cases=[{"args": rawc[k]} for k in r["failing"][:20]], samples=[{"args": rawc[0]}])
    reps.append(r)
    cs, rawc, cs2, rawc2 = [], [], [], []
    for _ in range(ctx.n(400, 4000)):
        txt = rbytes(rng.randrange(10), alpha if rng.random() < 0.8 else bytes(range(256)))
        off = rng.choice([0, 8, 24])
        kind = rng.random()
        ln = len(txt) if kind < 0.7 else rng.randrange(20)
        b = bytes([ln]) + txt + (b"\x00" if rng.random() < 0.5 else b"")
        p = (int.from_bytes(b, "little") << off) | rng.getrandbits(off)
        if kind > 0.95:
            p = rng.getrandbits(off)      # nothing but zero bits from the offset on
        cs.append(ctuple(ctuple(cz(p), cz(off)), _ov(U.decode_string_lz, p, off)))
        rawc.append((p, off))
        asc = rng.choice([1, 1, 1, 0, 2])
        b = bytes([ln + 2 if rng.random() < 0.8 else rng.randrange(14), asc]) + txt
        p = (int.from_bytes(b, "little") << off) | rng.getrandbits(off)
        if kind > 0.95:
            p = rng.getrandbits(off)
        try:
            s, skip = U.decode_string_lau(p, off)
            o = f"(OV {obs.oval(s)}, {cz(skip)})"
        except Exception as e:  # noqa: BLE001
            o = f"(OVE {obs.err_of(e)}, 0)"
        cs2.append(ctuple(ctuple(cz(p), cz(off)), o))
        rawc2.append((p, off))
    r = run_cases("C01", "strlz", IMPU, "(Z * Z) * ovres", "chk_strlz", cs)
    r.update(name="utils.decode_string_lz vs model", distinct_nontrivial=distinct_count(rawc),
             failing_cases=[{"args": rawc[k]} for k in r["failing"][:20]], samples=[{"args": rawc[0]}])
    reps.append(r)
    r = run_cases("C01", "strlau", IMPU, "(Z * Z) * (ovres * Z)", "chk_strlau", cs2)
    r.update(name="utils.decode_string_lau vs model", distinct_nontrivial=distinct_count(rawc2),
             failing_cases=[{"args": rawc2[k]} for k in r["failing"][:20]], samples=[{"args": rawc2[0]}])
    reps.append(r)
    # int_to_bytes, decode_int
    cs, rawc = [], []
    for v in [0, 1, 127, 128, 255, 256, 65535, 65536, (1 << 64) - 1, 1 << 64] + [rng.getrandbits(rng.randrange(1, 200)) for _ in range(300)]:
        cs.append(ctuple(cz(v), vlib.cbytes(int_to_bytes(v))))
        rawc.append(v)
    r = run_cases("C01", "i2b", IMPU, "Z * list Z", "chk_int_to_bytes", cs)
    r.update(name="message.int_to_bytes vs model", distinct_nontrivial=distinct_count(rawc),
             failing_cases=[{"arg": rawc[k]} for k in r["failing"][:20]], samples=[{"arg": rawc[4]}])
    reps.append(r)
    cs, rawc = [], []
    for _ in range(ctx.n(500, 5000)):
        p, off, ln = rng.getrandbits(rng.randrange(1, 300)), rng.randrange(0, 250), rng.randrange(0, 70)
        cs.append(ctuple(ctuple(cz(p), cz(off), cz(ln)), cz(U.decode_int(p, off, ln))))
        rawc.append((p, off, ln))
    r = run_cases("C01", "dint", IMPU, "(Z * Z * Z) * Z", "chk_decode_int", cs)
    r.update(name="utils.decode_int vs Bits.decode_int", distinct_nontrivial=distinct_count(rawc),
             failing_cases=[{"args": rawc[k]} for k in r["failing"][:20]], samples=[{"args": rawc[0]}])
    reps.append(r)
    return reps


# ------------------------------------------------------------------ property oracle (database semantics in Python)
def _lookup_tables():
    d = PL.db()
    L = {l["Name"]: {e["Value"]: e["Name"] for e in l["EnumValues"]} for l in d["LookupEnumerations"]}
    LB = {l["Name"]: {e["Bit"]: e["Name"] for e in l["EnumBitValues"]} for l in d["LookupBitEnumerations"]}
    LI = {l["Name"]: {(e["Value1"], e["Value2"]): e["Name"] for e in l["EnumValues"]} for l in d["LookupIndirectEnumerations"]}
    return L, LB, LI


def _close(got, exact):
    """double-precision closeness of a computed value to the exact rational"""
    from fractions import Fraction
    if isinstance(got, bool) or not isinstance(got, (int, float)):
        return False
    if isinstance(got, float) and (got != got or got in (float("inf"), float("-inf"))):
        return False
    g = Fraction(got)
    return abs(g - exact) <= abs(exact) * Fraction(1, 2 ** 50)


def expected_fields(d, p, tables):
    """[(field index, attr dict)] the database prescribes for payload p; also whether every ranged field is in range.
    Only fields whose position is fixed by the database up to that point are evaluated for value."""
    import datetime
    from fractions import Fraction
    L, LB, LI = tables
    out, in_range, off, positions_known = [], True, 0, True
    for i, f in enumerate(d["Fields"]):
        if "BitOffset" in f:
            off, positions_known = f["BitOffset"], True
        t = f["FieldType"]
        # library convention (a function of the database alone): a RESERVED field is named reserved_<BitOffset>
        exp = {"id": ("reserved_" + str(f.get("BitOffset", "")) if t == "RESERVED" else f["Id"]),
               "name": f["Name"], "unit": f.get("Unit"), "pq": f.get("PhysicalQuantity"), "type": t,
               "pk": bool(f.get("PartOfPrimaryKey", False))}
        n = f.get("BitLength")
        if positions_known and n is not None:
            bits = (p >> off) & ((1 << n) - 1)
            if t in PL.NUMERIC:
                signed = f.get("Signed", False)
                v = bits - (1 << n) if signed and bits >> (n - 1) else bits
                sent = PL.sentinel(f)
                if "Offset" in f:
                    # canboat: a field with an Offset is an unsigned raw value; value = raw * Resolution + Offset
                    exp["offset_field"] = True
                    v, sent = bits, (1 << n) - 1
                if bits == sent:
                    exp["value"] = ("none",)
                else:
                    exact = Fraction(v) * PL.frac(f.get("Resolution", 1)) + PL.frac(f.get("Offset", 0))
                    lo, hi = PL.raw_range(f)
                    ok = ("RangeMin" not in f or exact >= PL.frac(f["RangeMin"])) and \
                         ("RangeMax" not in f or exact <= PL.frac(f["RangeMax"]))
                    if not ok:
                        in_range = False
                    if t == "DATE":
                        exp["value"] = ("date", v)
                        if not (-719162 <= v <= 2932896):
                            in_range = False
                    elif t == "TIME":
                        exp["value"] = ("time", exact)
                    else:
                        exp["value"] = ("num", exact)
            elif t == "LOOKUP":
                exp["value"] = ("lookup", L[f["LookupEnumeration"]].get(bits), bits)
            elif t == "BITLOOKUP":
                tb = LB[f["LookupBitEnumeration"]]
                exp["value"] = ("text", ", ".join(tb[b] for b in range(n) if bits >> b & 1 and b in tb), bits)
            elif t in ("RESERVED", "SPARE"):
                exp["value"] = ("int", bits)
            elif t == "INDIRECT_LOOKUP":
                # canboat: the name under the pair (bits of the field named by ...FieldOrder, own bits)
                rf = d["Fields"][f["LookupIndirectEnumerationFieldOrder"] - 1]
                if "BitOffset" in rf and "BitLength" in rf:
                    rb = (p >> rf["BitOffset"]) & ((1 << rf["BitLength"]) - 1)
                    exp["value"] = ("lookup", LI[f["LookupIndirectEnumeration"]].get((rb, bits)), bits)
            elif t == "STRING_LZ":
                _lz_expect(exp, p, off)
            elif t == "BINARY":
                exp["value"] = ("bin", bits)
            elif t == "FLOAT":
                exp["value"] = ("f32", bits)
                x = struct.unpack("<f", struct.pack("<I", bits))[0] if n == 32 else None
                if x is None or x != x or not (float(f.get("RangeMin", "-inf")) <= x <= float(f.get("RangeMax", "inf"))):
                    in_range = in_range and (x is not None and x != x)
            elif t == "STRING_FIX":
                raw = bits.to_bytes((n + 7) // 8, "little")
                if all(b < 128 or b == 0xFF for b in raw):
                    for stop in (b"\x00", b"\xff", b"@"):
                        raw = raw.split(stop, 1)[0]
                    exp["value"] = ("text", raw.decode("ascii").strip(), bits)
            off += n
        elif t == "STRING_LAU" and positions_known:
            ln = (p >> off) & 0xFF
            enc = (p >> (off + 8)) & 0xFF
            if ln < 2:
                in_range = False          # not a well-formed variable-length string
            elif off + 8 * ln <= 8 * ((p.bit_length() + 7) // 8 + 1):
                # canboat: n = total length with the two header bytes, encoding 0 = UTF-16, 1 = ASCII/UTF-8; the text is
                # stated only when the declared bytes lie inside the payload (one zero byte past its end is granted:
                # the decoder's argument is an integer) and need no codec judgement (ASCII; UTF-16 units of the basic
                # plane, no byte-order mark)
                body = ((p >> (off + 16)) & ((1 << (8 * (ln - 2))) - 1)).to_bytes(ln - 2, "little")
                if enc == 1 and all(b < 128 for b in body):
                    exp["value"] = ("text", body.decode("ascii"))
                elif enc == 0 and len(body) % 2 == 0:
                    units = [body[k] | body[k + 1] << 8 for k in range(0, len(body), 2)]
                    if all(not 0xD800 <= u <= 0xDFFF for u in units) and (not units or units[0] not in (0xFEFF, 0xFFFE)):
                        exp["value"] = ("text", "".join(map(chr, units)))
            off += 8 * ln
        elif t == "STRING_LZ" and positions_known:
            _lz_expect(exp, p, off)
            positions_known = False
        elif n is None:
            positions_known = False
            if t != "BINARY" or i != len(d["Fields"]) - 1:
                in_range = False          # later positions are not determined by the database alone: no totality claim
        if t == "BINARY" and "BitLengthField" in f:
            lf = d["Fields"][f["BitLengthField"] - 1]
            lv = next((e for j, e in out if j == f["BitLengthField"] - 1), {}).get("value")
            if lv is None or lv[0] != "num":
                in_range = False          # the announced length is absent: not a well-formed payload
            elif n is None and "BitOffset" in f and lv[1].denominator == 1 and lv[1] >= 0 and \
                    all("BitOffset" in x and "BitLength" in x for x in d["Fields"][:i]):
                # canboat: the field has as many bits as the named field's value announces
                exp["value"] = ("bin", (p >> f["BitOffset"]) & ((1 << int(lv[1])) - 1))
        out.append((i, exp))
    return out, in_range


def _lz_expect(exp, p, off):
    """canboat STRING_LZ: length byte, text, terminating zero; stated when the text lies inside the payload and is ASCII"""
    ln = (p >> off) & 0xFF
    if off + 8 * (1 + ln) <= 8 * ((p.bit_length() + 7) // 8):
        body = ((p >> (off + 8)) & ((1 << (8 * ln)) - 1)).to_bytes(ln, "little")
        if all(b < 128 for b in body):
            exp["value"] = ("text", body.decode("ascii"))


def _value_ok(exp, fld):
    import datetime
    kind = exp[0]
    v, r = fld.value, fld.raw_value
    if kind == "none":
        return v is None
    if kind == "num":
        return _close(v, exp[1])
    if kind == "date":
        return v == datetime.date(1970, 1, 1) + datetime.timedelta(days=exp[1])
    if kind == "time":
        secs = int(exp[1])
        if not 0 <= secs < 86400:
            return True           # reading choice: the clause covers secs < 86400
        return v == datetime.time(secs // 3600, secs % 3600 // 60, secs % 60) and _close(r, exp[1])
    if kind == "lookup":
        return v == exp[1] and r == exp[2]
    if kind == "text":
        return v == exp[1]
    if kind == "int":
        return v == exp[1] and r == exp[1]
    if kind == "bin":
        return isinstance(v, (bytes, bytearray)) and int.from_bytes(v, "big") == exp[1]
    if kind == "f32":
        x = struct.unpack("<f", struct.pack("<I", exp[1]))[0]
        return (v != v and x != x) or v == x
    return True


def _warm(line):
    """the same input first goes through OTHER decoder objects of this process (one with unit preferences and a
    network map, one plain): what a fresh decoder returns afterwards must still be the database's reading"""
    from nmea2000.decoder import NMEA2000Decoder
    from nmea2000.consts import PhysicalQuantities as PQ
    for kw in ({"preferred_units": {PQ.TEMPERATURE: "C", PQ.PRESSURE: "Bar", PQ.ANGLE: "deg", PQ.SPEED: "kts"},
                "build_network_map": False}, {}):
        try:
            NMEA2000Decoder(**kw).decode_basic_string(line, True)
        except Exception:  # noqa: BLE001
            pass


CLAIM_LINE = "2020-01-01-00:00:00.000,6,60928,7,255,8,01,02,03,04,05,06,07,88"


def check_payload(d, p, tables, dec=None, warm=False, cfg=None):
    """the property text on the real code for one (definition, payload): None or a witness dict.
    cfg: None = a plain decoder; "dump" = a decoder that also dumps what it returns to a file; "netmap" = a decoder
    that builds the network map and has seen the source's address claim. What the database says about the payload
    does not depend on these."""
    if cfg in ("dump", "netmap"):
        import datetime as _dt
        import os as _os
        import tempfile as _tf
        from nmea2000.decoder import NMEA2000Decoder
        path = None
        if cfg == "dump":
            fd, path = _tf.mkstemp(prefix="c01_dump_", suffix=".jsonl", dir="/tmp")
            _os.close(fd)
            _os.unlink(path)
            dec2 = NMEA2000Decoder(dump_to_file=path)
        else:
            dec2 = NMEA2000Decoder(build_network_map=True)
            dec2.started_at = _dt.datetime(2000, 1, 1)
            try:
                dec2.decode_basic_string(CLAIM_LINE, True)
            except Exception:  # noqa: BLE001
                pass
        try:
            w = check_payload(d, p, tables, dec=dec2, warm=warm)
        finally:
            try:
                dec2.close()
            except Exception:  # noqa: BLE001
                pass
            if path and _os.path.exists(path):
                _os.unlink(path)
        if w:
            w["cfg"] = cfg
            if "offset-attribute-ignored" not in w["key"]:      # (a listed finding: the same defect under any configuration)
                w["key"] += ":" + cfg
            w["what"] += {"dump": " (decoder with dump_to_file set)",
                          "netmap": " (decoder with build_network_map=True that has seen the source's address claim)"}[cfg]
        return w
    from nmea2000.decoder import NMEA2000Decoder
    dec = dec or NMEA2000Decoder()
    # which definition the database selects for this payload (C08's rule)
    g = PL.groups()[d["PGN"]]
    if len(g) > 1 and any("Match" in f for x in g for f in x["Fields"]):
        sel = next((x for x in g if not x.get("Fallback") and all(
            ((p >> f["BitOffset"]) & ((1 << f["BitLength"]) - 1)) == f["Match"] for f in x["Fields"] if "Match" in f)), None)
        if sel is None:
            sel = next((x for x in reversed(g) if x.get("Fallback")), None)
        if sel is None:
            return None
        d = sel
    nbytes = max(d.get("Length", 0) if isinstance(d.get("Length"), int) else 0, (p.bit_length() + 7) // 8, 1)
    data = p.to_bytes(nbytes, "little")
    line = f"2020-01-01-00:00:00.000,3,{d['PGN']},7,255,{nbytes}," + ",".join(f"{b:02x}" for b in data)
    base = {"kind": "decode", "pgn": d["PGN"], "id": d["Id"], "payload": p, "warm": bool(warm)}
    if warm:
        _warm(line)
    exp, in_range = expected_fields(d, p, tables)
    has_offset = any(e.get("offset_field") for _, e in exp)
    try:
        m = dec.decode_basic_string(line, True)
    except Exception as e:  # noqa: BLE001
        if in_range and PL.supported(d):
            cls = "offset-attribute-ignored" if has_offset else type(e).__name__
            return dict(base, key=f"decode:in-range-rejected:{cls}",
                        what=f"PGN {d['PGN']} {d['Id']} payload {p:#x}: every field in its database range, decode raised {e!r}")
        return None
    if m is None:
        return dict(base, key="decode:none", what=f"PGN {d['PGN']} {d['Id']} payload {p:#x}: decode returned None")
    import datetime as _dtm
    if m.ttl is not None and not isinstance(m.ttl, _dtm.timedelta):
        return dict(base, key="decode:message-metadata",
                    what=f"PGN {d['PGN']} payload {p:#x}: the message's transmission interval is {m.ttl!r} ({type(m.ttl).__name__}), "
                         f"database TransmissionInterval {d.get('TransmissionInterval')} ms")
    ttl = None if m.ttl is None else round(m.ttl.total_seconds() * 1000)
    want = (d["PGN"], d["Id"], d["Description"], d.get("TransmissionInterval"))
    if (m.PGN, m.id, m.description, ttl) != want:
        return dict(base, key="decode:message-metadata",
                    what=f"PGN {d['PGN']} payload {p:#x}: message names {(m.PGN, m.id, m.description, ttl)}, database {want}")
    if len(m.fields) != len(d["Fields"]):
        return dict(base, key="decode:field-count", what=f"PGN {d['PGN']} {d['Id']}: {len(m.fields)} fields, database {len(d['Fields'])}")
    for (i, e), fld in zip(exp, m.fields):
        got = {"id": fld.id, "name": fld.name, "unit": fld.unit_of_measurement,
               "pq": None if fld.physical_quantities is None else fld.physical_quantities.name,
               "type": fld.type.name, "pk": bool(fld.part_of_primary_key)}
        for k in got:
            if got[k] != e[k]:
                return dict(base, key=f"decode:field-{k}", field=i,
                            what=f"PGN {d['PGN']} {d['Id']} field {i} ({e['id']}): {k} is {got[k]!r}, database {e[k]!r}")
        if "value" in e and not _value_ok(e["value"], fld):
            cls = "offset-attribute-ignored" if e.get("offset_field") else e["value"][0]
            return dict(base, key=f"decode:value:{cls}", field=i,
                        what=f"PGN {d['PGN']} {d['Id']} payload {p:#x} field {i} ({e['id']}): value {fld.value!r} raw {fld.raw_value!r}, database semantics {e['value']!r}")
    return None


def search(ctx):
    rng = ctx.rng
    tables = _lookup_tables()
    grp = PL.groups()
    out, seen = [], set()
    focus_line = next((h.get("line") for h in ctx.hints if h.get("line")), None)
    defs = [d for d in PL.definitions()]
    for d in defs:
        g = grp[d["PGN"]]
        multi = len(g) > 1 and any("Match" in f for x in g for f in x["Fields"])
        if not multi and d is not g[-1] and not any("Match" in f for f in d["Fields"]):
            continue     # shadowed by a later definition of the same PGN without match fields (59392)
        if not PL.supported(d):
            continue
        pls = PL.payload_set(d, rng, per_field_classes=True, n_random=ctx.n(2, 8))
        if not ctx.thorough and len(pls) > 40:
            pls = pls[:6] + rng.sample(pls[6:], 34)
        if PL.is_var_layout(d):
            pls = pls + PL.var_layout_payloads(d, rng, ctx.n(10, 40), ctx.n(2, 8))
        for label, p in pls:
            try:
                w = check_payload(d, p, tables, warm=(rng.random() < 0.4))
            except Exception as e:  # noqa: BLE001
                w = {"kind": "decode", "pgn": d["PGN"], "id": d["Id"], "payload": p, "key": "oracle:exception",
                     "what": f"oracle failed on PGN {d['PGN']} {d['Id']} {p:#x}: {e!r}"}
            if w and w["key"] not in seen:
                seen.add(w["key"])
                w["class"] = label
                out.append(w)
        # the same reading through differently configured decoders (dumping on; network map on, claim seen): the
        # all-zero / all-ones backgrounds (not-available in every field, key fields included) and two more
        for label, p in pls[:4]:
            for cfg in ("dump", "netmap"):
                try:
                    w = check_payload(d, p, tables, cfg=cfg)
                except Exception as e:  # noqa: BLE001
                    w = {"kind": "decode", "pgn": d["PGN"], "id": d["Id"], "payload": p, "key": "oracle:exception:" + cfg,
                         "what": f"oracle failed on PGN {d['PGN']} {d['Id']} {p:#x} ({cfg}): {e!r}"}
                if w and w["key"] not in seen:
                    seen.add(w["key"])
                    w["class"] = label
                    out.append(w)
    # DATE / TIME fields under other process time zones (west and east of Greenwich): what the bits say must not depend
    # on the host configuration
    import os as _os
    import time as _time
    old_tz = _os.environ.get("TZ")
    try:
        for tz in ("EST5EDT", "HST10", "NZST-12", "CET-1CEST"):
            _os.environ["TZ"] = tz
            _time.tzset()
            for d in defs:
                if not PL.supported(d) or not any(f.get("FieldType") in ("DATE", "TIME") for f in d["Fields"]):
                    continue
                g = grp[d["PGN"]]
                multi = len(g) > 1 and any("Match" in f for x in g for f in x["Fields"])
                if not multi and d is not g[-1]:
                    continue
                for label, p in PL.payload_set(d, rng, per_field_classes=True, n_random=1)[:ctx.n(6, 30)]:
                    w = check_payload(d, p, tables)
                    if w and w["key"] + ":tz" not in seen and w["key"] not in seen:
                        w["key"] += ":tz"
                        w["tz"] = tz
                        w["what"] += f" (process time zone {tz})"
                        seen.add(w["key"])
                        out.append(w)
    finally:
        if old_tz is None:
            _os.environ.pop("TZ", None)
        else:
            _os.environ["TZ"] = old_tz
        _time.tzset()
    try:
        out += E2E.search(ctx)
    except Exception as e:  # noqa: BLE001   (what was found so far is not lost)
        ctx.notes.append(f"end-to-end glue search raised {e!r}")
    return out


def replay(ctx, data):
    w = data.get("witness", data)
    if w.get("kind") == "e2e-glue":
        return E2E.replay(ctx, data)
    d = next((x for x in PL.definitions() if x["PGN"] == w["pgn"] and x["Id"] == w["id"]), None)
    if d is None:
        return True
    if w.get("tz"):
        import os as _os
        import time as _time
        old = _os.environ.get("TZ")
        _os.environ["TZ"] = w["tz"]
        _time.tzset()
        try:
            r = check_payload(d, int(w["payload"]), _lookup_tables(), warm=bool(w.get("warm")))
        finally:
            if old is None:
                _os.environ.pop("TZ", None)
            else:
                _os.environ["TZ"] = old
            _time.tzset()
        print("observed:", r["what"] if r else "property holds on this input")
        return r is not None
    r = check_payload(d, int(w["payload"]), _lookup_tables(), warm=bool(w.get("warm")), cfg=w.get("cfg"))
    print("observed:", r["what"] if r else "property holds on this input")
    return r is not None and (r["key"] == w.get("key") or "key" not in w)
