"""C10 — PGN include/exclude filters are a pure selection of the unfiltered output.

This module also holds the harness shared by C10, C11 and C16 (all three are tied to the code through
the same model, coq/theories/DecoderCtl.v): traffic and configuration generators, the recording of the
real decoder's behaviour, the Gallina case printer, and the three property oracles on the real code.

Tie: the real NMEA2000Decoder is driven through decode_tcp on seeded histories; per case the observed
behaviour of the real decode_pgn_* / _isFastPGN on exactly the arguments the real decoder passed becomes
an oracle table that instantiates the Section variables of the model, and the kernel decides
`ctl_step ... = observed` for every call (outcome, source-map entry) plus the final source map and the
final reassembly dictionary."""
from __future__ import annotations
import ast
import hashlib
import os
import random
import re
from datetime import datetime, timedelta

import vlib
from vlib import cz, clist, cbytes, cbool, ctuple, run_cases, distinct_count

PROPS_FILES = ["props/C10.v"]
RULE = ("a case = (constructor arguments, history of 13-byte EByte packets with the clock input); configurations: "
        "none/exclude/include x numbers, ids in random letter case, mixed, with/without 60928 / 'isoAddressClaim', "
        "unrelated entries, invalid entries, manufacturer lists in mixed case, network map on/off; histories: 2-4 "
        "sources, single-frame, fast-packet (in order, reordered, duplicated, lossy, stale counters), address claims "
        "(known / unknown manufacturer, undecodable, re-claims, shared NAME, claims inside a fast-packet message), "
        "truncated frames (0-2 bytes), unknown PGNs, PGNs whose is_fast raises, out-of-range payloads; "
        "non-trivial = at least one message returned and one call not returned; distinct by (configuration, history)")
TRUSTED = ["DecoderCtl.v is a hand model of NMEA2000Decoder.__init__/split_pgn_list/_decode/_call_decode_function/"
           "_decode_fast_message and IsoName.__init__; tied to the code only by the correspondence cases of this run",
           "the per-PGN decode functions and _isFastPGN are Section variables of the model; in the correspondence they "
           "are instantiated by the observed behaviour of the real functions (recording wrappers installed from "
           "outside in the namespace of nmea2000.decoder)",
           "database hypotheses of the theorems (decode_pgn_N builds a message with PGN N; only 60928 has the id "
           "isoAddressClaim; 60928 is single-frame) are checked on pgns.py by the ast pass tools/tr_init.py: db_hypotheses"]
ASSUMPTIONS = ["str.lower() on ASCII text is the byte map A-Z -> a-z (non-ASCII ids / names are Unmodelled)",
               "a call that raises counts as 'no message' on either side of the comparison",
               "logging and the set logged_unsupported_pgns are not observable and not modelled; dump files and "
               "preferred units are not configured (C15/C18 own them)"]
ALWAYS_SEARCH = True

IMPORTS = "From NV Require Import Base Header DecoderCtl CorrDecoderCtl."
CLAIM = 60928

# ------------------------------------------------------------------ implementation access


def _impl():
    from nmea2000.decoder import NMEA2000Decoder
    from nmea2000.encoder import NMEA2000Encoder
    import nmea2000.decoder as decmod
    from nmea2000 import pgns
    return NMEA2000Decoder, NMEA2000Encoder, decmod, pgns


REC: list = []          # (pgn, data_int, outcome) in call order, filled by the wrappers
_WRAPPED = {}


def _digest(m) -> int:
    body = repr([(f.id, f.name, f.value, f.raw_value, f.unit_of_measurement, str(f.type)) for f in m.fields]
                + [m.description, str(m.ttl)])
    return int.from_bytes(hashlib.md5(body.encode()).digest()[:7], "big")


def _fields(m):
    out = []
    for f in m.fields:
        v = f.value
        if isinstance(v, bool):
            out.append((f.id, ("other",)))
        elif isinstance(v, int):
            out.append((f.id, ("int", v)))
        elif isinstance(v, str):
            out.append((f.id, ("str", v)))
        elif v is None:
            out.append((f.id, ("none",)))
        else:
            out.append((f.id, ("other",)))
    return out


def install_wrappers():
    """Recording wrappers around decode_pgn_<N> in the namespace _call_decode_function looks them up in."""
    _, _, decmod, _ = _impl()
    if _WRAPPED:
        return
    for name, f in list(vars(decmod).items()):
        m = re.fullmatch(r"decode_pgn_(\d+)", name)
        if not m or not callable(f):
            continue
        pgn = int(m.group(1))

        def mk(pgn, f):
            def w(data_int):
                try:
                    r = f(data_int)
                except Exception as e:  # noqa: BLE001
                    REC.append((pgn, data_int, ("err", type(e).__name__)))
                    raise
                if r is None:
                    REC.append((pgn, data_int, ("none",)))
                else:
                    REC.append((pgn, data_int, ("msg", r.PGN, r.id, _fields(r) if r.PGN == CLAIM else [], _digest(r))))
                return r
            w.__wrapped_by_verif__ = True
            return w
        _WRAPPED[name] = f
        setattr(decmod, name, mk(pgn, f))


def remove_wrappers():
    _, _, decmod, _ = _impl()
    for name, f in _WRAPPED.items():
        setattr(decmod, name, f)
    _WRAPPED.clear()


def iso_tuple(i):
    if i is None:
        return None
    return (i.unique_number, i.manufacturer_code, i.device_instance, i.device_function, i.device_class,
            i.system_instance, i.industry_group, bool(i.arbitrary_address_capable), i.name)


def observe(dec, pkt: bytes, win: bool):
    """One call of the real decoder with the clock input forced from outside."""
    dec.started_at = datetime.now() if win else datetime.now() - timedelta(hours=1)
    try:
        r = dec.decode_tcp(pkt)
    except Exception as e:  # noqa: BLE001
        return ("err", type(e).__name__)
    if r is None:
        return ("none",)
    return ("msg", r.PGN, r.id, r.source, r.destination, iso_tuple(r.source_iso_name), _digest(r))


_DUMP_FILES = []


def make_decoder(cfg):
    Dec = _impl()[0]
    kw = dict(exclude_pgns=list(cfg["ex"]), include_pgns=list(cfg["inc"]),
              exclude_manufacturer_code=list(cfg["exm"]), include_manufacturer_code=list(cfg["incm"]),
              build_network_map=cfg["nm"])
    if cfg.get("dump") is not None:
        # recording to a file is switched on as well (dump filter = cfg["dump"]): what a decoder RETURNS is not its business
        import tempfile
        fd, path = tempfile.mkstemp(prefix="c10_dump_", suffix=".jsonl", dir="/tmp")
        os.close(fd)
        os.unlink(path)
        _DUMP_FILES.append(path)
        kw.update(dump_to_file=path, dump_pgns=list(cfg["dump"]))
    return Dec(**kw)


def cleanup_dumps():
    while _DUMP_FILES:
        p = _DUMP_FILES.pop()
        try:
            os.unlink(p)
        except OSError:
            pass


def pkt_src(pkt: bytes) -> int:
    return pkt[4]


def pkt_fields(pkt: bytes):
    """(pgn, src, dst, wire data) by the harness's own arithmetic (not the library's)."""
    i = int.from_bytes(pkt[1:5], "big")
    src = i & 0xFF
    pf = (i >> 16) & 0xFF
    dp = (i >> 24) & 3
    ps = (i >> 8) & 0xFF
    if pf < 240:
        pgn, dst = (dp << 16) | (pf << 8), ps
    else:
        pgn, dst = (dp << 16) | (pf << 8) | ps, 255
    return pgn, src, dst, pkt[5:5 + (pkt[0] & 15)]


# ------------------------------------------------------------------ Gallina literals
ERR = {"ValueError": "ERange", "IndexError": "EIndex", "AssertionError": "EAssert"}


def cerr(name):
    return ERR.get(name, "EOther")


INTERN: dict | None = None      # string -> symbol of the shared prelude (keeps the generated files small)


def cs(s: str) -> str:
    if INTERN is None:
        return cbytes(s.encode("utf-8"))
    if s not in INTERN:
        INTERN[s] = f"S{len(INTERN)}_"
    return INTERN[s]


def intern_prelude() -> str:
    return "\n".join(f"Definition {n} : str := {cbytes(s.encode('utf-8'))}." for s, n in (INTERN or {}).items())


def copt_s(s):
    return "None" if s is None else f"(Some {cs(s)})"


def ciso(t):
    u, m, inst, fn, cl, sy, ig, aac, name = t
    return f"(I {cz(u)} {copt_s(m)} {cz(inst)} {copt_s(fn)} {copt_s(cl)} {cz(sy)} {copt_s(ig)} {cbool(aac)} {cz(name)})"


def copt_iso(t):
    return "None" if t is None else f"(Some {ciso(t)})"


def cfval(v):
    if v[0] == "int":
        return f"(FInt {cz(v[1])})"
    if v[0] == "str":
        return f"(FStr {cs(v[1])})"
    if v[0] == "none":
        return "FNone"
    return "FOther"


def cdec(o):
    if o[0] == "err":
        return f"(Err {cerr(o[1])})"
    if o[0] == "none":
        return "(Ok None)"
    _, pgn, mid, fields, body = o
    fl = clist(ctuple(cs(k), cfval(v)) for k, v in fields)
    return f"(Ok (Some (D {cz(pgn)} {cs(mid)} {fl} {cz(body)})))"


def cobs(o):
    if o[0] == "err":
        return f"(OErr {cerr(o[1])})"
    if o[0] == "none":
        return "ONone"
    _, pgn, mid, src, dst, iso, body = o
    return f"(OMsg (M {cz(pgn)} {cs(mid)} {cz(src)} {cz(dst)} {copt_iso(iso)} {cz(body)}))"


def cfast(o):
    if o[0] == "err":
        return f"(Err {cerr(o[1])})"
    if o[1] is None:
        return "(Ok None)"
    return f"(Ok (Some {cbool(bool(o[1]))}))"


def citem(x):
    if isinstance(x, bool):
        return f"(PInt {int(x)})"
    if isinstance(x, int):
        return f"(PInt {cz(x)})"
    if isinstance(x, str):
        return f"(PStr {cs(x)})"
    return "POther"


def crec(frames, plen, stored, rseq):
    fl = clist(ctuple(cz(k), cbytes(d)) for k, d in frames)
    return f"(R {fl} {cz(plen)} {cz(stored)} {cz(rseq)})"


# ------------------------------------------------------------------ running one case on the real code
def run_real(cfg, hist, dec=None):
    """Returns the observation record of one decoder on one history (dec given: already constructed)."""
    Dec = _impl()[0]
    install_wrappers()
    rec0 = len(REC)
    out = {"ctor": None, "obs": [], "map": [], "reasm": [], "dec": [], "fast": []}
    if dec is None:
        try:
            dec = make_decoder(cfg)
        except Exception as e:  # noqa: BLE001
            out["ctor"] = type(e).__name__
            return out
    srcs, pgn_seen = [], []
    for pkt, win in hist:
        o = observe(dec, pkt, win)
        s = pkt_src(pkt)
        out["obs"].append((o, iso_tuple(dec.source_to_iso_name.get(s))))
        if s not in srcs:
            srcs.append(s)
        p = pkt_fields(pkt)[0]
        if p not in pgn_seen:
            pgn_seen.append(p)
    out["dec"] = _dedup(REC[rec0:])
    del REC[rec0:]
    for p in pgn_seen:
        try:
            out["fast"].append((p, ("ok", Dec._isFastPGN(p))))
        except Exception as e:  # noqa: BLE001
            out["fast"].append((p, ("err", type(e).__name__)))
    out["map"] = [(s, iso_tuple(dec.source_to_iso_name.get(s))) for s in srcs]
    out["reasm"] = snapshot_reasm(dec)
    return out


def snapshot_reasm(dec):
    """the reassembly records as the model names them; internals that are not shaped as in the pinned tree (another key
    type, renamed attributes) give a snapshot that simply disagrees with the model's (never an exception)"""
    r = []
    try:
        for k in sorted(dec.data, key=repr):
            try:
                p, s, d = (int(x) for x in k.split("_"))
            except Exception:  # noqa: BLE001
                p, s, d = -1, -1, -1
            v = dec.data[k]
            frames = [(fc, bytes(v.frames[fc][::-1])) for fc in sorted(v.frames)]
            r.append(((p, s, d), (frames, v.payload_length, v.bytes_stored, v.sequence_counter)))
    except Exception:  # noqa: BLE001
        return [((-1, -1, -1), ([], -1, -1, -1))]
    return r


def _dedup(recs):
    seen, out = set(), []
    for p, d, o in recs:
        if (p, d) in seen:
            continue
        seen.add((p, d))
        out.append((p, d, o))
    return out


def case_literal(cfg, hist, ob) -> str:
    parts = [clist(citem(x) for x in cfg["ex"]), clist(citem(x) for x in cfg["inc"]),
             clist(cs(x) for x in cfg["exm"]), clist(cs(x) for x in cfg["incm"]), cbool(cfg["nm"]),
             "None" if ob["ctor"] is None else f"(Some {cerr(ob['ctor'])})",
             clist(ctuple(cz(p), cfast(o)) for p, o in ob["fast"]),
             clist(ctuple(cz(p), cz(d), cdec(o)) for p, d, o in ob["dec"]),
             clist(ctuple(cbytes(pkt), cbool(win)) for pkt, win in hist) if ob["ctor"] is None else "[]",
             clist(ctuple(cobs(o), copt_iso(e)) for o, e in ob["obs"]),
             clist(ctuple(cz(s), copt_iso(e)) for s, e in ob["map"]),
             clist(ctuple(ctuple(cz(k[0]), cz(k[1]), cz(k[2])), crec(*v)) for k, v in ob["reasm"])]
    return "(C " + "\n    ".join(parts) + ")"


def case_json(cfg, hist):
    return {"config": cfg_json(cfg), "history": [[pkt.hex(), win] for pkt, win in hist]}


def cfg_json(cfg):
    def it(x):
        return x if isinstance(x, (int, str)) else {"other": repr(x)}
    out = {"ex": [it(x) for x in cfg["ex"]], "inc": [it(x) for x in cfg["inc"]], "exm": cfg["exm"],
           "incm": cfg["incm"], "nm": cfg["nm"]}
    if cfg.get("dump") is not None:
        out["dump"] = [it(x) for x in cfg["dump"]]
    return out


def cfg_unjson(j):
    def it(x):
        return 1.5 if isinstance(x, dict) else x
    out = {"ex": [it(x) for x in j["ex"]], "inc": [it(x) for x in j["inc"]], "exm": list(j["exm"]),
           "incm": list(j["incm"]), "nm": bool(j["nm"])}
    if j.get("dump") is not None:
        out["dump"] = [it(x) for x in j["dump"]]
    return out


def hist_unjson(j):
    return [(bytes.fromhex(h), bool(w)) for h, w in j]


# ------------------------------------------------------------------ traffic
SOURCES = [1, 5, 35, 254, 0]
SINGLE = [127250, 127245, 130306, 129025, 127488, 65280, 59904, 61184]
FAST = [126996, 127489, 129540, 126720, 130842, 129029, 126208]
UNKNOWN = [65300, 130000, 0x1F100]
FAST_RAISES = [65240, 126976]
FAST_LEN = {126996: 134, 127489: 26, 129540: 27, 126720: 20, 130842: 29, 129029: 43, 126208: 12}
# manufacturer codes used in claims: known ones and codes that are not in the lookup table
MFR_KNOWN = [135, 137, 229, 275, 1857, 1855]
MFR_UNKNOWN = [5, 1000]


class Pools:
    """Per-PGN payload pools (valid / raising / returning None), built with the real decode functions only to
    classify candidates — the comparison never relies on the classification."""

    def __init__(self, rng):
        pg = _impl()[3]
        self.rng = rng
        self.valid, self.bad, self.ids = {}, {}, {}
        for pgn in SINGLE + FAST:
            ln = 8 if pgn in SINGLE else FAST_LEN[pgn]
            if pgn == 59904:
                ln = 3
            f = getattr(pg, f"decode_pgn_{pgn}")
            v, b, ids = [], [], set()
            cands = [bytes(rng.getrandbits(8) for _ in range(ln)) for _ in range(60)]
            cands += [bytes([0xFF] * ln), bytes(ln), bytes([0x7F] * ln)]
            if pgn == 59904:
                cands += [bytes([0x00, 0xEE, 0x00]), bytes([0x14, 0xF0, 0x01]), bytes([0x10, 0xF8, 0x01])]
            if pgn == 129029:
                good = bytes.fromhex("01c04b8086fc2200a8d6d1e5a6a80500e0fc6dd4e6f3f4003c0c2c0600000000"
                                     "10fc0c4600c8007a0a0000")
                cands += [good, good[:20] + bytes([rng.getrandbits(8)]) + good[21:]]
            if pgn in (65280, 61184, 126720):
                # manufacturer-proprietary: first two bytes carry manufacturer code (11 bits) + industry (3 bits)
                for code in (1855, 1857, 135, 137, 229, 275, 419, 1851):
                    hd = (code | (3 << 11) | (4 << 13)).to_bytes(2, "little")
                    for _ in range(3):
                        cands.append(hd + bytes(rng.getrandbits(8) for _ in range(ln - 2)))
            for c in cands:
                try:
                    r = f(int.from_bytes(c, "little"))
                except Exception:  # noqa: BLE001
                    b.append(c)
                    continue
                v.append(c)
                if r is not None:
                    ids.add(r.id)
            self.valid[pgn], self.bad[pgn], self.ids[pgn] = v, b, sorted(ids)
        self.all_ids = sorted({i for l in self.ids.values() for i in l})

    def payload(self, pgn, p_bad=0.15):
        rng = self.rng
        if (rng.random() < p_bad and self.bad[pgn]) or not self.valid[pgn]:
            return rng.choice(self.bad[pgn]) if self.bad[pgn] else bytes(8)
        return rng.choice(self.valid[pgn])


_POOLS = {}


def pools(ctx) -> Pools:
    k = (ctx.prop, ctx.seed)
    if k not in _POOLS:
        _POOLS[k] = Pools(random.Random(f"pools:{ctx.seed}"))
    return _POOLS[k]


def is_pdu1(pgn):
    return ((pgn >> 8) & 0xFF) < 240


def mk_pkt(pgn, src, dst, prio, data: bytes, dl=None) -> bytes:
    Enc = _impl()[1]
    ident = Enc._build_header(pgn, src, dst, prio)
    if dl is None:
        dl = len(data)
    return bytes([0x80 | (dl & 15)]) + ident.to_bytes(4, "big") + (data + bytes(8))[:8]


def make_name(rng, kind):
    """A 64-bit NAME. kind: known / unknown manufacturer / undecodable (unique number out of range)."""
    unique = rng.getrandbits(21) % 2097000
    mfr = rng.choice(MFR_KNOWN)
    if kind == "unknown":
        mfr = rng.choice(MFR_UNKNOWN)
    if kind == "undecodable":
        unique = rng.choice([2097149, 2097150])
    lower, upper = rng.getrandbits(3) % 7, rng.getrandbits(5) % 30
    func, cls = rng.choice([130, 140, 150, 160, 170, 255]), rng.choice([25, 30, 35, 40, 60, 75, 80, 120, 127])
    sysi, ind, aac = rng.getrandbits(4) % 14, rng.choice([0, 4, 4, 4, 7]), rng.getrandbits(1)
    return (unique | (mfr << 21) | (lower << 32) | (upper << 35) | (func << 40) | (cls << 49) |
            (sysi << 56) | (ind << 60) | (aac << 63))


def fast_frames(payload: bytes, seq: int):
    fr = [bytes([(seq << 5) | 0, len(payload) & 0xFF]) + payload[:6]]
    k, off = 1, 6
    while off < len(payload):
        fr.append(bytes([(seq << 5) | (k & 31)]) + payload[off:off + 7])
        off += 7
        k += 1
    return fr


class Traffic:
    def __init__(self, ctx, rng, profile):
        self.rng, self.P, self.profile = rng, pools(ctx), profile
        self.srcs = rng.sample(SOURCES, rng.randint(2, 4))
        kinds = ["known", "known", "known", "unknown", "undecodable"] if profile != "filter" else ["known", "known", "unknown"]
        self.names = [make_name(rng, rng.choice(kinds)) for _ in range(rng.randint(2, 4))]
        self.seq = {}
        self.pgns_s = rng.sample(SINGLE, rng.randint(2, 4))
        self.pgns_f = rng.sample(FAST, rng.randint(1, 3))

    def dst_for(self, pgn):
        if not is_pdu1(pgn):
            return 255
        return self.rng.choice([255, 255, self.rng.choice(self.srcs), 17])

    def claim(self, src, name=None, dl=8):
        name = self.rng.choice(self.names) if name is None else name
        return [mk_pkt(CLAIM, src, self.dst_for(CLAIM), 6, name.to_bytes(8, "little"), dl)]

    def single(self, src):
        pgn = self.rng.choice(self.pgns_s)
        d = self.P.payload(pgn)
        return [mk_pkt(pgn, src, self.dst_for(pgn), self.rng.getrandbits(3), d)]

    def fast(self, src):
        rng = self.rng
        pgn = rng.choice(self.pgns_f)
        dst = self.dst_for(pgn)
        payload = self.P.payload(pgn)
        if rng.random() < 0.15:
            payload = payload[:rng.randint(0, len(payload))]
        k = (pgn, src, dst)
        seq = self.seq.get(k, rng.getrandbits(3))
        self.seq[k] = (seq + 1) % 8 if rng.random() < 0.9 else seq      # sometimes the counter is reused
        frames = fast_frames(payload, seq)
        r = rng.random()
        if r < 0.10 and len(frames) > 2:
            i = rng.randrange(1, len(frames))
            frames.insert(rng.randrange(1, len(frames)), frames[i])       # duplicate
        elif r < 0.20 and len(frames) > 2:
            i, j = rng.randrange(len(frames)), rng.randrange(len(frames))
            frames[i], frames[j] = frames[j], frames[i]                   # reorder (possibly the first frame)
        elif r < 0.28 and len(frames) > 1:
            del frames[rng.randrange(len(frames))]                        # loss
        elif r < 0.33:
            frames.append(bytes([((seq + 3) % 8 << 5) | rng.randrange(1, 5)]) + bytes(rng.getrandbits(8) for _ in range(7)))
            rng.shuffle(frames)                                           # stale frame of another sequence
        prio = rng.getrandbits(3)
        pk = []
        for f in frames:
            dl = len(f) if rng.random() < 0.3 else 8
            pk.append(mk_pkt(pgn, src, dst, prio, (f + bytes([0xFF] * 8))[:8], max(dl, len(f))))
        if rng.random() < (0.35 if self.profile == "claims" else 0.12) and len(pk) > 1:
            pk[rng.randrange(1, len(pk)):0] = self.claim(src)             # a claim inside the fast-packet message
        return pk

    def malformed(self, src):
        rng = self.rng
        r = rng.random()
        if r < 0.35:      # truncated frame of 0-2 bytes
            pgn = rng.choice(self.pgns_f + self.pgns_s + [CLAIM])
            dl = rng.randint(0, 2)
            first = rng.choice([0x00, 0x20, 0x41, 0xE0, rng.getrandbits(8)])
            return [mk_pkt(pgn, src, self.dst_for(pgn), 3, bytes([first, rng.getrandbits(8)]) + bytes(6), dl)]
        if r < 0.55:      # unknown PGN
            return [mk_pkt(rng.choice(UNKNOWN), src, 255, 6, bytes(rng.getrandbits(8) for _ in range(8)))]
        if r < 0.65:      # is_fast raises
            return [mk_pkt(rng.choice(FAST_RAISES), src, 255, 6, bytes(rng.getrandbits(8) for _ in range(8)))]
        if r < 0.85:      # out-of-range single-frame payload
            pgn = rng.choice(self.pgns_s)
            d = rng.choice(self.P.bad[pgn]) if self.P.bad[pgn] else bytes([0xFE] * 8)
            return [mk_pkt(pgn, src, self.dst_for(pgn), 2, d)]
        # fast-packet message whose payload is out of range (decode raises on delivery: record is kept)
        pgn = rng.choice(self.pgns_f)
        d = rng.choice(self.P.bad[pgn]) if self.P.bad[pgn] else bytes([0xFE] * FAST_LEN[pgn])
        dst = self.dst_for(pgn)
        seq = rng.getrandbits(3)
        self.seq[(pgn, src, dst)] = seq if rng.random() < 0.5 else (seq + 1) % 8
        return [mk_pkt(pgn, src, dst, 2, (f + bytes([0xFF] * 8))[:8], 8) for f in fast_frames(d, seq)]

    def history(self, n_msgs=None):
        rng = self.rng
        w = {"filter": (4, 4, 2, 1), "claims": (3, 3, 5, 1), "malformed": (3, 3, 1.5, 5), "mixed": (3, 3, 2, 2)}[self.profile]
        streams = []
        for s in self.srcs:
            fr = []
            if self.profile == "claims" and rng.random() < 0.5:
                fr += self.single(s)            # data before claim
            for _ in range(n_msgs or rng.randint(2, 6)):
                kind = rng.choices(["single", "fast", "claim", "malformed"], weights=w)[0]
                fr += getattr(self, kind)(s)
            streams.append(fr)
        out = []
        while any(streams):
            st = rng.choice([x for x in streams if x])
            out.append(st.pop(0))
        wmode = rng.choice(["in", "in", "out", "out", "flip"])
        cut = rng.randrange(len(out) + 1)
        return [(p, wmode == "in" or (wmode == "flip" and i < cut)) for i, p in enumerate(out)]


def rand_case_str(rng, s):
    m = rng.random()
    if m < 0.3:
        return s
    if m < 0.5:
        return s.lower()
    if m < 0.65:
        return s.upper()
    return "".join(c.upper() if rng.random() < 0.5 else c.lower() for c in s)


def gen_config(ctx, rng, tr: Traffic, profile):
    P = tr.P
    mfr_names = _mfr_names()
    nums = tr.pgns_s + tr.pgns_f
    ids = [i for p in nums for i in P.ids[p]]
    cfg = {"ex": [], "inc": [], "exm": [], "incm": [], "nm": rng.random() < 0.5}
    pfilter = {"filter": 0.9, "claims": 0.5, "malformed": 0.4, "mixed": 0.6}[profile]
    if rng.random() < pfilter:
        n = rng.choice([1, 1, 2, 2, 3, 4])
        shape = rng.choice(["num", "id", "mixed", "mixed"])
        items = []
        for _ in range(n):
            r = rng.random()
            want_num = shape == "num" or (shape == "mixed" and rng.random() < 0.5)
            if r < 0.18:
                items.append(CLAIM if want_num else rand_case_str(rng, "isoAddressClaim"))
            elif r < 0.26:
                items.append(99999 if want_num else rand_case_str(rng, "noSuchPgn"))
            elif want_num or not ids:
                items.append(rng.choice(nums))
            else:
                items.append(rand_case_str(rng, rng.choice(ids)))
        if rng.random() < 0.03:
            items.insert(rng.randrange(len(items) + 1), 1.5)           # invalid entry -> ValueError
        cfg["ex" if rng.random() < 0.45 else "inc"] = items
        if rng.random() < 0.03:
            cfg["ex"], cfg["inc"] = [rng.choice(nums)], [rng.choice(nums)]   # both given -> ValueError
    pm = {"filter": 0.25, "claims": 0.75, "malformed": 0.3, "mixed": 0.5}[profile]
    if rng.random() < pm:
        pool = [mfr_names[c] for c in MFR_KNOWN] + ["Nobody Inc"]
        r = rng.random()
        if r < 0.45:
            cfg["exm"] = [rand_case_str(rng, x) for x in rng.sample(pool, rng.randint(1, 2))]
        elif r < 0.9:
            cfg["incm"] = [rand_case_str(rng, x) for x in rng.sample(pool, rng.randint(1, 3))]
        else:
            cfg["exm"] = [rand_case_str(rng, rng.choice(pool))]
            cfg["incm"] = [rand_case_str(rng, x) for x in rng.sample(pool, 2)]
    return cfg


def _mfr_names():
    return _impl()[3].master_dict["MANUFACTURER_CODE"]


def gen_case(ctx, rng, profile):
    tr = Traffic(ctx, rng, profile)
    return gen_config(ctx, rng, tr, profile), tr.history()


# ------------------------------------------------------------------ correspondence
def corr_block(ctx, prop, name, profiles_counts, extra_cases=()):
    """Generate cases, run the real decoder, let the kernel compare with the model."""
    global INTERN
    INTERN = {}
    rng = ctx.rng
    raw, lits, dist = [], [], {}
    for profile, n in profiles_counts:
        for _ in range(n):
            cfg, hist = gen_case(ctx, rng, profile)
            raw.append((cfg, hist, profile))
    for cfg, hist in extra_cases:
        raw.append((cfg, hist, "corpus"))
    nontriv, keys, stats = 0, [], {"calls": 0, "msgs": 0, "errs": 0, "none": 0, "ctor_err": 0, "claims_in_map": 0,
                                  "decode_table": 0, "final_reasm_records": 0}
    observed = []
    for cfg, hist, profile in raw:
        ob = run_real(cfg, hist)
        observed.append(ob)
        lits.append(case_literal(cfg, hist, ob))
        dist[profile] = dist.get(profile, 0) + 1
        kinds = [o[0][0] for o in ob["obs"]]
        stats["calls"] += len(kinds)
        stats["msgs"] += kinds.count("msg")
        stats["errs"] += kinds.count("err")
        stats["none"] += kinds.count("none")
        stats["ctor_err"] += ob["ctor"] is not None
        stats["claims_in_map"] += sum(1 for _, e in ob["map"] if e is not None)
        stats["decode_table"] += len(ob["dec"])
        stats["final_reasm_records"] += len(ob["reasm"])
        if "msg" in kinds and ("none" in kinds or "err" in kinds):
            nontriv += 1
            keys.append(repr((cfg_json(cfg), [p.hex() for p, _ in hist])))
    r = run_cases(prop, name, IMPORTS, "ccase", "chk_case", lits, shard=max(8, min(60, len(lits) // 16 + 1)),
                  prelude=intern_prelude())
    INTERN = None
    r.update(name=name, distinct_nontrivial=distinct_count(keys),
             failing_cases=[case_json(raw[k][0], raw[k][1]) for k in r["failing"][:20]],
             samples=[{"config": cfg_json(raw[k][0]), "calls": len(raw[k][1]),
                       "first_outcomes": [o[0][0] for o in observed[k]["obs"][:8]]} for k in (0, len(raw) // 2)],
             distribution={"profiles": dist, **stats})
    return r


def correspond(ctx):
    reps = [corr_block(ctx, "C10", "ctl_filter", [("filter", ctx.n(150, 1500)), ("mixed", ctx.n(50, 500)),
                                                  ("claims", ctx.n(30, 300)), ("malformed", ctx.n(30, 300))],
                       extra_cases=CORPUS_C10())]
    remove_wrappers()
    return reps


def CORPUS_C10():
    """Regression configurations of F-include on a fixed small history (model vs repaired code)."""
    out = []
    hist = FIXED_HISTORY()
    for ex, inc in (([], ["rudder"]), ([], ["RUDDER", 127250]), ([], ["isoAddressClaim"]), ([], ["ISOADDRESSCLAIM", 127245]),
                    (["IsoAddressClaim"], []), ([60928, "vesselheading"], []), ([], [60928]), ([], [127250]),
                    ([127250, "Rudder"], []), ([], ["nosuch"])):
        out.append(({"ex": ex, "inc": inc, "exm": [], "incm": [], "nm": False}, hist))
    return out


def FIXED_HISTORY():
    name = 0xC0509B0022709BFB
    h = [mk_pkt(127250, 5, 255, 2, bytes.fromhex("01102700007fff7ffd")[:8]),
         mk_pkt(CLAIM, 5, 255, 6, name.to_bytes(8, "little")),
         mk_pkt(127245, 5, 255, 2, bytes.fromhex("00f8ff7f0a00ffff")),
         mk_pkt(127250, 7, 255, 2, bytes.fromhex("0210270000000000")),
         mk_pkt(CLAIM, 7, 255, 6, (name ^ 0x15).to_bytes(8, "little")),
         mk_pkt(127245, 7, 255, 2, bytes.fromhex("00f8ff7f0a00ffff"))]
    return [(p, False) for p in h]


# ------------------------------------------------------------------ property oracle C10 on the real code
def split_user(lst):
    return [x for x in lst if isinstance(x, int)], [x.lower() for x in lst if isinstance(x, str)]


def permitted(cfg, pgn, mid):
    exn, exi = split_user(cfg["ex"])
    inn, ini = split_user(cfg["inc"])
    if pgn in exn or mid.lower() in exi:
        return False
    return (not cfg["inc"]) or pgn in inn or mid.lower() in ini


def full_obs(dec, pkt, win):
    """Like observe, with the whole content of the message."""
    dec.started_at = datetime.now() if win else datetime.now() - timedelta(hours=1)
    try:
        r = dec.decode_tcp(pkt)
    except Exception:  # noqa: BLE001
        return None
    if r is None:
        return None
    return (r.PGN, r.id, r.description, r.source, r.destination, r.priority, iso_tuple(r.source_iso_name),
            repr(r.fields), r.hash)


def maps_of(dec):
    return {s: iso_tuple(i) for s, i in dec.source_to_iso_name.items()}


def c10_oracle(cfg, hist):
    """Filtered vs unfiltered real decoder on the same history. Returns None or (position, direction, text)."""
    try:
        f = make_decoder(cfg)
    except Exception:  # noqa: BLE001
        return None
    u = make_decoder({**cfg, "ex": [], "inc": []})
    for i, (pkt, win) in enumerate(hist):
        a, b = full_obs(f, pkt, win), full_obs(u, pkt, win)
        exp = b if (b is not None and permitted(cfg, b[0], b[1])) else None
        if a != exp:
            if a is not None and exp is None:
                d = "leak"
                t = f"call {i}: filtered decoder returned PGN {a[0]} ({a[1]}) which the filter does not permit"
            elif a is None:
                d = "lost"
                t = f"call {i}: unfiltered decoder returns permitted PGN {b[0]} ({b[1]}), filtered decoder returns nothing"
            else:
                d = "content"
                t = f"call {i}: PGN {b[0]} returned with different content by the filtered decoder"
            return i, d, t, (a or b)[0]
        if maps_of(f) != maps_of(u):
            return i, "srcmap", f"call {i}: source maps of filtered and unfiltered decoder differ", pkt_fields(pkt)[0]
    return None


def basic_line(pkt: bytes, t_ms: int) -> str:
    """the frame as a canboat plain line with the time stamp t_ms milliseconds after 2020-01-01 00:00:00"""
    pgn, src, dst, data = pkt_fields(pkt)
    prio = (int.from_bytes(pkt[1:5], "big") >> 26) & 7
    ts = datetime(2020, 1, 1) + timedelta(milliseconds=t_ms)
    return "%s,%d,%d,%d,%d,%d,%s" % (ts.strftime("%Y-%m-%d-%H:%M:%S.") + "%03d" % (ts.microsecond // 1000), prio, pgn, src, dst,
                                     len(data), ",".join("%02x" % b for b in data))


def c10_timed_oracle(cfg, hist, times):
    """the same comparison with the frames delivered as time-stamped text lines (one CAN frame per line), the stamps
    `times` (ms) growing by anything between a millisecond and a minute: what a filter permits does not depend on when the
    frames arrive"""
    try:
        f = make_decoder(cfg)
    except Exception:  # noqa: BLE001
        return None
    u = make_decoder({**cfg, "ex": [], "inc": []})
    past = datetime.now() - timedelta(hours=1)

    def obs(dec, line):
        dec.started_at = past
        try:
            r = dec.decode_basic_string(line, False)
        except Exception:  # noqa: BLE001
            return None
        if r is None:
            return None
        return (r.PGN, r.id, r.source, r.destination, r.priority, iso_tuple(r.source_iso_name), repr(r.fields))
    for i, ((pkt, _), t) in enumerate(zip(hist, times)):
        if not pkt_fields(pkt)[3]:
            continue                    # a frame without data bytes has no plain-text form
        line = basic_line(pkt, t)
        a, b = obs(f, line), obs(u, line)
        exp = b if (b is not None and permitted(cfg, b[0], b[1])) else None
        if a != exp:
            d = "leak" if (a is not None and exp is None) else ("lost" if a is None else "content")
            return i, d, (f"call {i} (time-stamped lines, stamp {t} ms): unfiltered decoder returns {b and b[:2]}, the filter permits "
                          f"{exp and exp[:2]}, filtered decoder returns {a and a[:2]}")
    return None


def cfg_shape(cfg):
    mode = "exclude" if cfg["ex"] else ("include" if cfg["inc"] else "none")
    l = cfg["ex"] or cfg["inc"]
    n, s = any(isinstance(x, int) for x in l), any(isinstance(x, str) for x in l)
    return mode + ":" + ("mixed" if n and s else "ids" if s else "numbers" if n else "empty")


def shrink(hist, fails, passes=4):
    """Greedy one-at-a-time removal keeping the failure, repeated until nothing more can be removed."""
    h = list(hist)
    for _ in range(passes):
        n0 = len(h)
        i = len(h) - 1
        while i >= 0 and len(h) > 1:
            t = h[:i] + h[i + 1:]
            if fails(t):
                h = t
            i -= 1
            i = min(i, len(h) - 1)
        if len(h) == n0:
            break
    return h


def shrink_cfg(cfg, fails):
    """Drop list entries of the configuration one at a time while the failure persists."""
    cfg = {k: (list(v) if isinstance(v, list) else v) for k, v in cfg.items()}
    for k in ("ex", "inc", "exm", "incm"):
        i = len(cfg[k]) - 1
        while i >= 0:
            t = {**cfg, k: cfg[k][:i] + cfg[k][i + 1:]}
            if fails(t):
                cfg = t
            i -= 1
    return cfg


def c10_witness(cfg, hist):
    r = c10_oracle(cfg, hist)
    if r is None:
        return None
    hist = shrink(hist[:r[0] + 1], lambda t: (c10_oracle(cfg, t) or (0, None))[1] == r[1])
    shape = cfg_shape(cfg)
    cfg = shrink_cfg(cfg, lambda c: cfg_shape(c) == shape and (c10_oracle(c, hist) or (0, None))[1] == r[1])
    r = c10_oracle(cfg, hist)
    return {"key": f"C10:{r[1]}:{cfg_shape(cfg)}:{'claim' if r[3] == CLAIM else 'data'}",
            "what": f"filter {cfg_json(cfg)['ex'] or cfg_json(cfg)['inc']} ({cfg_shape(cfg)}): {r[2]}",
            "kind": "c10", **case_json(cfg, hist)}


def search(ctx):
    rng = ctx.rng
    out, seen = [], set()
    cands = CORPUS_C10()
    for h in ctx.hints:
        for c in h.get("cases", []):
            if "config" in c:
                cands.append((cfg_unjson(c["config"]), hist_unjson(c["history"])))
    for _ in range(ctx.n(300, 3000)):
        cands.append(gen_case(ctx, rng, rng.choice(["filter", "filter", "mixed", "claims"])))
    cands += variant_cases(ctx, rng)
    for cfg, hist in cands:
        w = c10_witness(cfg, hist)
        if w and w["key"] not in seen:
            seen.add(w["key"])
            out.append(w)
    # the same with recording to a file switched on, the dump filter overlapping the decoder's own lists
    try:
        for cfg, hist in cands[:ctx.n(120, 1200)]:
            nums = [x for x in cfg["ex"] + cfg["inc"] if isinstance(x, int)]
            strs = [x for x in cfg["ex"] + cfg["inc"] if isinstance(x, str)]
            for dump in ([], nums[:2], strs[:1] + nums[:1]):
                if dump == [] and rng.random() < 0.6:
                    continue
                c2 = dict(cfg, dump=dump)
                w = c10_witness(c2, hist)
                if w:
                    w["key"] += ":with-dump"
                    w["what"] += f" [recording on, dump_pgns={dump}]"
                    if w["key"] not in seen:
                        seen.add(w["key"])
                        out.append(w)
    finally:
        cleanup_dumps()
    # the histories again as time-stamped text lines with gaps of up to a minute between frames
    for cfg, hist in cands[:ctx.n(150, 1500)]:
        if not hist:
            continue
        t, times = 0, []
        for _ in hist:
            t += rng.choice([1, 5, 20, 20, 100, 700, 2000, 11000, 30000, 61000])
            times.append(t)
        r = c10_timed_oracle(cfg, hist, times)
        if r and "C10:timed:" + r[1] not in seen:
            seen.add("C10:timed:" + r[1])
            keep = [True] * len(hist)
            for k in range(len(hist)):               # drop frames that are not needed (the stamps of the others stay)
                if k == r[0]:
                    continue
                keep[k] = False
                hh = [h_ for h_, kp in zip(hist, keep) if kp]
                tt = [t_ for t_, kp in zip(times, keep) if kp]
                r2 = c10_timed_oracle(cfg, hh, tt)
                if not (r2 and r2[1] == r[1]):
                    keep[k] = True
            hh = [h_ for h_, kp in zip(hist, keep) if kp]
            tt = [t_ for t_, kp in zip(times, keep) if kp]
            r2 = c10_timed_oracle(cfg, hh, tt) or r
            out.append({"key": "C10:timed:" + r[1], "kind": "c10-timed", "what": r2[2] + f" (filter ex={cfg['ex']} inc={cfg['inc']})",
                        "times": tt, **case_json(cfg, hh)})
    return out


def variant_cases(ctx, rng):
    """fast-packet PGNs with several definitions (same PGN, different ids): variant A is filtered out BY ID (decided
    only after reassembly), variant B is permitted; A then B on the same stream — with the same and with the next
    sequence counter — so that whatever the dropped message leaves behind meets the following permitted one"""
    from props import c08 as C8
    Dec = _impl()[0]
    out = []
    for pgn, g in C8._groups(C8._db()).items():
        if len(out) >= ctx.n(12, 60):
            break
        if not (len(g) > 1 and any(C8._match_fields(d) for d in g)) or not Dec._isFastPGN(pgn):
            continue
        nb = max([8] + [d.get("Length", 8) for d in g if isinstance(d.get("Length", 8), int)])
        by_id = {}
        for q in C8._payloads(g, rng, 2):
            d = C8._spec_select(g, q)
            if d is None:
                continue
            data = (q & ((1 << (8 * nb)) - 1)).to_bytes(nb, "little")
            line = "2020-01-01-00:00:00.000,3,%d,5,255,%d,%s" % (pgn, nb, ",".join("%02x" % b for b in data))
            try:
                m = Dec().decode_basic_string(line, True)
            except Exception:  # noqa: BLE001
                continue
            if m is not None and m.id == d["Id"]:
                by_id.setdefault(m.id, data)
        ids = sorted(by_id)
        if len(ids) < 2:
            continue
        a, b = rng.sample(ids, 2)
        dst = 255 if not is_pdu1(pgn) else 17

        def frames(data, seq, pgn=pgn, dst=dst):
            return [(mk_pkt(pgn, 5, dst, 3, (f + bytes([0xFF] * 8))[:8], 8), False) for f in fast_frames(data, seq)]
        sq = rng.randrange(8)
        hist = frames(by_id[a], sq) + frames(by_id[b], sq) + frames(by_id[a], (sq + 1) % 8) + frames(by_id[b], (sq + 2) % 8)
        rc = "".join(ch.upper() if rng.random() < 0.5 else ch.lower() for ch in a)
        for cfg in ({"ex": [rc], "inc": []}, {"ex": [], "inc": [b]}, {"ex": [], "inc": [b, 127250]}):
            out.append(({**cfg, "exm": [], "incm": [], "nm": False}, hist))
    return out


def replay(ctx, data):
    w = data.get("witness", data)
    if w.get("kind") == "c10-timed":
        r = c10_timed_oracle(cfg_unjson(w["config"]), hist_unjson(w["history"]), w["times"])
        print("expected: filtered output = the permitted part of the unfiltered output, whenever the frames arrive")
        print("observed:", r[2] if r else "property holds on this input")
        return r is not None
    if w.get("kind") != "c10":
        print("observed: not a C10 history witness")
        return False
    try:
        r = c10_oracle(cfg_unjson(w["config"]), hist_unjson(w["history"]))
    finally:
        cleanup_dumps()
    print("expected: filtered output = unfiltered output restricted to the permitted PGNs, same source maps")
    print("observed:", r[2] if r else "property holds on this input")
    return r is not None


def gen(ctx):
    import tr_init
    rep = tr_init.db_hypotheses(os.path.join(vlib.REPO, "nmea2000", "pgns.py"))
    ctx.extra_obligations.append({"name": "tr_init.db_hypotheses(pgns.py): decode_pgn_N builds PGN N; id isoAddressClaim "
                                          "<-> 60928; 60928 single-frame", "ok": rep["ok"], "detail": rep["detail"]})
    ctx.notes.append(f"db hypotheses checked on {rep['n']} decode functions")
    obl_c10(ctx)


def obl_c10(ctx):
    """C10 / C11 for the code of this run: the database hypotheses of the generic theorems decided by the kernel on
    the regenerated tables, theorems instantiated with the composed decode function of those tables (OblC10.v)"""
    import gen as G
    g = G.ensure_gen()
    if not g["ok"]:
        ctx.extra_obligations.append({"name": "translation of nmea2000/pgns.py + canboat.json", "ok": False,
                                      "detail": g.get("refused") or g.get("error")})
        ctx.hints.append({"kind": "translator", "detail": g.get("refused") or g.get("error")})
        return
    ok, out = G.compile_template("OblC10")
    for nm in G.theorem_names("OblC10"):
        ctx.extra_obligations.append({"name": f"OblC10.v:{nm}", "ok": ok, "detail": out[-800:] if not ok else ""})
    if not ok:
        ctx.hints.append({"kind": "tables", "diag": "OblC10.v: " + " ".join(out.split())[-800:]})
