"""ence2e — ENCODER END-TO-END correspondence of the composed encoder model (coq/theories/EncEndToEnd.v) with the real
NMEA2000Encoder: message object in, packets (bytes / Actisense line) out, on whole sequences through ONE encoder object.

Library module (called from the C06 check): gen(ctx), correspond(ctx, prop=...), search(ctx), replay(ctx, data).

Tie: ONE real NMEA2000Encoder per case encodes a seeded sequence of 5-30 messages in one gateway format; the messages are
real decoded messages (a payload composed from canboat.json for an encodable definition, decoded by a real
NMEA2000Decoder) with varied source / destination / priority, mixed with messages the encoder must refuse; per call the
packets (or the kind of the exception) become Gallina literals and the kernel decides, call after call,
`enc_e2e_step <tables regenerated from /repo> fmt seq msg = observed` (tools/templates/CorrEncEndToEnd.v: chk_ence2e),
threading the MODEL's sequence counter, and finally compares it with the real `sequence_counter`.

Search: the property text of C06 on the real code, independent of the Coq model: the packets of every call are given to
a FRESH real decoder of the matching format and must come back as ONE message with the PGN, id, source, destination
(255 for broadcast PGNs), priority and field values / raw values of the message that was encoded (= the decoding of the
original payload)."""
from __future__ import annotations
import copy
import os
import random
import re
import time

import vlib
from vlib import cz, clist, ctuple, cstr_z, run_cases, distinct_count
import gen as G
import obs as O
import payloads as PL
import enc_common as EC

RULE = ("a case = (gateway format, sequence of 5-30 messages through ONE NMEA2000Encoder object); messages: decodings (real "
        "decoder) of payloads composed from the database for every encodable definition in turn (in range / all ones / zero / "
        "random, random bits in the positions no field covers), single-frame and fast-packet PGNs mixed, source / destination "
        "/ priority boundary-heavy (incl. out of range), lookups given by name, plus messages the encoder must refuse: a field "
        "removed, a value out of range / of the wrong type, unknown PGN, unknown id of a dispatched PGN, a definition that is "
        "not encodable; non-trivial = at least one fast-packet and one single-frame message encoded and one refused; distinct "
        "by (format, sequence)")
TRUSTED = ["EncEndToEnd.v composes the existing models (Encode.v run_edef on the tables translated from /repo by tools/tr_pgns.py, "
           "EndToEnd.v tbl_is_fast, FastPacket.v encode_fast, Wire.v enc_*, Header.v build_header); the glue (lookup order of the "
           "encode function names, order of checks / encode function / is_fast / segmentation, the counter, ValueError wrapping) is "
           "tied to the code only by the correspondence cases of this run",
           "exception kinds: ValueError(e) of _call_encode_function is compared through its wrapped exception e.args[0] "
           "(tools/obs.py: err_of), the other ValueErrors by the function that raised them"]
ASSUMPTIONS = ["a call on which the model stops (binary32 of a double that is not representable, int/int true division outside "
               "the modelled range) ends the comparison of its sequence; such cases are counted",
               "field values are None / int / float / str / bytes / date / time (what the decoders produce)"]

IMPORTS = ("From NV Require Import Base Defn Fields CorrFields CorrEncode EncEndToEnd.\n"
           "From NVGen Require Import CorrEncEndToEnd.")
FMT = ["FEbyte", "FUsb", "FYd", "FActi"]
FMT_NAME = ["ebyte", "usb", "yd", "acti"]
PREFIX = {0: "", 1: "", 2: "00:00:00.000 R ", 3: "A000001.000 "}
DEPS = ("OblC01", "OblC02", "OblC02rt", "OblC08", "OblE2E")


# ------------------------------------------------------------------ the database, as the harness reads it
def _defs():
    """[(definition, encodable?)] of the definitions that own a bound function"""
    grp = PL.groups()
    out = []
    for d in PL.definitions():
        g = grp[d["PGN"]]
        multi = len(g) > 1 and any("Match" in f for x in g for f in x["Fields"])
        if not multi and d is not g[-1]:
            continue                     # a later definition of the same PGN replaces the function
        if not PL.fixed_layout(d) or not PL.supported(d):
            continue
        out.append((d, EC.encodable(d)))
    return out


def _find_def(pgn, mid):
    for d in PL.definitions():
        if d["PGN"] == pgn and d["Id"] == mid:
            return d
    return None


def _is_pdu1(pgn) -> bool:
    return ((pgn >> 8) & 0xFF) < 240


def _nbytes(d, p: int) -> int:
    ln = d.get("Length")
    return max(ln if isinstance(ln, int) else 0, (p.bit_length() + 7) // 8, 1)


def _gap_mask(d, nb: int) -> int:
    """bits of the first nb bytes that no field of d covers"""
    m = (1 << (8 * nb)) - 1
    for f in d["Fields"]:
        m &= ~(((1 << f["BitLength"]) - 1) << f["BitOffset"])
    return m


def compose_payload(d, rng, mode=None) -> bytes:
    mode = mode or rng.choice(["inrange"] * 6 + ["ones", "zero", "random"])
    p = PL.compose(d, rng, mode=mode)
    nb = _nbytes(d, p)
    if rng.random() < 0.5:
        p |= rng.getrandbits(8 * nb) & _gap_mask(d, nb)        # what no field covers is not data
    return p.to_bytes(nb, "little")


# ------------------------------------------------------------------ message descriptions (JSON-able; replayable)
# desc = {"pgn", "id", "payload" (hex), "src", "dst", "prio", "mut": None | [kind, ...]}
def decode_payload(dec, pgn: int, payload: bytes):
    line = "2020-01-01-00:00:00.000,3,%d,1,255,%d,%s" % (pgn, len(payload), ",".join("%02x" % b for b in payload))
    try:
        return dec.decode_basic_string(line, True)
    except Exception:  # noqa: BLE001
        return None


def build(desc, dec):
    """the message object a description stands for (None when the payload no longer decodes)"""
    from nmea2000.message import NMEA2000Message
    mut = desc.get("mut")
    if mut and mut[0] == "bare":
        m = NMEA2000Message(PGN=desc["pgn"], id=desc["id"])
    else:
        m = decode_payload(dec, desc["pgn"], bytes.fromhex(desc["payload"]))
        if m is None:
            return None
        m = copy.deepcopy(m)
    m.source, m.destination, m.priority = desc["src"], desc["dst"], desc["prio"]
    if not mut or mut[0] == "bare":
        return m
    k = mut[0]
    if k == "drop" and m.fields:
        del m.fields[mut[1] % len(m.fields)]
    elif k == "value" and m.fields:
        f = m.fields[mut[1] % len(m.fields)]
        f.value = f.raw_value = {"huge": 1e30, "neg": -1.0e12, "text": "x", "none": None, "int": 10 ** 9}[mut[2]]
    elif k == "by-name" and m.fields:
        for f in m.fields:
            if f.type.name == "LOOKUP":
                f.raw_value = None
    elif k == "id":
        m.id = mut[1]
    elif k == "pgn":
        m.PGN = mut[1]
    return m


def gen_header(rng, pgn, wild=False):
    src = rng.choice([0, 1, 35, 254, 255, rng.getrandbits(8)])
    prio = rng.getrandbits(3)
    if _is_pdu1(pgn):
        dst = rng.choice([255, 255, 0, 17, rng.getrandbits(8)])
    else:
        dst = 255 if not wild or rng.random() < 0.7 else rng.getrandbits(8)
    if wild and rng.random() < 0.12:
        k = rng.randrange(3)
        if k == 0:
            src = rng.choice([256, -1, 300, 1 << 20])
        elif k == 1:
            prio = rng.choice([8, -1, 15, 16])
        else:
            dst = rng.choice([256, -1, 300, 1000])
    return src, dst, prio


class Source:
    """draws message descriptions: every encodable definition in turn (shuffled), and the refusals"""

    def __init__(self, rng, wild):
        from nmea2000.decoder import NMEA2000Decoder
        self.rng, self.wild = rng, wild
        self.dec = NMEA2000Decoder()
        ds = _defs()
        self.enc = [d for d, e in ds if e]
        self.unenc = [d for d, e in ds if not e]
        rng.shuffle(self.enc)
        self.k = 0

    def valid(self, fast=None):
        rng = self.rng
        for _ in range(len(self.enc)):
            d = self.enc[self.k % len(self.enc)]
            self.k += 1
            if fast is None or (d.get("Type") == "Fast") == fast:
                break
        for _ in range(6):
            pl = compose_payload(d, rng)
            m = decode_payload(self.dec, d["PGN"], pl)
            if m is not None and EC.modellable(m):
                src, dst, prio = gen_header(rng, d["PGN"], self.wild)
                return {"pgn": d["PGN"], "id": m.id, "payload": pl.hex(), "src": src, "dst": dst, "prio": prio, "mut": None}
        return None

    def refused(self):
        rng = self.rng
        r = rng.random()
        if r < 0.15:
            pgn = rng.choice([65300, 130000, 0x1F100, 99999, 0, 262143, 262144, -5, 127250 * 10])
            s, d, p = gen_header(rng, max(pgn, 0))
            return {"pgn": pgn, "id": rng.choice(["x", "", "vesselHeading"]), "payload": "", "src": s, "dst": d, "prio": p,
                    "mut": ["bare"]}
        if r < 0.27 and self.unenc:
            d = rng.choice(self.unenc)
            pl = compose_payload(d, rng, "inrange")
            m = decode_payload(self.dec, d["PGN"], pl)
            if m is not None and EC.modellable(m):
                s, dd, p = gen_header(rng, d["PGN"])
                return {"pgn": d["PGN"], "id": m.id, "payload": pl.hex(), "src": s, "dst": dd, "prio": p, "mut": None}
        base = self.valid()
        if base is None:
            return None
        k = rng.random()
        if k < 0.3:
            base["mut"] = ["drop", rng.randrange(64)]
        elif k < 0.65:
            base["mut"] = ["value", rng.randrange(64), rng.choice(["huge", "neg", "text", "none", "int"])]
        elif k < 0.8:
            base["mut"] = ["id", rng.choice(["noSuchDefinition", "", base["id"].upper(), "nmeaRequestGroupFunction"])]
        elif k < 0.9:
            base["mut"] = ["pgn", rng.choice([base["pgn"] + 1, 99999, 126208, 127250])]
        else:
            base["mut"] = ["by-name"]
        return base


def gen_history(rng, n, wild=True):
    src = Source(rng, wild)
    out = []
    fast_next = None
    while len(out) < n:
        r = rng.random()
        d = src.refused() if r < 0.22 else src.valid(fast_next)
        fast_next = None
        if len(out) == 1:
            fast_next = True          # every case has both kinds early on
        elif len(out) == 2:
            fast_next = False
        if d is not None:
            out.append(d)
    return out


# ------------------------------------------------------------------ observing the real encoder
def classify(e: BaseException) -> str:
    """the exception as the layer that raised it names it in its model"""
    tb, last = e.__traceback__, None
    pkg = os.path.join(os.path.realpath(vlib.REPO), "nmea2000") + os.sep
    while tb is not None:
        fn = os.path.realpath(tb.tb_frame.f_code.co_filename)
        if fn.startswith(pkg):
            last = (os.path.basename(fn), tb.tb_frame.f_code.co_name)
        tb = tb.tb_next
    if last is None:
        return "EAssert"
    f, fun = last
    if f == "encoder.py" and fun == "_call_encode_function":
        if type(e) is not ValueError:
            return "EAssert"
        inner = e.args[0] if e.args else None
        if isinstance(inner, BaseException):
            return O.err_of(inner)                 # Encode.v: what the generated function raised
        return "EMalformed"                        # EncEndToEnd.v tbl_encode: no encoding function
    if f == "encoder.py" and fun == "_encode":
        return "EMalformed" if type(e) is ValueError else "EAssert"          # Wire.v enc_check
    if f == "encoder.py" and fun == "_encode_fast_message":
        return "ERange" if type(e) is ValueError else "EAssert"              # FastPacket.v encode_fast: bytes([length])
    if f == "encoder.py" and fun in ("encode_ebyte", "encode_usb", "encode_yacht_devices"):
        if isinstance(e, OverflowError):
            return "ERange"                                                    # to_bytes(4)
        return "EMalformed" if type(e) is ValueError else "EAssert"          # bytes([len(message)])
    if f == "pgns.py" and fun.startswith("is_fast_pgn_"):
        return "EUnsupported"                                                  # EndToEnd.v tbl_is_fast
    return "EAssert"                               # never produced by the model: always a disagreement


def call(enc, fmt: int, m):
    try:
        r = [enc.encode_ebyte, enc.encode_usb, enc.encode_yacht_devices, enc.encode_actisense][fmt](m)
    except Exception as e:  # noqa: BLE001
        return ("err", classify(e), type(e).__name__)
    if fmt == 3:
        return ("ok", [r])
    return ("ok", list(r))


def run_real(fmt: int, descs):
    """[(desc, message, observation)] of the messages that could be built, and the final sequence counter"""
    from nmea2000.decoder import NMEA2000Decoder
    from nmea2000.encoder import NMEA2000Encoder
    dec, enc = NMEA2000Decoder(), NMEA2000Encoder()
    out = []
    for d in descs:
        m = build(d, dec)
        if m is None or not EC.modellable(m) or not isinstance(m.id, str):
            continue
        lit = cmsg(m)             # before the call: what the encoder is given
        out.append((d, m, call(enc, fmt, m), lit))
    return out, getattr(enc, "sequence_counter", -1)      # (-1: the encoder no longer has this attribute - a disagreement, not a crash)


# ------------------------------------------------------------------ Gallina literals
def cpacket(p) -> str:
    if isinstance(p, (bytes, bytearray)):
        return clist(str(x) for x in p)
    return clist(str(ord(c)) for c in p)


def cmsg(m) -> str:
    return ctuple(cz(m.PGN), cstr_z(m.id), cz(m.source), cz(m.destination), cz(m.priority), EC.fields_lit(m))


def cobs(o) -> str:
    if o[0] == "err":
        return f"(YErr {o[1]})"
    return "(YPk " + clist(cpacket(p) for p in o[1]) + ")"


def case_literal(fmt: int, rows, final: int) -> str:
    return f"(Y {FMT[fmt]}\n   " + clist(ctuple(lit, cobs(o)) for _d, _m, o, lit in rows) + f"\n   {cz(final)})"


# ------------------------------------------------------------------ the per-run theorem
def gen(ctx):
    """compile tools/templates/OblEncE2E.v (ENC_E2E_* theorems) against the tables regenerated from /repo; one obligation
    per theorem in ctx.extra_obligations (call from the gen() of the check that hosts this module)"""
    g = G.ensure_gen()
    if not g["ok"]:
        return
    ok, out = G.compile_template("OblEncE2E", deps=DEPS)
    for nm in G.theorem_names("OblEncE2E"):
        ctx.extra_obligations.append({"name": f"OblEncE2E.v:{nm}", "ok": ok, "detail": out[-800:] if not ok else ""})
    flat = " ".join(out.split())
    m = re.search(r"\(99999,\s*(\d+)%nat,\s*(\d+)%nat,\s*(\d+)%nat,\s*(\d+)%nat\)", flat)
    if m:
        ctx.notes.append(f"encoder end-to-end theorems: of {m.group(1)} encodable definitions, ENC_E2E_actisense (whole payload, "
                         f"every PGN) covers {m.group(2)}; ENC_E2E_ebyte / ENC_E2E_usb (single-frame PGNs: packet -> decoder -> "
                         f"same message) cover {m.group(3)}; ENC_E2E_fast_frames (fast-packet PGNs: frames = segment seq payload, "
                         f"reassembled by the C03 reassembler) covers {m.group(4)}")
    if not ok:
        ctx.hints.append({"kind": "tables", "diag": "OblEncE2E.v: " + flat[-800:]})
    # the closing corollary for fast-packet PGNs: the encoder's packets, fed frame by frame to the composed decoder,
    # return the message at the last frame (needs the fast-packet decoder theorems OblE2Efast)
    ok3, out3 = G.compile_template("OblE2EfastEnc", deps=DEPS + ("OblEncE2E", "OblE2Efast"))
    for nm in G.theorem_names("OblE2EfastEnc"):
        ctx.extra_obligations.append({"name": f"OblE2EfastEnc.v:{nm}", "ok": ok3, "detail": out3[-800:] if not ok3 else ""})
    m3 = re.search(r"\(66666,\s*(\d+)%nat\)", " ".join(out3.split()))
    if m3:
        ctx.notes.append(f"E2E_fast_roundtrip_ebyte / _usb (decode(encode(decode p)) = decode p frame by frame through the "
                         f"control layer's reassembly) cover {m3.group(1)} fast-packet definitions")
    if not ok3:
        ctx.hints.append({"kind": "tables", "diag": "OblE2EfastEnc.v: " + " ".join(out3.split())[-800:]})


# ------------------------------------------------------------------ correspondence
def correspond(ctx, prop=None, n_cases=None):
    prop = prop or ctx.prop
    g = G.ensure_gen()
    if not g["ok"]:
        return [{"name": "encoder end to end: tables could not be regenerated", "n": 0, "failing": [], "errors":
                 [str(g.get("refused") or g.get("error"))], "distinct_nontrivial": 0}]
    ok, out = G.compile_template("CorrEncEndToEnd")
    if not ok:
        return [{"name": "encoder end to end: CorrEncEndToEnd.v does not compile against the regenerated tables", "n": 0,
                 "failing": [], "errors": [out[-1500:]], "distinct_nontrivial": 0}]
    rng = random.Random(f"ence2e:{prop}:{ctx.seed}:{ctx.tier}")
    n = n_cases if n_cases is not None else ctx.n(48, 600)
    t0 = time.time()
    raw, lits, keys = [], [], []
    dist = {"cases_per_format": {}, "calls": 0, "calls_per_format": {}, "encoded": 0, "encoded_fast_packet": 0,
            "encoded_single_frame": 0, "packets": 0, "errs": {}, "defs": set(), "pgns": set(), "refused_by_class": {},
            "final_counters": {}, "header_out_of_range": 0}
    for k in range(n):
        fmt = k % 4
        descs = gen_history(rng, rng.randint(5, 30))
        rows, final = run_real(fmt, descs)
        raw.append((fmt, [r[0] for r in rows]))
        lits.append(case_literal(fmt, rows, final))
        nm = FMT_NAME[fmt]
        dist["cases_per_format"][nm] = dist["cases_per_format"].get(nm, 0) + 1
        dist["final_counters"][str(final)] = dist["final_counters"].get(str(final), 0) + 1
        nf = ns = ne = 0
        for d, m, o, _l in rows:
            dist["calls"] += 1
            dist["calls_per_format"][nm] = dist["calls_per_format"].get(nm, 0) + 1
            if not (0 <= d["src"] <= 255 and 0 <= d["prio"] <= 7 and 0 <= d["dst"] <= 255):
                dist["header_out_of_range"] += 1
            if o[0] == "ok":
                dist["encoded"] += 1
                dist["packets"] += len(o[1])
                dd = _find_def(m.PGN, m.id)
                if dd is not None:
                    dist["defs"].add((m.PGN, m.id))
                dist["pgns"].add(m.PGN)
                if dd is not None and dd.get("Type") == "Fast":
                    nf += 1
                else:
                    ns += 1
            else:
                ne += 1
                key = o[1] + "/" + o[2]
                dist["errs"][key] = dist["errs"].get(key, 0) + 1
                cls = (d.get("mut") or ["unmutated"])[0]
                dist["refused_by_class"][cls] = dist["refused_by_class"].get(cls, 0) + 1
        dist["encoded_fast_packet"] += nf
        dist["encoded_single_frame"] += ns
        if nf and ns and ne:
            keys.append(repr((fmt, [sorted(x.items(), key=str) for x in raw[-1][1]])))
    dist["distinct_definitions_encoded"] = len(dist.pop("defs"))
    dist["distinct_pgns_encoded"] = len(dist.pop("pgns"))
    dist["real_run_s"] = round(time.time() - t0, 2)
    r = run_cases(prop, "ence2e", IMPORTS, "ycase", "chk_ence2e", lits, shard=max(2, min(8, len(lits) // 16 + 1)),
                  count="y_unmodelled")
    r.update(name="ENCODER END TO END: real NMEA2000Encoder (message -> packets of encode_ebyte / usb / yacht_devices / "
                  "actisense, one long-lived object per sequence) vs enc_e2e_step on the regenerated tables",
             distinct_nontrivial=distinct_count(keys), unmodelled=r.get("counted", 0),
             failing_cases=[case_json(*raw[k]) for k in r["failing"][:20]],
             samples=[{"format": FMT_NAME[raw[k][0]], "calls": len(raw[k][1]),
                       "first": [[d["pgn"], d["id"], (d.get("mut") or [None])[0]] for d in raw[k][1][:6]]}
                      for k in (0, len(raw) // 2, len(raw) - 1)] if raw else [],
             distribution=dist)
    return [r]


def case_json(fmt, descs):
    return {"kind": "ence2e", "fmt": fmt, "history": descs}


# ------------------------------------------------------------------ the property text, tested directly on the real code
def _plain_fields(m):
    return [(f.id, repr(f.value), repr(f.raw_value)) for f in m.fields]


def _close(a, b) -> bool:
    if isinstance(a, (int, float)) and isinstance(b, (int, float)) and not isinstance(a, bool):
        return abs(a - b) <= max(abs(a), abs(b)) * 2.0 ** -50
    return False


def _same_fields(orig, back, d):
    """None or text: `back` carries the field values and raw values of `orig` (fields wider than 48 bits: to within the
    precision of a double, as C02 states)"""
    if len(orig.fields) != len(back.fields):
        return f"{len(back.fields)} fields instead of {len(orig.fields)}"
    wide = {}
    if d is not None:
        wide = {i for i, f in enumerate(d["Fields"]) if f.get("BitLength", 0) > 48}
    for i, (x, y) in enumerate(zip(orig.fields, back.fields)):
        if (x.id, repr(x.value), repr(x.raw_value)) == (y.id, repr(y.value), repr(y.raw_value)):
            continue
        if x.id == y.id and i in wide and _close(x.value, y.value) and _close(x.raw_value, y.raw_value):
            continue
        return (f"field {x.id}: value {x.value!r} raw {x.raw_value!r} came back as {y.id}: value {y.value!r} raw {y.raw_value!r}")
    return None


def _direct_encodable(m, d) -> bool:
    """does the generated encode function of the message's definition accept it? (independent of NMEA2000Encoder)"""
    import nmea2000.pgns as P
    fn = getattr(P, "encode_pgn_" + PL.func_suffix(d), None)
    if fn is None:
        return False
    try:
        return isinstance(fn(copy.deepcopy(m)), (bytes, bytearray))
    except Exception:  # noqa: BLE001
        return False


def _decode_packets(fmt: int, pkts, dec=None):
    from nmea2000.decoder import NMEA2000Decoder
    dec = dec or NMEA2000Decoder()
    got = []
    for p in pkts:
        if fmt == 0:
            r = dec.decode_tcp(bytes(p))
        elif fmt == 1:
            r = dec.decode_usb(bytes(p))
        elif fmt == 2:
            r = dec.decode_yacht_devices_string(PREFIX[2] + p.decode())
        else:
            r = dec.decode_actisense_string(PREFIX[3] + p)
        if r is not None:
            got.append(r)
    return got


def oracle(fmt: int, descs):
    """the sequence through ONE encoder; None, or (index, class, text) of the first call that breaks the property"""
    from nmea2000.decoder import NMEA2000Decoder
    from nmea2000.encoder import NMEA2000Encoder
    dec, enc = NMEA2000Decoder(), NMEA2000Encoder()
    ldec = NMEA2000Decoder()      # the receiving side of the link: ONE decoder that sees every packet of the sequence
    for i, desc in enumerate(descs):
        m = build(desc, dec)
        if m is None:
            continue
        d = _find_def(m.PGN, m.id) if isinstance(m.id, str) else None
        in_range = (0 <= desc["src"] <= 255 and 0 <= desc["prio"] <= 7 and 0 <= desc["dst"] <= 255
                    and (_is_pdu1(desc["pgn"]) or desc["dst"] == 255))
        judged = (desc.get("mut") in (None, ["by-name"]) and d is not None and EC.encodable(d) and in_range
                  and _direct_encodable(m, d))
        orig = build(dict(desc, mut=None), dec) if judged else None      # the decoding of the original payload
        try:
            pk = [enc.encode_ebyte, enc.encode_usb, enc.encode_yacht_devices, enc.encode_actisense][fmt](m)
        except Exception as e:  # noqa: BLE001
            if judged:
                return i, "encode-raises", (f"{FMT_NAME[fmt]}: call {i}: PGN {m.PGN} {m.id} (payload {desc['payload']}) is accepted by "
                                            f"its generated encode function, but the encoder raised {e!r}")
            continue
        if not judged:
            continue
        if fmt == 3:
            pk = [pk]
        try:
            got = _decode_packets(fmt, pk)
        except Exception as e:  # noqa: BLE001
            if fmt == 3 and len(pk[0].split()) < 3:
                # a definition without fixed Length is serialised with the minimal number of bytes: none for an all-zero message
                return i, "empty-payload", (f"acti: call {i}: PGN {m.PGN} {m.id} (payload {desc['payload']}) is encoded to an EMPTY "
                                            f"payload; the Actisense line {pk[0]!r} carries no data and the decoder raises {e!r}")
            return i, "decode-raises", (f"{FMT_NAME[fmt]}: call {i}: the {len(pk)} packet(s) of PGN {m.PGN} {m.id} made the decoder "
                                        f"raise {e!r}")
        shown = [p.hex() if isinstance(p, (bytes, bytearray)) else p for p in pk][:3]
        if len(got) != 1:
            return i, "count", (f"{FMT_NAME[fmt]}: call {i}: the {len(pk)} packet(s) of PGN {m.PGN} {m.id} decode to {len(got)} "
                                f"message(s), not one (packets {shown})")
        b = got[0]
        exp = (orig.PGN, orig.id, desc["src"], desc["dst"] if _is_pdu1(orig.PGN) else 255, desc["prio"])
        if (b.PGN, b.id, b.source, b.destination, b.priority) != exp:
            return i, "header", (f"{FMT_NAME[fmt]}: call {i}: PGN/id/source/destination/priority {exp} came back as "
                                 f"{(b.PGN, b.id, b.source, b.destination, b.priority)} (packets {shown})")
        why = _same_fields(orig, b, d)
        if why:
            return i, "fields", f"{FMT_NAME[fmt]}: call {i}: PGN {m.PGN} {m.id} payload {desc['payload']}: {why} (packets {shown})"
        # the same packets into the long-lived decoder that has seen all earlier packets of this sequence
        try:
            lgot = _decode_packets(fmt, pk, ldec)
        except Exception as e:  # noqa: BLE001
            return i, "long-lived-decoder", (f"{FMT_NAME[fmt]}: call {i}: the packets of PGN {m.PGN} {m.id} decode on a new decoder but "
                                             f"make the decoder that received the {i} earlier messages raise {e!r}")
        if len(lgot) != 1 or (lgot[0].PGN, lgot[0].id, lgot[0].source, lgot[0].destination, lgot[0].priority) != exp \
                or _same_fields(orig, lgot[0], d):
            return i, "long-lived-decoder", (f"{FMT_NAME[fmt]}: call {i}: PGN {m.PGN} {m.id} from source {desc['src']}: a new decoder "
                                             f"returns the message, the decoder that received the {i} earlier messages of the sequence "
                                             f"returns {len(lgot)} message(s)" + ("" if len(lgot) != 1 else " with other content")
                                             + f" (packets {shown})")
    return None


def witness(fmt: int, descs):
    r = oracle(fmt, descs)
    if r is None:
        return None
    descs = descs[:r[0] + 1]
    if oracle(fmt, descs[-1:]) is not None:
        descs = descs[-1:]
    else:
        from props import c10 as H
        descs = H.shrink(descs, lambda t: oracle(fmt, t) is not None, passes=2)
    r = oracle(fmt, descs)
    return {"key": f"ence2e:{FMT_NAME[fmt]}:{r[1]}:{'sequence' if len(descs) > 1 else 'single'}", "kind": "ence2e", "fmt": fmt,
            "what": r[2] + (f" [after {len(descs) - 1} earlier message(s) through the same encoder object]" if len(descs) > 1 else ""),
            "history": descs}


def search(ctx):
    rng = random.Random(f"ence2e-search:{ctx.seed}")
    out, seen = [], set()
    cands = []
    for h in ctx.hints:
        for c in h.get("cases", []):
            if isinstance(c, dict) and c.get("kind") == "ence2e":
                cands.append((int(c["fmt"]), c["history"]))
    for k in range(ctx.n(60, 600)):
        cands.append((k % 4, gen_history(rng, rng.randint(5, 30), wild=False)))
    # one message kind many times in a row through one encoder (a device's periodic message): 20 repeats of a fast-packet
    # message, same source; and the same with seven other sources in between (counter wrap-around seen by one receiver)
    for k in range(ctx.n(8, 40)):
        src_ = Source(rng, False)
        d0 = src_.valid(True)
        if d0 is None:
            continue
        reps = [dict(d0) for _ in range(20)]
        cands.append((k % 3, reps))
        mixed = []
        for j in range(20):
            x = dict(d0)
            x["src"] = (d0["src"] + (j % 8)) % 252
            mixed.append(x)
        cands.append(((k + 1) % 3, mixed))
    for fmt, descs in cands:
        if not descs:
            continue
        w = witness(fmt, descs)
        if w and w["key"] not in seen:
            seen.add(w["key"])
            out.append(w)
    return out


def replay(ctx, data):
    w = data.get("witness", data)
    if w.get("kind") != "ence2e":
        print("observed: not an encoder end-to-end witness")
        return False
    r = oracle(int(w["fmt"]), w["history"])
    print("expected: the packets of every encodable message, given to a fresh decoder of the same gateway format, come back as ONE "
          "message with the same PGN, id, source, destination (255 for broadcast PGNs), priority, field values and raw values")
    print("observed:", r[2] if r else "property holds on this input")
    return r is not None
