"""C11 — messages carry the identity of their source's latest address claim; manufacturer filters; discovery.

Model, case format and harness are shared with C10 (tools/props/c10.py, coq/theories/DecoderCtl.v). Here the
histories are claim-heavy: data before claim, repeated identical claims, re-claims with a different NAME, two
addresses with one NAME, undecodable claims, claims of manufacturers that are not in the lookup table, claims
inside a fast-packet message; manufacturer lists in mixed case; network map on/off; the discovery window is
controlled by setting decoder.started_at from outside before every call."""
from __future__ import annotations
import os

import vlib
from props import c10 as H

PROPS_FILES = ["props/C11.v"]
RULE = H.RULE + "; C11 emphasis: claim-heavy histories, manufacturer include/exclude lists, clock in / out of / across the window"
TRUSTED = H.TRUSTED
ASSUMPTIONS = H.ASSUMPTIONS + [
    "reading choice: 'most recent claim received' = most recent claim whose payload decodes (a claim whose fields are "
    "outside their database range raises and cannot supply an identity)",
    "the clock is an input of each call (in_window = started_at > now - 10 min); the harness forces it by setting "
    "decoder.started_at; datetime arithmetic itself is not modelled"]
ALWAYS_SEARCH = True
CLAIM = H.CLAIM


def gen(ctx):
    import tr_init
    rep = tr_init.db_hypotheses(os.path.join(vlib.REPO, "nmea2000", "pgns.py"))
    ctx.extra_obligations.append({"name": "tr_init.db_hypotheses(pgns.py): decode_pgn_N builds PGN N; id isoAddressClaim "
                                          "<-> 60928; 60928 single-frame", "ok": rep["ok"], "detail": rep["detail"]})
    H.obl_c10(ctx)


def CORPUS():
    """F-unknown-mfr regression: claim with a manufacturer code that is not in the table, include list given."""
    name_unknown = 7 | (5 << 21) | (4 << 60) | (1 << 63)
    name_garmin = 9 | (229 << 21) | (4 << 60) | (1 << 63)
    rud = bytes.fromhex("00f8ff7f0a00ffff")
    h = [H.mk_pkt(127245, 5, 255, 2, rud), H.mk_pkt(CLAIM, 5, 255, 6, name_unknown.to_bytes(8, "little")),
         H.mk_pkt(127245, 5, 255, 2, rud), H.mk_pkt(CLAIM, 7, 255, 6, name_garmin.to_bytes(8, "little")),
         H.mk_pkt(127245, 7, 255, 2, rud), H.mk_pkt(CLAIM, 7, 255, 6, name_unknown.to_bytes(8, "little")),
         H.mk_pkt(127245, 7, 255, 2, rud)]
    out = []
    for exm, incm, nm in (([], ["GARMIN"], False), ([], ["garmin", "Airmar"], True), (["Garmin"], [], False), ([], [], True)):
        for win in (True, False):
            out.append(({"ex": [], "inc": [], "exm": exm, "incm": incm, "nm": nm}, [(p, win) for p in h]))
    return out


def correspond(ctx):
    reps = [H.corr_block(ctx, "C11", "ctl_claims", [("claims", ctx.n(180, 1800)), ("mixed", ctx.n(50, 500)),
                                                    ("filter", ctx.n(20, 200)), ("malformed", ctx.n(20, 200))],
                         extra_cases=CORPUS() + reclaim_cases(ctx.rng)[:ctx.n(60, 180)])]
    H.remove_wrappers()
    return reps


# ------------------------------------------------------------------ property oracle on the real code
def expected_identity(pg, data_int):
    """Identity a claim payload decodes to, computed from the decoded FIELDS by the harness's own code
    (not by IsoName); None if the claim does not decode."""
    try:
        m = pg.decode_pgn_60928(data_int)
    except Exception:  # noqa: BLE001
        return None
    if m is None:
        return None
    f = {x.id: x.value for x in m.fields}

    def i0(k):
        v = f[k]
        return v if isinstance(v, int) and not isinstance(v, bool) else 0
    return (i0("uniqueNumber"), f["manufacturerCode"], (i0("deviceInstanceUpper") << 3) | i0("deviceInstanceLower"),
            f["deviceFunction"], f["deviceClass"], i0("systemInstance"), f["industryGroup"],
            f["arbitraryAddressCapable"] == "Yes", data_int)


def c11_oracle(cfg, hist):
    """Returns None or (position, key, text)."""
    pg = H._impl()[3]
    try:
        dec = H.make_decoder(cfg)
    except Exception:  # noqa: BLE001
        return None
    exm = {x.lower() for x in cfg["exm"]}
    incm = {x.lower() for x in cfg["incm"]}
    ident = {}
    for i, (pkt, win) in enumerate(hist):
        pgn, src, dst, data = H.pkt_fields(pkt)
        before = dict(ident)
        if pgn == CLAIM:
            e = expected_identity(pg, int.from_bytes(data, "little"))
            if e is not None:
                ident[src] = e
        maps_before = H.maps_of(dec)
        o = H.observe(dec, pkt, win)
        maps_after = H.maps_of(dec)
        for s in set(maps_before) | set(maps_after):
            if s != src and maps_before.get(s) != maps_after.get(s):
                return i, "isolation", f"call {i} from source {src} changed the identity stored for source {s}"
        if maps_after.get(src) != ident.get(src):
            return i, "srcmap", (f"call {i}: source map entry of {src} is {maps_after.get(src)}, the latest decodable "
                                 f"claim gives {ident.get(src)}")
        if o[0] != "msg":
            continue
        _, mpgn, mid, msrc, mdst, miso, _ = o
        if msrc != src:
            return i, "source", f"call {i}: message from {src} returned with source {msrc}"
        if miso != ident.get(src):
            return i, "identity", (f"call {i}: PGN {mpgn} from {src} carries identity {miso}, the latest decodable "
                                   f"claim gives {ident.get(src)}")
        if mpgn != CLAIM:
            cur = before.get(src)
            if cur is not None:
                mf = cur[1].lower() if cur[1] is not None else None
                if mf in exm:
                    return i, "mfr-excluded", f"call {i}: PGN {mpgn} of excluded manufacturer {cur[1]!r} (source {src}) returned"
                if incm and mf not in incm:
                    k = "mfr-unknown-passes-include" if mf is None else "mfr-not-included"
                    return i, k, (f"call {i}: PGN {mpgn} from source {src} returned although its claimed manufacturer "
                                  f"{cur[1]!r} is not in the include list {sorted(incm)}")
            elif cfg["nm"] and win:
                return i, "discovery", (f"call {i}: PGN {mpgn} from unclaimed source {src} returned inside the discovery "
                                        "window with network mapping on")
    return None


def c11_witness(cfg, hist):
    r = c11_oracle(cfg, hist)
    if r is None:
        return None
    hist = H.shrink(hist[:r[0] + 1], lambda t: (c11_oracle(cfg, t) or (0, None))[1] == r[1])
    cfg = H.shrink_cfg(cfg, lambda c: (c11_oracle(c, hist) or (0, None))[1] == r[1])
    r = c11_oracle(cfg, hist)
    return {"key": f"C11:{r[1]}", "what": f"{r[2]} (manufacturer lists ex={cfg['exm']} inc={cfg['incm']}, map={cfg['nm']})",
            "kind": "c11", **H.case_json(cfg, hist)}


def search(ctx):
    rng = ctx.rng
    out, seen, cands = [], set(), CORPUS()
    for h in ctx.hints:
        for c in h.get("cases", []):
            if "config" in c:
                cands.append((H.cfg_unjson(c["config"]), H.hist_unjson(c["history"])))
    for _ in range(ctx.n(300, 3000)):
        cands.append(H.gen_case(ctx, rng, rng.choice(["claims", "claims", "claims", "mixed"])))
    cands.extend(reclaim_cases(rng))
    for cfg, hist in cands:
        w = c11_witness(cfg, hist)
        if w and w["key"] not in seen:
            seen.add(w["key"])
            out.append(w)
    w = discovery_text_oracle(rng)
    if w and w["key"] not in seen:
        out.append(w)
    return out


def reclaim_cases(rng):
    """One address claimed again and again: by another manufacturer, and by a NAME that differs from the previous one
    in a single field only (each field of the NAME in turn, high and low half), with data between the claims, under
    every way of filtering the claim PGN itself and each manufacturer list shape."""
    names = H._mfr_names()
    d1 = bytes.fromhex("01102700007fff7f")
    d2 = bytes.fromhex("00f8ff7f0a00ffff")
    out = []
    pgn_cfgs = [([], []), ([CLAIM], []), (["isoAddressClaim"], []), ([], [127250, 127245]), ([], [127250, "isoaddressclaim"])]
    flips = [1 << 0, 1 << 20, 1 << 32, 1 << 35, 1 << 40, 1 << 49, 1 << 56, 1 << 63, 0x7 << 32, 0x1F << 35]
    for _ in range(6):
        ma, mb = rng.sample(H.MFR_KNOWN, 2)
        src = rng.choice(H.SOURCES)
        na = H.make_name(rng, "known") & ~(0x7FF << 21) | (ma << 21)
        nb = H.make_name(rng, "known") & ~(0x7FF << 21) | (mb << 21)
        seq = [na, nb, na ^ rng.choice(flips), nb ^ rng.choice(flips), rng.choice([na, nb]) ^ rng.choice(flips[2:])]
        if rng.random() < 0.5:
            seq.insert(2, H.make_name(rng, "unknown"))
        hist = []
        for n in seq:
            hist.append((H.mk_pkt(CLAIM, src, 255, 6, n.to_bytes(8, "little")), False))
            hist.append((H.mk_pkt(127250, src, 255, 2, d1), False))
            hist.append((H.mk_pkt(127245, src, 255, 2, d2), False))
        for ex, inc in pgn_cfgs:
            for exm, incm in (([], []), ([names[mb]], []), ([names[ma]], []), ([], [names[ma]]), ([], [names[mb]]),
                              ([H.rand_case_str(rng, names[mb])], []),
                              # both lists at once: the included name also excluded (other letter case), disjoint, overlapping
                              ([names[ma].upper()], [names[ma]]), ([names[ma]], [H.rand_case_str(rng, names[ma])]),
                              ([names[mb]], [names[ma]]), ([names[ma], names[mb]], [names[mb].lower()])):
                out.append(({"ex": list(ex), "inc": list(inc), "exm": exm, "incm": incm, "nm": rng.random() < 0.3}, hist))
    return out


def discovery_text_oracle(rng, only=None):
    """The discovery window is wall-clock time since the decoder was built — whatever time stamp the INPUT carries:
    the text formats put the gateway's own stamp (Actisense: seconds of gateway uptime; canboat / Yacht Devices: a
    date or time of day) on every message. A decoder built just now with network mapping on must withhold data of a
    source that has not claimed, through every text entry point and for every stamp."""
    Dec = H._impl()[0]
    cases = []
    for up in ("000057.000", "000601.000", "086400.250", "999999.999"):
        cases.append(("actisense", f"A{up} 07FF3 1F112 01102700007FFFFD", "decode_actisense_string"))
    for ts in ("2020-01-01-00:00:00.000", "2099-12-31-23:59:59.999", "1999-01-01T00:00:00.000Z"):
        cases.append(("basic", f"{ts},3,127250,7,255,8,01,10,27,00,00,7f,ff,fd", "decode_basic_string"))
    for ts in ("00:00:00.000", "23:59:59.999"):
        cases.append(("yd", f"{ts} R 0DF11207 01 10 27 00 00 7F FF FD", "decode_yacht_devices_string"))
    for fmt, line, meth in cases:
        if only and (fmt, line) != tuple(only):
            continue
        d = Dec(build_network_map=True)
        try:
            m = getattr(d, meth)(line)
        except Exception:  # noqa: BLE001
            continue
        if m is not None:
            return {"key": "C11:discovery-text-timestamp", "kind": "c11-text", "fmt": fmt, "line": line,
                    "what": f"network mapping on, decoder just built: PGN {m.PGN} from unclaimed source {m.source} is returned "
                            f"through {meth} for the input stamped {line.split()[0] if fmt != 'basic' else line.split(',')[0]!r} "
                            "(inside the discovery window)"}
    return None


def replay(ctx, data):
    w = data.get("witness", data)
    if w.get("kind") == "c11-text":
        r = discovery_text_oracle(ctx.rng, only=(w["fmt"], w["line"]))
        print("expected: nothing from an unclaimed source inside the discovery window, whatever stamp the input carries")
        print("observed:", r["what"] if r else "property holds on this input")
        return r is not None
    if w.get("kind") != "c11":
        print("observed: not a C11 history witness")
        return False
    r = c11_oracle(H.cfg_unjson(w["config"]), H.hist_unjson(w["history"]))
    print("expected: identity = latest decodable claim of the source; manufacturer lists and discovery window respected")
    print("observed:", r[2] if r else "property holds on this input")
    return r is not None
