"""C07 — the same CAN frame decodes identically through every input format.
Tie: correspondence of the five front-end models of Wire.v (parse_tcp, parse_usb, parse_yd, parse_acti,
parse_basic) with NMEA2000Decoder.decode_* down to the argument tuple handed to `_decode` (shared with C06,
own seed and a heavier share of the odd spellings)."""
from __future__ import annotations

from props import c06 as W
from props import e2e as E2E

PROPS_FILES = ["props/C07.v"]
ALWAYS_SEARCH = True
RULE = W.RULE
TRUSTED = [t for t in W.TRUSTED]
ASSUMPTIONS = ["text lines are ASCII (non-ASCII input is Unmodelled and counted, not compared)",
               "Actisense time offsets are within 10^10 s / ms; base-10 tokens have at most 4300 characters",
               "a frame without data bytes cannot be written in the Yacht Devices or Actisense line grammar "
               "(their parsers demand a data token), so those two formats range over 1.. data bytes",
               "`_decode` and everything behind it is a function of the argument tuple and the decoder state "
               "(the raw text kept for diagnostics and the time stamp are not compared)"]


TRUSTED = list(TRUSTED) + list(getattr(E2E, "TRUSTED", []))      # e2e imports this module: may be mid-import
ASSUMPTIONS = list(ASSUMPTIONS) + list(getattr(E2E, "ASSUMPTIONS", []))


def gen(ctx):
    E2E.gen(ctx)     # end-to-end theorems (every entry point -> returned message) for the tables of this run


def correspond(ctx):
    return [W.corr_parsers(ctx, "C07", ctx.n(450, 4000), ctx.n(500, 5000))] + \
        E2E.correspond(ctx, prop="C07", n_tcp=ctx.n(30, 200), n_other=ctx.n(60, 400), n_wide=ctx.n(10, 60))


# ------------------------------------------------------------------ property oracle on the real code
def _five(ident, data, rng, extract, odd):
    return [W.render(f, ident, data, rng, extract, odd and rng.random() < 0.5) for f in range(5)]


def check_args(inputs):
    """the five renderings of one frame must hand `_decode` the same (pgn, prio, src, dst, data)"""
    impl = W.Impl()
    got = []
    for fmt, inp in enumerate(inputs):
        if inp is None:
            got.append(None)
            continue
        x = bytes.fromhex(inp["hex"]) if isinstance(inp, dict) else inp
        obs, _ = impl.parse(fmt, x, True)
        got.append(obs[1][:5] if obs[0] == "ok" and obs[1] is not None else obs)
    ref = next(g for g in got if g is not None)
    for fmt, g in enumerate(got):
        if g is not None and g != ref:
            return {"key": f"frontends:{W.FMT_NAMES[fmt]}", "kind": "args",
                    "inputs": [({"hex": i.hex()} if isinstance(i, bytes) else i) for i in inputs],
                    "what": f"{W.FMT_NAMES[fmt]} hands _decode {g} where {W.FMT_NAMES[got.index(ref)]} hands {ref} "
                            f"for the same frame ({inputs[fmt]!r})"}
    return None


def check_messages(inputs):
    """the five renderings of a frame of a known single-frame PGN decode to the same message"""
    from nmea2000.decoder import NMEA2000Decoder
    res = []
    for fmt, inp in enumerate(inputs):
        if inp is None:
            res.append(None)
            continue
        x = bytes.fromhex(inp["hex"]) if isinstance(inp, dict) else inp
        d = NMEA2000Decoder()
        try:
            m = [d.decode_tcp, d.decode_usb, d.decode_yacht_devices_string, d.decode_actisense_string,
                 lambda s: d.decode_basic_string(s, True)][fmt](x)
            res.append(None if m is None else (m.PGN, m.id, m.source, m.destination, m.priority,
                                               repr([(f.id, f.value, f.raw_value) for f in m.fields])))
        except Exception as e:  # noqa: BLE001
            res.append(("raises", type(e).__name__))
    present = [(f, r) for f, r in enumerate(res) if inputs[f] is not None]
    ref = present[0][1]
    for fmt, r in present:
        if r != ref:
            return {"key": f"frontends-message:{W.FMT_NAMES[fmt]}", "kind": "messages",
                    "inputs": [({"hex": i.hex()} if isinstance(i, bytes) else i) for i in inputs],
                    "what": f"{W.FMT_NAMES[fmt]} decodes the frame to {str(r)[:300]} where {W.FMT_NAMES[present[0][0]]} "
                            f"gives {str(ref)[:300]}"}
    return None


def ref_extract(ident: int):
    """the header fields of a 29-bit identifier, computed here (NOT with the library's own _extract_header, which
    may be the very thing that is broken): source bits 0-7, PS 8-15, PF 16-23, data page + reserved 24-25,
    priority 26-28; PF < 240: addressed, destination = PS, PGN has PS = 0; else broadcast, destination 255"""
    src, ps, pf, dp, prio = ident & 0xFF, (ident >> 8) & 0xFF, (ident >> 16) & 0xFF, (ident >> 24) & 3, (ident >> 26) & 7
    if pf < 240:
        return (dp << 16) | (pf << 8), src, ps, prio
    return (dp << 16) | (pf << 8) | ps, src, 255, prio


def _segment(payload: bytes, seq: int):
    """fast-packet frames of a payload (first: counter, length, 6 bytes; then counter, 7 bytes; 0xFF filler)"""
    frames = [bytes([(seq << 5) & 0xFF, len(payload)]) + payload[:6]]
    rest, k = payload[6:], 1
    while rest:
        frames.append(bytes([((seq << 5) | k) & 0xFF]) + rest[:7])
        rest, k = rest[7:], k + 1
    return [f + b"\xff" * (8 - len(f)) for f in frames]


def _msg_tuple(m):
    return None if m is None else (m.PGN, m.id, m.source, m.destination, m.priority,
                                   repr([(f.id, f.value, f.raw_value) for f in m.fields]))


def check_fast(ident, payload, rng):
    """a fast-packet message: pre-assembled through Actisense and canboat (already combined), frame by frame through
    EByte, USB and Yacht Devices — the same message every way"""
    from nmea2000.decoder import NMEA2000Decoder
    res, shown = {}, {}

    def run(name, fn):
        try:
            res[name] = _msg_tuple(fn())
        except Exception as e:  # noqa: BLE001
            res[name] = ("raises", type(e).__name__, str(e)[:80])
    acti = W.render(3, ident, payload, rng, ref_extract, False)
    basic = W.render(4, ident, payload, rng, ref_extract, False)
    shown["actisense"], shown["basic"] = acti, basic
    run("actisense", lambda: NMEA2000Decoder().decode_actisense_string(acti))
    run("basic", lambda: NMEA2000Decoder().decode_basic_string(basic, True))
    frames = _segment(payload, rng.randrange(8))
    for name, fmt, meth in (("ebyte", 0, "decode_tcp"), ("usb", 1, "decode_usb"), ("yd", 2, "decode_yacht_devices_string")):
        inputs = [W.render(fmt, ident, f, rng, ref_extract, False) for f in frames]
        shown[name] = [i.hex() if isinstance(i, bytes) else i for i in inputs]

        def feed(inputs=inputs, meth=meth):
            d, last = NMEA2000Decoder(), None
            for k, i in enumerate(inputs):
                m = getattr(d, meth)(i)
                if m is not None and k < len(inputs) - 1:
                    return m       # delivered early
                last = m
            return last
        run(name, feed)
    ref = res["basic"]
    # the same inputs through ONE decoder, the formats in a random order: an application may feed one decoder from
    # several front-ends; what it returns for an input does not depend on which format delivered the PGN before
    shared = NMEA2000Decoder()
    jobs = [("actisense", lambda: shared.decode_actisense_string(acti)), ("basic", lambda: shared.decode_basic_string(basic, True))]
    for name, meth in (("ebyte", "decode_tcp"), ("usb", "decode_usb"), ("yd", "decode_yacht_devices_string")):
        ins = [bytes.fromhex(i) if name != "yd" else i for i in shown[name]]

        def feed_shared(ins=ins, meth=meth):
            last = None
            for k, i in enumerate(ins):
                m = getattr(shared, meth)(i)
                if m is not None and k < len(ins) - 1:
                    return m
                last = m
            return last
        jobs.append((name, feed_shared))
    rng.shuffle(jobs)
    order = [n for n, _ in jobs]
    for name, fn in jobs:
        run("shared:" + name, fn)
    for name, r in res.items():
        if r != ref:
            if name.startswith("shared:") and res[name[7:]] == ref:
                return {"key": f"assembled:one-decoder:{name[7:]}", "kind": "fast", "ident": ident, "payload": payload.hex(),
                        "inputs": shown,
                        "what": f"fast-packet PGN {ref_extract(ident)[0]} payload {payload.hex()}: one decoder fed through the formats "
                                f"in the order {order} gives {str(r)[:160]} for {name[7:]}, a new decoder gives {str(ref)[:160]}"}
            return {"key": f"assembled:{name}", "kind": "fast", "ident": ident, "payload": payload.hex(),
                    "inputs": shown,
                    "what": f"fast-packet PGN {ref_extract(ident)[0]} payload {payload.hex()} ({len(payload)} bytes): {name} gives "
                            f"{str(r)[:200]} where the pre-assembled canboat line gives {str(ref)[:200]}"}
    return None


def check_fast_pair(ident_a, ident_b, pa, pb, rng, pattern=None):
    """two fast-packet messages whose frames ALTERNATE on the bus (same PGN and source, two destinations; or two
    sources): frame by frame through EByte / USB / Yacht Devices into one decoder each message comes back as the
    pre-assembled canboat line of it gives"""
    from nmea2000.decoder import NMEA2000Decoder
    refs = []
    for ident, payload in ((ident_a, pa), (ident_b, pb)):
        line = W.render(4, ident, payload, rng, ref_extract, False)
        try:
            refs.append(_msg_tuple(NMEA2000Decoder().decode_basic_string(line, True)))
        except Exception:  # noqa: BLE001
            return None
    fa, fb = _segment(pa, rng.randrange(8)), _segment(pb, rng.randrange(8))
    if pattern is None:
        pattern = [0] * len(fa) + [1] * len(fb)
        rng.shuffle(pattern)
    for name, fmt, meth in (("ebyte", 0, "decode_tcp"), ("usb", 1, "decode_usb"), ("yd", 2, "decode_yacht_devices_string")):
        d = NMEA2000Decoder()
        ia = ib = 0
        got = {0: [], 1: []}
        try:
            for t in pattern:
                ident, f = (ident_a, fa[ia]) if t == 0 else (ident_b, fb[ib])
                if t == 0:
                    ia += 1
                else:
                    ib += 1
                m = getattr(d, meth)(W.render(fmt, ident, f, rng, ref_extract, False))
                if m is not None:
                    got[t].append(_msg_tuple(m))
        except Exception as e:  # noqa: BLE001
            got = {0: [("raises", type(e).__name__)], 1: []}
        if got[0] != [refs[0]] or got[1] != [refs[1]]:
            return {"key": f"assembled:interleaved:{name}", "kind": "fast-pair", "ia": ident_a, "ib": ident_b, "pa": pa.hex(),
                    "pb": pb.hex(), "pattern": pattern,
                    "what": f"two fast-packet messages of PGN {ref_extract(ident_a)[0]} with alternating frames (identifiers "
                            f"{ident_a:#x} / {ident_b:#x}, order {pattern}) through {name}: {len(got[0])} + {len(got[1])} message(s) "
                            f"returned / other content, pre-assembled each decodes to one message"}
    return None


def fast_payloads(ctx, want):
    """(pgn, payload) of fast-packet PGNs that decode (pre-assembled); short payloads (<= 8 bytes) first"""
    import re as _re
    import nmea2000.pgns as P
    from nmea2000.decoder import NMEA2000Decoder
    rng = ctx.rng
    pgns = sorted(int(m.group(1)) for nm in dir(P) for m in [_re.fullmatch(r"is_fast_pgn_(\d+)", nm)] if m)
    # which PGNs are fast-packet PGNs is a fact of the database: a PGN is one when ANY of its definitions says so (the code's
    # own table is what is being checked, it is not asked)
    try:
        import json as _json
        import os as _os
        import vlib as _vlib
        dbj = _json.load(open(_os.path.join(_vlib.REPO, "canboat.json")))
        db_fast = {d["PGN"] for d in dbj.get("PGNs", []) if d.get("Type") == "Fast"}
    except Exception:  # noqa: BLE001
        db_fast = None
    rng.shuffle(pgns)
    pgns.sort(key=lambda x: ((x >> 8) & 0xFF) >= 240)      # the few ADDRESSED fast-packet PGNs first: always in the sample

    def _code_says(x):
        try:
            return bool(getattr(P, f"is_fast_pgn_{x}")())
        except Exception:  # noqa: BLE001
            return None
    if db_fast is not None:      # ... and, before all, PGNs on which the code's table and the database disagree
        pgns.sort(key=lambda x: _code_says(x) is None or _code_says(x) == (x in db_fast))
    out = []
    for pgn in pgns:
        if len(out) >= want:
            break
        try:
            code_says = bool(getattr(P, f"is_fast_pgn_{pgn}")())
        except Exception:  # noqa: BLE001
            continue
        if not (code_says or (db_fast is not None and pgn in db_fast)):
            continue
        # multi-definition PGNs: payloads carrying a definition's match values (nothing else selects a definition)
        try:
            from props import c08 as _C8
            _g = _C8._groups(_C8._db()).get(pgn, [])
            matched = [q for q in _C8._payloads(_g, rng, 1) if _C8._spec_select(_g, q) is not None] \
                if len(_g) > 1 and any(_C8._match_fields(d) for d in _g) else []
        except Exception:  # noqa: BLE001
            matched = []
        for n in (4, 6, 8, 9, 14, 20, 27, 50):
            got = False
            for attempt in range(3 + min(3, len(matched))):
                if attempt >= 3:
                    q = matched[attempt - 3]
                    payload = (q & ((1 << (8 * n)) - 1)).to_bytes(n, "little")
                else:
                    payload = bytes([0xFF] * n) if attempt == 0 else bytes(rng.choice([0xFF, 0, rng.getrandbits(8)]) for _ in range(n))
                line = "2020-01-01-00:00:00.000,3,%d,1,255,%d,%s" % (pgn, n, ",".join("%02x" % b for b in payload))
                try:
                    if NMEA2000Decoder().decode_basic_string(line, True) is not None:
                        out.append((pgn, payload))
                        got = True
                        break
                except Exception:  # noqa: BLE001
                    pass
            if got and n > 8:
                break
    return out


def search(ctx):
    extract = ref_extract
    rng = ctx.rng
    out, seen = [], set()

    def add(w):
        if w and w["key"] not in seen:
            seen.add(w["key"])
            out.append(w)
    # argument-tuple level: any identifier, any data
    for _ in range(ctx.n(400, 4000)):
        ident, data = W.gen_ident(rng), W.gen_data(rng, rng.randint(0, 8))
        inputs = _five(ident, data, rng, extract, True)
        if not data:
            inputs[2] = inputs[3] = None
            if inputs[4].count(",") < 6:
                inputs[4] += ","
        add(check_args(inputs))
    # message level: frames of known single-frame PGNs
    msgs = [(m, p) for m, p, fast in W.real_messages(ctx, ctx.n(60, 300)) if not fast and len(p) <= 8]
    ctx.notes.append(f"witness search: cross-format message comparison on {len(msgs)} single-frame PGNs")
    for m, payload in msgs:
        for rep in range(ctx.n(2, 8)):
            pf = (m.PGN >> 8) & 0xFF
            ps = rng.getrandbits(8) if pf < 240 else (m.PGN & 0xFF)
            ident = (rng.getrandbits(3) << 26) | ((m.PGN >> 8) << 16) | (ps << 8) | rng.getrandbits(8)
            add(check_messages(_five(ident, payload, rng, extract, rep % 2 == 1)))
    # fast-packet messages: pre-assembled formats vs frame-by-frame formats (short payloads included)
    fps = fast_payloads(ctx, ctx.n(40, 200))
    ctx.notes.append(f"witness search: {len(fps)} fast-packet payloads ({sum(1 for _, p in fps if len(p) <= 8)} of at most 8 bytes) "
                     f"compared across pre-assembled and frame-by-frame formats")
    for pgn, payload in fps:
        pf = (pgn >> 8) & 0xFF
        ps = rng.getrandbits(8) if pf < 240 else (pgn & 0xFF)
        ident = (rng.getrandbits(3) << 26) | ((pgn >> 8) << 16) | (ps << 8) | rng.getrandbits(8)
        add(check_fast(ident, payload, rng))
    # two messages with alternating frames: same PGN and source to two destinations (addressed PGNs), or two sources
    by_pgn = {}
    for pgn, payload in fps:
        by_pgn.setdefault(pgn, []).append(payload)
    npairs = 0
    for pgn, pls in by_pgn.items():
        if npairs >= ctx.n(40, 300):
            break
        pl = [x for x in pls if len(x) > 8] or pls
        pa, pb = rng.choice(pl), rng.choice(pl)
        pf = (pgn >> 8) & 0xFF
        src, prio = rng.getrandbits(8), rng.getrandbits(3)
        if pf < 240:
            da, db = rng.sample(range(256), 2)
            ia = (prio << 26) | ((pgn >> 8) << 16) | (da << 8) | src
            ib = (prio << 26) | ((pgn >> 8) << 16) | (db << 8) | src
        else:
            sb = (src + 1 + rng.randrange(254)) % 256
            ia = (prio << 26) | (pgn << 8) | src
            ib = (prio << 26) | (pgn << 8) | sb
        npairs += 1
        add(check_fast_pair(ia, ib, pa, pb, rng))
    try:
        out += E2E.search(ctx)
    except Exception as e:  # noqa: BLE001   (what was found so far is not lost)
        ctx.notes.append(f"end-to-end glue search raised {e!r}")
    return out


def replay(ctx, data):
    w = data.get("witness", data)
    if w.get("kind") == "e2e-glue":
        return E2E.replay(ctx, data)
    if w.get("kind") == "fast-pair":
        import random
        r = check_fast_pair(w["ia"], w["ib"], bytes.fromhex(w["pa"]), bytes.fromhex(w["pb"]), random.Random(0), pattern=w["pattern"])
        print("expected: each of two messages with alternating frames comes back as its pre-assembled line decodes")
        print("observed:", r["what"] if r else "property holds on this input")
        return r is not None
    inputs = [i for i in w["inputs"]] if w.get("kind") != "fast" else None
    if w.get("kind") == "fast":
        import random
        r = None
        for k in range(8):          # the order of the formats on the shared decoder is drawn from the generator
            r = r or check_fast(w["ident"], bytes.fromhex(w["payload"]), random.Random(k))
        print("expected: the same message through pre-assembled and frame-by-frame formats")
        print("observed:", r["what"] if r else "property holds on this input")
        return r is not None
    r = check_args(inputs) if w.get("kind") == "args" else check_messages(inputs)
    print("expected: all input formats hand the shared decode path the same frame / produce the same message")
    print("observed:", r["what"] if r else "property holds on this input")
    return r is not None
