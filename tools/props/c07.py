"""C07 — the same CAN frame decodes identically through every input format.
Tie: correspondence of the five front-end models of Wire.v (parse_tcp, parse_usb, parse_yd, parse_acti,
parse_basic) with NMEA2000Decoder.decode_* down to the argument tuple handed to `_decode` (shared with C06,
own seed and a heavier share of the odd spellings)."""
from __future__ import annotations

from props import c06 as W

PROPS_FILES = ["props/C07.v"]
ALWAYS_SEARCH = True
RULE = W.RULE
TRUSTED = [t for t in W.TRUSTED]
ASSUMPTIONS = ["text lines are ASCII (non-ASCII input is Unmodelled and counted, not compared)",
               "Actisense time offsets are within 10^10 s / ms; base-10 tokens have at most 4300 characters",
               "a frame without data bytes cannot be written in the Yacht Devices or Actisense line grammar "
               "(their parsers demand a data token), so those two formats range over 1.. data bytes",
               "`_decode` and everything behind it is a function of the argument tuple and the decoder state "
               "(the raw text kept for diagnostics and the time stamp are not compared)"]


def correspond(ctx):
    return [W.corr_parsers(ctx, "C07", ctx.n(450, 4000), ctx.n(500, 5000))]


# ------------------------------------------------------------------ property oracle on the real code
def _five(ident, data, rng, extract, odd):
    return [W.render(f, ident, data, rng, extract, odd and rng.random() < 0.5) for f in range(5)]


def check_args(inputs):
    """the five renderings of one frame must hand `_decode` the same (pgn, prio, src, dst, data)"""
    impl = W.Impl()
    got = []
    for fmt, inp in enumerate(inputs):
        if inp is None:
            got.append(None)
            continue
        x = bytes.fromhex(inp["hex"]) if isinstance(inp, dict) else inp
        obs, _ = impl.parse(fmt, x, True)
        got.append(obs[1][:5] if obs[0] == "ok" and obs[1] is not None else obs)
    ref = next(g for g in got if g is not None)
    for fmt, g in enumerate(got):
        if g is not None and g != ref:
            return {"key": f"frontends:{W.FMT_NAMES[fmt]}", "kind": "args",
                    "inputs": [({"hex": i.hex()} if isinstance(i, bytes) else i) for i in inputs],
                    "what": f"{W.FMT_NAMES[fmt]} hands _decode {g} where {W.FMT_NAMES[got.index(ref)]} hands {ref} "
                            f"for the same frame ({inputs[fmt]!r})"}
    return None


def check_messages(inputs):
    """the five renderings of a frame of a known single-frame PGN decode to the same message"""
    from nmea2000.decoder import NMEA2000Decoder
    res = []
    for fmt, inp in enumerate(inputs):
        if inp is None:
            res.append(None)
            continue
        x = bytes.fromhex(inp["hex"]) if isinstance(inp, dict) else inp
        d = NMEA2000Decoder()
        try:
            m = [d.decode_tcp, d.decode_usb, d.decode_yacht_devices_string, d.decode_actisense_string,
                 lambda s: d.decode_basic_string(s, True)][fmt](x)
            res.append(None if m is None else (m.PGN, m.id, m.source, m.destination, m.priority,
                                               repr([(f.id, f.value, f.raw_value) for f in m.fields])))
        except Exception as e:  # noqa: BLE001
            res.append(("raises", type(e).__name__))
    present = [(f, r) for f, r in enumerate(res) if inputs[f] is not None]
    ref = present[0][1]
    for fmt, r in present:
        if r != ref:
            return {"key": f"frontends-message:{W.FMT_NAMES[fmt]}", "kind": "messages",
                    "inputs": [({"hex": i.hex()} if isinstance(i, bytes) else i) for i in inputs],
                    "what": f"{W.FMT_NAMES[fmt]} decodes the frame to {str(r)[:300]} where {W.FMT_NAMES[present[0][0]]} "
                            f"gives {str(ref)[:300]}"}
    return None


def search(ctx):
    from nmea2000.decoder import NMEA2000Decoder
    extract = NMEA2000Decoder._extract_header
    rng = ctx.rng
    out, seen = [], set()

    def add(w):
        if w and w["key"] not in seen:
            seen.add(w["key"])
            out.append(w)
    # argument-tuple level: any identifier, any data
    for _ in range(ctx.n(400, 4000)):
        ident, data = W.gen_ident(rng), W.gen_data(rng, rng.randint(0, 8))
        inputs = _five(ident, data, rng, extract, True)
        if not data:
            inputs[2] = inputs[3] = None
            if inputs[4].count(",") < 6:
                inputs[4] += ","
        add(check_args(inputs))
    # message level: frames of known single-frame PGNs
    msgs = [(m, p) for m, p, fast in W.real_messages(ctx, ctx.n(60, 300)) if not fast and len(p) <= 8]
    ctx.notes.append(f"witness search: cross-format message comparison on {len(msgs)} single-frame PGNs")
    for m, payload in msgs:
        for rep in range(ctx.n(2, 8)):
            pf = (m.PGN >> 8) & 0xFF
            ps = rng.getrandbits(8) if pf < 240 else (m.PGN & 0xFF)
            ident = (rng.getrandbits(3) << 26) | ((m.PGN >> 8) << 16) | (ps << 8) | rng.getrandbits(8)
            add(check_messages(_five(ident, payload, rng, extract, rep % 2 == 1)))
    return out


def replay(ctx, data):
    w = data.get("witness", data)
    inputs = [i for i in w["inputs"]]
    r = check_args(inputs) if w.get("kind") == "args" else check_messages(inputs)
    print("expected: all input formats hand the shared decode path the same frame / produce the same message")
    print("observed:", r["what"] if r else "property holds on this input")
    return r is not None
