"""C08 — proprietary PGN definitions are selected exactly by their match fields.
Tie: translators (pgns.py -> code_disp/code_ids, canboat.json -> db_defs) + kernel-checked table
obligation (tools/templates/OblC08.v) + correspondence of the dispatcher interpreter with the
real generated dispatchers."""
import json
import os
import re
import vlib
from vlib import cz, ctuple, run_cases, distinct_count, cstr_z
import gen as G

PROPS_FILES = ["props/C08.v"]
ALWAYS_SEARCH = True     # the selection oracle (incl. the long-lived-decoder history) is cheap: run it in the quick tier too
RULE = ("per multi-definition PGN and per definition: payloads carrying its own match values, each sibling's match "
        "values, one value matching none, and random bits elsewhere; observed = the decode function actually reached "
        "(wrappers installed from outside); non-trivial = payload reaches a non-fallback definition or is rejected; "
        "distinct by (PGN, payload)")
TRUSTED = ["tools/tr_pgns.py (fail-closed Python-ast translator of pgns.py) and tools/tr_db.py (verbatim dump of "
           "canboat.json); cross-examined by the dispatcher correspondence of this run",
           "Dispatch.v: run_disp interprets the translated if-chains; spec_select is the database-side rule"]
ASSUMPTIONS = ["Python evaluates `((data_raw >> K) & MASK) == V` as Z.land (Z.shiftr p K) MASK =? V",
               "single-definition PGNs that carry match fields are outside C08 (nothing to select between)"]

IMPORTS = "From NV Require Import Base Defn Dispatch CorrDispatch.\nFrom NVGen Require Import GenDisp."


def gen(ctx):
    g = G.ensure_gen()
    ctx.gen = g
    if not g["ok"]:
        ctx.extra_obligations.append({"name": "translation of nmea2000/pgns.py + canboat.json", "ok": False,
                                      "detail": g.get("refused") or g.get("error")})
        ctx.hints.append({"kind": "translator", "detail": g.get("refused") or g.get("error")})
        return
    ctx.notes.append(f"tables regenerated from /repo (cached={g['cached']}): " +
                     json.dumps({k: v for k, v in g['stats']['pgns'].items() if k != 'refused'}) + json.dumps(g['stats']['db']))
    for cat, name, why in g["stats"]["pgns"].get("refused", []):
        if cat in ('disp', 'dec', 'other'):
            ctx.extra_obligations.append({"name": f"translation of {name}", "ok": False, "detail": why})
            ctx.hints.append({"kind": "translator", "function": name, "detail": why})
    ok, out = G.compile_template("OblC08")
    for nm in G.theorem_names("OblC08"):
        ctx.extra_obligations.append({"name": f"OblC08.v:{nm}", "ok": ok, "detail": out[-800:] if not ok else ""})
    m = re.search(r"=\s*\((\d+)%nat,\s*(\d+)%nat,\s*(\d+)%nat,\s*(\d+)%nat\)", " ".join(out.split()))
    if m:
        ctx.notes.append(f"database groups {m.group(1)}, dispatched {m.group(2)}, in scope {m.group(3)}, "
                         f"dispatchers in code {m.group(4)}")
    if "Closed under the global context" not in out and ok:
        ctx.notes.append("Print Assumptions C08: " + out[-400:])
    if not ok:
        ok2, out2 = G.compile_template("DiagC08")
        bad = [int(x) for x in re.findall(r"-?\d+", " ".join(out2.split()).split("=", 1)[-1].split(":")[0])] if ok2 else []
        ctx.hints.append({"kind": "tables", "failing_pgns": bad})
        ctx.notes.append(f"table obligation fails for PGN groups {bad}")


# ------------------------------------------------------------------ database-side helpers (Python)
def _db():
    return json.load(open(os.path.join(vlib.REPO, "canboat.json")))["PGNs"]


def _groups(pgns):
    g = {}
    for p in pgns:
        g.setdefault(p["PGN"], []).append(p)
    return g


def _match_fields(d):
    return [f for f in d["Fields"] if "Match" in f]


def _spec_select(group, p):
    for d in group:
        if d.get("Fallback"):
            continue
        if all(((p >> f["BitOffset"]) & ((1 << f["BitLength"]) - 1)) == f["Match"] for f in _match_fields(d)):
            return d
    fb = None
    for d in group:
        if d.get("Fallback"):
            fb = d
    return fb


def _payloads(group, rng, per_def):
    """own / sibling / foreign match values x random remaining bits"""
    out = []
    nbits = max([64] + [8 * d.get("Length", 8) for d in group])
    allm = [(f["BitOffset"], f["BitLength"], f["Match"]) for d in group for f in _match_fields(d)]
    for d in group:
        for _ in range(per_def):
            p = rng.getrandbits(nbits)
            for f in _match_fields(d):
                mask = ((1 << f["BitLength"]) - 1) << f["BitOffset"]
                p = (p & ~mask) | (f["Match"] << f["BitOffset"])
            out.append(p)
            # perturb one match field: sibling value or a value matching none
            if _match_fields(d):
                f = rng.choice(_match_fields(d))
                sib = [m for (o, l, m) in allm if o == f["BitOffset"] and l == f["BitLength"] and m != f["Match"]]
                for v in ([rng.choice(sib)] if sib else []) + [(f["Match"] + 1) & ((1 << f["BitLength"]) - 1)]:
                    mask = ((1 << f["BitLength"]) - 1) << f["BitOffset"]
                    out.append((p & ~mask) | (v << f["BitOffset"]))
        # near misses: each definition's match value with ONE bit of the field flipped (every bit position of
        # every match field, so a comparison that looks at part of the field only is exposed), other bits random
        for f in _match_fields(d):
            for k in range(f["BitLength"]):
                p = rng.getrandbits(nbits)
                for g_ in _match_fields(d):
                    mask = ((1 << g_["BitLength"]) - 1) << g_["BitOffset"]
                    p = (p & ~mask) | (g_["Match"] << g_["BitOffset"])
                out.append(p ^ (1 << (f["BitOffset"] + k)))
    out += [0, (1 << nbits) - 1, rng.getrandbits(nbits)]
    return out


class _Recorder:
    """wraps every decode_pgn_<pgn>_<id> in nmea2000.pgns from outside; records which one is reached"""
    def __init__(self):
        import nmea2000.pgns as P
        self.P, self.saved, self.reached = P, {}, None
        for name in list(vars(P)):
            if re.fullmatch(r"decode_pgn_\d+_.+", name) and callable(getattr(P, name)):
                self.saved[name] = getattr(P, name)
                setattr(P, name, self._wrap(name))

    def _wrap(self, name):
        def w(x, _n=name):
            self.reached = _n
            return None
        return w

    def call(self, pgn, p):
        self.reached = None
        fn = getattr(self.P, f"decode_pgn_{pgn}")
        if fn.__code__.co_varnames[:1] != ("data_raw",):
            return f"decode_pgn_{pgn}"
        fn(p)
        return self.reached

    def restore(self):
        for n, f in self.saved.items():
            setattr(self.P, n, f)


def _fname_lit(name):
    if name is None:
        return "None"
    m = re.fullmatch(r"decode_pgn_(\d+)(?:_(.*))?", name, re.S)
    return f"(Some ({m.group(1)}, {'None' if m.group(2) is None else '(Some ' + cstr_z(m.group(2)) + ')'}))"


def correspond(ctx):
    if not getattr(ctx, "gen", {}).get("ok"):
        return []
    rng = ctx.rng
    groups = _groups(_db())
    rec = _Recorder()
    cases, raw = [], []
    try:
        for pgn, g in groups.items():
            multi = len(g) > 1 and any(_match_fields(d) for d in g)
            pls = _payloads(g, rng, ctx.n(3, 25)) if multi else [0, rng.getrandbits(64)]
            for p in pls:
                obs = rec.call(pgn, p)
                cases.append(ctuple(cz(pgn), cz(p), _fname_lit(obs)))
                raw.append((pgn, p, obs))
    finally:
        rec.restore()
    r = run_cases("C08", "disp", IMPORTS, "Z * Z * option fname", "chk_disp code_disp", cases)
    nontriv = [c for c in raw if c[2] is None or (c[2] and "0x" not in c[2] and "_" in c[2][len("decode_pgn_"):])]
    r.update(name="dispatchers: real decode_pgn_<PGN> vs run_disp on the translated table",
             distinct_nontrivial=distinct_count(nontriv),
             failing_cases=[{"pgn": raw[k][0], "payload": raw[k][1], "reached": raw[k][2]} for k in r["failing"][:20]],
             samples=[{"pgn": raw[k][0], "payload": hex(raw[k][1]), "reached": raw[k][2]} for k in (0, len(raw) // 2, len(raw) - 1)],
             distribution={"pgn_groups": len(groups), "cases": len(raw),
                           "reached_none": sum(1 for c in raw if c[2] is None)})
    reports = [r]
    # ids named by the message each bound function returns (validates code_ids of the translator)
    import nmea2000.pgns as P
    idc, idraw = [], []
    for name in sorted(vars(P)):
        if not re.fullmatch(r"decode_pgn_\d+(_.+)?", name):
            continue
        fn = getattr(P, name)
        if fn.__code__.co_varnames[:1] != ("_data_raw_",):
            continue
        m = None
        for p in (0, (1 << 2000) - 1, rng.getrandbits(1785)):
            try:
                m = fn(p)
                break
            except Exception:  # noqa: BLE001
                continue
        if m is None:
            continue
        idc.append(ctuple(_fname_lit(name)[6:-1], ctuple(cz(m.PGN), cstr_z(m.id))))
        idraw.append((name, m.PGN, m.id))
    r2 = run_cases("C08", "ids", IMPORTS, "fname * (Z * str)", "chk_ids code_ids", idc)
    r2.update(name="(PGN, id) named by each bound decode function vs translated code_ids",
              distinct_nontrivial=distinct_count(idraw),
              failing_cases=[{"fn": idraw[k][0]} for k in r2["failing"][:20]], samples=[{"fn": idraw[0]}])
    reports.append(r2)
    return reports


def _check_payload(rec, pgn, g, p):
    exp = _spec_select(g, p)
    obs = rec.call(pgn, p)
    exp_name = None if exp is None else f"decode_pgn_{pgn}_{exp['Id']}"
    if obs != exp_name:
        return {"key": f"select:{pgn}:{exp['Id'] if exp else None}", "kind": "select", "pgn": pgn, "payload": p,
                "expected": exp_name, "observed": obs,
                "what": f"PGN {pgn} payload {p:#x}: database rule selects {exp['Id'] if exp else None}, code reaches {obs}"}
    return None


def _decoder_history(groups, rng, n):
    """ONE long-lived decoder, a history mixing (for multi-definition PGNs) payloads that match a definition, a
    sibling, or none: the id of every returned message must be the database rule's choice for THAT payload,
    whatever came before (observe_at of the property: NMEA2000Message.id of the message returned for a payload)"""
    from nmea2000.decoder import NMEA2000Decoder
    dec = NMEA2000Decoder()
    multi = [(pgn, g) for pgn, g in groups.items() if len(g) > 1 and any(_match_fields(d) for d in g)]
    hist = []
    for _ in range(n):
        pgn, g = rng.choice(multi)
        hist.append((pgn, g, rng.choice(_payloads(g, rng, 1))))
    # sibling pairs: a payload of definition A immediately followed by one of a sibling B that agrees with it on as
    # many leading bytes as B's match fields allow (only B's own match fields are rewritten) — whatever a decoder
    # remembers about the first must not decide the second
    for pgn, g in multi:
        nbits = max([64] + [8 * d.get("Length", 8) for d in g if isinstance(d.get("Length", 8), int)])
        for d in g:
            if not _match_fields(d):
                continue
            pa = rng.getrandbits(nbits)
            for f in _match_fields(d):
                mask = ((1 << f["BitLength"]) - 1) << f["BitOffset"]
                pa = (pa & ~mask) | (f["Match"] << f["BitOffset"])
            for e in rng.sample(g, min(len(g), 4)):
                if e is d or not _match_fields(e):
                    continue
                pb = pa
                for f in _match_fields(e):
                    mask = ((1 << f["BitLength"]) - 1) << f["BitOffset"]
                    pb = (pb & ~mask) | (f["Match"] << f["BitOffset"])
                if pb != pa:
                    hist += [(pgn, g, pa), (pgn, g, pb)]
    # make sure a no-match payload precedes a matching one of the same PGN for every group
    for pgn, g in multi:
        ps = _payloads(g, rng, 1)
        none = [p for p in ps if _spec_select(g, p) is None]
        some = [p for p in ps if _spec_select(g, p) is not None]
        if none and some:
            hist += [(pgn, g, none[0]), (pgn, g, some[0]), (pgn, g, some[-1])]
    log = []
    for k, (pgn, g, p) in enumerate(hist):
        nb = max(1, (p.bit_length() + 7) // 8)
        data = p.to_bytes(nb, "little")
        line = "2020-01-01-00:00:00.000,3,%d,7,255,%d,%s" % (pgn, nb, ",".join("%02x" % b for b in data))
        exp = _spec_select(g, p)
        try:
            m = dec.decode_basic_string(line, True)
            got = None if m is None else m.id
        except Exception:  # noqa: BLE001
            got = "raises"       # the selected definition may contain unsupported fields / out-of-range values
        log.append((pgn, p, got))
        if got == "raises":
            continue
        if got != (exp["Id"] if exp else None):
            # decisive only if a FRESH decoder gives the database's answer (otherwise a field-level matter, C01)
            try:
                m2 = NMEA2000Decoder().decode_basic_string(line, True)
                fresh = None if m2 is None else m2.id
            except Exception:  # noqa: BLE001
                fresh = "raises"
            if fresh == (exp["Id"] if exp else None):
                return {"key": "select:history-dependent", "kind": "history",
                        "history": [[a, hex(b)] for a, b, _ in log],
                        "what": f"PGN {pgn} payload {p:#x}: database rule selects {exp['Id'] if exp else None}; a long-lived decoder "
                                f"returns {got} after {k} earlier payloads, a fresh decoder returns {fresh}"}
            if fresh != "raises":
                # the decoder's public path itself (not only the generated dispatcher) answers differently from the rule
                return {"key": "select:public-path", "kind": "history", "history": [[pgn, hex(p)]],
                        "what": f"PGN {pgn} payload {p:#x}: database rule selects {exp['Id'] if exp else None}; the decoder "
                                f"(decode_basic_string, new or long-lived) returns {fresh}"}
    return None


def _framed_filtered(groups, rng):
    """fast-packet PGNs with several definitions, delivered FRAME BY FRAME to a decoder that filters by id (a sibling
    excluded, or the definition itself included): the definition is chosen from the whole payload, so the message of a
    definition that is not filtered out comes back under its own id"""
    from nmea2000.decoder import NMEA2000Decoder
    from props import c10 as H
    for pgn, g in groups.items():
        if not (len(g) > 1 and any(_match_fields(d) for d in g)):
            continue
        try:
            if not NMEA2000Decoder._isFastPGN(pgn):
                continue
        except Exception:  # noqa: BLE001
            continue
        nb = max([8] + [d.get("Length", 8) for d in g if isinstance(d.get("Length", 8), int)])
        for d in g:
            mf = _match_fields(d)
            if not mf or max(f["BitOffset"] + f["BitLength"] for f in mf) <= 48:
                continue                      # all match fields inside the first frame's six payload bytes
            p = 0
            for f in mf:
                p |= f["Match"] << f["BitOffset"]
            if _spec_select(g, p) is not d:
                continue
            sibs = [e for e in g if e is not d and _match_fields(e)]
            if not sibs:
                continue
            e = rng.choice(sibs)
            data = p.to_bytes(nb, "little")
            for cfg in ({"exclude_pgns": [e["Id"]]}, {"include_pgns": [d["Id"]]}, {"exclude_pgns": [e["Id"].upper()]}):
                dec = NMEA2000Decoder(**cfg)
                dst = 255 if not H.is_pdu1(pgn) else 17
                got = "none"
                try:
                    for fr in H.fast_frames(data, rng.randrange(8)):
                        m = dec.decode_tcp(H.mk_pkt(pgn, 9, dst, 3, (fr + bytes([0xFF] * 8))[:8], 8))
                        if m is not None:
                            got = m.id
                except Exception:  # noqa: BLE001
                    got = "raises"
                if got == "raises":
                    continue
                # a decoder without filters, same frames: what the rule's definition decodes to (it may legitimately raise)
                plain = NMEA2000Decoder()
                ref = "none"
                try:
                    for fr in H.fast_frames(data, 1):
                        m = plain.decode_tcp(H.mk_pkt(pgn, 9, dst, 3, (fr + bytes([0xFF] * 8))[:8], 8))
                        if m is not None:
                            ref = m.id
                except Exception:  # noqa: BLE001
                    continue
                if ref == d["Id"] and got != d["Id"]:
                    return {"key": "select:framed-with-id-filter", "kind": "framed", "pgn": pgn, "payload": hex(p), "cfg": cfg,
                            "what": f"PGN {pgn} payload {p:#x} delivered as fast-packet frames to a decoder with {cfg}: the database "
                                    f"rule selects {d['Id']} (not filtered out; a decoder without filters returns it), this decoder "
                                    f"returns {got}"}
    return None


def search(ctx):
    groups = _groups(_db())
    rng = ctx.rng
    out = []
    w = _framed_filtered(groups, rng)
    if w:
        out.append(w)
    w = _decoder_history(groups, rng, ctx.n(150, 2000))     # before the recorder replaces the per-definition functions
    if w:
        out.append(w)
    rec = _Recorder()
    focus = [p for h in ctx.hints for p in h.get("failing_pgns", [])] + [c["pgn"] for h in ctx.hints for c in h.get("cases", [])]
    try:
        for pgn, g in groups.items():
            if not (len(g) > 1 and any(_match_fields(d) for d in g)):
                continue
            n = ctx.n(30, 200) if pgn in focus else ctx.n(6, 60)
            for p in _payloads(g, rng, n):
                w = _check_payload(rec, pgn, g, p)
                if w:
                    out.append(w)
                    break
    except Exception as e:  # noqa: BLE001
        out.append({"key": "search:exception", "kind": "exception", "what": f"dispatcher raised {e!r}"})
    finally:
        rec.restore()
    return out


def replay(ctx, data):
    w = data.get("witness", data)
    if w.get("kind") == "history":
        from nmea2000.decoder import NMEA2000Decoder
        groups = _groups(_db())
        dec, bad = NMEA2000Decoder(), None
        for pgn, ph in w["history"]:
            p = int(ph, 16)
            nb = max(1, (p.bit_length() + 7) // 8)
            line = "2020-01-01-00:00:00.000,3,%d,7,255,%d,%s" % (pgn, nb, ",".join("%02x" % b for b in p.to_bytes(nb, "little")))
            exp = _spec_select(groups[pgn], p)
            try:
                m = dec.decode_basic_string(line, True)
                got = None if m is None else m.id
            except Exception:  # noqa: BLE001
                continue
            if got != (exp["Id"] if exp else None):
                bad = (pgn, ph, got, exp["Id"] if exp else None)
        print("observed:", f"PGN {bad[0]} payload {bad[1]}: returned {bad[2]}, database rule selects {bad[3]}" if bad
              else "property holds on this history")
        return bad is not None
    if w.get("kind") == "framed":
        r = _framed_filtered({w["pgn"]: _groups(_db())[w["pgn"]]}, ctx.rng)
        print("observed:", r["what"] if r else "property holds on this input")
        return r is not None
    if w.get("kind") != "select":
        return True
    groups = _groups(_db())
    rec = _Recorder()
    try:
        r = _check_payload(rec, w["pgn"], groups[w["pgn"]], int(w["payload"]))
    finally:
        rec.restore()
    print("observed:", r["what"] if r else "property holds on this input")
    return r is not None
