"""C04 — fast-packet reassembly is exact under interleaving, reordering, duplication, loss and padding.

Tie: FastPacket.v (fp_step / g_step / dec_step mirror decoder._decode_fast_message and the default-configured
_decode) is compared with the real NMEA2000Decoder.decode_tcp on seeded frame histories; the kernel decides
`model history = observed` (CorrFastPacket.chk_hist).  The model is of the code WITH fixes/F-pad.patch.

Also home of the helpers shared with c03.py (frame building, history generation, observation)."""
import itertools
from vlib import cz, clist, cbytes, ctuple, run_cases, distinct_count

PROPS_FILES = ["props/C04.v"]
RULE = ("a case is one whole frame history (30-250 EByte packets) over 2-4 concurrent (PGN,source,destination) streams "
        "(always including the same PGN from two sources and one source to two destinations), each stream a sequence of "
        "fast-packet messages with boundary-heavy lengths; per message: non-first frames shuffled, dropped (15%), "
        "duplicated (30%), last frame padded with random non-zero bytes, stale frames of other sequence counters, "
        "duplicated first frames, plus a malformed share (frames truncated to 0-2 bytes, first frames re-using the "
        "current counter, frame counters beyond the message, over-long length nibbles); a quarter of the histories use "
        "key triples that collide under an ambiguous key format; distractor traffic of a single-frame PGN (61184), of a "
        "PGN unknown to pgns.py and of a fast PGN whose decode function always raises (record kept); observed per "
        "packet = None / payload integer rebuilt from the fields of the fallback definition / IndexError / "
        "decode-function exception, and at the end of the history the reassembly buffers (decoder.data: announced "
        "length, bytes stored, counter, frames); non-trivial = the history delivers at least one message; distinct "
        "by packet list")
TRUSTED = ["FastPacket.v is a hand model of decoder._decode_fast_message / _decode (default-configured decoder) in wire "
           "byte order; tied to the code only by the history correspondence of this run",
           "CorrFastPacket.tcp_frame (length nibble, big-endian identifier) + Header.extract_header stand for the "
           "decode_tcp front-end in the correspondence (decode_tcp itself belongs to C06/C07)"]
ASSUMPTIONS = ["sequence counters of consecutive messages on one stream differ (the standard's rule; C03_shape for this "
               "library's encoder); stale frames carry a counter different from the current message's",
               "a sender's frames satisfy msg_ok: together they reach the announced length and every non-first frame is "
               "needed (true of C03's segment with up to 6 padding bytes: FastPacketProofs.padded_msg_ok)",
               "the payload is observed through the 16+1768 bits the fallback definitions of PGN 126720/130816 expose",
               "Python int >>, & are Z.shiftr, Z.land; bytes are list Z"]
ALWAYS_SEARCH = True

IMPORTS = "From NV Require Import Base Header FastPacket CorrFastPacket."
CASE_TY = "((((list Z * list Z) * list Z) * list (list Z)) * list obs) * option (list (key * rec_obs))"

FALLBACK = {126720: "0x1ef00ManufacturerProprietaryFastPacketAddressed",
            130816: "0x1ff000x1ffffManufacturerSpecificFastPacketNonAddressed",
            61184: "0xef00ManufacturerProprietarySingleFrameAddressed"}      # single-frame distractor
FAST = [126720, 130816]
SINGLE = [61184]
UNKNOWN_CANDIDATES = [65535, 64000, 58880]                                  # no is_fast_pgn_N in pgns.py
RAISING_CANDIDATES = [126983, 126984, 126985, 130833]
LENGTHS = [0, 1, 2, 5, 6, 7, 8, 12, 13, 14, 15, 19, 20, 21, 27, 28, 34, 41, 100, 216, 217, 222, 223]
BITS = 16 + 1768


# ------------------------------------------------------------------ building frames (independent of the encoder)
def can_id(pgn, src, dst, prio):
    pf = (pgn >> 8) & 0xFF
    field = (pgn | dst) if pf < 240 else pgn
    return (prio << 26) | (field << 8) | src


def packet(key, data, prio=3, tyhi=0x80, nibble=None, tail=None):
    """13-byte EByte packet. `nibble` overrides the length nibble (truncation / over-long)."""
    pgn, src, dst = key
    data = list(data)
    body = data + (tail if tail is not None else [0] * (8 - len(data)))
    body = (body + [0] * 8)[:8]
    n = len(data) if nibble is None else nibble
    return bytes([tyhi | (n & 0x0F)]) + can_id(pgn, src, dst, prio).to_bytes(4, "big") + bytes(body)


def std_frames(seq, payload, pad=None):
    """What a standard-conforming sender puts on the bus. pad: None (short last frame) or f(k) -> k filler bytes."""
    payload = list(payload)
    n = len(payload)
    frames = [[(seq << 5) | 0, n] + payload[:6]]
    off, k = 6, 1
    while off < n:
        frames.append([(seq << 5) | k] + payload[off:off + 7])
        off += 7
        k += 1
    if pad is not None and len(frames[-1]) < 8:
        frames[-1] = frames[-1] + list(pad(8 - len(frames[-1])))
    return frames


def fallback_payload(rng, pgn, n, pgns_mod):
    """n random bytes that the dispatcher of `pgn` sends to the fallback definition; last byte non-zero so the
    length is visible in the integer."""
    for _ in range(50):
        p = [rng.getrandbits(8) for _ in range(n)]
        if n:
            p[-1] = p[-1] or 0x5A
        try:
            m = getattr(pgns_mod, f"decode_pgn_{pgn}")(int.from_bytes(bytes(p), "little"))
        except Exception:  # noqa: BLE001
            m = None
        if m is not None and m.id == FALLBACK[pgn]:
            return p
    return [0xFE, 0xFF] + [0x11] * (n - 2) if n >= 2 else [0xFE][:n]


def msg_int(m):
    """payload integer (little-endian over wire bytes, 1784 bits) rebuilt from a fallback-definition message"""
    f = {x.id: x for x in m.fields}
    return (f["manufacturerCode"].raw_value | (f["reserved_11"].raw_value << 11) | (f["industryCode"].raw_value << 13)
            | (int.from_bytes(f["data"].raw_value, "big") << 16))


def observe(dec, pk):
    try:
        m = dec.decode_tcp(pk)
    except IndexError:
        return ("index",)
    except Exception:  # noqa: BLE001
        return ("dec",)
    if m is None:
        return ("none",)
    try:
        if m.id == FALLBACK.get(m.PGN):
            return ("msg", msg_int(m), (m.PGN, m.source, m.destination))
    except Exception:  # noqa: BLE001
        pass
    return ("other", repr(m)[:80])


def cobs(o):
    return {"none": "ONone", "dec": "ODec", "index": "OIndex", "other": "OOther"}.get(o[0]) or f"(OMsg {cz(o[1])})"


def raising_pgn(rng):
    """a fast PGN whose decode function raises on every payload (unsupported field type), probed on the real code"""
    import nmea2000.pgns as P
    for pgn in RAISING_CANDIDATES:
        try:
            if getattr(P, f"is_fast_pgn_{pgn}")() is not True:
                continue
        except Exception:  # noqa: BLE001
            continue
        f = getattr(P, f"decode_pgn_{pgn}", None)
        if f is None:
            continue
        bad = 0
        for _ in range(25):
            try:
                f(rng.getrandbits(8 * rng.choice([0, 1, 8, 20, 60, 223])))
            except Exception:  # noqa: BLE001
                bad += 1
        if bad == 25:
            return pgn
    return None


# ------------------------------------------------------------------ histories
def stream_keys(rng, nstreams, rpgn):
    a, b = rng.sample(range(0, 253), 2)
    x, y = rng.sample(range(0, 255), 2)
    pool = [(126720, a, x), (126720, b, x), (126720, a, y), (130816, a, 255), (130816, b, 255)]
    keys = [pool[0], pool[rng.choice([1, 2])]]
    rest = [k for k in pool if k not in keys]
    rng.shuffle(rest)
    keys += rest[:max(0, nstreams - 2)]
    if rng.random() < 0.25:    # pairs that collide under an ambiguous or order-insensitive key format
        keys = list(rng.choice([[(126720, 1, 23), (126720, 12, 3), (126720, 1, 2), (130816, 12, 255)],
                                [(126720, 11, 1), (126720, 1, 11), (126720, 111, 0), (130816, 1, 255)],
                                [(126720, 7, 20), (126720, 72, 0), (126720, 0, 72), (130816, 72, 255)]]))[:max(2, nstreams)]
    if rpgn is not None and rng.random() < 0.35:
        keys.append((rpgn, a, 255))
    if rng.random() < 0.3:
        keys.append((SINGLE[0], a, x))
    if rng.random() < 0.3:
        import nmea2000.pgns as P
        u = [p for p in UNKNOWN_CANDIDATES if not hasattr(P, f"is_fast_pgn_{p}")]
        if u:
            keys.append((u[0], b, 255 if (u[0] >> 8) & 0xFF >= 240 else y))
    return keys


def gen_stream(rng, key, nmsgs, pgns_mod, padding, malformed, stats):
    """frames (lists of 0..8 wire bytes, plus optional nibble override) of one stream"""
    out = []
    if key[0] in SINGLE or key[0] in UNKNOWN_CANDIDATES:       # distractors: single-frame / unknown PGN traffic
        for _ in range(nmsgs * 2):
            n = rng.choice([0, 1, 2, 3, 8, 8, 8])
            f = fallback_payload(rng, key[0], n, pgns_mod) if key[0] in FALLBACK else [rng.getrandbits(8) for _ in range(n)]
            out.append((f, None))
        return out
    seq = rng.randrange(8)
    for _ in range(nmsgs):
        n = rng.choice(LENGTHS) if rng.random() < 0.25 else rng.choice([7, 8, 9, 13, 14, 16, 20, 21, 22, 27])
        if n > 60 and rng.random() < 0.7:
            n = rng.choice([13, 14, 20])
        payload = fallback_payload(rng, key[0], n, pgns_mod) if key[0] in FALLBACK else [rng.getrandbits(8) for _ in range(n)]
        if padding == "none":
            pad = None
        elif padding == "const":
            pad = lambda k: [0xFF] * k  # noqa: E731
        else:
            r = rng.random()
            pad = None if r < 0.2 else (lambda k: [0xFF] * k) if r < 0.45 else (lambda k: [rng.randrange(1, 256) for _ in range(k)])
        fr = std_frames(seq, payload, pad)
        first, rest = fr[0], fr[1:]
        ev = []
        for f in rest:
            if rng.random() < 0.15:
                stats["drop"] += 1
                continue
            ev.append(f)
            if rng.random() < 0.30:
                stats["dup"] += 1
                ev.insert(rng.randrange(len(ev) + 1), list(f))
        if rng.random() < 0.6:
            rng.shuffle(ev)
            stats["shuffled"] += 1
        for _ in range(rng.choice([0, 0, 1, 2])):          # stale frames of another counter
            s2 = (seq + rng.randrange(1, 8)) % 8
            ev.insert(rng.randrange(len(ev) + 1), [(s2 << 5) | rng.randrange(1, 32)] + [rng.getrandbits(8) for _ in range(7)])
            stats["stale"] += 1
        if rng.random() < 0.15:                              # duplicated first frame somewhere later
            ev.insert(rng.randrange(len(ev) + 1), list(first))
            stats["dupfirst"] += 1
        if rng.random() < 0.08 and padding != "none":      # the first frame is lost (not in the filler-free C03 mode:
            # its frames could then join the previous message and overshoot the announced length)
            stats["lostfirst"] += 1
            msg = ev
        else:
            msg = [first] + ev
        msg = [(f, None) for f in msg]
        if malformed and rng.random() < 0.5:
            kind = rng.randrange(6) if malformed is True else 0    # "trunc": only kind 0 (never adds bytes)
            pos = rng.randrange(len(msg) + 1)
            stats["malformed"] += 1
            if kind == 0:      # truncated to 0..2 bytes by the length nibble
                f = rng.choice(fr)
                msg.insert(pos, (list(f), rng.randrange(0, 3)))
            elif kind == 1:    # really short frames
                msg.insert(pos, ([[], [(seq << 5)], [((seq + 1) % 8) << 5], [(seq << 5) | 1], [((seq + 1) % 8) << 5, 3]][rng.randrange(5)], None))
            elif kind == 2:    # first frame re-using the current counter with other content
                msg.insert(pos, ([(seq << 5), rng.randrange(0, 40)] + [rng.getrandbits(8) for _ in range(6)], None))
            elif kind == 3:    # frame counter beyond the message
                msg.insert(pos, ([(seq << 5) | rng.randrange(len(fr), 32) if len(fr) < 32 else (seq << 5) | 31] + [rng.getrandbits(8) for _ in range(rng.randrange(0, 8))], None))
            elif kind == 4:    # over-long length nibble
                f = rng.choice(fr)
                msg.insert(pos, ((list(f) + [0] * 8)[:8], rng.randrange(9, 16)))
            else:              # short non-first frame of the right counter
                msg.insert(pos, ([(seq << 5) | rng.randrange(1, 6)] + [rng.getrandbits(8) for _ in range(rng.randrange(0, 4))], None))
        out.extend(msg)
        seq = (seq + 1) % 8 if rng.random() < 0.8 else (seq + rng.randrange(1, 8)) % 8
    return out


def gen_history(rng, pgns_mod, rpgn, padding="random", malformed=True, stats=None, nmsgs=(2, 7)):
    stats = stats if stats is not None else {}
    for k in ("drop", "dup", "shuffled", "stale", "dupfirst", "lostfirst", "malformed"):
        stats.setdefault(k, 0)
    keys = stream_keys(rng, rng.choice([2, 3, 3, 4]), rpgn)
    streams = [[(k, f, nib) for f, nib in gen_stream(rng, k, rng.randint(*nmsgs), pgns_mod, padding, malformed, stats)] for k in keys]
    hist = []
    idx = [0] * len(streams)
    live = [i for i, s in enumerate(streams) if s]
    while live:
        i = rng.choice(live)
        k, f, nib = streams[i][idx[i]]
        hist.append(packet(k, f, prio=rng.randrange(8), tyhi=rng.choice([0x80, 0x80, 0x00, 0xC0]), nibble=nib,
                           tail=[rng.getrandbits(8) for _ in range(8 - len(f))] if rng.random() < 0.3 else None))
        idx[i] += 1
        if idx[i] == len(streams[i]):
            live.remove(i)
    return keys, hist


def final_state(dec):
    """the reassembly buffers as (key triple, (payload_length, bytes_stored, sequence_counter), frames in wire order);
    None (comparison skipped) when the internals are not shaped as in the pinned tree"""
    try:
        out = []
        for ks, r in dec.data.items():
            pgn, src, dst = (int(x) for x in ks.split("_"))
            out.append(((pgn, src, dst), (int(r.payload_length), int(r.bytes_stored), int(r.sequence_counter)),
                        sorted((int(k), list(bytes(v)[::-1])) for k, v in r.frames.items())))
        return out
    except Exception:  # noqa: BLE001
        return None


def run_history(hist, want_state=False):
    from nmea2000.decoder import NMEA2000Decoder
    dec = NMEA2000Decoder()
    obs = [observe(dec, pk) for pk in hist]
    return (obs, final_state(dec)) if want_state else obs


def cstate(st):
    if st is None:
        return "None"
    return "(Some " + clist(ctuple(ctuple(*(cz(x) for x in k)), ctuple(ctuple(*(cz(x) for x in r)),
                                   clist(ctuple(cz(i), cbytes(d)) for i, d in fs))) for k, r, fs in st) + ")"


def hist_case(fast, raising, hist, obs, final=None):
    return ctuple(ctuple(ctuple(ctuple(ctuple(clist(cz(p) for p in fast), clist(cz(p) for p in SINGLE)),
                                       clist(cz(p) for p in raising)),
                                clist(cbytes(pk) for pk in hist)), clist(cobs(o) for o in obs)), cstate(final))


def corr_histories(ctx, prop, name, n, padding, malformed):
    import nmea2000.pgns as P
    rng = ctx.rng
    rpgn = raising_pgn(rng)
    if rpgn is None:
        ctx.notes.append("no always-raising fast PGN found: the DecRaise branch is not exercised in this run")
    fast = list(FAST) + ([rpgn] if rpgn else [])
    raising = [rpgn] if rpgn else []
    stats, cases, hists, obss = {}, [], [], []
    kinds = {"none": 0, "msg": 0, "dec": 0, "index": 0, "other": 0}
    nstate = 0
    for _ in range(n):
        _, hist = gen_history(rng, P, rpgn, padding=padding, malformed=malformed, stats=stats)
        obs, final = run_history(hist, want_state=True)
        for o in obs:
            kinds[o[0]] += 1
        nstate += final is not None
        hists.append(hist)
        obss.append(obs)
        cases.append(hist_case(fast, raising, hist, obs, final))
    r = run_cases(prop, name, IMPORTS, CASE_TY, "chk_hist", cases, shard=max(8, (len(cases) + 15) // 16))
    r.update(name=f"decode_tcp histories vs dec_run ({name})", n=sum(len(h) for h in hists),
             histories=len(hists),
             distinct_nontrivial=distinct_count([h for h, o in zip(hists, obss) if any(x[0] == "msg" for x in o)]),
             failing_cases=[{"kind": "history", "packets": [pk.hex() for pk in hists[k]]} for k in r["failing"][:5]],
             samples=[{"packets": [pk.hex() for pk in hists[0][:6]], "observed": [list(o)[:2] for o in obss[0][:6]]}],
             distribution={"histories": len(hists), "packets": sum(len(h) for h in hists), "observations": kinds,
                           "padding": padding, "malformed_share": malformed, "events": stats, "raising_pgn": rpgn, "final_buffers_compared": nstate})
    return r


def correspond(ctx):
    return [corr_histories(ctx, "C04", "hist", ctx.n(160, 4000), "random", True)]


# ------------------------------------------------------------------ property oracle on the real decoder
# (independent of the Coq model: a set-based reference of what the property text demands)
class Episode:
    def __init__(self, key, seq, payload, pad):
        self.key, self.seq, self.payload = key, seq, list(payload)
        self.frames = std_frames(seq, payload, pad)
        self.need = set(range(1, len(self.frames)))


def expected_for(stream_events):
    """stream_events: list of ('first', ep) | ('own', ep, k) | ('stale', ep). Returns expected observation per event."""
    exp, cur, got, done = [], None, set(), True
    for e in stream_events:
        if e[0] == "first":
            cur, got = e[1], set()
            done = not cur.need
            exp.append(("msg", cur.payload) if done else ("none",))
        elif e[0] == "own" and e[1] is cur and not done:
            got.add(e[2])
            if got >= cur.need:
                done = True
                exp.append(("msg", cur.payload))
            else:
                exp.append(("none",))
        else:
            exp.append(("none",))
    return exp


def check_history(events, label):
    """events: list of (key, frame bytes, tag) in global order. Runs the real decoder and compares with the
    property's demand. Returns a witness dict or None."""
    per = {}
    for i, (k, f, tag) in enumerate(events):
        per.setdefault(k, []).append((i, tag))
    expected = [None] * len(events)
    for k, lst in per.items():
        for (i, _), x in zip(lst, expected_for([t for _, t in lst])):
            expected[i] = x
    hist = [packet(k, f) for k, f, _ in events]
    obs = run_history(hist)
    for i, (o, x) in enumerate(zip(obs, expected)):
        ok = (o[0] == "none" and x[0] == "none") or \
             (o[0] == "msg" and x[0] == "msg" and o[1] == int.from_bytes(bytes(x[1]), "little") and o[2] == events[i][0])
        if not ok:
            if x[0] == "msg" and o[0] == "msg" and o[2] == events[i][0]:
                n = len(x[1])
                low = o[1] & ((1 << (8 * n)) - 1)
                key = ("padding:delivered-payload-contains-bytes-beyond-announced-length"
                       if low == int.from_bytes(bytes(x[1]), "little") else "safety:wrong-payload-delivered")
            elif x[0] == "msg":
                key = "complete:message-not-delivered-when-last-missing-frame-arrives"
            elif o[0] == "msg":
                key = "safety-or-once:unexpected-delivery"
            else:
                key = "exception:" + o[0]
            want = "None" if x[0] == "none" else "payload " + bytes(x[1]).hex()
            seen = ("payload " + o[1].to_bytes(max(1, (o[1].bit_length() + 7) // 8), "little").hex()
                    + f" on stream {o[2]}") if o[0] == "msg" else {"none": "None", "dec": "an exception of the PGN decoder",
                                                                    "index": "IndexError"}.get(o[0], str(o[:2]))
            return {"key": key, "kind": "history", "label": label, "at": i,
                    "what": f"{label}: packet {i} of {len(hist)} (stream {events[i][0]}): expected {want}, observed {seen}",
                    "packets": [p.hex() for p in hist],
                    "expected": [["none"] if x[0] == "none" else ["msg", int.from_bytes(bytes(x[1]), "little")] for x in expected],
                    "keys": [list(k) for k, _, _ in events]}
    return None


def _episode_events(rng, ep, order, stale=0):
    """order: list of frame indices (>=1) to send after the first frame"""
    ev = [(ep.key, ep.frames[0], ("first", ep))]
    for k in order:
        ev.append((ep.key, ep.frames[k], ("own", ep, k)))
    for _ in range(stale):
        s2 = (ep.seq + rng.randrange(1, 8)) % 8
        ev.insert(rng.randrange(1, len(ev) + 1), (ep.key, [(s2 << 5) | rng.randrange(1, 32)] + [rng.getrandbits(8) for _ in range(7)], ("stale", ep)))
    return ev


def _interleavings(a, b):
    if not a or not b:
        yield a + b
        return
    for pos in itertools.combinations(range(len(a) + len(b)), len(a)):
        out, ia, ib, s = [], 0, 0, set(pos)
        for i in range(len(a) + len(b)):
            if i in s:
                out.append(a[ia]); ia += 1
            else:
                out.append(b[ib]); ib += 1
        yield out


def search_small_scope(ctx, P, budget):
    """2 streams, messages of 3 and 2 frames: every sequence (permutation / duplicate / drop) of the non-first frames
    up to length 3 resp. 2, followed by a complete in-order message of the next counter (recovery), in every
    interleaving of the two streams. Sampled down to `budget` histories outside the thorough tier."""
    rng = ctx.rng
    pad = lambda k: [rng.randrange(1, 256) for _ in range(k)]  # noqa: E731
    ka = (126720, 7, 20)
    kb = rng.choice([(126720, 9, 20), (126720, 7, 21), (130816, 9, 255), (130816, 7, 255), (126720, 72, 0), (126720, 20, 7)])
    seqs_a = [s for L in range(4) for s in itertools.product([1, 2], repeat=L)]
    seqs_b = [s for L in range(3) for s in itertools.product([1], repeat=L)]
    combos = [(sa, sb) for sa in seqs_a for sb in seqs_b]
    total = 0
    for sa, sb in combos:
        a1 = Episode(ka, 6, fallback_payload(rng, ka[0], 15, P), pad)
        a2 = Episode(ka, 7, fallback_payload(rng, ka[0], 20, P), pad)
        b1 = Episode(kb, 7, fallback_payload(rng, kb[0], 9, P), pad)
        b2 = Episode(kb, 0, fallback_payload(rng, kb[0], 13, P), pad)
        ea = _episode_events(rng, a1, sa) + _episode_events(rng, a2, [1, 2])
        eb = _episode_events(rng, b1, sb) + _episode_events(rng, b2, [1])
        inter = list(_interleavings(ea, eb)) if ctx.thorough else None
        if inter is None:
            k = max(1, budget // len(combos))
            inter = []
            for _ in range(k):
                x = [0] * len(ea) + [1] * len(eb)
                rng.shuffle(x)
                ia = ib = 0
                cur = []
                for t in x:
                    if t == 0:
                        cur.append(ea[ia]); ia += 1
                    else:
                        cur.append(eb[ib]); ib += 1
                inter.append(cur)
        for h in inter:
            total += 1
            w = check_history(h, "small-scope")
            if w:
                return w, total
    return None, total


def search_random(ctx, P, n):
    rng = ctx.rng
    for it in range(n):
        keys = [k for k in stream_keys(rng, rng.choice([2, 3, 4]), None) if k[0] in FAST]
        streams = []
        for k in keys:
            seq = rng.randrange(8)
            ev = []
            for _ in range(rng.randint(2, 12)):
                ln = rng.choice(LENGTHS) if rng.random() < 0.2 else rng.randrange(0, 30)
                r = rng.random()
                pad = None if r < 0.2 else (lambda j: [0xFF] * j) if r < 0.5 else (lambda j: [rng.randrange(1, 256) for _ in range(j)])
                ep = Episode(k, seq, fallback_payload(rng, k[0], ln, P), pad)
                order = []
                for j in range(1, len(ep.frames)):
                    if rng.random() < 0.15:
                        continue
                    order.append(j)
                    if rng.random() < 0.3:
                        order.insert(rng.randrange(len(order) + 1), j)
                if rng.random() < 0.6:
                    rng.shuffle(order)
                ev += _episode_events(rng, ep, order, stale=rng.choice([0, 0, 1, 2]))
                seq = (seq + 1) % 8 if rng.random() < 0.8 else (seq + rng.randrange(1, 8)) % 8
            streams.append(ev)
        hist, idx = [], [0] * len(streams)
        live = [i for i, s in enumerate(streams) if s]
        while live:
            i = rng.choice(live)
            hist.append(streams[i][idx[i]])
            idx[i] += 1
            if idx[i] == len(streams[i]):
                live.remove(i)
        w = check_history(hist, "random-history")
        if w:
            return w
    return None


def search_padding(ctx, P, n):
    """the same history with two different fillers must be observed identically"""
    rng = ctx.rng
    for _ in range(n):
        ln = rng.choice([1, 5, 7, 8, 10, 14, 15, 22, 30])
        key = rng.choice([(126720, 3, 4), (130816, 3, 255)])
        payload = fallback_payload(rng, key[0], ln, P)
        seq = rng.randrange(8)
        obs = []
        for fill in (0x00, 0xFF):
            ep = Episode(key, seq, payload, lambda k, fill=fill: [fill] * k)
            order = list(range(1, len(ep.frames)))
            rng2 = __import__("random").Random(ln)
            rng2.shuffle(order)
            events = _episode_events(rng, ep, order)
            w = check_history(events, f"padding 0x{fill:02X}")
            if w:
                return w
            obs.append([o[:2] for o in run_history([packet(k, f) for k, f, _ in events])])
        if obs[0] != obs[1]:
            return {"key": "padding:delivered-payload-contains-bytes-beyond-announced-length", "kind": "history",
                    "what": "same message, filler 0x00 vs 0xFF observed differently", "packets": [], "expected": []}
    return None


def search_many_streams(ctx, P):
    """MANY streams with an unfinished message at once (the property is about any number of streams): a message whose
    first frame arrived before M other streams started theirs still completes when its remaining frames arrive; a new
    stream's message is delivered; a stream from the middle completes too."""
    rng = ctx.rng
    pad = lambda k: [0xFF] * k  # noqa: E731
    for M in (70, 140, 300):
        srcs = list(range(0, 252))
        rng.shuffle(srcs)
        keys = [(130816, s_, 255) for s_ in srcs] + [(126720, s_, rng.choice([255, 17, 0])) for s_ in srcs]
        rng.shuffle(keys)
        first = Episode(keys[0], rng.randrange(8), fallback_payload(rng, keys[0][0], 20, P), pad)
        ev = [(first.key, first.frames[0], ("first", first))]
        others = []
        for k in keys[1:M + 1]:
            ep = Episode(k, rng.randrange(8), fallback_payload(rng, k[0], rng.choice([13, 20, 27]), P), pad)
            others.append(ep)
            ev.append((ep.key, ep.frames[0], ("first", ep)))
            if rng.random() < 0.3 and len(ep.frames) > 2:
                ev.append((ep.key, ep.frames[1], ("own", ep, 1)))
        for j in range(1, len(first.frames)):
            ev.append((first.key, first.frames[j], ("own", first, j)))
        new = Episode(keys[M + 2], rng.randrange(8), fallback_payload(rng, keys[M + 2][0], 20, P), pad)
        ev += _episode_events(rng, new, list(range(1, len(new.frames))))
        mid = others[len(others) // 2]
        sent = {e[2][2] for e in ev if e[0] == mid.key and e[2][0] == "own"}
        for j in range(1, len(mid.frames)):
            if j not in sent:
                ev.append((mid.key, mid.frames[j], ("own", mid, j)))
        last = others[-1]
        sent = {e[2][2] for e in ev if e[0] == last.key and e[2][0] == "own"}
        for j in range(1, len(last.frames)):
            if j not in sent:
                ev.append((last.key, last.frames[j], ("own", last, j)))
        w = check_history(ev, f"{M} streams with an unfinished message at once")
        if w:
            w["key"] = "many-streams:" + w["key"]
            return w
    return None


def search_reserved_bit(ctx, P):
    """a transfer on an identifier that differs from a known fast-packet PGN only in the reserved bit (bit 25: PGN 0x3EF00 /
    0x3FF00.. instead of 0x1EF00 / 0x1FF00) is another, unknown PGN: its frames, interleaved with a transfer of the known
    PGN from the same source to the same destination under the same counter, neither complete nor disturb it"""
    rng = ctx.rng
    pad = lambda k: [0xFF] * k  # noqa: E731
    for _ in range(ctx.n(12, 120)):
        base = rng.choice([(126720, rng.randrange(252), rng.choice([255, 17, 0])), (130816, rng.randrange(252), 255)])
        twin = (base[0] | 0x20000, base[1], base[2])
        sq = rng.randrange(8)
        a = Episode(base, sq, fallback_payload(rng, base[0], rng.choice([13, 20, 27]), P), pad)
        b = Episode(twin, sq, fallback_payload(rng, base[0], rng.choice([13, 20, 27]), P), pad)
        ea = _episode_events(rng, a, list(range(1, len(a.frames))))
        eb = [(twin, f, ("stale", b)) for f in b.frames]
        x = [0] * len(ea) + [1] * len(eb)
        rng.shuffle(x)
        ia = ib = 0
        ev = []
        for t in x:
            if t == 0:
                ev.append(ea[ia]); ia += 1
            else:
                ev.append(eb[ib]); ib += 1
        w = check_history(ev, "a transfer on the identifier with the reserved bit set, interleaved")
        if w:
            w["key"] = "reserved-bit:" + w["key"]
            return w
    return None


def search(ctx):
    import nmea2000.pgns as P
    out = []
    w = search_reserved_bit(ctx, P)
    if w:
        out.append(w)
    w = search_many_streams(ctx, P)
    if w:
        out.append(w)
    # replay disagreements of the correspondence first: classify them with the property oracle where possible
    w = search_padding(ctx, P, ctx.n(40, 400))
    if w:
        out.append(w)
    w, total = search_small_scope(ctx, P, ctx.n(1500, 0))
    ctx.notes.append(f"small-scope search: {total} histories" + (" (complete enumeration)" if ctx.thorough and not w else ""))
    if w:
        out.append(w)
    w = search_random(ctx, P, ctx.n(150, 6000))
    if w:
        out.append(w)
    return out


def replay(ctx, data):
    w = data.get("witness", data)
    hist = [bytes.fromhex(p) for p in w.get("packets", [])]
    obs = run_history(hist)
    exp = w.get("expected", [])
    bad = None
    for i, (o, x) in enumerate(zip(obs, exp)):
        got = ["none"] if o[0] == "none" else (["msg", o[1]] if o[0] == "msg" else [o[0]])
        if got != list(x):
            bad = (i, x, got)
            break
    if bad:
        i, x, got = bad
        print(f"expected at packet {i}: {x if x[0] == 'none' else ['msg', hex(x[1])]}  observed: "
              f"{got if got[0] != 'msg' else ['msg', hex(got[1])]}")
    else:
        print("observed: every packet of the stored history is answered as the property demands")
    return bad is not None
