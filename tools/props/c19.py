"""C19 — send() writes the encoder's packets contiguously; bad messages are harmless.

Tie between SendModel.v and the code: the REAL client classes (all four) on a virtual-time loop in a
subprocess with a scripted fake writer (per write: ok / raise; per drain: return / suspend / raise /
suspend-then-raise), 1-3 concurrent send() tasks of single- and multi-frame, encodable and
unencodable messages, status callbacks that return / raise / sleep, refused reconnections, a client
that was never connected. The event log becomes a label list; SendModel.step (with the lock, i.e.
the REPAIRED code) is the acceptor; byte log, final state, number of connect tasks and status trace
are compared by the kernel.
Search: the property's own oracle on the same sessions, independent of the model (expected packets
from a fresh NMEA2000Encoder; contiguity of the gateway's byte log; nothing happens around a bad
message; DISCONNECTED + reconnect after a failing write).
"""
from __future__ import annotations
import json
from vlib import cz, clist, cbytes, cbool, ctuple, run_cases, distinct_count
import vloop_rxs as V

PROPS_FILES = ["props/C19.v"]
ALWAYS_SEARCH = True
RULE = ("per client kind: 1-3 concurrent send() calls (start offsets: same loop turn / 1-3 turns / sequential), messages "
        "drawn from {valid single-frame, valid fast-packet (2-6 frames), missing field, out-of-range value, unknown PGN, "
        "priority 9}, write script per packet from {drain returns, suspends 1-3 turns, suspends 100-300 ms} with one "
        "optional failure (write raises / drain raises / drain suspends then raises) at every packet position, status "
        "callback in {returns, raises, sleeps, yields, none}, 0-2 refused reconnections, never-connected client; a case "
        "is non-trivial when at least two packets are written; distinct by the whole session spec")
TRUSTED = ["SendModel.v is a hand model of AsyncIOClient.send and the four _encode_impl (repaired code: fixes/F-sendlock, "
           "fixes/F-actisense-send); tied to the code by the trace correspondence of this run",
           "asyncio.Lock: a waiter proceeds only when the lock is free (any waiter may win: over-approximation of FIFO)",
           "tools/vloop_rxs.py (virtual-time loop, fake writer, method wrappers producing the event log)",
           "connect()/close() appear only as environment transitions LReconnect/LClose (their programs: C13/C14)"]
ASSUMPTIONS = ["encode is an arbitrary state-passing function (Section variable); instantiated in the correspondence by "
               "the replay of the real _encode_impl outcomes",
               "send() tasks are not cancelled",
               "the environment chooses every write/drain outcome and every status-callback behaviour"]

IMPORTS = "From NV Require Import Base Stream SendModel CorrStream."
KINDS = ["ebyte", "actisense", "yd", "waveshare"]


# ------------------------------------------------------------------ session generation
class Gen:
    def __init__(self):
        self.pool = V.build_pool()
        self.single = [m for m, n in self.pool if n == 1]
        self.fast = [m for m, n in self.pool if n > 1]

    def message(self, rng, what):
        if what == "single":
            return rng.choice(self.single).to_json()
        if what == "fast":
            return rng.choice(self.fast).to_json()
        d = json.loads(rng.choice(self.single + self.fast).to_json())
        if what == "missing":
            del d["fields"][rng.randrange(len(d["fields"]))]
        elif what == "range":
            cands = [f for f in d["fields"] if isinstance(f.get("value"), (int, float)) and not isinstance(f.get("value"), bool)]
            f = rng.choice(cands)
            f["value"] = 1e15
            f["raw_value"] = 1e15
        elif what == "pgn":
            d["PGN"] = rng.choice([99999, 130000, 59000])
            d["id"] = "noSuchThing"
        elif what == "prio":
            d["priority"] = 9
        return json.dumps(d)


FAILS = [None, None, "w", "d", "dd"]


def make_spec(rng, gen, kind, nsend=None, fail=None, shape=None):
    nsend = nsend or rng.choice([1, 2, 2, 3, 3])
    sends = []
    for _ in range(nsend):
        what = rng.choice(["single", "single", "single", "fast", "fast", "fast", "fast", "fast", "fast", "fast",
                           "missing", "range", "pgn", "prio"])
        sends.append({"msg": gen.message(rng, what), "what": what,
                      "delay": rng.choice([0, 0, 0, 1, 2, 3, 150])})
    if shape == "two-fast":
        sends = [{"msg": gen.message(rng, "fast"), "what": "fast", "delay": 0} for _ in range(2)]
    spec = {"mode": "tx", "kind": kind, "sends": sends}
    nw = 24
    style = rng.choice(["susp", "susp", "mix", "ret", "slow"])
    ws = []
    for _ in range(nw):
        if style == "ret":
            ws.append({"w": "ok", "d": "ret"})
        elif style == "susp":
            ws.append({"w": "ok", "d": "susp", "n": rng.choice([1, 1, 2, 3])})
        elif style == "slow":
            ws.append({"w": "ok", "d": "susp", "n": rng.choice([100, 200, 300])})
        else:
            ws.append(rng.choice([{"w": "ok", "d": "ret"}, {"w": "ok", "d": "susp", "n": 1},
                                  {"w": "ok", "d": "susp", "n": 2}, {"w": "ok", "d": "susp", "n": 150}]))
    fail = fail if fail is not None else rng.choice(FAILS)
    if fail:
        k = rng.randrange(0, 8)
        spec["fail_at"] = k
        if fail == "w":
            ws[k] = {"w": "raise"}
        elif fail == "d":
            ws[k] = {"w": "ok", "d": "raise"}
        else:
            ws[k] = {"w": "ok", "d": "susp_raise", "n": rng.choice([1, 2, 120])}
        if rng.random() < 0.3:     # the broken link keeps failing
            for j in range(k + 1, min(nw, k + 4)):
                ws[j] = {"w": "raise"}
    spec["fail"] = fail
    spec["wscript"] = ws
    spec["status_cb"] = rng.choice(["ret", "ret", "raise", "sleep", "yield", "none"])
    spec["refuse"] = rng.choice([0, 0, 1, 2])
    if shape == "window":
        # a second fault while the reconnect's connect() is still finishing (lock held during the slow CONNECTED
        # status callback / the 10 ms cancel wait): the first message fails at its 2nd packet, the sends that start
        # 150 ms and 300 ms later fail on the NEW writer, then the link is healthy
        spec["sends"] = [{"msg": gen.message(rng, "fast"), "what": "fast", "delay": 150},
                         {"msg": gen.message(rng, rng.choice(["fast", "single"])), "what": "x", "delay": rng.choice([150, 100, 305])},
                         {"msg": gen.message(rng, "fast"), "what": "fast", "delay": 0}]
        ws = [{"w": "ok", "d": "ret"}] + [{"w": "raise"} if rng.random() < 0.6 else {"w": "ok", "d": "raise"}
                                           for _ in range(rng.choice([2, 3]))] + [{"w": "ok", "d": "ret"}] * 24
        spec.update(wscript=ws, fail="w", fail_at=1, status_cb=rng.choice(["sleep", "sleep", "ret", "yield"]), refuse=0)
    if shape == "twofail":
        # two senders fail one after the other on the same broken link while the application's status callback is
        # slow: the reconnection triggered by one report must survive the other report's handler
        spec["sends"] = [{"msg": gen.message(rng, "fast"), "what": "fast", "delay": 0},
                         {"msg": gen.message(rng, rng.choice(["fast", "single"])), "what": "x", "delay": rng.choice([0, 0, 1, 2])}]
        if rng.random() < 0.4:
            spec["sends"].append({"msg": gen.message(rng, "single"), "what": "single", "delay": 0})
        k = rng.choice([0, 1, 2])
        first = rng.choice([{"w": "ok", "d": "susp_raise", "n": rng.choice([1, 2, 3])}, {"w": "ok", "d": "raise"}, {"w": "raise"}])
        ws = [{"w": "ok", "d": rng.choice(["ret", "susp"]), "n": 1} for _ in range(k)] + [first] + \
             [rng.choice([{"w": "raise"}, {"w": "ok", "d": "raise"}]) for _ in range(len(spec["sends"]) - 1)] + \
             [{"w": "ok", "d": "ret"}] * 24
        spec.update(wscript=ws, fail="dd", fail_at=k, status_cb=rng.choice(["sleep", "sleep", "sleep", "yield"]), refuse=0)
    if shape == "cancel":
        # one multi-frame send() is cancelled while it waits for the transport; a later send() follows: its packets are
        # contiguous, whatever happened to the cancelled one (whose packets so far are a prefix of the encoder's)
        spec["sends"] = [{"msg": gen.message(rng, "fast"), "what": "fast", "delay": rng.choice([3, 5, 8]),
                          "cancel_after": rng.choice([1, 2, 3, 4, 6])},
                         {"msg": gen.message(rng, rng.choice(["fast", "single"])), "what": "x", "delay": rng.choice([0, 2, 150])},
                         {"msg": gen.message(rng, "fast"), "what": "fast", "delay": 0}]
        ws = [{"w": "ok", "d": "susp", "n": rng.choice([2, 3, 5])} for _ in range(30)]
        spec.update(wscript=ws, fail=None, status_cb="ret", refuse=0, oracle_only=True)
        spec.pop("fail_at", None)
    if shape == "cb-sends":
        spec["status_cb"] = "sends"
        spec["oracle_only"] = True
        if not spec.get("fail"):
            spec["fail"] = "d"
            spec["fail_at"] = 0
            spec["wscript"] = [{"w": "ok", "d": "raise"}] + [{"w": "ok", "d": "ret"}] * 30
        spec["refuse"] = 0
    if shape == "unconnected":
        spec["no_connect"] = True
    if shape == "unconnected-bad":
        spec["no_connect"] = True
        spec["sends"] = [{"msg": gen.message(rng, w_), "what": w_, "delay": rng.choice([0, 1, 150])}
                         for w_ in rng.sample(["missing", "range", "pgn", "missing", "range"], rng.choice([1, 2, 3]))]
        spec.update(fail=None, refuse=0)
        spec["wscript"] = [{"w": "ok", "d": "ret"}] * 24
        spec.pop("fail_at", None)
    spec["probe"] = {"msg": gen.message(rng, rng.choice(["fast", "fast", "single"]))}
    if shape == "close":
        # close() while sends are pending/in flight. A connect() racing with close() is C14's subject (F-closerace),
        # so faults are only scripted when CLOSED is set before any send has run (close_after = 0).
        spec["close_after"] = 0 if spec["fail"] else rng.choice([0, 1, 2, 3, 5])
        if spec["fail"] and spec["status_cb"] in ("sleep", "yield"):
            spec["status_cb"] = "ret"
        spec["refuse"] = 0
        spec["settle"] = 50.0
    return spec


# ------------------------------------------------------------------ the property's oracle (model independent)
def _fresh_packets(kind, msgs_in_call_order):
    """What a fresh encoder of this client kind produces for the messages, in the order send() encoded them."""
    from nmea2000.encoder import NMEA2000Encoder
    enc = NMEA2000Encoder()
    fn = {"ebyte": enc.encode_ebyte, "yd": enc.encode_yacht_devices, "waveshare": enc.encode_usb}.get(kind)
    out = []
    for s in msgs_in_call_order:
        if fn is None:
            out.append(None)              # a client without an encoder: every message is unsendable
            continue
        try:
            out.append([bytes(p) for p in fn(V.load_msg(s))])
        except ValueError:
            out.append(None)
    return out


def oracle(spec, res):
    kind = spec["kind"]
    if res.get("hang"):
        return "hang", "the session did not finish (event loop monopolised or stuck)"
    if res.get("error"):
        return "harness-error", "session failed: " + res["error"][:300]
    ev = res["events"]
    b = next(i for i, e in enumerate(ev) if e[0] == "begin")
    e_ = next(i for i, e in enumerate(ev) if e[0] == "end")
    body = ev[b + 1:e_]
    order = [e[1] for e in body if e[0] == "enc" and e[1] >= 0]        # (-1: a message sent by a callback, not one of the sends)
    exp_list = _fresh_packets(kind, [spec["sends"][i] for i in order])
    exp = dict(zip(order, exp_list))
    log = [(w, i, bytes.fromhex(h)) for w, i, h in res["bytelog"]]
    # 1. contiguity
    snd = [i for _, i, _ in log]
    runs = [x for k, x in enumerate(snd) if k == 0 or snd[k - 1] != x]
    if len(set(runs)) != len(runs):
        return "interleaved", f"packets of concurrent sends interleave on the link: sender order {snd}"
    # 2. exactness
    failed = {e[1] for e in body if e[0] in ("wraise",) or (e[0] == "d" and e[2] == "raise") or
              (e[0] == "dres" and e[2] == "raise")}
    link_failed = bool(failed)
    if any(e[0] == "callback_send_stuck" for e in ev):
        return ("send-from-status-callback-stuck",
                "the status callback, told DISCONNECTED after a failing write, called send(); that send() had not returned 30 s later "
                f"(status trace {[e[1] for e in body if e[0] == 'status']})")
    cancelled = {e[1] for e in body if e[0] == "cancel"}
    failed |= cancelled          # a cancelled send() has written a prefix of its packets
    pre_open_ok = set()
    if spec.get("no_connect"):
        # an ENCODABLE message sent on a client that has no writer yet fails as a connection fault (and triggers the connect);
        # an unencodable one is dropped like on a connected client
        first_open = next((k for k, e in enumerate(body) if e[0] == "opened"), len(body))
        pre_open_ok = {e[1] for k, e in enumerate(body) if e[0] == "enc" and k < first_open and e[2] == "ok"}
        failed |= {e[1] for k, e in enumerate(body) if e[0] == "enc" and k < first_open}
    for i in order:
        got = [p for _, j, p in log if j == i]
        want = exp[i]
        if want is None:
            if got:
                return "bad-message-written", f"send #{i} ({spec['sends'][i].get('what', '?')}) is unencodable but {len(got)} packet(s) were written"
            continue
        if i in failed:
            if got != want[:len(got)]:
                return "bytes-mismatch", f"send #{i}: bytes written before the fault are not a prefix of the encoder's packets"
        elif got != want:
            return ("bytes-mismatch", f"send #{i} ({spec['sends'][i].get('what', '?')}): wrote {[p.hex() for p in got][:8]}, "
                                      f"the encoder produces {[p.hex() for p in want][:8]}")
    f = res["final"]
    st = [e[1] for e in body if e[0] == "status"]
    any_fault = bool(failed - {i for i in order if exp[i] is None}) or bool(pre_open_ok) or link_failed
    if spec.get("no_connect") and not pre_open_ok and not link_failed and spec.get("close_after") is None:
        # nothing but unencodable messages on a client that was never connected: nothing is written and nothing changes -
        # in particular no connection is opened on its behalf
        if all(x is None for x in _fresh_packets(kind, list(spec["sends"]))):      # judged by a fresh encoder, not by what the client did
            if st or f["nopen"] != 0 or f["nconnect"] != 0:
                return ("bad-message-disturbs",
                        f"client never connected, only unencodable messages sent ({[x.get('what', '?') for x in spec['sends']]}): "
                        f"status trace {st}, {f['nopen']} connection(s) opened, {f['nconnect']} connect() call(s), state {f['state']}")
            return None
    if not all(f["sends_done"]):
        return "send-stuck", f"send() calls did not return: {f['sends_done']}"
    if spec.get("close_after") is not None:
        return None          # close() during the sends: only contiguity and exactness are claimed (C14 owns the rest)
    if not all(f["sends_done"]):
        return "send-stuck", f"send() calls did not return: {f['sends_done']}"
    # 3. bad messages are harmless (no fault scripted/triggered in this session)
    if not any_fault:
        if st or f["state"] != "CONNECTED" or f["nopen"] != 1 or f["nconnect"] != 1 or not f["rx_alive"] or not f["consumer_alive"]:
            bad = [spec["sends"][i].get("what", "?") for i in order if exp[i] is None]
            return ("bad-message-disturbs",
                    f"no write failed, yet status trace {st}, state {f['state']}, {f['nopen']} connection(s), "
                    f"{f['nconnect']} connect() call(s); unencodable messages in the session: {bad}")
    if f.get("undrained_faults") and f["state"] == "CONNECTED":
        return ("fault-unnoticed",
                f"a packet was written to a link that had failed (the transport reports it through drain(), as asyncio's streams do), "
                f"send() returned without draining after that write ({f['undrained_faults']}); state CONNECTED, status trace {st}: "
                "the failing write led to no DISCONNECTED and no reconnection")
    # 4. a failing write leads to DISCONNECTED and a reconnection — for EVERY writer on which a write or drain failed
    cur_w, bad_w = {}, set()
    for e in body:
        if e[0] == "w":
            cur_w[e[1]] = e[2]
        elif e[0] == "wraise":
            bad_w.add(e[2])
        elif (e[0] == "d" and e[2] == "raise") or (e[0] == "dres" and e[2] == "raise"):
            if e[1] in cur_w:
                bad_w.add(cur_w[e[1]])
    if bad_w and (f.get("writer") in bad_w or f["nopen"] <= max(bad_w) + 1):
        return "no-reconnect", (f"a write/drain failed on connection(s) {sorted(bad_w)} but the client ended on connection "
                                f"{f.get('writer')} of {f['nopen']} opened (state {f['state']}): a failed link was kept")
    if link_failed:
        if "DISCONNECTED" not in st and spec.get("status_cb") != "none":
            return "fault-not-reported", f"a write/drain failed but the status trace is {st}"
        if f["state"] != "CONNECTED" or f["nopen"] < 2:
            return "no-reconnect", f"after a failing write: state {f['state']}, {f['nopen']} connection(s)"
    # 5. afterwards the connection is usable: one more valid message is written whole to the connection the client is on
    p = f.get("probe")
    if p and p["before"]["state"] == "CONNECTED":
        bw = p["before"]
        if bw["writer_closed"]:
            return "reconnect-unusable", (f"the client reports CONNECTED on connection {bw['writer']} of {bw['nopen']} but it has "
                                          f"closed that connection itself (status trace {st})")
        if p["encoded"] is not None:
            got = [h for w, h in p["written"] if w == bw["writer"]]
            if got != p["encoded"] or p["dropped"] or len(got) != len(p["written"]):
                return "later-message-not-written", (f"after the session (state CONNECTED, connection {bw['writer']}) a valid message "
                                                     f"of {len(p['encoded'])} packet(s) is sent: {len(got)} arrive on that connection, "
                                                     f"{p['dropped']} dropped by a closed writer")
        elif p["written"]:
            return "bad-message-written", "the probe message is unencodable for this client but packets were written"
        if p["state_after"] != "CONNECTED" or p["nopen_after"] != bw["nopen"] or p["status_after"]:
            return "later-message-disturbs", (f"a valid message sent after the session changed the connection: state {p['state_after']}, "
                                              f"status trace {p['status_after']}, {p['nopen_after'] - bw['nopen']} new connection(s)")
    return None


def run_and_judge(specs):
    res = V.run_jobs(specs)
    return [(s, r, oracle(s, r)) for s, r in zip(specs, res)]


def _witness(spec, res, verdict):
    sched = [e for e in res.get("events", []) if e[0] in ("enc", "w", "wraise", "d", "dres", "status", "opened", "connect_call")]
    sched = [[x if not isinstance(x, list) else f"{len(x)} packets" for x in e] for e in sched][:60]
    key = f"tx:{verdict[0]}" + (f":{spec['kind']}" if verdict[0] not in ("interleaved", "no-reconnect", "hang") else "")
    return {"key": key, "kind": "tx", "spec": spec, "schedule": sched,
            "bytelog": res.get("bytelog", [])[:40],
            "what": f"{spec['kind']} client, sends {[s.get('what', '?') for s in spec['sends']]}, status callback "
                    f"'{spec.get('status_cb')}', fault {spec.get('fail')}: {verdict[1]}"}


# ------------------------------------------------------------------ event log -> Coq case
def tx_case(spec, res):
    ev = res["events"]
    b = next(i for i, e in enumerate(ev) if e[0] == "begin")
    e_ = next(i for i, e in enumerate(ev) if e[0] == "end")
    body = ev[b + 1:e_]
    scb = spec.get("status_cb", "ret")
    cb = "CbSusp" if scb in ("sleep", "yield") else "CbNow"
    n = len(spec["sends"])
    table = ["EncOther"] * n
    labels = []
    for k, e in enumerate(body):
        if e[0] == "enc" and e[1] >= 0:
            i = e[1]
            if e[2] == "ok":
                table[i] = "(EncOk %s)" % clist(cbytes(bytes.fromhex(h)) for h in e[3])
            elif e[2] == "ValueError":
                table[i] = "EncValueError"
            labels.append(f"LSend {i} (AStart {cb})")
        elif e[0] == "w":
            i = e[1]
            d = next((x for x in body[k + 1:] if x[0] == "d" and x[1] == i), None)
            r = {"ret": "DrRet", "susp": "DrSusp", "raise": "DrRaise"}[d[2]] if d else "DrSusp"
            labels.append(f"LSend {i} (AWrite {r} {cb})")
        elif e[0] == "wraise":
            labels.append(f"LSend {e[1]} (AWrite WRaise {cb})")
        elif e[0] == "dres":
            labels.append(f"LSend {e[1]} (ADrained {cbool(e[2] == 'ok')} {cb})")
        elif e[0] == "status_done" and e[1] == "DISCONNECTED" and cb == "CbSusp" and e[2].startswith("send"):
            labels.append(f"LSend {int(e[2][4:])} AFaultCbDone")
        elif e[0] == "opened":
            labels.append("LReconnect")
        elif e[0] == "close":
            labels.append("LClose")
    code = {"DISCONNECTED": 0, "CONNECTED": 1, "CLOSED": 2}
    log = clist(ctuple(f"{i}%nat", f"{w}%nat", cbytes(bytes.fromhex(h))) for w, i, h in res["bytelog"])
    trace = clist(cz(code[e[1]]) for e in body if e[0] == "status")
    # connect tasks created by send() fault handlers (the model's reconnect trigger); a connect() that re-arms
    # itself because a fault was reported while it was finishing (fix ec78efa) belongs to C13's model, not to this one
    pend = sum(1 for e in body if e[0] == "connect_call" and len(e) > 1 and str(e[1]).startswith("send"))
    f = res["final"]
    connected = not spec.get("no_connect")
    ini = ctuple(cz(1 if connected else 0), cbool(connected), cbool(scb != "none"))
    return ctuple(ini, clist(table), clist(labels), ctuple(log, cz(code[f["state"]]), f"{pend}%nat", trace))


# ------------------------------------------------------------------ correspondence
def _specs(ctx, gen, per):
    rng = ctx.rng
    specs = []
    for kind in KINDS:
        specs.append(make_spec(rng, gen, kind, shape="two-fast", fail=False))
        for fail in ("w", "d", "dd"):
            specs.append(make_spec(rng, gen, kind, fail=fail))
        specs.append(make_spec(rng, gen, kind, shape="unconnected", fail=False))
        specs.append(make_spec(rng, gen, kind, shape="unconnected-bad", fail=False))
        specs.append(make_spec(rng, gen, kind, shape="window", fail=False))
        specs.append(make_spec(rng, gen, kind, shape="window", fail=False))
        specs.append(make_spec(rng, gen, kind, shape="twofail", fail=False))
        specs.append(make_spec(rng, gen, kind, shape="twofail", fail=False))
        specs.append(make_spec(rng, gen, kind, shape="cancel", fail=False))
        specs.append(make_spec(rng, gen, kind, shape="cancel", fail=False))
        specs.append(make_spec(rng, gen, kind, shape="cb-sends", fail="d"))
        specs.append(make_spec(rng, gen, kind, shape="cb-sends", fail="w"))
        for fail in ("w", "dd", None):
            specs.append(make_spec(rng, gen, kind, shape="close", fail=fail))
        for _ in range(per):
            specs.append(make_spec(rng, gen, kind))
    return specs


def gen(ctx):
    """C19 for the code of this run: C19_exact / C19_contiguous instantiated with the composed encoder of the
    regenerated tables (tools/templates/OblC19.v)"""
    import gen as G
    g = G.ensure_gen()
    if not g["ok"]:
        ctx.extra_obligations.append({"name": "translation of nmea2000/pgns.py + canboat.json", "ok": False,
                                      "detail": g.get("refused") or g.get("error")})
        ctx.hints.append({"kind": "translator", "detail": g.get("refused") or g.get("error")})
        return
    ok, out = G.compile_template("OblC19")
    for nm in G.theorem_names("OblC19"):
        ctx.extra_obligations.append({"name": f"OblC19.v:{nm}", "ok": ok, "detail": out[-800:] if not ok else ""})
    if not ok:
        ctx.hints.append({"kind": "tables", "diag": "OblC19.v: " + " ".join(out.split())[-800:]})


def correspond(ctx):
    gen = Gen()
    specs = _specs(ctx, gen, ctx.n(45, 2500))
    judged = run_and_judge(specs)
    ctx._c19_judged = judged
    cases, meta, hung = [], [], []
    dist = {"sessions": len(specs), "by_kind": {}, "sends": 0, "packets_written": 0, "enc_value_error": 0, "enc_other": 0,
            "write_raised": 0, "drain_raised": 0, "drain_suspended": 0, "status_cb": {}, "unconnected": 0,
            "message_kinds": {}}
    for spec, res, verdict in judged:
        dist["by_kind"][spec["kind"]] = dist["by_kind"].get(spec["kind"], 0) + 1
        dist["status_cb"][spec["status_cb"]] = dist["status_cb"].get(spec["status_cb"], 0) + 1
        dist["unconnected"] += 1 if spec.get("no_connect") else 0
        for s in spec["sends"]:
            dist["message_kinds"][s["what"]] = dist["message_kinds"].get(s["what"], 0) + 1
        if "events" not in res or res.get("hang") or res.get("error"):
            hung.append((spec, res))
            continue
        ev = res["events"]
        dist["sends"] += len(spec["sends"])
        dist["packets_written"] += len(res["bytelog"])
        dist["enc_value_error"] += sum(1 for e in ev if e[0] == "enc" and e[2] == "ValueError")
        dist["enc_other"] += sum(1 for e in ev if e[0] == "enc" and e[2] == "other")
        dist["write_raised"] += sum(1 for e in ev if e[0] == "wraise")
        dist["drain_raised"] += sum(1 for e in ev if (e[0] == "d" and e[2] == "raise") or (e[0] == "dres" and e[2] == "raise"))
        dist["drain_suspended"] += sum(1 for e in ev if e[0] == "d" and e[2] == "susp")
        if spec.get("oracle_only"):
            dist["oracle_only"] = dist.get("oracle_only", 0) + 1      # cancellation / callbacks that send: outside the send LTS
            continue
        cases.append(tx_case(spec, res))
        meta.append((spec, res))
    r = run_cases("C19", "tx", IMPORTS, "tx_case", "chk_tx", cases, shard=20)
    r.update(name="real clients' send() vs the send LTS with the lock (trace acceptance, byte log, state, reconnect trigger)",
             distinct_nontrivial=distinct_count([json.dumps(m[0], sort_keys=True) for m in meta if len(m[1]["bytelog"]) >= 2]),
             failing_cases=[{"spec": meta[k][0]} for k in r["failing"][:8]],
             samples=[{"kind": meta[0][0]["kind"], "events": meta[0][1]["events"][:10]}] if meta else [],
             distribution=dist)
    if hung:
        r["errors"] = r.get("errors", []) + [f"{len(hung)} session(s) hung or failed: " + json.dumps(hung[0][1])[:300]]
        r["failing_cases"] = r.get("failing_cases", []) + [{"spec": h[0]} for h in hung[:3]]
    return [r]


# ------------------------------------------------------------------ search / replay
def search(ctx):
    judged = list(getattr(ctx, "_c19_judged", []))
    for h in ctx.hints:
        for c in h.get("cases", []):
            if isinstance(c, dict) and "spec" in c:
                judged += run_and_judge([c["spec"]])
    gen = Gen()
    extra = _specs(ctx, gen, ctx.n(6, 1500))
    judged += run_and_judge(extra)
    ctx.notes.append(f"search: {len(judged)} sessions judged by the property's oracle on the real clients")
    out, seen = [], set()
    for spec, res, verdict in judged:
        if verdict is None:
            continue
        w = _witness(spec, res, verdict)
        if w["key"] in seen:
            continue
        seen.add(w["key"])
        out.append(w)
    return out


def replay(ctx, data):
    w = data.get("witness", data)
    (s, r, verdict), = run_and_judge([w["spec"]])
    print("observed:", verdict[1] if verdict else "property holds on this session")
    if verdict:
        print("  byte log (writer, sender, packet):", [[x[0], x[1], x[2][:16]] for x in r.get("bytelog", [])][:40])
        print("  status trace:", [e[1] for e in r.get("events", []) if e[0] == "status"])
    return verdict is not None
