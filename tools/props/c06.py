"""C06 — every gateway wire format round-trips and obeys its fixed framing.
Tie: correspondence of Wire.v / PyText.v with NMEA2000Encoder.encode_* , NMEA2000Decoder.decode_* (down to the
argument tuple handed to `_decode`), utils.calculate_canbus_checksum, CPython's text primitives and the
receive framing (StreamReader.readexactly / readline, the serial client's marker search).
This module is also the library of tools/props/c07.py."""
from __future__ import annotations
import asyncio
import contextlib
import re

from vlib import cz, clist, cbool, ctuple, run_cases, distinct_count

PROPS_FILES = ["props/C06.v"]
ALWAYS_SEARCH = True
RULE = ("frames: identifier fields drawn boundary-heavy (PF 0x00/0xEE/0xEF/0xF0/0xF1/0xFF, DP 0..3, sources and "
        "destinations 0/1/254/255/random, all priorities), data length uniform in 0..8 (sometimes 9..16, 256), bytes "
        "biased to 00/FF/0A/0D/AA/55; encoders are driven with arbitrary frames (encode function and fast-packet flag "
        "replaced from outside) and with real decoded messages of single-frame and fast-packet PGNs (the frame list "
        "is what `_encode` returned, so short final frames occur); parsers receive the five renderings of each frame "
        "(upper/lower/mixed hex case, R/T, both canboat time stamps, odd whitespace, 0x/underscore/sign forms) and a "
        "malformed stream (token/character deletion, substitution, insertion, truncation, bad checksum, wrong prefix, "
        "wrong length, length byte above 8, non-ASCII); the observation is the argument tuple `_decode` receives "
        "(wrapper installed from outside) or the exception class; a case is non-trivial when `_decode` is reached "
        "or an error is raised; distinct by input")
TRUSTED = ["Wire.v and PyText.v are hand models of encoder.py:89-183, decoder.py:180-363, utils.py:361-363 and of the "
           "CPython 3.12 primitives str.split, int(), bytes.fromhex, format(), to_bytes/from_bytes on ASCII input; "
           "tied to the code only by the correspondence cases of this run",
           "datetime.strptime is a Section variable (ts_ok); each correspondence case instantiates it with the answer "
           "the real strptime gave to the real token in that run",
           "Header.v (C05) for the identifier arithmetic"]
ASSUMPTIONS = ["text lines are ASCII (non-ASCII input is Unmodelled and counted, not compared)",
               "Actisense time offsets are within 10^10 s / ms; base-10 tokens have at most 4300 characters",
               "encode_ebyte is the repaired one (fixes/F-ebyte13.patch): data zero-padded to 8 bytes",
               "a destination other than 255 given to a broadcast (PDU2) PGN is not representable and comes back as 255 (C05)"]

IMPORTS = "From NV Require Import Base Header PyText Wire CorrWire."
FMTS = ["%H:%M:%S.%f", "%Y-%m-%dT%H:%M:%S.%fZ", "%Y-%m-%d-%H:%M:%S.%f"]
FMT_NAMES = ["tcp", "usb", "yd", "acti", "basic"]


# ------------------------------------------------------------------ literals
def cstr(s) -> str:
    if isinstance(s, (bytes, bytearray)):
        return clist(str(x) for x in s)
    return clist(str(ord(c)) for c in s)


def cll(ls) -> str:
    return clist(cstr(x) for x in ls)


def ekind(e: BaseException) -> str:
    if isinstance(e, ValueError):
        return "EMalformed"
    if isinstance(e, IndexError):
        return "EIndex"
    if isinstance(e, OverflowError):
        return "ERange"
    if type(e) is Exception:
        return "EOther"
    return "EAssert"     # never produced by the model: always a disagreement


def cres(obs, f) -> str:
    return f"(Ok {f(obs[1])})" if obs[0] == "ok" else f"(Err {obs[1]})"


def cargs(a) -> str:
    if a is None:
        return "None"
    pgn, prio, src, dst, data, comb = a
    return "(Some " + ctuple(cz(pgn), cz(prio), cz(src), cz(dst), cstr(data), cbool(comb)) + ")"


# ------------------------------------------------------------------ the implementation, observed from outside
class Impl:
    """Real encoder / decoder instances with `_decode` replaced by a recorder and the module's `datetime`
    replaced by a proxy that records what strptime was asked."""

    def __init__(self):
        import nmea2000.decoder as D
        import nmea2000.encoder as E
        from nmea2000.message import NMEA2000Message
        self.D, self.E, self.Msg = D, E, NMEA2000Message
        self.real_dt = D.datetime
        impl = self

        class DT:
            def now(self_inner):
                return impl.real_dt.now()

            def strptime(self_inner, s, f):
                no = FMTS.index(f) if f in FMTS else -1
                try:
                    r = impl.real_dt.strptime(s, f)
                except Exception:
                    impl.ts_calls.append((no, s, False))
                    raise
                impl.ts_calls.append((no, s, True))
                return r
        self.ts_calls = []
        self.dt_proxy = DT()
        self.dec = D.NMEA2000Decoder()
        self.args = None

        def rec(pgn, priority, source_id, destination_id, timestamp, can_data, raw_can_data, already_combined=False):
            self.args = (pgn, priority, source_id, destination_id, bytes(can_data), bool(already_combined))
            return None
        self.dec._decode = rec
        self.enc = E.NMEA2000Encoder()
        self.enc_frames = None
        orig_encode = self.enc._encode

        def rec_encode(m):
            r = orig_encode(m)
            self.enc_frames = [bytes(x) for x in r]
            return r
        self.enc._encode = rec_encode

    @contextlib.contextmanager
    def patched(self):
        self.D.datetime = self.dt_proxy
        try:
            yield self
        finally:
            self.D.datetime = self.real_dt

    # -- parsers
    def parse(self, fmt: int, inp, combined: bool = False):
        """returns (observation, strptime record)"""
        self.args = None
        self.ts_calls.clear()
        d = self.dec
        try:
            with self.patched():
                if fmt == 0:
                    r = d.decode_tcp(bytes(inp))
                elif fmt == 1:
                    r = d.decode_usb(bytes(inp))
                elif fmt == 2:
                    r = d.decode_yacht_devices_string(inp)
                elif fmt == 3:
                    r = d.decode_actisense_string(inp)
                else:
                    r = d.decode_basic_string(inp, combined)
            obs = ("ok", self.args)
            if r is not None:
                obs = ("err", "EAssert")
        except Exception as e:  # noqa: BLE001
            obs = ("err", ekind(e))
        ts = self.ts_calls[-1] if self.ts_calls else None
        return obs, ts

    # -- encoders on arbitrary frames
    def encode(self, kind: int, hdr, data: bytes, fast: bool = False):
        """returns (frame list the model is given, observation)"""
        pgn, src, dst, prio = hdr
        m = self.Msg(PGN=pgn, id="x", source=src, destination=dst, priority=prio)
        self.enc._call_encode_function = lambda msg: data
        saved = self.D.NMEA2000Decoder._isFastPGN
        self.D.NMEA2000Decoder._isFastPGN = staticmethod(lambda p: fast)
        self.enc_frames = None
        try:
            return self._run_enc(kind, m, data)
        finally:
            self.D.NMEA2000Decoder._isFastPGN = saved
            del self.enc._call_encode_function

    def encode_msg(self, kind: int, m):
        """real message through the real encode function; returns (frames, observation)"""
        self.enc_frames = None
        payload = None
        if kind == 3:
            try:
                payload = bytes(self.enc._call_encode_function(m))
            except Exception:  # noqa: BLE001
                return None, None
        return self._run_enc(kind, m, payload)

    def _run_enc(self, kind, m, data):
        try:
            if kind == 0:
                out = [bytes(x) for x in self.enc.encode_ebyte(m)]
            elif kind == 1:
                out = [bytes(x) for x in self.enc.encode_usb(m)]
            elif kind == 2:
                out = [bytes(x) for x in self.enc.encode_yacht_devices(m)]
            else:
                out = [self.enc.encode_actisense(m)]
            obs = ("ok", out)
        except Exception as e:  # noqa: BLE001
            obs = ("err", ekind(e))
        if kind == 3:
            frames = [data]
        else:
            frames = self.enc_frames if self.enc_frames is not None else [data if data is not None else b""]
        return frames, obs


# ------------------------------------------------------------------ generators
SPECIAL_BYTES = [0x00, 0xFF, 0x0A, 0x0D, 0xAA, 0x55, 0x20, 0x7F, 0x80]


def gen_data(rng, n=None) -> bytes:
    if n is None:
        r = rng.random()
        n = rng.randint(0, 8) if r < 0.9 else rng.randint(9, 16)
    return bytes(rng.choice(SPECIAL_BYTES) if rng.random() < 0.3 else rng.getrandbits(8) for _ in range(n))


def gen_ident(rng) -> int:
    pf = rng.choice([0x00, 0xEE, 0xEF, 0xF0, 0xF1, 0xFF]) if rng.random() < 0.5 else rng.getrandbits(8)
    ps = rng.choice([0, 1, 254, 255]) if rng.random() < 0.4 else rng.getrandbits(8)
    src = rng.choice([0, 1, 254, 255]) if rng.random() < 0.4 else rng.getrandbits(8)
    return (rng.getrandbits(3) << 26) | (rng.getrandbits(2) << 24) | (pf << 16) | (ps << 8) | src


def gen_hdr(rng, valid=True):
    """(pgn, src, dst, prio) for the encoders"""
    i = gen_ident(rng)
    pf = (i >> 16) & 0xFF
    pgn = (i >> 8) & 0x3FFFF
    if pf < 240 and rng.random() < 0.8:
        pgn &= ~0xFF
    src, prio = i & 0xFF, i >> 26
    dst = rng.choice([0, 1, 254, 255]) if rng.random() < 0.5 else rng.getrandbits(8)
    if not valid:
        k = rng.randrange(5)
        if k == 0:
            prio = rng.choice([-1, 8, 15, 16])
        elif k == 1:
            src = rng.choice([-1, 256, 4096])
        elif k == 2:
            pgn = rng.choice([-1, 0x40000, 0xFFFFFF, 0x1000000 + pgn])
        elif k == 3:
            dst = rng.choice([-1, 256, 300, 70000])
        else:
            prio, src = rng.choice([-3, 9]), rng.choice([-2, 999])
    return pgn, src, dst, prio


def _case(s: str, rng, mode) -> str:
    if mode == 0:
        return s.upper()
    if mode == 1:
        return s.lower()
    return "".join(c.upper() if rng.random() < 0.5 else c.lower() for c in s)


def render(fmt: int, ident: int, data: bytes, rng, extract, odd=False):
    """one valid rendering of the CAN frame (ident, data) in format `fmt`; `odd`: use the stranger spellings
    the parsers also accept (extra whitespace, 0x prefix, underscores, signs, random padding)"""
    n = len(data)
    mode = rng.randrange(3)
    if fmt == 0:
        t = (n & 0xF) | (0x80 if not odd else rng.getrandbits(4) << 4)
        pad = bytes(max(0, 8 - n)) if not odd else bytes(rng.getrandbits(8) for _ in range(rng.choice([0, max(0, 8 - n), 12])))
        return bytes([t]) + ident.to_bytes(4, "big") + data + pad
    if fmt == 1:
        n8 = min(n, 8)
        hd = bytes([1, 2, 1]) if not odd else bytes(rng.getrandbits(8) for _ in range(3))
        pad = bytes(8 - n8) if not odd else bytes(rng.getrandbits(8) for _ in range(8 - n8))
        body = b"\xaa\x55" + hd + ident.to_bytes(4, "little") + bytes([n8]) + data[:8] + pad + (b"\x00" if not odd else bytes([rng.getrandbits(8)]))
        return body + bytes([sum(body[2:19]) & 0xFF])
    sep = " " if not odd else rng.choice([" ", "  ", "\t", " \x1c", "\x0b"])
    pgn, src, dst, prio = extract(ident)
    if fmt == 2:
        ts = "%02d:%02d:%02d.%03d" % (rng.randrange(24), rng.randrange(60), rng.randrange(60), rng.randrange(1000))
        idt = _case("%08X" % ident, rng, mode)
        if odd:
            idt = rng.choice(["0x", "0X", "+", "0x_", "000"]) + idt
        toks = [_case("%02X" % b, rng, mode) if not (odd and rng.random() < 0.3) else rng.choice(["%x", "0x%X", "+%x", "0_%02x"]) % b
                for b in data]
        end = rng.choice(["", "\r\n"]) if not odd else rng.choice(["\n", " \r\n", "\x1f"])
        return sep.join([ts, rng.choice("RT"), idt] + toks) + end
    if fmt == 3:
        ts = "A%06d.%03d" % (rng.randrange(1000000), rng.randrange(1000))
        if odd:
            ts = "A" + rng.choice(["+1", "-5", "1_0", "0", "9999999999"]) + "." + rng.choice(["0", "-1", "00_1", "+999"])
        nn = (src << 12) | (dst << 4) | prio
        ntok = _case("%05X" % nn, rng, mode)
        ptok = _case("%05X" % pgn, rng, mode)
        if odd:
            ntok = rng.choice(["0x", "", "00", "0X_"]) + ntok
            ptok = rng.choice(["0x", "", "+"]) + ptok
        dtok = _case(data.hex(), rng, mode)
        end = rng.choice(["", "\r\n"])
        extra = [] if not odd else rng.choice([[], ["zz"], ["00", "11"]])
        return sep.join([ts, ntok, ptok, dtok] + extra) + end
    # canboat plain
    if rng.random() < 0.5:
        ts = "20%02d-%02d-%02dT%02d:%02d:%02d.%03dZ" % (rng.randrange(100), rng.randrange(1, 13), rng.randrange(1, 29),
                                                         rng.randrange(24), rng.randrange(60), rng.randrange(60), rng.randrange(1000))
    else:
        ts = "20%02d-%02d-%02d-%02d:%02d:%02d.%03d" % (rng.randrange(100), rng.randrange(1, 13), rng.randrange(1, 29),
                                                        rng.randrange(24), rng.randrange(60), rng.randrange(60), rng.randrange(1000))
    nums = [str(prio), str(pgn), str(src), str(dst), str(n)]
    if odd:
        nums = [rng.choice(["%s", " %s", "%s ", "+%s", "0%s", "\t%s\n"]) % x for x in nums]
    toks = [_case("%02x" % b, rng, mode) for b in data]
    if odd:
        toks = [rng.choice(["%s", " %s", "0x%s", "%s "]) % x for x in toks]
    tail = [] if n > 0 and rng.random() < 0.7 else rng.choice([[""], ["ff"], ["zz", "1"], ["", ""]])
    return ",".join([ts] + nums + toks + tail)


TEXT_ALPHA = " \t,._-+xXgGzZ0aAfF:\x1c\n\r1Té٣ "


def mutate_text(s: str, rng, fmt: int) -> str:
    sepc = "," if fmt == 4 else " "
    k = rng.randrange(11)
    toks = s.split(sepc)
    if k == 0 and len(toks) > 1:
        del toks[rng.randrange(len(toks))]
        return sepc.join(toks)
    if k == 1 and s:
        i = rng.randrange(len(s))
        return s[:i] + s[i + 1:]
    if k == 2 and s:
        i = rng.randrange(len(s))
        return s[:i] + rng.choice(TEXT_ALPHA) + s[i + 1:]
    if k == 3:
        i = rng.randrange(len(s) + 1)
        return s[:i] + rng.choice(TEXT_ALPHA) + s[i:]
    if k == 4:
        return s[:rng.randrange(len(s) + 1)]
    if k == 5:
        return sepc.join(toks[:rng.randrange(len(toks) + 1)])
    if k == 6 and len(toks) > 1:
        i, j = rng.randrange(len(toks)), rng.randrange(len(toks))
        toks[i], toks[j] = toks[j], toks[i]
        return sepc.join(toks)
    if k == 7:
        i = rng.randrange(len(toks))
        toks[i] = rng.choice(["", "-1", "100", "1FF", "0x", "_1", "1_", "1__0", "g", "-0", "+", "256", "0x1f", "1_0", "-7", "99", "Z", "R", "T", "t"])
        return sepc.join(toks)
    if k == 8:
        return rng.choice(["", " ", "\r\n", ",", ",,,,,,", "A", "A1.1", "A1.1 1 1", "A.1 1 1 00", "A1 1 1 00", "A1.2.3 1 1 00", "A1.x.3 1 1 00",
                           "1 R 1", "x R 1 1", "00:00:00.0 X 1 1", "00:00:00.0 R", "a,b,c,d,e,f,g"])
    if k == 9 and fmt == 4 and len(toks) > 6:
        toks[5] = rng.choice(["-1", "-2", "-7", "-100", "0", "1", "100", " 2", "+3", "0x3", "1_0", "", "8", "9"])
        return sepc.join(toks)
    if k == 10 and len(toks) > 0:
        i = rng.randrange(len(toks))
        toks.insert(i, toks[i])
        return sepc.join(toks)
    return s + rng.choice(TEXT_ALPHA)


def mutate_bin(p: bytes, rng, fmt: int) -> bytes:
    k = rng.randrange(8)
    b = bytearray(p)
    if k == 0:
        return bytes(b[:rng.randrange(len(b) + 1)])
    if k == 1 and b:
        b[rng.randrange(len(b))] = rng.getrandbits(8)
        return bytes(b)
    if k == 2:
        return bytes(b) + bytes(rng.getrandbits(8) for _ in range(rng.randint(1, 5)))
    if k == 3:
        return bytes(rng.getrandbits(8) for _ in range(rng.randrange(0, 30)))
    if k == 4 and fmt == 1 and len(b) == 20:      # length byte above 8 with a valid checksum
        b[9] = rng.choice([9, 10, 11, 15, 16, 200, 255])
        b[19] = sum(b[2:19]) & 0xFF
        return bytes(b)
    if k == 5 and fmt == 1 and len(b) == 20:      # bad checksum only
        b[19] = (b[19] + rng.randint(1, 255)) & 0xFF
        return bytes(b)
    if k == 6 and fmt == 1 and len(b) >= 2:       # wrong prefix
        b[rng.randrange(2)] = rng.choice([0x00, 0x55, 0xAA, 0xAB])
        return bytes(b)
    if k == 7 and fmt == 0 and b:                 # length nibble beyond the data
        b[0] = (b[0] & 0xF0) | rng.choice([9, 12, 15])
        return bytes(b)
    return bytes(b[1:])


def _has_non_ascii(s) -> bool:
    return isinstance(s, str) and any(ord(c) > 127 for c in s)


# ------------------------------------------------------------------ correspondences
def corr_parsers(ctx, prop: str, n_valid: int, n_bad: int):
    from nmea2000.decoder import NMEA2000Decoder
    extract = NMEA2000Decoder._extract_header
    impl = Impl()
    rng = ctx.rng
    inputs = []   # (fmt, input, combined, class)
    for k in range(n_valid):
        ident, data = gen_ident(rng), gen_data(rng)
        for fmt in range(5):
            odd = rng.random() < 0.25
            d = data
            if fmt in (2, 3) and len(d) == 0 and rng.random() < 0.7:
                d = gen_data(rng, rng.randint(1, 8))
            inputs.append((fmt, render(fmt, ident, d, rng, extract, odd), rng.random() < 0.5, "odd" if odd else "valid"))
    for k in range(n_bad):
        fmt = rng.randrange(5)
        base = render(fmt, gen_ident(rng), gen_data(rng), rng, extract, rng.random() < 0.2)
        m = mutate_bin(base, rng, fmt) if fmt < 2 else mutate_text(base, rng, fmt)
        if rng.random() < 0.2:
            m = mutate_bin(m, rng, fmt) if fmt < 2 else mutate_text(m, rng, fmt)
        inputs.append((fmt, m, rng.random() < 0.5, "malformed"))
    # stops of the model (counted as Unmodelled, not compared)
    for s in ["A99999999999.0 09FF7 0FF00 00", "A1.99999999999 09FF7 0FF00 00", "A-10000000001.5 1 1 00",
              "2020-01-01-00:00:00.000,1,%s,1,255,1,00" % ("1" * 4301)]:
        inputs.append((3 if s[0] == "A" else 4, s, False, "stop"))
    cases, dist, unm, nontriv, outcomes = [], {}, 0, [], {}
    for fmt, inp, comb, cls in inputs:
        obs, ts = impl.parse(fmt, inp, comb)
        stop = cls == "stop" or _has_non_ascii(inp)
        unm += stop
        tsl = "None" if ts is None else "(Some " + ctuple(cz(ts[0]), cstr(ts[1]), cbool(ts[2])) + ")"
        cases.append(ctuple(ctuple(ctuple(cz(fmt), cstr(inp), cbool(comb)), tsl, cbool(stop)), cres(obs, cargs)))
        key = f"{FMT_NAMES[fmt]}:{cls}"
        dist[key] = dist.get(key, 0) + 1
        oc = f"{FMT_NAMES[fmt]}:" + ("decode" if obs[0] == "ok" and obs[1] is not None else "none" if obs[0] == "ok" else obs[1])
        outcomes[oc] = outcomes.get(oc, 0) + 1
        if not stop and not (obs[0] == "ok" and obs[1] is None):
            nontriv.append((fmt, inp if isinstance(inp, str) else bytes(inp), comb))
    r = run_cases(prop, "parse", IMPORTS,
                  "((Z * list Z * bool) * option (Z * list Z * bool) * bool) * result (option dec_args)", "chk_parse", cases)

    def show(k):
        fmt, inp, comb, cls = inputs[k]
        return {"format": FMT_NAMES[fmt], "input": inp.hex() if isinstance(inp, bytes) else inp, "combined": comb,
                "class": cls, "impl": repr(impl.parse(fmt, inp, comb)[0])}
    r.update(name="parsers (decode_tcp/usb/yacht_devices_string/actisense_string/basic_string -> _decode arguments)",
             distinct_nontrivial=distinct_count(nontriv), unmodelled=unm,
             failing_cases=[show(k) for k in r["failing"][:20]],
             samples=[show(k) for k in (0, 1, 2, 3, 4, len(inputs) - 6)],
             distribution={"classes": dist, "outcomes": outcomes})
    return r


def real_messages(ctx, want: int):
    """real decoded messages whose payload re-encodes to the same bytes (so the wire layer can be judged alone):
    [(message, payload, is_fast)]"""
    import nmea2000.pgns as P
    from nmea2000.decoder import NMEA2000Decoder
    from nmea2000.encoder import NMEA2000Encoder
    dec, enc = NMEA2000Decoder(), NMEA2000Encoder()
    rng = ctx.rng
    out = []
    lines = ["2012-06-17-15:02:11.000,6,59904,0,255,3,14,f0,01",
             "2016-04-09T16:41:39.628Z,2,127489,16,255,26,00,2f,06,ff,ff,e3,73,65,05,ff,7f,72,10,00,00,ff,ff,ff,ff,ff,06,00,00,00,7f,7f",
             "2022-09-10T12:10:16.614Z,6,60928,5,255,8,fb,9b,70,22,00,9b,50,c0",
             "2021-01-30-20:43:21.684,6,126998,1,255,19,07,01,68,65,6C,6C,6F,0c,00,77,00,F3,00,72,00,6C,00,64,00",
             "2020-01-01-00:00:00.000,2,127250,1,255,8,01,10,27,ff,7f,ff,7f,fd",
             "2020-01-01-00:00:00.000,2,129029,1,255,43,00,2f,e7,95,3d,00,73,d6,29,00,da,04,73,db,c9,e5,05,80,7d,02,28,5f,8b,f5,00,00,00,00,00,00,00,13,fc,0c,5a,00,be,00,3c,f3,ff,ff,00",
             "2020-01-01-00:00:00.000,3,65280,7,255,8,3f,9f,dc,ff,ff,ff,ff,ff"]
    pgns = sorted(int(m.group(1)) for nm in dir(P) for m in [re.fullmatch(r"is_fast_pgn_(\d+)", nm)] if m)
    rng.shuffle(pgns)

    def try_payload(pgn, payload, fast):
        line = "2020-01-01-00:00:00.000,3,%d,1,255,%d,%s" % (pgn, len(payload), ",".join("%02x" % b for b in payload))
        try:
            m = dec.decode_basic_string(line, True)
            if m is None:
                return None
            back = bytes(enc._call_encode_function(m))
        except Exception:  # noqa: BLE001
            return None
        if back != payload:
            return None
        return (m, payload, fast)
    for ln in lines:
        p = ln.split(",")
        payload = bytes(int(x, 16) for x in p[6:])
        fast = NMEA2000Decoder._isFastPGN(int(p[2]))
        r = try_payload(int(p[2]), payload, bool(fast))
        if r:
            out.append(r)
    for pgn in pgns:
        if len(out) >= want:
            break
        try:
            fast = getattr(P, f"is_fast_pgn_{pgn}")()
        except Exception:  # noqa: BLE001
            continue
        lens = [8] if not fast else [9, 13, 14, 20, 27, 34, 50, 8, 6, 75, 134]
        found = False
        for n in lens:
            for attempt in range(3):
                payload = bytes([0xFF] * n) if attempt == 0 else bytes(rng.choice([0xFF, 0, rng.getrandbits(8)]) for _ in range(n))
                r = try_payload(pgn, payload, bool(fast))
                if r:
                    out.append(r)
                    found = True
                    break
            if found:
                break
    return out


def corr_encoders(ctx, prop: str, n_arbitrary: int, n_real: int):
    impl = Impl()
    rng = ctx.rng
    rows = []   # (kind, hdr, frames, obs, class)
    for k in range(n_arbitrary):
        valid = rng.random() < 0.85
        hdr = gen_hdr(rng, valid)
        r = rng.random()
        if r < 0.8:
            data, fast = gen_data(rng), False
        elif r < 0.97:
            data, fast = gen_data(rng, rng.choice([1, 5, 6, 7, 12, 13, 14, 20, 21, 27, 50])), True
        else:
            data, fast = bytes(rng.choice([255, 256, 300])), False
        for kind in range(4):
            frames, obs = impl.encode(kind, hdr, data, fast and kind != 3)
            rows.append((kind, hdr, frames, obs, ("arbitrary" if valid else "out-of-range") + ("/fast" if fast and kind != 3 else "")))
    msgs = real_messages(ctx, n_real)
    for m, payload, fast in msgs:
        for rep in range(2):
            m.source, m.destination, m.priority = rng.getrandbits(8), rng.choice([255, rng.getrandbits(8)]), rng.getrandbits(3)
            for kind in range(4):
                frames, obs = impl.encode_msg(kind, m)
                if obs is None:
                    continue
                rows.append((kind, (m.PGN, m.source, m.destination, m.priority), frames, obs, "real/fast" if fast else "real"))
    cases, dist = [], {}
    for kind, hdr, frames, obs, cls in rows:
        cases.append(ctuple(ctuple(cz(kind), ctuple(*(cz(x) for x in hdr)), cll(frames)),
                            cres(obs, cll)))
        key = f"{['ebyte', 'usb', 'yd', 'actisense'][kind]}:{cls}"
        dist[key] = dist.get(key, 0) + 1
    r = run_cases(prop, "enc", IMPORTS, "(Z * hdr * list (list Z)) * result (list (list Z))", "chk_enc", cases)

    def show(k):
        kind, hdr, frames, obs, cls = rows[k]
        return {"format": ["ebyte", "usb", "yd", "actisense"][kind], "hdr": list(hdr), "frames": [f.hex() for f in frames],
                "class": cls, "impl": [x.hex() if isinstance(x, bytes) else x for x in obs[1]] if obs[0] == "ok" else obs[1]}
    lens = {}
    for kind, hdr, frames, obs, cls in rows:
        for f in frames:
            lens[len(f)] = lens.get(len(f), 0) + 1
    r.update(name="encoders (encode_ebyte/usb/yacht_devices/actisense)",
             distinct_nontrivial=distinct_count([(k, h, tuple(f)) for k, h, f, o, c in rows if h[0]]),
             failing_cases=[show(k) for k in r["failing"][:20]], samples=[show(k) for k in (0, 1, 2, 3, len(rows) - 1)],
             distribution={"classes": dist, "frame_lengths": {str(k): v for k, v in sorted(lens.items())},
                           "real_messages": len(msgs), "real_pgns": len({m.PGN for m, _, _ in msgs})})
    return r


PRIM_ALPHA = " \t\x0b\x1c+-0xX_19afAFgG\x00\n,.é٣"


def corr_primitives(ctx, prop: str, n: int):
    rng = ctx.rng
    reports = []
    # int()
    strs = ["", " ", "0", "0x", "0X1f", "0x_1f", "0x__1", "_1", "1_", "1__0", "1_0", "+0x1", "-0x1", "- 1", "+", "-", "0b1", "0_x1",
            "\x1c5", " 5 ", "\t5\n", "5\x00", "00_0", "7" * 30, "f" * 40, "-" + "9" * 25, "z", "G", "0xg", "0x 1", "+-1"]
    for _ in range(n):
        strs.append("".join(rng.choice(PRIM_ALPHA) for _ in range(rng.randint(0, 7))))
    cases, raw, unm = [], [], 0
    for s in strs:
        for base in (16, 10):
            try:
                obs = ("ok", int(s, base))
            except ValueError:
                obs = ("err", "EMalformed")
            stop = _has_non_ascii(s)
            unm += stop
            cases.append(ctuple(ctuple(cz(base), cstr(s), cbool(stop)), cres(obs, cz)))
            raw.append((s, base))
    r = run_cases(prop, "int", IMPORTS, "(Z * list Z * bool) * result Z", "chk_int", cases)
    r.update(name="int(s, 16) / int(s) on ASCII text", distinct_nontrivial=distinct_count(raw), unmodelled=unm,
             failing_cases=[{"s": raw[k][0], "base": raw[k][1]} for k in r["failing"][:20]], samples=[{"s": "0x_1f", "base": 16}])
    reports.append(r)
    # bytes.fromhex
    strs = ["", " ", "0a 0B\t0c", "0 a", "abc", "0a\x1c0b", "0a\x0b0b\x0c", "é", "zz", "0g"]
    for _ in range(n):
        strs.append("".join(rng.choice("0123456789abcdefABCDEF" if rng.random() < 0.8 else PRIM_ALPHA) for _ in range(rng.randint(0, 10))))
    cases = []
    for s in strs:
        try:
            obs = "(Some " + cstr(bytes.fromhex(s)) + ")"
        except ValueError:
            obs = "None"
        cases.append(ctuple(cstr(s), obs))
    r = run_cases(prop, "fromhex", IMPORTS, "list Z * option (list Z)", "chk_fromhex", cases)
    r.update(name="bytes.fromhex", distinct_nontrivial=distinct_count(strs),
             failing_cases=[{"s": strs[k]} for k in r["failing"][:20]], samples=[{"s": strs[2]}])
    reports.append(r)
    # split
    strs = ["", " ", "a", " a ", "a\x1cb\x1fc d\x0be", ",", "a,", ",a", "a,,b", "\r\n"]
    for _ in range(n):
        strs.append("".join(rng.choice(" \t\x1c\x1f,ab\r\n\x0b\x0c\x1d\x1e") for _ in range(rng.randint(0, 9))))
    cases = []
    for s in strs:
        cases.append(ctuple(ctuple("0", cstr(s)), cll(s.split())))
        cases.append(ctuple(ctuple("44", cstr(s)), cll(s.split(","))))
        cases.append(ctuple(ctuple("46", cstr(s)), cll(s.split("."))))
    r = run_cases(prop, "split", IMPORTS, "(Z * list Z) * list (list Z)", "chk_split", cases)
    r.update(name="str.split() / str.split(c) on ASCII text", distinct_nontrivial=distinct_count(strs),
             failing_cases=[{"s": strs[k // 3]} for k in r["failing"][:20]], samples=[{"s": strs[4]}])
    reports.append(r)
    # formatting
    nums = [(2, 0), (2, 255), (2, 256), (5, 0), (5, 0xFFFFF), (5, 0x100000), (5, 0xFFFFFF), (2, -1), (5, -5), (8, 0x1FFFFFFF)]
    for _ in range(n):
        nums.append((rng.choice([2, 5, 8]), rng.getrandbits(rng.choice([4, 8, 12, 20, 24, 32]))))
    cases = [ctuple(ctuple(cz(w), cz(v)), cstr(format(v, "0%dX" % w))) for w, v in nums]
    r = run_cases(prop, "fmt", IMPORTS, "(Z * Z) * list Z", "chk_fmt", cases)
    r.update(name="format(n, '0wX')", distinct_nontrivial=distinct_count(nums),
             failing_cases=[{"wn": nums[k]} for k in r["failing"][:20]], samples=[{"wn": nums[5]}])
    reports.append(r)
    return reports


async def _read_blocks(stream: bytes, kind: int):
    rd = asyncio.StreamReader()
    rd.feed_data(stream)
    rd.feed_eof()
    out = []
    while True:
        if kind == 10:
            b = await rd.readline()
            if not b:
                break
        else:
            try:
                b = await rd.readexactly(kind)
            except asyncio.IncompleteReadError:
                break
        out.append(bytes(b))
    return out


async def _serial_blocks(stream: bytes):
    from nmea2000.ioclient import WaveShareNmea2000Gateway
    gw = WaveShareNmea2000Gateway("none")
    out = []
    try:
        import serial_asyncio
        from props.c20 import _Writer

        async def fake_open(*a, **k):
            return asyncio.StreamReader(), _Writer()
        saved = serial_asyncio.open_serial_connection
        serial_asyncio.open_serial_connection = fake_open
        try:
            await gw._connect_impl()         # the client prepares itself for a new connection
        finally:
            serial_asyncio.open_serial_connection = saved
        gw.reader = asyncio.StreamReader()
        gw.reader.feed_data(stream)
        gw.reader.feed_eof()
        gw.decoder.decode_usb = lambda p: out.append(bytes(p))
        for _ in range(len(stream) // 100 + 2):
            try:
                await gw._receive_impl()
            except Exception:  # noqa: BLE001   (a repaired client may raise at end of stream)
                break
    finally:
        gw._process_queue_task.cancel()
    return out


def corr_framing(ctx, prop: str, n: int):
    rng = ctx.rng
    impl = Impl()
    rows = []
    for _ in range(n):
        kind = rng.choice([13, 20, 10, 0])
        k = rng.randint(0, 6)
        if kind == 13:
            s = b"".join(render(0, gen_ident(rng), gen_data(rng, rng.randint(0, 8)), rng, None) for _ in range(k))
        elif kind == 10:
            s = b"".join(impl.encode(2, gen_hdr(rng), gen_data(rng, rng.randint(0, 8)))[1][1][0] for _ in range(k))
        else:
            s = b"".join(render(1, gen_ident(rng), gen_data(rng, rng.randint(0, 8)), rng, None) for _ in range(k))
        r = rng.random()
        if r < 0.3:
            s = s + bytes(rng.choice([0xAA, 0x55, 0x0A, rng.getrandbits(8)]) for _ in range(rng.randint(1, 25)))
        elif r < 0.5 and s:
            i = rng.randrange(len(s))
            s = s[:i] + bytes(rng.choice([0xAA, 0x55, 0x0A, rng.getrandbits(8)]) for _ in range(rng.randint(1, 3))) + s[i:]
        elif r < 0.6 and s:
            i = rng.randrange(len(s))
            s = s[:i] + s[i + 1:]
        obs = asyncio.run(_serial_blocks(s)) if kind == 0 else asyncio.run(_read_blocks(s, kind))
        rows.append((kind, s, obs))
    cases = [ctuple(ctuple(cz(k), cstr(s)), cll(o)) for k, s, o in rows]
    r = run_cases(prop, "frames", IMPORTS, "(Z * list Z) * list (list Z)", "chk_frames", cases, shard=100)
    kinds = {}
    for k, s, o in rows:
        kinds[str(k)] = kinds.get(str(k), 0) + 1
    r.update(name="receive framing (readexactly(13/20), readline, serial marker search)",
             distinct_nontrivial=distinct_count([(k, s) for k, s, o in rows if o]),
             failing_cases=[{"kind": rows[k][0], "stream": rows[k][1].hex(), "impl": [x.hex() for x in rows[k][2]]} for k in r["failing"][:10]],
             samples=[{"kind": rows[0][0], "stream": rows[0][1].hex(), "impl": [x.hex() for x in rows[0][2]]}],
             distribution={"kinds (13/20 = readexactly, 10 = readline, 0 = serial client)": kinds})
    return r


def corr_checksum(ctx, prop: str, n: int):
    from nmea2000.utils import calculate_canbus_checksum
    rng = ctx.rng
    ps = [bytes(rng.getrandbits(8) if rng.random() < 0.7 else 0xFF for _ in range(rng.choice([0, 1, 2, 3, 18, 19, 20, 21, 30])))
          for _ in range(n)]
    cases = [ctuple(cstr(p), cz(calculate_canbus_checksum(p))) for p in ps]
    r = run_cases(prop, "cks", IMPORTS, "list Z * Z", "chk_checksum", cases)
    r.update(name="calculate_canbus_checksum", distinct_nontrivial=distinct_count(ps),
             failing_cases=[{"packet": ps[k].hex()} for k in r["failing"][:10]], samples=[{"packet": ps[0].hex()}])
    return r


def _ee2e():
    """the composed ENCODER model (EncEndToEnd.v): imported lazily — props.ence2e imports props.e2e, which imports
    props.c07, which imports this module"""
    from props import ence2e as EE2E
    for t in EE2E.TRUSTED:
        if t not in TRUSTED:
            TRUSTED.append(t)
    for t in EE2E.ASSUMPTIONS:
        if t not in ASSUMPTIONS:
            ASSUMPTIONS.append(t)
    return EE2E


def gen(ctx):
    _ee2e().gen(ctx)      # per-run theorems ENC_E2E_* (OblEncE2E.v): decode(encode(decode p)) = decode p through the wire


def correspond(ctx):
    reports = [corr_encoders(ctx, "C06", ctx.n(350, 3000), ctx.n(40, 300)),
               corr_parsers(ctx, "C06", ctx.n(250, 2500), ctx.n(600, 6000))]
    reports += corr_primitives(ctx, "C06", ctx.n(400, 4000))
    reports.append(corr_framing(ctx, "C06", ctx.n(60, 400)))
    reports.append(corr_checksum(ctx, "C06", ctx.n(200, 2000)))
    reports += _ee2e().correspond(ctx, prop="C06")
    return reports


# ------------------------------------------------------------------ property oracle on the real code
def _fields(m):
    return [(f.id, f.value, f.raw_value) for f in m.fields]


def _same_message(a, b, exp_hdr):
    """b (decoded) against a (original): PGN, addressing, priority, field values and raw values"""
    pgn, src, dst, prio = exp_hdr
    if b is None:
        return "no message"
    if (b.PGN, b.source, b.destination, b.priority) != (pgn, src, dst, prio):
        return f"header {(b.PGN, b.source, b.destination, b.priority)} != {(pgn, src, dst, prio)}"
    if b.id != a.id:
        return f"definition {b.id} != {a.id}"
    fa, fb = _fields(a), _fields(b)
    if repr(fa) != repr(fb):
        for x, y in zip(fa, fb):
            if repr(x) != repr(y):
                return f"field {x} came back as {y}"
        return "field lists differ in length"
    return None


def _decode_packets(fmt: str, pkts, prefix=""):
    """feed the encoder's packets to a fresh real decoder of that format; returns the messages produced"""
    from nmea2000.decoder import NMEA2000Decoder
    d = NMEA2000Decoder()
    out = []
    for p in pkts:
        if fmt == "ebyte":
            r = d.decode_tcp(p)
        elif fmt == "usb":
            r = d.decode_usb(p)
        elif fmt == "yd":
            r = d.decode_yacht_devices_string(prefix + p.decode())
        else:
            r = d.decode_actisense_string(prefix + p)
        if r is not None:
            out.append(r)
    return out


def check_roundtrip(m, payload, fast, fmt, prefix, enc=None):
    """None or a witness dict: encode the real message `m` in `fmt`, decode the packets, compare; check the sizes.
    `enc`: a long-lived encoder object that has already encoded other messages (default: a new one)"""
    from nmea2000.encoder import NMEA2000Encoder
    enc = enc or NMEA2000Encoder()
    pdu1 = ((m.PGN >> 8) & 0xFF) < 240
    exp = (m.PGN, m.source, m.destination if pdu1 else 255, m.priority)
    base = {"kind": "roundtrip", "fmt": fmt, "pgn": m.PGN, "payload": payload.hex(), "src": m.source, "dst": m.destination,
            "prio": m.priority, "prefix": prefix}
    try:
        if fmt == "ebyte":
            pk = enc.encode_ebyte(m)
        elif fmt == "usb":
            pk = enc.encode_usb(m)
        elif fmt == "yd":
            pk = enc.encode_yacht_devices(m)
        else:
            pk = [enc.encode_actisense(m)]
    except Exception as e:  # noqa: BLE001
        return dict(base, key=f"roundtrip:{fmt}:encode-raises", what=f"{fmt}: encoding PGN {m.PGN} raised {e!r}")
    for p in pk:
        if fmt == "ebyte" and len(p) != 13:
            return dict(base, key="sizes:ebyte", what=f"EByte packet of {len(p)} bytes (not 13) for PGN {m.PGN} with "
                        f"{len(payload)}-byte payload: {p.hex()}")
        if fmt == "usb" and len(p) != 20:
            return dict(base, key="sizes:usb", what=f"USB packet of {len(p)} bytes (not 20) for PGN {m.PGN}: {p.hex()}")
        if fmt == "usb" and (sum(p[2:19]) & 0xFF) != p[19]:
            return dict(base, key="sizes:usb-checksum", what=f"USB packet with invalid checksum for PGN {m.PGN}: {p.hex()}")
        if fmt == "yd" and not (p.endswith(b"\r\n") and p.count(b"\n") == 1):
            return dict(base, key="sizes:yd", what=f"Yacht Devices packet is not one CR LF terminated line: {p!r}")
    try:
        got = _decode_packets(fmt, pk, prefix)
    except Exception as e:  # noqa: BLE001
        return dict(base, key=f"roundtrip:{fmt}:decode-raises", what=f"{fmt}: decoding the encoder's packets for PGN {m.PGN} raised {e!r}")
    if len(got) != 1:
        return dict(base, key=f"roundtrip:{fmt}:count", what=f"{fmt}: {len(pk)} packet(s) of PGN {m.PGN} decoded to {len(got)} messages")
    why = _same_message(m, got[0], exp)
    if why:
        return dict(base, key=f"roundtrip:{fmt}", what=f"{fmt}: PGN {m.PGN} payload {payload.hex()} does not round-trip: {why}")
    return None


def _msg_from(pgn, payload: bytes, src, dst, prio):
    from nmea2000.decoder import NMEA2000Decoder
    line = "2020-01-01-00:00:00.000,%d,%d,%d,%d,%d,%s" % (prio, pgn, src, dst, len(payload), ",".join("%02x" % b for b in payload))
    m = NMEA2000Decoder().decode_basic_string(line, True)
    if m is not None:
        pass
    return m


def check_checksum(pkt: bytes):
    """the 18 x 255 corruption table on a real USB packet"""
    from nmea2000.decoder import NMEA2000Decoder
    d = NMEA2000Decoder()
    d._decode = lambda *a, **k: "reached"     # a first fast-packet frame alone yields no message: observe the hand-over
    try:
        ok = d.decode_usb(pkt)
    except Exception:  # noqa: BLE001
        ok = None
    if ok is None:
        return {"key": "checksum:valid-packet-rejected", "kind": "checksum", "packet": pkt.hex(),
                "what": f"encoder's USB packet {pkt.hex()} is not accepted by decode_usb"}
    for pos in range(2, 20):
        for delta in range(1, 256):
            b = bytearray(pkt)
            b[pos] = (b[pos] + delta) & 0xFF
            try:
                r = d.decode_usb(bytes(b))
            except Exception:  # noqa: BLE001
                r = None
            if r is not None:
                return {"key": "checksum:corruption-accepted", "kind": "checksum", "packet": pkt.hex(), "pos": pos, "delta": delta,
                        "what": f"USB packet {pkt.hex()} with byte {pos} changed by {delta} is still decoded to a message"}
    return None


async def _client_split(fmt: str, pkts, cut=None):
    """concatenate the packets, run the matching client's receive path on the stream, return what reached the decoder.
    cut: None = the whole stream is available at once; n > 0 = the transport delivers n bytes at a time; a list = those
    piece sizes in turn (cyclically)"""
    from nmea2000 import ioclient as IO
    stream = b"".join(pkts)
    got = []
    if fmt == "ebyte":
        gw = IO.EByteNmea2000Gateway("none", 0)
        gw.decoder.decode_tcp = lambda p: got.append(bytes(p))
    elif fmt == "usb":
        gw = IO.WaveShareNmea2000Gateway("none")
        # opened through the client's own _connect_impl on a scripted port (whatever it sets up per connection is its business)
        import serial_asyncio
        from props.c20 import _Writer

        async def fake_open(*a, **k):
            return asyncio.StreamReader(), _Writer()
        saved = serial_asyncio.open_serial_connection
        serial_asyncio.open_serial_connection = fake_open
        try:
            await gw._connect_impl()
        finally:
            serial_asyncio.open_serial_connection = saved
        gw.decoder.decode_usb = lambda p: got.append(bytes(p))
    else:
        gw = IO.YachtDevicesNmea2000Gateway("none", 0)
        gw.decoder.decode_yacht_devices_string = lambda s: got.append(s.encode())
    try:
        gw.reader = asyncio.StreamReader()
        if cut is None:
            gw.reader.feed_data(stream)
            gw.reader.feed_eof()
            for _ in range(len(pkts) + len(stream) // 100 + 2):
                if fmt != "usb" and gw.reader.at_eof():
                    break
                try:
                    await gw._receive_impl()
                except Exception:  # noqa: BLE001
                    break
        else:
            sizes = [cut] if isinstance(cut, int) else list(cut)

            async def rx():
                while True:
                    try:
                        await gw._receive_impl()
                    except Exception:  # noqa: BLE001
                        return
            task = asyncio.ensure_future(rx())
            pos, k = 0, 0
            while pos < len(stream):
                n = max(1, sizes[k % len(sizes)])
                gw.reader.feed_data(stream[pos:pos + n])
                pos, k = pos + n, k + 1
                for _ in range(6):
                    await asyncio.sleep(0)
            gw.reader.feed_eof()
            try:
                await asyncio.wait_for(task, 5)
            except Exception:  # noqa: BLE001
                task.cancel()
    finally:
        gw._process_queue_task.cancel()
    return got


def check_split(fmt: str, pkts, cut=None):
    if fmt == "ebyte" and any(p == b"Sorry,Limited" for p in pkts):
        return None
    got = asyncio.run(_client_split(fmt, pkts, cut))
    exp = [p.strip() for p in pkts] if fmt == "yd" else list(pkts)
    if got != exp and cut is not None:
        k = next((i for i, (a, b) in enumerate(zip(got, exp)) if a != b), min(len(got), len(exp)))
        return {"key": f"split:{fmt}:segmented", "kind": "split", "fmt": fmt, "packets": [p.hex() for p in pkts], "cut": cut,
                "what": f"{fmt}: with the transport delivering the stream in pieces of {cut} bytes the receive path cuts the "
                        f"concatenation of {len(pkts)} encoder packets into {len(got)} blocks; block {k} is "
                        f"{(got[k].hex() if k < len(got) else None)} instead of {(exp[k].hex() if k < len(exp) else None)}"}
    if got != exp:
        k = next((i for i, (a, b) in enumerate(zip(got, exp)) if a != b), min(len(got), len(exp)))
        return {"key": f"split:{fmt}", "kind": "split", "fmt": fmt, "packets": [p.hex() for p in pkts],
                "what": f"{fmt}: the receive path cuts the concatenation of {len(pkts)} encoder packets into {len(got)} blocks; "
                        f"block {k} is {(got[k].hex() if k < len(got) else None)} instead of {(exp[k].hex() if k < len(exp) else None)}"}
    return None


def check_frame(fmt: str, hdr, data: bytes, prefix: str):
    """arbitrary frame: encode (encode function replaced from outside), parse, compare what `_decode` receives"""
    impl = Impl()
    kind = ["ebyte", "usb", "yd", "acti"].index(fmt)
    pgn, src, dst, prio = hdr
    base = {"kind": "frame", "fmt": fmt, "hdr": list(hdr), "data": data.hex(), "prefix": prefix}
    frames, obs = impl.encode(kind, hdr, data)
    if obs[0] != "ok" or len(obs[1]) != 1:
        return dict(base, key=f"frame:{fmt}:encode", what=f"{fmt}: frame {hdr} data {data.hex()} is not encoded to one packet: {obs}")
    pk = obs[1][0]
    if fmt == "ebyte" and len(pk) != 13:
        return dict(base, key="sizes:ebyte", what=f"EByte packet of {len(pk)} bytes (not 13) for a {len(data)}-byte frame: {pk.hex()}")
    if fmt == "usb" and len(pk) != 20:
        return dict(base, key="sizes:usb", what=f"USB packet of {len(pk)} bytes (not 20) for a {len(data)}-byte frame: {pk.hex()}")
    inp = pk if kind < 2 else prefix + (pk.decode() if kind == 2 else pk)
    got, _ = impl.parse(kind, inp)
    exp = (pgn, prio, src, dst if (kind == 3 or ((pgn >> 8) & 0xFF) < 240) else 255, data[::-1], kind == 3)
    if got != ("ok", exp):
        return dict(base, key=f"frame:{fmt}", what=f"{fmt}: frame {hdr} data {data.hex()} -> {inp!r} is handed to _decode as {got[1]} "
                    f"instead of {exp}")
    return None


PREFIX = {"ebyte": [""], "usb": [""], "yd": ["00:00:00.000 R ", "23:59:59.999 T "], "acti": ["A000001.000 ", "A173321.107 "]}


def _desc(m, payload):
    return [m.PGN, payload.hex(), m.source, m.destination, m.priority]


def _encode_desc(fmt: str, desc):
    """re-encode a message description [pgn, payload hex, src, dst, prio] with a fresh real encoder"""
    from nmea2000.encoder import NMEA2000Encoder
    pgn, ph, src, dst, prio = desc
    m = _msg_from(pgn, bytes.fromhex(ph), src, dst, prio)
    if m is None:
        return []
    m.source, m.destination, m.priority = src, dst, prio
    enc = NMEA2000Encoder()
    try:
        return list({"ebyte": enc.encode_ebyte, "usb": enc.encode_usb, "yd": enc.encode_yacht_devices}[fmt](m))
    except Exception:  # noqa: BLE001
        return []


def check_split_msgs(fmt: str, descs, cut=None):
    pkts = [p for d in descs for p in _encode_desc(fmt, d)]
    w = check_split(fmt, pkts, cut) if pkts else None
    if w:
        w.pop("packets", None)
        w["msgs"] = descs
    return w


def check_checksum_msg(desc, index: int):
    pkts = _encode_desc("usb", desc)
    if not pkts:
        return None
    w = check_checksum(pkts[index % len(pkts)])
    if w:
        w["msg"], w["index"] = desc, index
    return w


def search(ctx):
    rng = ctx.rng
    out, seen = [], set()

    def add(w):
        if w and w["key"] not in seen:
            seen.add(w["key"])
            out.append(w)
    msgs = real_messages(ctx, ctx.n(60, 400))
    ctx.notes.append(f"witness search: {len(msgs)} real messages of {len({m.PGN for m, _, _ in msgs})} PGNs "
                     f"({sum(1 for _, _, f in msgs if f)} fast-packet)")
    descs = []
    # the clients' own ISO Request (3 data bytes) is the canonical short frame
    iso = _msg_from(59904, bytes([0x00, 0xEE, 0x00]), 1, 255, 6)
    if iso is not None:
        for fmt in ("ebyte", "usb", "yd", "acti"):
            add(check_roundtrip(iso, bytes([0x00, 0xEE, 0x00]), False, fmt, PREFIX[fmt][0]))
        descs.append(_desc(iso, bytes([0x00, 0xEE, 0x00])))
    for m, payload, fast in msgs:
        for rep in range(ctx.n(2, 6)):
            m.source, m.priority = rng.choice([0, 1, 254, 255, rng.getrandbits(8)]), rng.getrandbits(3)
            m.destination = rng.choice([0, 255, rng.getrandbits(8)]) if ((m.PGN >> 8) & 0xFF) < 240 else 255
            for fmt in ("ebyte", "usb", "yd", "acti"):
                add(check_roundtrip(m, payload, fast, fmt, rng.choice(PREFIX[fmt])))
            descs.append(_desc(m, payload))
    # ONE long-lived encoder object per format (what a gateway client keeps): the same message kind to different
    # destinations / from different sources / with different priorities, one after the other
    from nmea2000.encoder import NMEA2000Encoder
    iso_pl = bytes([0x00, 0xEE, 0x00])
    for fmt in ("ebyte", "usb", "yd", "acti"):
        enc = NMEA2000Encoder()
        seq = [(1, 255, 6), (1, 36, 6), (1, 40, 6), (1, 0, 6), (2, 40, 6), (2, 40, 3), (1, 255, 6), (1, 36, 6)]
        seq += [(rng.getrandbits(8), rng.getrandbits(8), rng.getrandbits(3)) for _ in range(ctx.n(6, 40))]
        for k, (src, dst, prio) in enumerate(seq):
            for pgn, pl in ((59904, iso_pl),) + (((126720, None),) if k % 3 == 0 else ()):
                if pl is None:
                    cand = [(m, p) for m, p, f in msgs if m.PGN == pgn]
                    if not cand:
                        continue
                    m0, pl = cand[0]
                m = _msg_from(pgn, pl, src, dst, prio)
                if m is None:
                    continue
                m.source, m.destination, m.priority = src, dst, prio
                w = check_roundtrip(m, pl, False, fmt, PREFIX[fmt][0], enc=enc)
                if w:
                    w["key"] += ":long-lived-encoder"
                    w["kind"] = "roundtrip-seq"
                    w["history"] = [list(x) for x in seq[:k + 1]]
                    w["what"] += f" (after {k} earlier messages through the same encoder object)"
                    add(w)
    # arbitrary frames, at the level of the tuple handed to `_decode`
    for _ in range(ctx.n(300, 3000)):
        pgn, src, dst, prio = gen_hdr(rng)
        if ((pgn >> 8) & 0xFF) < 240:
            pgn &= ~0xFF
        for fmt in ("ebyte", "usb", "yd", "acti"):
            data = gen_data(rng, rng.randint(1 if fmt in ("yd", "acti") else 0, 8))
            add(check_frame(fmt, (pgn, src, dst, prio), data, rng.choice(PREFIX[fmt])))
    # checksum table: 18 positions x 255 corruptions on real packets
    for d in rng.sample(descs, min(len(descs), ctx.n(3, 25))):
        add(check_checksum_msg(d, rng.randrange(8)))
    # split: concatenations of the packets of consecutive messages through the matching client's receive path
    for fmt in ("ebyte", "usb", "yd"):
        add(check_split_msgs(fmt, descs[:12]))
        for cut in (1, 7, [5, 19, 13, 30], [rng.randint(1, 40) for _ in range(9)]):      # the transport splits the stream
            add(check_split_msgs(fmt, descs[:6], cut))
        for _ in range(ctx.n(4, 30)):
            i = rng.randrange(len(descs))
            add(check_split_msgs(fmt, descs[i:i + rng.randint(1, 6)]))
    # split, adversarial content: frames whose identifier or data contain the serial start marker AA 55, CR/LF bytes,
    # the byte values of the framing itself — the packets of such frames must be cut back exactly as well
    impl = Impl()
    for fmt, kind in (("ebyte", 0), ("usb", 1), ("yd", 2)):
        for _ in range(ctx.n(6, 60)):
            pkts = []
            for _k in range(rng.randint(2, 6)):
                n = rng.randint(2, 8)
                data = bytearray(gen_data(rng, n))
                if rng.random() < 0.7:
                    j = rng.randrange(n - 1)
                    data[j:j + 2] = rng.choice([b"\xaa\x55", b"\xaa\x55", b"\x55\xaa", b"\x0d\x0a", b"\xaa\xaa"])
                src, dst = rng.choice([(0xAA, 0x55), (0x55, 0xAA), (0xAA, 0xAA), (rng.getrandbits(8), rng.getrandbits(8))])
                pgn = rng.choice([59904, 0xAA00, 0x5500, 0x1AA00, 126208])       # addressed PGNs: dst is on the wire
                _f, obs = impl.encode(kind, (pgn, src, dst, rng.getrandbits(3)), bytes(data))
                if obs[0] == "ok":
                    pkts += obs[1]
            if pkts:
                add(check_split(fmt, pkts))
    out += _ee2e().search(ctx)
    return out


def replay(ctx, data):
    w = data.get("witness", data)
    if w.get("kind") == "ence2e":
        return _ee2e().replay(ctx, data)
    r = None
    if w.get("kind") == "roundtrip":
        m = _msg_from(w["pgn"], bytes.fromhex(w["payload"]), w["src"], w["dst"], w["prio"])
        if m is None:
            print("observed: the payload no longer decodes")
            return True
        m.source, m.destination, m.priority = w["src"], w["dst"], w["prio"]
        r = check_roundtrip(m, bytes.fromhex(w["payload"]), False, w["fmt"], w.get("prefix", ""))
    elif w.get("kind") == "roundtrip-seq":
        from nmea2000.encoder import NMEA2000Encoder
        enc = NMEA2000Encoder()
        pl = bytes.fromhex(w["payload"])
        for src, dst, prio in w["history"]:
            m = _msg_from(w["pgn"], pl, src, dst, prio)
            if m is None:
                continue
            m.source, m.destination, m.priority = src, dst, prio
            r = check_roundtrip(m, pl, False, w["fmt"], w.get("prefix", ""), enc=enc) or r
    elif w.get("kind") == "frame":
        r = check_frame(w["fmt"], tuple(w["hdr"]), bytes.fromhex(w["data"]), w.get("prefix", ""))
    elif w.get("kind") == "checksum":
        r = check_checksum_msg(w["msg"], w["index"]) if "msg" in w else check_checksum(bytes.fromhex(w["packet"]))
    elif w.get("kind") == "split":
        r = (check_split_msgs(w["fmt"], w["msgs"], w.get("cut")) if "msgs" in w
             else check_split(w["fmt"], [bytes.fromhex(p) for p in w["packets"]], w.get("cut")))
    print("expected: packets of fixed size that round-trip and are split back by the receive path")
    print("observed:", r["what"] if r else "property holds on this input")
    return r is not None
