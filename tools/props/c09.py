"""C09 — encoding never silently corrupts a value."""
import enc_common as E

PROPS_FILES = ["props/C09.v"]
ALWAYS_SEARCH = True
RULE = ("encoder correspondence: per encodable definition a decoded message and its mutations by the value classes of "
        "the quantifier text (both range ends, values between two steps, absent, one step beyond either end, far outside, "
        "negative, wrong Python type, lookup by name / unknown name / wrapped raw value, one field removed) through the "
        "real encode_pgn_* and run_edef; search: encode -> decode back and compare (half-step for numbers, exact for "
        "lookups/dates/times/reserved, absent->absent), bit locality; non-trivial = a mutated field; distinct by case")
TRUSTED = E.__dict__.get("TRUSTED", ["tools/tr_pgns.py, tools/tr_db.py; Encode.v hand model, tied by the correspondence "
                                     "cases of this run"])
ASSUMPTIONS = ["struct.pack('<f') of a double that is not exactly representable in binary32 is Unmodelled (counted)"]


def gen(ctx):
    E.gen_tables(ctx, "OblC02", "DiagC02")


def correspond(ctx):
    if not getattr(ctx, "gen", {}).get("ok"):
        return []
    return [E.run_encoder_cases(ctx, "C09", ctx.n(5, 12), with_mutations=True)] + E.unit_cases(ctx, "C09")


search = E.c09_search
replay = E.c09_replay
