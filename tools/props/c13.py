"""C13 — gateway clients recover from every connection fault and never stall the loop.

Tie: the four REAL client classes run on the virtual-time loop (tools/vloop.py; every run in a subprocess with a
wall-clock watchdog and a heartbeat task); the labelled trace of every run must be accepted by the Coq acceptor
`lts_accepts` of ClientLTS.v (repaired code), decided by the kernel; `corr_retry` compares tenacity's real
wait_exponential(multiplier=0.5, max=10) with `wait2`. Search: the same runs judged by the property text."""
import os
import vlib
import vloop
from vlib import cz, ctuple, run_cases, distinct_count

PROPS_FILES = ["props/C13.v"]
RULE = ("one case = one scripted session of a real client class on the virtual loop: a base session (connect refused "
        "once, pending 0.3 s, frames, second connect(), half a frame, send with suspending drain, EOF, reconnect, "
        "write error, reconnect, recovery tail) with one fault script (EOF | reset | write error | drain error | garbage "
        "then EOF | well-framed frames whose decoding raises + a good frame + EOF | refuse 3 then EOF | refuse 7 then reset | EByte 'Sorry,Limited') injected at EVERY event-loop step "
        "position of the base session, x 4 clients x status-callback behaviour; failing connection "
        "attempts raise ConnectionRefusedError | OSError(EHOSTUNREACH/ENETUNREACH) | socket.gaierror | TimeoutError | RuntimeError | "
        "ConnectionResetError | serial.SerialException (serial client), rotating with run number and VERIF_SEED; non-trivial = the trace contains a "
        "fault label; distinct by label sequence")
TRUSTED = ["ClientLTS.v is a hand model of AsyncIOClient.connect/_receive_loop/send/close/_process_queue/_update_state, "
           "the four _receive_impl read behaviours and tenacity's AsyncRetrying/wait_exponential; tied to the code by the "
           "traces of this run (real traces are accepted by the model; the theorems quantify over all model traces)",
           "which awaits really suspend (StreamReader reads, Lock, Queue, sleep), FIFO order of the ready queue, "
           "task cancellation: CPython 3.12 asyncio, modelled not verified",
           "tools/vloop.py: virtual-time selector, fake transports, method wrappers, block -> label translation"]
ASSUMPTIONS = ["asyncio schedules every runnable task eventually (fairness) and wall-clock effects are outside the model",
               "the application does not cancel connect/send/close tasks",
               "the network-map seeding task (build_network_map=True) is part of the model (parameter seeding); its traces are tied to the "
               "code by the sessions of the C14 check, this check runs clients without it"]
ALWAYS_SEARCH = True      # the oracle re-reads the sessions the correspondence ran (cached): free, and it sees what the
#                           control-flow model does not (which frames reach the callback)
IMPORTS = "From NV Require Import Base ClientLTS CorrClientLTS."
MAX_POS = 160        # injection positions per base session (an unchanged client has 30-60 event-loop steps per session;
                     # a changed one that never settles must not multiply the work by thousands)
_CACHE = {}


def _repo():
    return os.environ.get("NMEA2000_REPO", "/repo")


# ------------------------------------------------------------------ the runs
def fault_specs(ctx):
    """base sessions + one fault script at every position"""
    thorough = ctx.thorough
    specs, meta = [], []
    clients = list(vloop.CLIENTS)
    # phase 1: base sessions (also tells how many positions there are)
    base = []
    for c in clients:
        for cb in (("ret", "slow", "raise", "slowraise") if thorough else ("ret", "slow")):
            base.append(vloop.spec(c, cb=cb, rcb="slow" if cb == "slow" else "ret", tail=vloop.RECOVERY_TAIL))
    for i, s in enumerate(base):
        s["exc_rot"] = ctx.seed + i
    bobs = vloop.run_batch([dict(s) for s in base], _repo(), wall=6, procs=3)
    for s, o in zip(base, bobs):
        specs.append(s)
        meta.append({"client": s["client"], "cb": s["cb"], "fault": None, "at": None, "obs": o})
    faults = ["eof", "reset", "writeerr", "garbage_eof", "undecodable_eof", "refuse3_eof", "refuse7_reset", "partial_eof",
              "partial_reset"]
    if thorough:
        faults += ["drainerr"]
    inj = []
    for s, o in zip(base, bobs):
        if o.get("spin") or not o.get("npos"):
            continue
        if s["cb"] not in ("ret", "slow") and not thorough:
            continue
        npos = o["npos"]
        fl = list(faults) + (["sorry"] if s["client"] == "ebyte" and s["cb"] == "ret" else [])
        fl += ["overlong"] if s["client"] in ("actisense", "yd") and s["cb"] == "ret" else []
        fl += ["refuse35_eof"] if s["cb"] == "ret" else []
        for f in fl:
            sf = s
            if f in ("sorry", "refuse7_reset"):   # 30 s sleep / 35.5 s of back-off before the link is up again: longer recovery tail
                sf = dict(s)
                sf["script"] = s["script"][:-len(vloop.RECOVERY_TAIL)] + [["run", 45.0], ["frames", 1], ["run", 0.5]]
                sf["settle"] = 50.0
            if f == "refuse35_eof":
                sf = dict(s)
                sf["script"] = s["script"][:-len(vloop.RECOVERY_TAIL)] + [["run", 340.0], ["frames", 1], ["run", 0.5]]
                sf["settle"] = 400.0       # wherever the fault is injected, the 35 refusals (~305 s) fit before the end
            # quick: the slow-callback family and the long-refusal family at every second position
            stride = 1 if (thorough or (s["cb"] == "ret" and f != "refuse3_eof")) else 2
            if f == "refuse7_reset" and not thorough:      # delays 0.5 .. 8, 10, 10 s: reaches the cap
                stride = 4
            if f in ("partial_reset", "overlong") and not thorough:
                stride = 3
            if f == "refuse35_eof":
                stride = max(1, min(npos, MAX_POS) // (6 if thorough else 2))      # a few positions: each run is long
            for at in range(0, min(npos, MAX_POS) + 1, stride):
                sp = dict(sf)
                sp["inject"] = {"at": at, "ops": vloop.FAULTS[f]}
                inj.append((sp, {"client": s["client"], "cb": s["cb"], "fault": f, "at": at}))
    # other kinds of callbacks: objects with an async __call__, lambdas returning the coroutine (both valid
    # Callable[..., Awaitable]), and a status callback that itself sends when told DISCONNECTED
    for c in clients:
        for kind in ("obj", "lambda", "sends"):
            s0 = vloop.spec(c, cb="ret", rcb="ret", tail=vloop.RECOVERY_TAIL)
            s0["cbkind"] = kind
            o0 = next((o for s_, o in zip(base, bobs) if s_["client"] == c and s_["cb"] == "ret"), {})
            npos = min(o0.get("npos") or 0, MAX_POS)
            for f in ("eof", "writeerr", "reset"):
                for at in range(2, max(2, npos - 2), 5 if not thorough else 2):
                    sp = dict(s0)
                    sp["inject"] = {"at": at, "ops": vloop.FAULTS[f]}
                    inj.append((sp, {"client": c, "cb": "ret/" + kind, "fault": f, "at": at, "oracle_only": kind == "sends"}))
    for i, (sp, _) in enumerate(inj):        # which exception class the failing attempts raise: rotates with run and seed
        sp["exc_rot"] = ctx.seed + i
    iobs = vloop.run_batch([dict(sp) for sp, _ in inj], _repo(), wall=6, procs=3)
    for (sp, m), o in zip(inj, iobs):
        m["obs"] = o
        specs.append(sp)
        meta.append(m)
    return specs, meta


def _runs(ctx):
    key = (ctx.tier, ctx.seed, _repo())
    if key not in _CACHE:
        _CACHE[key] = fault_specs(ctx)
    return _CACHE[key]


def _short(spec, m):
    return {"client": m["client"], "cb": m["cb"], "fault": m["fault"], "at": m["at"]}


def _client_wait():
    """the `wait=` object AsyncIOClient.connect() really hands to tenacity (captured in-process, no connection is made)"""
    import asyncio
    try:
        import nmea2000.ioclient as io
        got = {}

        class Capture:
            def __init__(self, **kw):
                got.update(kw)

            def __aiter__(self):
                return self

            async def __anext__(self):
                raise StopAsyncIteration

        async def go():
            orig = io.AsyncRetrying
            io.AsyncRetrying = Capture
            try:
                c = io.EByteNmea2000Gateway("gw.invalid", 1)
                t = asyncio.ensure_future(c.connect())
                await asyncio.wait_for(t, 1.0)
                await c.close()
                await asyncio.sleep(0)
            finally:
                io.AsyncRetrying = orig
        loop = asyncio.new_event_loop()
        try:
            loop.run_until_complete(go())
            for t in asyncio.all_tasks(loop):
                t.cancel()
            loop.run_until_complete(asyncio.sleep(0))
        finally:
            loop.close()
        w = got.get("wait")
        if w is None or got.get("stop") is None:
            return None, None
        import tenacity
        if got["stop"] is not tenacity.stop_never:
            return w, f"captured from AsyncIOClient.connect(); stop={got['stop']!r} is NOT stop_never"
        return w, "captured from AsyncIOClient.connect() (stop=stop_never)"
    except Exception:  # noqa: BLE001
        return None, None


def correspond(ctx):
    reports = []
    # ---- corr_retry: the real wait_exponential for attempt numbers 1..5000
    from tenacity import wait_exponential

    class RS:
        attempt_number = 1
    w, src = _client_wait()
    if w is None:
        w, src = wait_exponential(multiplier=0.5, max=10), "constructed here (the client's retry object could not be captured)"
        ctx.notes.append("corr_retry: " + src)
    ks = list(range(1, 5001))
    cases, raw = [], []
    for k in ks:
        RS.attempt_number = k
        v = w(RS)
        d2 = v * 2
        if d2 != int(d2):
            raw.append((k, None))
            cases.append(ctuple(cz(k), cz(-1)))
        else:
            raw.append((k, int(d2)))
            cases.append(ctuple(cz(k), cz(int(d2))))
    r = run_cases("C13", "retry", IMPORTS, "Z * Z", "chk_wait", cases, shard=1300)
    r.update(name="corr_retry: wait_exponential(multiplier=0.5,max=10) vs wait2 (units of 0.5 s)",
             distinct_nontrivial=len(ks), failing_cases=[{"attempt": raw[i][0], "impl_half_seconds": raw[i][1]}
                                                         for i in r["failing"][:20]],
             samples=[{"attempt": k, "half_seconds": v} for k, v in raw[:7]],
             distribution={"attempts": "1..5000 (every k >= 1026 takes the OverflowError branch)", "wait_object": src})
    if "NOT stop_never" in src:
        r["failing"] = list(r["failing"]) + [-1]
        r["failing_cases"].append({"stop": src})
    reports.append(r)
    # ---- corr_client_lts
    specs, meta = _runs(ctx)
    obs = [m["obs"] for m in meta]
    cases, idx = vloop.trace_cases(obs)
    r = run_cases("C13", "lts", IMPORTS, "kind * list label", "chk_trace", cases, shard=60)
    failing_cases = [dict(_short(specs[idx[i]], meta[idx[i]]), why="trace rejected by lts_accepts") for i in r["failing"]]
    bad_runs = 0
    for i, o in enumerate(obs):
        if meta[i].get("oracle_only") and not o.get("spin") and not o.get("crash"):
            continue        # sessions outside the LTS (a callback that sends): judged by the property text only (search)
        if o.get("labels") is None:
            bad_runs += 1
            why = ("no progress: the client span without yielding (watchdog)" if o.get("spin") else
                   "crash: " + str(o.get("crash")) if o.get("crash") else "unlabelled block: " + str(o.get("unlabelled")))
            failing_cases.append(dict(_short(specs[i], meta[i]), why=why))
    r["failing"] = list(r["failing"]) + [-1] * bad_runs
    r["n"] = sum(1 for m in meta if not m.get("oracle_only"))
    nontrivial = [tuple(l[0] for l in o["labels"]) for o in obs if o.get("labels") and
                  any(("RxRaise" in l[0]) or ("SFault" in l[0]) or ("AImplFail" in l[0]) for l in o["labels"])]
    by_client, by_fault = {}, {}
    nlabels = 0
    for m in meta:
        by_client[m["client"]] = by_client.get(m["client"], 0) + 1
        by_fault[str(m["fault"])] = by_fault.get(str(m["fault"]), 0) + 1
        nlabels += len(m["obs"].get("labels") or [])
    kinds = {}
    for o in obs:
        for l in o.get("labels") or []:
            h = l[0].split(" (")[0].split()[0] + ("/" + l[0].split("(")[1].split()[0] if "(" in l[0] else "")
            kinds[h] = kinds.get(h, 0) + 1
    r.update(name="corr_client_lts: traces of real clients under fault injection accepted by lts_accepts",
             distinct_nontrivial=distinct_count(nontrivial), failing_cases=failing_cases[:20],
             samples=[{"run": _short(specs[i], meta[i]), "labels": [l[0] for l in (obs[i].get("labels") or [])][:14]}
                      for i in (0, len(obs) // 2, len(obs) - 1)],
             distribution={"runs": len(obs), "labels": nlabels, "by_client": by_client, "by_fault": by_fault,
                           "label_kinds": kinds, "no_progress_runs": sum(1 for o in obs if o.get("spin"))})
    reports.append(r)
    return reports


# ------------------------------------------------------------------ the property's own oracle
def _expected_backoff(n):
    return [min(10.0, 0.5 * 2 ** i) for i in range(n)]


def judge(o, spec):
    """None, or a witness dict: the property TEXT checked on the raw observations of one run (no Coq model)"""
    c = o["client"]
    if o.get("spin"):
        return {"key": f"stall:{'text' if c in ('actisense', 'yd') else c}:eof",
                "what": f"{c}: the client stopped yielding to the event loop (heartbeat stuck at {o.get('beats')} beats, "
                        f"virtual time {o.get('vt')}, {o.get('cur_block_events')} events inside one step of "
                        f"{o.get('cur_block_kind')}); status so far {[s[1] for s in (o.get('status') or [])]}"}
    if o.get("crash"):
        return {"key": "harness:crash", "what": f"{c}: run crashed: {o['crash']}"}
    st = [s[1] for s in o["status"]]
    status = [(s[0], s[1]) for s in o["status"]]
    if o.get("callback_send_stuck") is not None:
        return {"key": "recover:send-from-status-callback-stuck",
                "what": f"{c}: the status callback, told DISCONNECTED, called send(); that send() had not returned 20 s later "
                        f"(t={o['callback_send_stuck']:.2f}); status {st}, final state {o['state']}, attempts {o['attempts']}"}
    if any(a == b for a, b in zip(st, st[1:])):
        return {"key": "status:repeated", "what": f"{c}: status callback got the same state twice in a row: {st}"}
    # heartbeat: one beat per 0.1 virtual seconds
    exp = o["vt_end"] / 0.1
    if o["beats"][0] < exp - 3:
        return {"key": "stall:heartbeat", "what": f"{c}: heartbeat ran {o['beats'][0]} times in {o['vt_end']} s (expected ~{exp:.0f})"}
    if o["max_rx"] > 1:
        return {"key": "rx:two-loops", "what": f"{c}: {o['max_rx']} receive loops alive (and not cancelled) at the same time"}
    for seq in o["backoffs"]:
        if seq != _expected_backoff(len(seq)) or any(d <= 0 for d in seq):
            return {"key": "retry:backoff", "what": f"{c}: delays between attempts {seq} (expected 0.5 doubling, capped at 10, never 0)"}
    closed = 2 in st
    if not closed:
        # every fault the peer caused on a connected client must have been reported, and the client must be back
        if o["state"] == 0 and o["status"] and o["status"][-1][1] == 0 and o["status"][-1][2]:
            return {"key": "recover:reconnect-request-dropped",
                    "what": f"{c}: a fault was reported (DISCONNECTED at t={o['status'][-1][0]:.2f}) while a connect() still held "
                            f"the lock after its link was up; the handler's connect() returned 'already running' and nobody "
                            f"reconnected: final state DISCONNECTED, status {st}, attempts {o['attempts']}"}
        if o["state"] != 1 or not o["rx_alive"]:
            return {"key": "recover:not-connected", "what": f"{c}: gateway accepting again but final state {o['state']}, "
                                                           f"receive loop alive={o['rx_alive']}, status {st}, attempts {o['attempts']}"}
        for vt, what in o["faults"]:
            # a DISCONNECTED (0) notification at or after the fault time, then a CONNECTED (1)
            after = [s for t, s in status if t >= vt - 1e-9]
            if 0 not in after or 1 not in after[after.index(0):]:
                # EOF/reset delivered while the client was not connected (or to a reader the loop no longer reads) is not a
                # fault of a live connection: only judge faults that hit a CONNECTED client with a live loop
                if [s for t, s in status if t < vt - 1e-9][-1:] == [1]:
                    return {"key": f"recover:{what}:not-reported", "what": f"{c}: {what} at t={vt:.2f} on a connected client "
                                                                          f"was not followed by DISCONNECTED then CONNECTED: {o['status']}"}
        for vt, wid, what, state, current in o.get("wfaults") or []:
            # a failing write / drain of send() on the current link of a CONNECTED client must be reported as well
            if state == 1 and current and 0 not in [s for t, s in status if t >= vt - 1e-9]:
                return {"key": "recover:write-error:not-reported",
                        "what": f"{c}: {what} error in send() at t={vt:.2f} on a connected client was not followed by "
                                f"DISCONNECTED: {o['status']}"}
        # frames the peer sends on a connection, before anything else than complete frames was sent on it, are delivered
        # when the connection then stays undisturbed for 0.15 s (callbacks take at most 0.05 s per message)
        dirty = set()
        ev_times = sorted([t for t, _ in status] + [f_[0] for f_ in o["faults"]] + [x[0] for x in (o.get("wfaults") or [])])
        for t, name, k, conn in o.get("feeds") or []:
            if name != "frames":
                dirty.add(conn)
                continue
            if conn in dirty:
                continue
            nxt = next((x for x in ev_times if x >= t - 1e-9), None)
            if nxt is not None and nxt - t < 0.15:
                dirty.add(conn)        # the connection is disturbed right after: what was in flight may be lost with it
                continue
            if [s for tt, s in status if tt < t - 1e-9][-1:] != [1]:
                continue
            hi = nxt if nxt is not None else o["vt_end"]
            got = sum(1 for tt, _ in o["rcb"] if t - 1e-9 <= tt <= hi + 1e-9)
            if got < k:
                return {"key": "recover:frames-lost",
                        "what": f"{c}: {k} complete frame(s) sent at t={t:.2f} on connection #{conn} (nothing but complete frames "
                                f"was sent on it before, next disturbance at {nxt}) but {got} delivered in that time; status {o['status']}"}
        # new frames after the recovery are delivered (the tail feeds one frame 0.5 s before the end)
        t_tail = o["vt_end"] - float(spec.get("settle", 35.0)) - 0.5
        if not any(t >= t_tail - 1e-6 for t, _ in o["rcb"]):
            return {"key": "recover:no-delivery", "what": f"{c}: frame fed at t={t_tail:.2f} after recovery was never delivered "
                                                         f"(receive callbacks at {[round(t, 2) for t, _ in o['rcb']]})"}
    return None


def search(ctx):
    specs, meta = _runs(ctx)
    out, seen = [], set()
    for sp, m in zip(specs, meta):
        w = judge(m["obs"], sp)
        if w and w["key"] not in seen:
            seen.add(w["key"])
            w.update(kind="session", spec={k: v for k, v in sp.items() if k != "id"},
                     schedule=[l[0] for l in (m["obs"].get("labels") or [])][:80])
            out.append(w)
    return out


def replay(ctx, data):
    w = data.get("witness", data)
    sp = dict(w["spec"])
    o = vloop.run_batch([sp], _repo(), wall=6, procs=1)[0]
    r = judge(o, sp)
    print("observed:", r["what"] if r else "property holds on this session")
    return r is not None
