"""C17 — the identity hash depends exactly on the definition id and the primary-key raw values.

Tie: Message.v (hash_key / add_data) vs the real NMEA2000Message.add_data through the decoder, the
byte string handed to hashlib.md5 recorded by a proxy installed from outside; per-run table obligation
tools/templates/OblC17.v over the tables regenerated from /repo's pgns.py and canboat.json.

This module also hosts the helpers shared with c15.py and c18.py (payload generator, Python -> Gallina
literal printers for messages, recording proxies)."""
from __future__ import annotations
import datetime as _dt
import hashlib as _hashlib
import json
import math
import os
import subprocess
import vlib
from vlib import cz, cbytes, cbool, clist, ctuple, cstr_z, cfloat, run_cases, distinct_count

PROPS_FILES = ["props/C17.v"]
ALWAYS_SEARCH = True
RULE = ("messages = real decoder output (build_network_map on/off, several decoder instances, with and without a "
        "claimed source identity, random source/destination/priority/preferences) for every definition of canboat.json "
        "x payload classes (all-zero, all-ones, random, one field at a boundary value, pairs that agree / differ on key "
        "and on non-key fields) plus hand-built messages whose key raw values are floats, negative and >64-bit ints, "
        "None and texts containing '_'; observed = the message after add_data and the byte string the code handed to "
        "hashlib.md5; non-trivial = the message has at least one key field; distinct by (definition, key raw values, "
        "addressing)")
TRUSTED = ["Message.v: hash_key/add_data are a hand model of message.py 37-55, tied to the code by the correspondence "
           "cases of this run (real msg.hash vs md5 of the model's key)",
           "tools/tr_pgns.py / tools/tr_db.py (fail-closed translators) for the per-run table obligations of OblC17.v",
           "that decoder output conforms to the key signature of its definition (text raw values only in STRING_* key "
           "fields, None/int/float elsewhere) is checked on every decoded message of the run (chk_conf), not proved"]
ASSUMPTIONS = ["hashlib.md5 has no collision among the keys in question (premise of theorem C17; the key itself is proved "
               "injective)",
               "str(float) is injective, never contains '_', is never the text of an int and never 'None' (Section "
               "hypotheses; no key field of the database carries a float raw value)",
               "F-none-text guard: a text-valued key raw value is not the literal text 'None'"]

IMPORTS = "From NV Require Import Base Message CorrMessage.\nFrom Coq Require Import PrimFloat."
PAST = _dt.datetime(2000, 1, 1)


# =================================================================== shared: database, payloads
_DB = {}


def db():
    p = os.path.join(vlib.REPO, "canboat.json")
    if p not in _DB:
        _DB[p] = json.load(open(p))["PGNs"]
    return _DB[p]


def _nbytes(d):
    n = d.get("Length") or d.get("MinLength") or 8
    end = max([f["BitOffset"] + f["BitLength"] for f in d["Fields"] if "BitOffset" in f and "BitLength" in f] + [0])
    return max(n, (end + 7) // 8, 1)


def _set(p, off, ln, v):
    mask = ((1 << ln) - 1) << off
    return (p & ~mask) | ((v << off) & mask)


def _apply_match(d, p):
    for f in d["Fields"]:
        if "Match" in f and "BitOffset" in f:
            p = _set(p, f["BitOffset"], f["BitLength"], f["Match"])
    return p


def _boundary_values(f):
    ln = f["BitLength"]
    top = (1 << ln) - 1
    vals = {0, 1, top, top - 1, top - 2, 1 << (ln - 1), (1 << (ln - 1)) - 1, (1 << (ln - 1)) - 2}
    return sorted(v for v in vals if 0 <= v <= top)


def payloads(d, rng, n_random=2, n_boundary=2, variable_tail=True):
    """Payload ints (little-endian over the CAN data bytes) with their byte length, for definition d."""
    nb = _nbytes(d)
    var = ("Length" not in d) or any("BitOffset" not in f or "BitLength" not in f for f in d["Fields"])
    out = []

    def add(p, n):
        out.append((_apply_match(d, p) & ((1 << (8 * n)) - 1), n))

    add(0, nb)
    add((1 << (8 * nb)) - 1, nb)
    for _ in range(n_random):
        n = nb + (rng.choice([0, 0, 3, 17]) if (var and variable_tail) else 0)
        add(rng.getrandbits(8 * n), n)
    fl = [f for f in d["Fields"] if "BitOffset" in f and f.get("BitLength") and "Match" not in f]
    for _ in range(n_boundary):
        if not fl:
            break
        f = rng.choice(fl)
        base = rng.choice([0, rng.getrandbits(8 * nb)])
        # keep every other ranged numeric field small so that the range checks pass more often
        if base:
            for g in fl:
                if g["FieldType"] == "NUMBER" and g["BitLength"] > 8:
                    base = _set(base, g["BitOffset"] + g["BitLength"] - 4, 4, 0)
        add(_set(base, f["BitOffset"], f["BitLength"], rng.choice(_boundary_values(f))), nb)
    return out


def line(pgn, p, n, src=1, dst=255, prio=2, ts="2020-01-01-00:00:00.000"):
    b = p.to_bytes(n, "little")
    return f"{ts},{prio},{pgn},{src},{dst},{n}," + ",".join(f"{x:02x}" for x in b)


def decode(dec, pgn, p, n, **kw):
    """decode_basic_string(..., True): the message, None, or the exception raised."""
    try:
        return dec.decode_basic_string(line(pgn, p, n, **kw), True)
    except Exception as e:  # noqa: BLE001
        return e


CLAIM = (60928, int.from_bytes(bytes([1, 2, 3, 4, 5, 6, 7, 0x88]), "little"), 8)


def new_decoder(**kw):
    from nmea2000.decoder import NMEA2000Decoder
    d = NMEA2000Decoder(**kw)
    d.started_at = PAST          # no discovery window: messages of unknown sources are not withheld
    return d


# =================================================================== shared: Python -> Gallina literals
class Unrepresentable(Exception):
    pass


def ozs(s):
    return "None" if s is None else f"(Some {cstr_z(s)})"


def val_lit(v):
    if v is None:
        return "VNone"
    if isinstance(v, bool):
        raise Unrepresentable("bool value")
    if isinstance(v, int):
        return f"(VInt {cz(v)})"
    if isinstance(v, float):
        return f"(VFloat {cfloat(v)})"
    if isinstance(v, str):
        return f"(VText {cbytes(v.encode('utf-8'))})"
    if isinstance(v, (bytes, bytearray)):
        return f"(VBytes {cbytes(bytes(v))})"
    if isinstance(v, _dt.datetime):
        raise Unrepresentable("datetime value")
    if isinstance(v, _dt.date):
        return f"(VDate {cz((v - _dt.date(1970, 1, 1)).days)})"
    if isinstance(v, _dt.time):
        if v.microsecond or v.tzinfo is not None:
            raise Unrepresentable("time with microseconds/tz")
        return f"(VTime {cz(v.hour * 3600 + v.minute * 60 + v.second)})"
    raise Unrepresentable(type(v).__name__)


def _enum_n(e):
    v = e.value
    if not (isinstance(v, tuple) and len(v) == 1 and isinstance(v[0], int)):
        raise Unrepresentable("enum value shape")
    return v[0]


def pq_lit(q):
    from enum import Enum
    if q is None:
        return "PqNone"
    if isinstance(q, Enum):
        return f"(PqEnum {_enum_n(q)})"
    if isinstance(q, list) and len(q) == 1 and isinstance(q[0], int):
        return f"(PqList {q[0]})"
    raise Unrepresentable("physical_quantities")


def ty_lit(t):
    from enum import Enum
    if isinstance(t, Enum):
        return f"(TyEnum {_enum_n(t)})"
    if isinstance(t, list) and len(t) == 1 and isinstance(t[0], int):
        return f"(TyList {t[0]})"
    raise Unrepresentable("type")


def field_lit(f):
    if not isinstance(f.part_of_primary_key, bool):
        raise Unrepresentable("part_of_primary_key not a bool")
    return (f"(mkField {cbytes(f.id.encode())} {ozs(f.name)} {ozs(f.description)} {ozs(f.unit_of_measurement)} "
            f"{val_lit(f.value)} {val_lit(f.raw_value)} {pq_lit(f.physical_quantities)} {ty_lit(f.type)} "
            f"{cbool(f.part_of_primary_key)})")


def iso_lit(i):
    if i is None:
        return "IsoNone"
    if isinstance(i, dict):
        g, tag = i.get, "IsoDict"
        if set(i) != {"name", "unique_number", "manufacturer_code", "device_instance", "device_function",
                      "device_class", "system_instance", "industry_group", "arbitrary_address_capable"}:
            raise Unrepresentable("iso dict keys")
    else:
        g, tag = (lambda k: getattr(i, k)), "IsoObj"
    return (f"({tag} (mkIso {cz(g('name'))} {cz(g('unique_number'))} {ozs(g('manufacturer_code'))} "
            f"{cz(g('device_instance'))} {ozs(g('device_function'))} {ozs(g('device_class'))} "
            f"{cz(g('system_instance'))} {ozs(g('industry_group'))} {cbool(g('arbitrary_address_capable'))}))")


def ts_lit(t):
    if isinstance(t, _dt.datetime):
        return cstr_z(t.isoformat())
    if isinstance(t, str):
        return cstr_z(t)
    raise Unrepresentable("timestamp")


def ttl_lit(t):
    if t is None:
        return "TtlNone"
    if isinstance(t, _dt.timedelta):
        us = (t.days * 86400 + t.seconds) * 10**6 + t.microseconds
        if us % 1000:
            raise Unrepresentable("ttl not whole milliseconds")
        return f"(TtlMs {cz(us // 1000)})"
    if isinstance(t, float):
        return f"(TtlSecs {cfloat(t)})"
    raise Unrepresentable("ttl")


def raw_lit(r):
    if r is None:
        return "RawNone"
    if isinstance(r, (bytes, bytearray)):
        return f"(RawBytes {cbytes(bytes(r))})"
    if isinstance(r, str):
        return f"(RawStr {cstr_z(r)})"
    raise Unrepresentable("raw_can_data")


def msg_lit(m):
    return (f"(mkMsg {cz(m.PGN)} {cbytes(m.id.encode())} {cstr_z(m.description)} {ttl_lit(m.ttl)} "
            f"{clist(field_lit(f) for f in m.fields)} {cz(m.source)} {cz(m.destination)} {cz(m.priority)} "
            f"{ts_lit(m.timestamp)} {iso_lit(m.source_iso_name)} {ozs(m.hash)} {raw_lit(m.raw_can_data)})")


def addr_lit(src, dst, prio, ts, iso, raw):
    return f"(mkAddr {cz(src)} {cz(dst)} {cz(prio)} {ts_lit(ts)} {iso_lit(iso)} {raw_lit(raw)})"


def fstr_table(msgs):
    """str(float) for every float raw value of a key field (the abstract py_str_float, instantiated)."""
    seen = {}
    for m in msgs:
        for f in m.fields:
            if f.part_of_primary_key and isinstance(f.raw_value, float):
                seen[cfloat(f.raw_value)] = str(f.raw_value).encode()
    return clist(ctuple(k, cbytes(v)) for k, v in seen.items())


class Md5Proxy:
    """stands in for the name `hashlib` inside nmea2000.message; records what is hashed"""
    def __init__(self):
        self.calls = []

    def md5(self, b=b"", **kw):
        self.calls.append(bytes(b))
        return _hashlib.md5(b, **kw)

    def __getattr__(self, name):
        return getattr(_hashlib, name)

    def __enter__(self):
        import nmea2000.message as MM
        self._mm, self._saved = MM, MM.hashlib
        MM.hashlib = self
        return self

    def __exit__(self, *a):
        self._mm.hashlib = self._saved

    def table(self):
        seen = {}
        for b in self.calls:
            seen[b] = _hashlib.md5(b).hexdigest()
        return clist(ctuple(cbytes(k), cstr_z(v)) for k, v in seen.items())


class NumProxy:
    """records round(x, n) and math.degrees(x) as called inside nmea2000.utils (names injected from outside)"""
    def __init__(self):
        self.rounds, self.degs = {}, {}

    def __enter__(self):
        import nmea2000.utils as U
        self._u = U
        self._had_round = "round" in vars(U)
        self._saved_round = vars(U).get("round")
        self._saved_math = U.math
        proxy = self

        def rec_round(x, n=None):
            r = round(x, n) if n is not None else round(x)
            if isinstance(x, float) and isinstance(n, int):
                proxy.rounds[(cfloat(x), n)] = r
            return r

        class M:
            def __getattr__(s, name):
                return getattr(math, name)

            def degrees(s, x):
                r = math.degrees(x)
                proxy.degs[cfloat(float(x))] = r
                return r
        U.round = rec_round
        U.math = M()
        return self

    def __exit__(self, *a):
        if self._had_round:
            self._u.round = self._saved_round
        else:
            del self._u.round
        self._u.math = self._saved_math

    def tables(self):
        rt = clist(ctuple(ctuple(k[0], cz(k[1])), cfloat(v)) for k, v in self.rounds.items())
        dt = clist(ctuple(k, cfloat(v)) for k, v in self.degs.items())
        return ctuple(rt, dt)


def messages(ctx, rng, per_def_random, per_def_boundary, decs, want=lambda d: True, vary_addr=True):
    """Decode payload classes of every definition through the given decoders (round robin).
    Yields (definition, payload int, byte length, decode kwargs, decoder index, message)."""
    k = 0
    for d in db():
        if not want(d):
            continue
        for (p, n) in payloads(d, rng, per_def_random, per_def_boundary):
            kw = {}
            if vary_addr:
                kw = {"src": rng.choice([1, 1, 2, rng.getrandbits(8)]), "dst": rng.choice([255, rng.getrandbits(8)]),
                      "prio": rng.getrandbits(3),
                      "ts": rng.choice(["2020-01-01-00:00:00.000", "2024-02-29-23:59:59.999", "1999-12-31T12:00:00.5Z"])}
            i = k % len(decs)
            k += 1
            m = decode(decs[i], d["PGN"], p, n, **kw)
            if m is None or isinstance(m, Exception):
                continue
            if m.id != d["Id"]:
                continue   # the dispatcher selected a sibling definition
            yield d, p, n, kw, i, m


# =================================================================== C17 proper
def gen(ctx):
    import gen as G
    g = G.ensure_gen()
    ctx.gen = g
    if not g["ok"]:
        ctx.extra_obligations.append({"name": "translation of nmea2000/pgns.py + canboat.json", "ok": False,
                                      "detail": g.get("refused") or g.get("error")})
        ctx.hints.append({"kind": "translator", "detail": g.get("refused") or g.get("error")})
        return
    ok, out = G.compile_template("OblC17")
    for nm in G.theorem_names("OblC17"):
        ctx.extra_obligations.append({"name": f"OblC17.v:{nm}", "ok": ok, "detail": out[-800:] if not ok else ""})
    import re
    m = re.search(r"=\s*\((\d+)%nat,\s*(\d+)%nat,\s*(\d+)%nat,\s*(\d+)%nat\)", " ".join(out.split()))
    if m:
        ctx.notes.append(f"code definitions {m.group(1)}, database definitions {m.group(2)}, code definitions with key "
                         f"fields {m.group(3)}, key fields in code {m.group(4)}")
    if not ok:
        ctx.hints.append({"kind": "tables", "detail": out[-600:]})


def _key_fields(d):
    return [f for f in d["Fields"] if f.get("PartOfPrimaryKey")]


def _pair_payloads(d, rng):
    """(A, B, relation): B agrees with A on all key fields and differs on a non-key field, or differs on a key field."""
    nb = _nbytes(d)
    fl = [f for f in d["Fields"] if "BitOffset" in f and f.get("BitLength") and "Match" not in f]
    keys = [f for f in fl if f.get("PartOfPrimaryKey")]
    non = [f for f in fl if not f.get("PartOfPrimaryKey") and f["FieldType"] not in ("RESERVED", "SPARE")]
    a = _apply_match(d, rng.choice([0, rng.getrandbits(8 * nb)]))
    for g in fl:   # small values pass the range checks more often
        if g["FieldType"] == "NUMBER" and g["BitLength"] > 8:
            a = _set(a, g["BitOffset"] + g["BitLength"] - 4, 4, 0)
    out = []
    if non:
        f = rng.choice(non)
        v = rng.getrandbits(min(f["BitLength"], 6))
        out.append((a, _set(a, f["BitOffset"], f["BitLength"], v), nb, "nonkey"))
    if keys:
        f = rng.choice(keys)
        cur = (a >> f["BitOffset"]) & ((1 << f["BitLength"]) - 1)
        v = (cur + 1 + rng.getrandbits(2)) % (1 << min(f["BitLength"], 6))
        out.append((a, _set(a, f["BitOffset"], f["BitLength"], v), nb, "key"))
        # wide key fields (MMSI, serial / unique numbers): two LARGE values that differ in their last digits only, and
        # values around every power of ten — a key text that keeps a limited number of digits would merge them
        wide = [k for k in keys if k["BitLength"] >= 20 and not k.get("Signed")]
        if wide:
            f = rng.choice(wide)
            top = (1 << f["BitLength"]) - 3
            v1 = min(top - 1000, rng.choice([rng.randrange(200000000, 999999000), rng.randrange(1000000, 99999999),
                                             10 ** rng.randint(6, 9) + rng.randrange(0, 5000)]))
            v1 = max(v1, 1)
            v2 = v1 + rng.choice([1, 1, 2, 9, 10, 100, 999])
            pa = _set(a, f["BitOffset"], f["BitLength"], v1)
            out.append((pa, _set(a, f["BitOffset"], f["BitLength"], v2), nb, "key"))
    return out


def _synthetic(rng):
    """hand-built messages: key raw values of every modelled kind"""
    from nmea2000.message import NMEA2000Message, NMEA2000Field
    from nmea2000.consts import FieldTypes
    out = []
    raws = [None, 0, -1, 7, -123456789, (1 << 70) + 5, -(1 << 64), 1.5, -0.0, 0.0, 1e22, 1e-7, float("inf"), float("nan"),
            "", "AB_C", "_", "x_y_", "Nonee", "none", "12", "é_ü"]
    for k in range(60):
        nf = rng.randint(0, 5)
        fields = []
        for j in range(nf):
            raw = rng.choice(raws)
            pk = rng.random() < 0.6
            ty = FieldTypes.STRING_LAU if isinstance(raw, str) else rng.choice([FieldTypes.NUMBER, FieldTypes.LOOKUP])
            fields.append(NMEA2000Field(f"f{j}", f"F {j}", None, None, rng.choice([raw, 3, None]), raw, None, ty, pk))
        m = NMEA2000Message(PGN=rng.choice([127250, 130323, 65280]), id=rng.choice(["vesselHeading", "abc", "x"]),
                            description="d", fields=fields)
        out.append(m)
    return out


def correspond(ctx):
    rng = ctx.rng
    reports = []
    decs = [new_decoder(build_network_map=True), new_decoder(build_network_map=True),
            new_decoder(build_network_map=False)]
    from nmea2000.consts import PhysicalQuantities as PQ
    decs.append(new_decoder(build_network_map=True, preferred_units={PQ.TEMPERATURE: "C", PQ.ANGLE: "deg", PQ.SPEED: "KTS",
                                                                      PQ.PRESSURE: "psi"}))
    # network mapping OFF together with manufacturer lists (which also consult the source map): still no hash
    decs.append(new_decoder(build_network_map=False, exclude_manufacturer_code=["Navico"]))
    decs.append(new_decoder(build_network_map=False, include_manufacturer_code=["Garmin"], exclude_pgns=[130306]))
    flags = [True, True, False, True, False, False]
    cases, raw, msgs = [], [], []
    with Md5Proxy() as mp:
        for dcd in decs[:2] + decs[4:5]:
            decode(dcd, *CLAIM, src=1)          # source 1 has a claimed identity, the others do not
        for d, p, n, kw, i, m in messages(ctx, rng, ctx.n(1, 6), ctx.n(1, 6), decs):
            msgs.append((d, p, n, kw, i, m))
        for d in db():
            if not _key_fields(d) and rng.random() < 0.8:
                continue
            for _ in range(ctx.n(1, 6)):
                for a, b, n, rel in _pair_payloads(d, rng):
                    for p in (a, b):
                        i = rng.randrange(len(decs))
                        kw = {"src": rng.choice([1, 2]), "prio": rng.getrandbits(3)}
                        m = decode(decs[i], d["PGN"], p, n, **kw)
                        if m is not None and not isinstance(m, Exception) and m.id == d["Id"]:
                            msgs.append((d, p, n, kw, i, m))
        syn = []
        for m in _synthetic(rng):
            b = rng.random() < 0.8
            try:
                m.add_data(rng.getrandbits(8), rng.getrandbits(8), rng.getrandbits(3), _dt.datetime(2021, 3, 4, 5, 6, 7),
                           None, b, rng.choice([b"\x01\x02", "raw", "A1 B2"]))
            except Exception:  # noqa: BLE001
                continue
            syn.append((b, m))
        mt = mp.table()
        keys_seen = list(mp.calls)
    def conforms(m):
        return any(f.part_of_primary_key for f in m.fields) and not any(
            f.part_of_primary_key and f.raw_value == "None" for f in m.fields)      # F-none-text guard
    allm = [(flags[i], conforms(m), m, {"pgn": d["PGN"], "payload": p.to_bytes(n, "little").hex(), "decoder": i, **kw})
            for d, p, n, kw, i, m in msgs]
    allm += [(b, False, m, {"synthetic": repr(m)[:300]}) for b, m in syn]
    ft = fstr_table([m for _, _, m, _ in allm])
    unrep = 0
    for b, cf, m, info in allm:
        try:
            cases.append(ctuple(ctuple(cbool(b), cbool(cf), msg_lit(m)), ctuple("MT", "FT")))
            raw.append((b, m, info))
        except Unrepresentable:
            unrep += 1
    prelude = f"Definition MT : md5_tbl := {mt}.\nDefinition FT : fstr_tbl := {ft}.\n"
    r = run_cases("C17", "hash", IMPORTS, "(bool * bool * msg) * (md5_tbl * fstr_tbl)", "chk_hash", cases, shard=200,
                  prelude=prelude)
    nontriv = [(m.id, tuple(repr(f.raw_value) for f in m.fields if f.part_of_primary_key), m.source, m.destination,
                m.priority, b) for b, m, _ in raw if any(f.part_of_primary_key for f in m.fields)]
    r.update(name="add_data: real msg.hash / addressing vs add_data of Message.v with md5 := table of the real md5 calls; "
                  "decoder output conforms to the key signature of its own field types (conf_b)",
             distinct_nontrivial=distinct_count(nontriv),
             failing_cases=[raw[k][2] for k in r["failing"][:20]],
             samples=[{**raw[k][2], "hash": raw[k][1].hash} for k in (0, len(raw) // 2, len(raw) - 1)] if raw else [],
             distribution={"decoded": len(msgs), "synthetic": len(syn), "unrepresentable_skipped": unrep,
                           "with_key_fields": len(nontriv), "conformance_checked": sum(1 for _, cf, _, _ in allm if cf),
                           "network_map_off": sum(1 for b, _, _ in raw if not b),
                           "with_source_identity": sum(1 for _, m, _ in raw if m.source_iso_name is not None),
                           "definitions": len({m.id for _, m, _ in raw}), "distinct_md5_inputs": len(set(keys_seen))})
    reports.append(r)
    # same hashes in a process with a different PYTHONHASHSEED and fresh decoder instances
    sample = [(d["PGN"], p.to_bytes(n, "little").hex(), kw, m.hash) for d, p, n, kw, i, m in msgs if flags[i]]
    rng.shuffle(sample)
    sample = sample[:ctx.n(300, 3000)]
    other = _subprocess_hashes([(a, b, c) for a, b, c, _ in sample], seed=str(rng.randrange(1, 1 << 30)))
    bad = [k for k, (s, o) in enumerate(zip(sample, other)) if s[3] != o]
    reports.append({"name": "hash equal in a separate process with another PYTHONHASHSEED and a fresh decoder",
                    "n": len(sample), "failing": bad, "errors": [] if len(other) == len(sample) else ["subprocess failed"],
                    "wall_s": 0, "distinct_nontrivial": distinct_count(sample),
                    "failing_cases": [{"pgn": sample[k][0], "payload": sample[k][1], "here": sample[k][3], "there": other[k]}
                                      for k in bad[:20]], "samples": [{"pgn": sample[0][0], "hash": sample[0][3]}] if sample else []})
    return reports


_SUB = r"""
import sys, json, datetime, logging
logging.disable(logging.CRITICAL)
from nmea2000.decoder import NMEA2000Decoder
items = json.load(sys.stdin)
dec = NMEA2000Decoder(build_network_map=True)
dec.started_at = datetime.datetime(2000, 1, 1)
out = []
for pgn, hx, kw in items:
    b = bytes.fromhex(hx)
    s = "%s,%d,%d,%d,%d,%d,%s" % (kw.get("ts", "2020-01-01-00:00:00.000"), kw.get("prio", 2), pgn, kw.get("src", 1),
                                  kw.get("dst", 255), len(b), ",".join("%02x" % x for x in b))
    try:
        m = dec.decode_basic_string(s, True)
        out.append(None if m is None else m.hash)
    except Exception as e:
        out.append("EXC " + repr(e))
print(json.dumps(out))
"""


def _subprocess_hashes(items, seed):
    env = vlib.repo_env()
    env["PYTHONHASHSEED"] = seed
    p = subprocess.run(["/venv/bin/python", "-c", _SUB], input=json.dumps(items), capture_output=True, text=True,
                       env=env, timeout=600)
    if p.returncode != 0:
        return []
    return json.loads(p.stdout.strip().splitlines()[-1])


# ------------------------------------------------------------------ property oracle on the real code
def _db_key(d, m):
    """(id, raw values of the fields the DATABASE marks as key) — independent of the flag the code passes"""
    if len(m.fields) != len(d["Fields"]):
        return None
    return (m.id, tuple((type(f.raw_value).__name__, f.raw_value) for f, g in zip(m.fields, d["Fields"])
                        if g.get("PartOfPrimaryKey")))


def _find_def(pgn, mid):
    for d in db():
        if d["PGN"] == pgn and d["Id"] == mid:
            return d
    return None


def _check_pair(a, b):
    """a, b: {"pgn", "payload" (hex), optional src/dst/prio/ts/prefs/claim}. Returns a witness dict or None."""
    from nmea2000.consts import PhysicalQuantities as PQ

    def run(x, net=True, dump=False, debug=False):
        import logging as _lg
        import os as _os
        import tempfile as _tf
        prefs = {getattr(PQ, k): v for k, v in (x.get("prefs") or {}).items()}
        kw, path = {}, None
        if dump:
            fd, path = _tf.mkstemp(prefix="c17_dump_", suffix=".jsonl", dir="/tmp")
            _os.close(fd)
            _os.unlink(path)
            kw["dump_to_file"] = path
        lg = _lg.getLogger("nmea2000")
        old_level, old_disable = lg.level, _lg.root.manager.disable
        null = _lg.NullHandler()
        if debug:      # the application has switched the library's logger to DEBUG (records go to a null handler)
            _lg.disable(_lg.NOTSET)
            lg.setLevel(_lg.DEBUG)
            lg.addHandler(null)
        try:
            dec = new_decoder(build_network_map=net, preferred_units=prefs, **kw)
            if x.get("claim"):
                decode(dec, *CLAIM, src=x.get("src", 1))
            by = bytes.fromhex(x["payload"])
            r = decode(dec, x["pgn"], int.from_bytes(by, "little"), len(by),
                       **{k: x[k] for k in ("src", "dst", "prio", "ts") if k in x})
            if dump:
                try:
                    dec.close()
                except Exception:  # noqa: BLE001
                    pass
            return r
        finally:
            if debug:
                lg.removeHandler(null)
                lg.setLevel(old_level)
                _lg.disable(old_disable)
            if path and _os.path.exists(path):
                _os.unlink(path)
    ma, mb = run(a), run(b)
    if ma is None or mb is None or isinstance(ma, Exception) or isinstance(mb, Exception):
        return None
    base = {"kind": "pair", "a": a, "b": b}
    # the hash of a message is the same whatever else the decoder is asked to do (dump what it returns) and however
    # the application has configured logging
    for how, kw2 in (("a decoder that also dumps to a file", {"dump": True}), ("the library's logger at DEBUG", {"debug": True})):
        alt = run(a, **kw2)
        if alt is None or isinstance(alt, Exception) or alt.hash != ma.hash:
            return {**base, "key": "hash:depends-on-" + ("dumping" if "dump" in kw2 else "logging"),
                    "what": f"{ma.id} payload {a['payload']}: hash {ma.hash} on a plain network-mapping decoder, "
                            f"{getattr(alt, 'hash', alt)!r} with {how}"}
    if ma.hash is None or mb.hash is None:
        return {**base, "key": "hash:missing-with-network-map",
                "what": f"PGN {a['pgn']}: no hash although build_network_map=True"}
    off = run(a, net=False)
    if off is not None and not isinstance(off, Exception) and off.hash is not None:
        return {**base, "key": "hash:set-without-network-map", "what": f"PGN {a['pgn']}: hash set with build_network_map=False"}
    for extra in ({"exclude_manufacturer_code": ["Navico"]}, {"include_manufacturer_code": ["Garmin"]}, {"exclude_pgns": [130306]}):
        dec = new_decoder(build_network_map=False, **extra)
        if "exclude_manufacturer_code" in extra:
            decode(dec, *CLAIM, src=a.get("src", 1))
        by = bytes.fromhex(a["payload"])
        off = decode(dec, a["pgn"], int.from_bytes(by, "little"), len(by), **{k: a[k] for k in ("src", "dst", "prio", "ts") if k in a})
        if off is not None and not isinstance(off, Exception) and off.hash is not None:
            return {**base, "key": "hash:set-without-network-map",
                    "what": f"PGN {a['pgn']}: hash set with build_network_map=False and {extra}"}
    da, dbb = _find_def(a["pgn"], ma.id), _find_def(b["pgn"], mb.id)
    if da is None or dbb is None:
        return None
    ka, kb = _db_key(da, ma), _db_key(dbb, mb)
    if ka is None or kb is None:
        return None
    if ka == kb and ma.hash != mb.hash:
        return {**base, "key": "hash:differs-on-equal-key",
                "what": f"{ma.id}: equal id and key raw values {ka[1]} but hashes {ma.hash} / {mb.hash} differ "
                        f"(payloads {a['payload']} / {b['payload']})"}
    if ka != kb and ma.hash == mb.hash:
        cls = "none-vs-text-None" if any((x[1] is None and y[1] == "None") or (y[1] is None and x[1] == "None")
                                         for x, y in zip(ka[1], kb[1])) and ka[0] == kb[0] else "general"
        return {**base, "key": f"hash:equal-on-different-key:{cls}",
                "what": f"{ma.id}/{mb.id}: key raw values {ka[1]} vs {kb[1]} differ but both hash to {ma.hash} "
                        f"(payloads {a['payload']} / {b['payload']})"}
    return None


def none_text_witness():
    """F-none-text: stationId (STRING_LAU key of meteorologicalStationData) absent vs the literal text 'None'"""
    base = bytes(26)
    a = base + bytes(8)
    b = base + bytes([6, 1]) + b"None" + bytes(2)
    return {"pgn": 130323, "payload": a.hex()}, {"pgn": 130323, "payload": b.hex()}


def _lau_key_pairs():
    """text-valued key fields (STRING_LAU): pairs of messages whose key texts differ only in non-ASCII characters (UTF-8 and
    UTF-16 coded), in letter case, in a trailing blank — different keys, so different hashes"""
    out = []
    texts = [("Troms\u00f8", "Troms\u00f6"), ("\u6a2a\u6d5c01", "\u795e\u623801"), ("\u6a2a\u6d5c01", "01"), ("Kiel", "kiel"),
             ("Kiel", "Kiel "), ("\u00e9", "e"), ("A\u0301", "\u00c1")]

    def lau(t, enc):
        b = t.encode("utf-8") if enc == 1 else t.encode("utf-16-le")
        return bytes([len(b) + 2, enc]) + b
    for d in db():
        fs = d["Fields"]
        ks = [i for i, f in enumerate(fs) if f.get("PartOfPrimaryKey") and f["FieldType"] == "STRING_LAU"]
        if not ks:
            continue
        i = ks[0]
        if not all("BitOffset" in f and f.get("BitLength") for f in fs[:i]):
            continue
        pre = sum(f["BitLength"] for f in fs[:i])
        if pre % 8:
            continue
        head = _apply_match(d, 0).to_bytes(max(1, pre // 8), "little")[:pre // 8]
        for a, b in texts:
            for ea, eb in ((1, 1), (0, 0), (0, 1)):
                pa = head + lau(a, ea) + bytes(8)
                pb = head + lau(b, eb) + bytes(8)
                out.append(({"pgn": d["PGN"], "payload": pa.hex()}, {"pgn": d["PGN"], "payload": pb.hex()}))
    return out


def search(ctx):
    rng = ctx.rng
    out, seen = [], set()

    def emit(w):
        if w and w["key"] not in seen:
            seen.add(w["key"])
            out.append(w)
    focus = {c.get("pgn") for h in ctx.hints for c in h.get("cases", []) if isinstance(c, dict)}
    defs = db()
    for d in defs:
        reps = ctx.n(2, 8) * (4 if d["PGN"] in focus else 1)
        if not _key_fields(d) and d["PGN"] not in focus and rng.random() < 0.7:
            continue
        for _ in range(reps):
            for a, b, n, rel in _pair_payloads(d, rng):
                xa = {"pgn": d["PGN"], "payload": a.to_bytes(n, "little").hex(), "src": rng.choice([1, 7]),
                      "prio": rng.getrandbits(3), "claim": rng.random() < 0.5}
                xb = {"pgn": d["PGN"], "payload": b.to_bytes(n, "little").hex(), "src": rng.choice([1, 9]),
                      "dst": rng.getrandbits(8), "ts": "2031-05-06-07:08:09.010",
                      "prefs": rng.choice([{}, {"TEMPERATURE": "F", "ANGLE": "DEG", "SPEED": "kts", "PRESSURE": "Bar"}])}
                emit(_check_pair(xa, xb))
    # messages of different definitions never share a hash
    some = []
    for d in rng.sample(defs, min(len(defs), ctx.n(60, 418))):
        nb = _nbytes(d)
        some.append({"pgn": d["PGN"], "payload": _apply_match(d, 0).to_bytes(nb, "little").hex()})
    for a, b in zip(some, some[1:]):
        emit(_check_pair(a, b))
    emit(_check_pair(*none_text_witness()))
    for a, b in _lau_key_pairs():
        emit(_check_pair(a, b))
    # definitions with SEVERAL key fields: the not-available pattern in one key field vs in another (same value in
    # the remaining one) — positions in the key must not be confused
    grp = {}
    for d in defs:
        grp.setdefault(d["PGN"], []).append(d)
    for d in defs:
        ks = [f for f in _key_fields(d) if "BitOffset" in f and f.get("BitLength") and "Match" not in f
              and f["FieldType"] in ("NUMBER", "MMSI", "LOOKUP") and not f.get("Signed")]
        if len(ks) < 2:
            continue
        nb = _nbytes(d)
        base = _apply_match(d, 0)
        k1, k2 = ks[0], ks[1]
        na1, na2 = (1 << k1["BitLength"]) - 1, (1 << k2["BitLength"]) - 1
        for v in (1, 2):
            a = _set(_set(base, k1["BitOffset"], k1["BitLength"], na1), k2["BitOffset"], k2["BitLength"], v)
            b = _set(_set(base, k1["BitOffset"], k1["BitLength"], v), k2["BitOffset"], k2["BitLength"], na2)
            emit(_check_pair({"pgn": d["PGN"], "payload": a.to_bytes(nb, "little").hex()},
                             {"pgn": d["PGN"], "payload": b.to_bytes(nb, "little").hex()}))
    # different definitions of the SAME PGN (equal, often empty, key values): never the same hash; decoded in both
    # orders, since anything remembered per PGN would make the first one decide
    for pgn, g in grp.items():
        if len(g) < 2:
            continue
        some = [{"pgn": pgn, "payload": _apply_match(d, 0).to_bytes(_nbytes(d), "little").hex()} for d in g]
        for a, b in list(zip(some, some[1:]))[:ctx.n(3, 40)]:
            emit(_check_pair(a, b))
            emit(_check_pair(b, a))
    return out


def replay(ctx, data):
    w = data.get("witness", data)
    if w.get("kind") != "pair":
        return True
    r = _check_pair(w["a"], w["b"])
    print("observed:", r["what"] if r else "property holds on this input")
    return r is not None
